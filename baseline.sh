#!/bin/bash
# baseline.sh [repo]: runs the pinned baseline (go test -json ./...) and checks the 42 stable tests pass.
R="${1:-/repo}"
export GOFLAGS=-mod=mod GOPROXY=off GOSUMDB=off GOTOOLCHAIN=local
cd "$R" && go test -mod=mod -json -vet=off -count=1 -timeout 25m ./... 2>/dev/null | python3 -c '
import sys,json
base=set(json.load(open("/root/.vp/BASELINE.json"))["stable_pass"])
ok=set()
for l in sys.stdin:
    try: e=json.loads(l)
    except: continue
    if e.get("Action")=="pass" and e.get("Test"): ok.add(e["Package"]+"::"+e["Test"])
miss=base-ok
print("baseline: %d/%d stable tests pass"%(len(base&ok),len(base)))
for m in sorted(miss): print("  MISSING",m)
sys.exit(1 if miss else 0)'
