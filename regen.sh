#!/bin/bash
# regen.sh <repo-copy>: re-runs the project's generators in place on a scratch copy
# (genny for the 6 templates, ow-specgen for every file with an OW-SPEC block).
set -eu
R="$(cd "$1" && pwd)"
export GOFLAGS=-mod=mod GOPROXY=off GOSUMDB=off GOTOOLCHAIN=local CGO_ENABLED=1
unset GOWORK
BIN="$(mktemp -d /tmp/owgenbin.XXXXXX)"
trap 'rm -rf "$BIN"' EXIT
(cd "$R" && go build -o "$BIN/genny" github.com/joelrahman/genny && go build -o "$BIN/ow-specgen" ./pre/ow-specgen)
export PATH="$BIN:$PATH"
(cd "$R" && go generate ./data/... ./io/ ./util/m/ >/dev/null)
cd "$R"
for f in $(grep -l 'OW-SPEC' $(find ./models -name '*.go' ! -name 'generated_*' | sort)); do
  ow-specgen "$f" >/dev/null
done
