#!/bin/bash
# seedcheck.sh <seed-dir> : (authoring time) confirm a sub-agent's seeded change in the scratch worktree /tmp/ows,
# then apply it to /repo, run every quick check, and undo it straight afterwards.
set -u
S="$1"   # e.g. /tmp/seed-C13/_seed
export GOFLAGS=-mod=mod GOPROXY=off GOSUMDB=off GOTOOLCHAIN=local
mkdir -p /tmp/seedverif && cp /verif/known-findings.json /tmp/seedverif/
W=/tmp/ows
git -C $W checkout -q -- . ; git -C $W clean -fdq
prop=$(python3 -c "import json;print(json.load(open('$S/meta.json'))['property'])")
demo_cmd=$(python3 -c "import json;print(json.load(open('$S/meta.json'))['demo_cmd'])")
echo "== $prop :: $demo_cmd"
# place demo files
for f in $S/*_test.go $S/zz_seed_shim.go; do [ -f "$f" ] || continue
  d=$(grep -l . $S/demo.txt >/dev/null; python3 - "$S" "$f" <<'PY'
import sys,os,re,json
S,f=sys.argv[1],sys.argv[2]
# find original location of the demo in the agent's worktree
root=os.path.dirname(S)
name=os.path.basename(f)
for dp,dn,fn in os.walk(root):
    if '_seed' in dp or '.git' in dp: continue
    if name in fn:
        print(os.path.relpath(dp,root)); break
PY
)
  mkdir -p $W/$d && cp $f $W/$d/
  echo "   demo $(basename $f) -> $d"
done
cd $W
echo "-- demo WITHOUT change (expect pass)"; (eval "$demo_cmd") 2>&1 | tail -3
git apply $S/patch.diff || { echo "PATCH DOES NOT APPLY"; exit 1; }
echo "-- demo WITH change (expect fail)"; (eval "$demo_cmd") 2>&1 | grep -v '^\s' | tail -4
# baseline with change (remove demo first)
find . -name 'zz_seed*' -delete
echo "-- baseline with change"; /verif/baseline.sh $W | tail -2
git checkout -q -- . ; git clean -fdq
# now the checks against /repo
git -C /repo apply $S/patch.diff || { echo "PATCH DOES NOT APPLY TO /repo"; exit 1; }
for id in C01 C02 C03 C04 C05 C06 C07 C08 C09 C10 C11 C12 C13 C14 C16 C17 C18 C19 C20; do
  out=$(/verif/bin/owcheck -repo /repo -verif /tmp/seedverif -prop $id 2>&1); rc=$?
  if [ $rc -ne 0 ]; then echo "   CHECK $id FIRES:"; echo "$out" | grep -v '^VIOLATION\|^KNOWN' | grep -v ' quick: ' | head -4 | cut -c1-300; fi
done
git -C /repo checkout -- . ; git -C /repo clean -fdq; git -C /repo status --short | head -3
