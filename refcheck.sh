#!/bin/bash
# refcheck.sh <ref-dir>: apply a behaviour-preserving refactoring to /repo, run every quick check (all must stay silent), undo.
S="$1"
export GOFLAGS=-mod=mod GOPROXY=off GOSUMDB=off GOTOOLCHAIN=local
mkdir -p /tmp/seedverif && cp /verif/known-findings.json /tmp/seedverif/
git -C /repo apply $S/patch.diff || { echo "PATCH DOES NOT APPLY"; exit 1; }
python3 -c "import json;m=json.load(open('$S/meta.json'));print('==',m.get('area','')[:60],'::',m['summary'][:200])"
for id in C01 C02 C03 C04 C05 C06 C07 C08 C09 C10 C11 C12 C13 C14 C16 C17 C18 C19 C20; do
  out=$(/verif/bin/owcheck -repo /repo -verif /tmp/seedverif -prop $id 2>&1); rc=$?
  if [ $rc -ne 0 ]; then echo "   CHECK $id ALARMS:"; echo "$out" | grep -v '^VIOLATION\|^KNOWN' | grep -v ' quick: ' | head -5 | cut -c1-330; fi
done
git -C /repo checkout -- . ; git -C /repo clean -fdq; git -C /repo status --short | head -3
