package data

// Demonstration for the fix "compose strides of nested slices from OffsetStep" (C01/R01.1).
// Fails on aa98847, passes on 17de91d. Copy into /repo/data/ to run.

import "testing"

func TestProbeNestedStep(t *testing.T) {
	a := ARangeFloat64(100)
	s1 := a.Slice([]int{1}, []int{30}, []int{3})
	s2 := s1.Slice([]int{2}, []int{5}, []int{2})
	want := []float64{7, 13, 19, 25, 31}
	for i, w := range want {
		if got := s2.Get([]int{i}); got != w {
			t.Errorf("s2[%d] = %v, want %v", i, got, w)
		}
	}
}
