package cdata

import "testing"

func TestProbeReshapeColumn(t *testing.T) {
	arr := makefloat64CArrayForTest([]int{3, 4}) // 0..11 row-major
	col := arr.Slice([]int{0, 1}, []int{3, 1}, nil)
	flat, err := col.Reshape([]int{3})
	if err != nil {
		t.Fatal(err)
	}
	want := []float64{1, 5, 9}
	for i, w := range want {
		if got := flat.Get([]int{i}); got != w {
			t.Errorf("flat[%d] = %v, want %v", i, got, w)
		}
	}
	// a contiguous row still aliases the caller's buffer
	row := arr.Slice([]int{1, 0}, []int{1, 4}, nil)
	r1, _ := row.Reshape([]int{4})
	r1.Set([]int{2}, 99)
	if got := arr.Get([]int{1, 2}); got != 99 {
		t.Errorf("write through reshaped contiguous row not visible: %v", got)
	}
}
