package cdata

import (
	"testing"

	"github.com/flowmatters/openwater-core/data"
)

// Known finding (C03/R02.1c): the contiguous fast path of the whole-array helpers writes through
// dest.Unroll(); a C-backed array's Unroll always copies, so a C-backed destination is left unchanged.
func TestProbeAddToCArray(t *testing.T) {
	dest := makefloat64CArrayForTest([]int{2, 3}) // 0..5
	src := data.ARangeFloat64(6).MustReshape([]int{2, 3})
	data.AddToFloat64Array(dest, src)
	if got := dest.Get([]int{1, 2}); got != 10 {
		t.Errorf("C-backed dest[1,2] = %v after AddTo, want 10", got)
	}
	goDest := data.ARangeFloat64(6).MustReshape([]int{2, 3})
	data.AddToFloat64Array(goDest, src)
	if got := goDest.Get([]int{1, 2}); got != 10 {
		t.Errorf("Go-backed dest[1,2] = %v after AddTo, want 10", got)
	}
}
