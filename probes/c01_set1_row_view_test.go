package data

// Demonstration for the fix "Set1 addresses the element Get1 reads" (C01/R01.7).
// Get1(k) on a view with more than one axis reads along the first axis longer than 1 (so a 1×N row view can be
// used as a series); Set1(k, v) always indexed axis 0. Through a 1×N row view of a larger array Set1 therefore
// wrote k rows further down — outside the view — or ran past the end of the storage.
// Copy into /repo/data/ to run. Fails before the fix, passes after it.

import "testing"

func TestProbeSet1OnRowView(t *testing.T) {
	a := NewArray2DFloat64(4, 5)
	for i := 0; i < 4; i++ {
		for j := 0; j < 5; j++ {
			a.Set2(i, j, float64(10*i+j))
		}
	}
	row := a.Slice([]int{1, 0}, []int{1, 5}, nil) // the 1×5 view of row 1
	func() {
		defer func() {
			if r := recover(); r != nil {
				t.Errorf("Set1 through the row view panicked: %v", r)
			}
		}()
		row.(ND1Float64).Set1(2, 99)
	}()
	if got := row.(ND1Float64).Get1(2); got != 99 {
		t.Errorf("row.Set1(2, 99) then row.Get1(2) = %v", got)
	}
	for i := 0; i < 4; i++ {
		for j := 0; j < 5; j++ {
			want := float64(10*i + j)
			if i == 1 && j == 2 {
				want = 99
			}
			if got := a.Get2(i, j); got != want {
				t.Errorf("a[%d,%d] = %v, want %v (a write through the view of row 1 touched another element)", i, j, got, want)
			}
		}
	}
	// Apply1 is built on Set1
	b := NewArray2DFloat64(3, 4)
	r0 := b.Slice([]int{0, 0}, []int{1, 4}, nil)
	r0.(ND1Float64).Apply1(1, 1, []float64{7, 8})
	if b.Get2(0, 1) != 7 || b.Get2(0, 2) != 8 || b.Get2(1, 0) != 0 || b.Get2(2, 0) != 0 {
		t.Errorf("Apply1 through a row view wrote %v %v / %v %v", b.Get2(0, 1), b.Get2(0, 2), b.Get2(1, 0), b.Get2(2, 0))
	}
}
