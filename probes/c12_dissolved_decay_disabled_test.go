package storage

import (
	"testing"

	"github.com/flowmatters/openwater-core/data"
)

// C12/R12.1: with decay disabled the dissolved-constituent storage model delegates to
// LumpedConstituentTransport passing nil lateral loads; that must not panic, and mass must balance.
func TestProbeDissolvedDecayDisabled(t *testing.T) {
	n := 5
	mk := func(v float64) data.ND1Float64 {
		a := data.NewArray1DFloat64(n)
		for i := 0; i < n; i++ {
			a.Set1(i, v)
		}
		return a
	}
	inflowMass, storageInflow, storageOutflow, storageVolume := mk(2), mk(1), mk(1), mk(1000)
	decayed, outflowMass := mk(0), mk(0)
	deltaT := 86400.0
	stored := storageDissolvedDecay(inflowMass, storageInflow, storageOutflow, storageVolume, 0,
		deltaT, 0 /* doStorageDecay */, 1, 10, 0, decayed, outflowMass)
	in, out := 0.0, 0.0
	for i := 0; i < n; i++ {
		in += inflowMass.Get1(i) * deltaT
		out += outflowMass.Get1(i) * deltaT
	}
	if d := in - out - stored; d > 1e-6*in || d < -1e-6*in {
		t.Errorf("mass in %v != mass out %v + stored %v", in, out, stored)
	}
}
