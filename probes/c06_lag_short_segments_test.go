package routing

// Demonstration for the fix "refill the lag buffer behind the kept values" (C06/R06.7, also C11's lag clause).
// When a call is shorter than the lag, lag() shifts the kept part of the buffer to the front and appends the new
// inflows — but it appended them at index n+i instead of lagSteps-n+i: a panic for n < lag < 2n, and wrong slots
// (a gap, stale values behind it) for lag > 2n. Only lag == 2n worked.
// Copy into /repo/models/routing/ to run. Fails before the fix, passes after it.

import (
	"testing"

	"github.com/flowmatters/openwater-core/data"
)

func lagRun(t *testing.T, lagged []float64, timeLag float64, in []float64) (out []float64, panicked interface{}) {
	defer func() { panicked = recover() }()
	n := len(in)
	inflow := data.NewArray1DFloat64(n)
	outflow := data.NewArray1DFloat64(n)
	for i, v := range in {
		inflow.Set1(i, v)
	}
	lag(inflow, lagged, timeLag, outflow)
	out = make([]float64, n)
	for i := range out {
		out[i] = outflow.Get1(i)
	}
	return out, nil
}

func TestProbeLagSegmentsShorterThanLag(t *testing.T) {
	series := make([]float64, 24)
	for i := range series {
		series[i] = float64(i + 1)
	}
	for _, tc := range []struct {
		lag float64
		seg int
	}{{3, 2}, {5, 2}, {5, 1}, {7, 3}, {4, 2}, {6, 24}} {
		whole, p := lagRun(t, make([]float64, int(tc.lag)), tc.lag, series)
		if p != nil {
			t.Fatalf("unsplit run panicked: %v", p)
		}
		buf := make([]float64, int(tc.lag))
		var split []float64
		failed := false
		for s := 0; s < len(series); s += tc.seg {
			e := s + tc.seg
			if e > len(series) {
				e = len(series)
			}
			o, p := lagRun(t, buf, tc.lag, series[s:e])
			if p != nil {
				t.Errorf("lag=%v, segments of %d: segment starting at %d panicked: %v", tc.lag, tc.seg, s, p)
				failed = true
				break
			}
			split = append(split, o...)
		}
		if failed {
			continue
		}
		for i := range whole {
			if whole[i] != split[i] {
				t.Errorf("lag=%v, segments of %d: outflow[%d] = %v split, %v unsplit", tc.lag, tc.seg, i, split[i], whole[i])
				break
			}
		}
	}
}
