package routing

import (
	"math"
	"testing"

	"github.com/flowmatters/openwater-core/data"
)

// C11/R11.2: Muskingum must route ALL water entering the reach (upstream and lateral):
// the outflow volume of a finite event equals inflow + lateral volume, and a steady
// upstream flow I with a steady lateral L settles at I + L.
func TestProbeMuskingumLateralVolume(t *testing.T) {
	n := 400
	mk := func(f func(i int) float64) data.ND1Float64 {
		a := data.NewArray1DFloat64(n)
		for i := 0; i < n; i++ {
			a.Set1(i, f(i))
		}
		return a
	}
	// finite event: upstream pulse and lateral pulse, zero afterwards
	inflow := mk(func(i int) float64 {
		if i >= 5 && i < 15 {
			return 10
		}
		return 0
	})
	lateral := mk(func(i int) float64 {
		if i >= 8 && i < 20 {
			return 4
		}
		return 0
	})
	out := mk(func(i int) float64 { return 0 })
	k, x, dt := 86400.0*1.5, 0.2, 86400.0
	muskingum(inflow, lateral, 0, 0, 0, k, x, dt, out)
	vin, vout := 0.0, 0.0
	for i := 0; i < n; i++ {
		vin += inflow.Get1(i) + lateral.Get1(i)
		vout += out.Get1(i)
	}
	if math.Abs(vin-vout) > 1e-6*vin {
		t.Errorf("event volume in (upstream+lateral) = %v, volume out = %v", vin, vout)
	}
	// steady state
	si := mk(func(i int) float64 { return 10 })
	sl := mk(func(i int) float64 { return 2 })
	so := mk(func(i int) float64 { return 0 })
	muskingum(si, sl, 0, 10, 12, k, x, dt, so)
	if got := so.Get1(n - 1); math.Abs(got-12) > 1e-6 {
		t.Errorf("steady upstream 10 + lateral 2 settles at %v, want 12", got)
	}
}
