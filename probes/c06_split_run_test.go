package models

import (
	"math"
	"testing"

	"github.com/flowmatters/openwater-core/data"
	"github.com/flowmatters/openwater-core/sim"
)

// runSplit runs model `name` over the whole series and in two consecutive segments carrying the
// returned states forward, and reports the largest output/state difference.
func runSplit(t *testing.T, name string, params []float64, inputs [][]float64, split int, tol float64) {
	mk := func() sim.TimeSteppingModel {
		m := sim.Catalog[name]()
		p := data.NewArray2DFloat64(len(params), 1)
		for i, v := range params {
			p.Set2(i, 0, v)
		}
		dims := m.FindDimensions(p)
		if len(dims) > 0 {
			m.InitialiseDimensions(dims)
		}
		m.ApplyParameters(p)
		return m
	}
	n := len(inputs[0])
	mkIn := func(from, to int) data.ND3Float64 {
		a := data.NewArray3DFloat64(1, len(inputs), to-from)
		for i := range inputs {
			for tt := from; tt < to; tt++ {
				a.Set3(0, i, tt-from, inputs[i][tt])
			}
		}
		return a
	}
	m := mk()
	nOut := len(m.Description().Outputs)
	sFull := m.InitialiseStates(1)
	oFull := data.NewArray3DFloat64(1, nOut, n)
	m.Run(mkIn(0, n), sFull, oFull)

	m2 := mk()
	s := m2.InitialiseStates(1)
	o1 := data.NewArray3DFloat64(1, nOut, split)
	m2.Run(mkIn(0, split), s, o1)
	o2 := data.NewArray3DFloat64(1, nOut, n-split)
	m2.Run(mkIn(split, n), s, o2)

	for k := 0; k < nOut; k++ {
		for tt := 0; tt < n; tt++ {
			var got float64
			if tt < split {
				got = o1.Get3(0, k, tt)
			} else {
				got = o2.Get3(0, k, tt-split)
			}
			want := oFull.Get3(0, k, tt)
			if math.Abs(got-want) > tol*(1+math.Abs(want)) {
				t.Errorf("%s output %d step %d: split run %v, full run %v", name, k, tt, got, want)
				return
			}
		}
	}
	for k := 0; k < s.Len(1); k++ {
		if math.Abs(s.Get2(0, k)-sFull.Get2(0, k)) > tol*(1+math.Abs(sFull.Get2(0, k))) {
			t.Errorf("%s final state %d: split run %v, full run %v", name, k, s.Get2(0, k), sFull.Get2(0, k))
		}
	}
}

func series(n int, f func(i int) float64) []float64 {
	out := make([]float64, n)
	for i := range out {
		out[i] = f(i)
	}
	return out
}

func TestProbeSplitGR4J(t *testing.T) {
	rain := series(30, func(i int) float64 { return float64((i*7)%13) * 3 })
	pet := series(30, func(i int) float64 { return 2 + float64(i%3) })
	runSplit(t, "GR4J", []float64{350, 0.5, 90, 1.7}, [][]float64{rain, pet}, 11, 1e-9)
}

func TestProbeSplitLag(t *testing.T) {
	in := series(20, func(i int) float64 { return float64(i + 1) })
	runSplit(t, "Lag", []float64{3}, [][]float64{in}, 8, 1e-12)
}

func TestProbeSplitStorageRouting(t *testing.T) {
	in := series(20, func(i int) float64 { return 5 + 4*math.Sin(float64(i)/3) })
	zero := series(20, func(i int) float64 { return 0 })
	// InflowBias, RoutingConstant, RoutingPower, area, deadStorage, DeltaT
	runSplit(t, "StorageRouting", []float64{0, 86400 * 2, 1, 0, 0, 86400}, [][]float64{in, zero, zero, zero}, 7, 1e-2)
}

// Known findings (C06/R06.1), not repaired: they need new state variables (spec/API change).
func TestProbeSplitSacramentoKnown(t *testing.T) {
	rain := series(30, func(i int) float64 { return float64((i*7)%13) * 4 })
	pet := series(30, func(i int) float64 { return 2 + float64(i%3) })
	p := []float64{0.01, 0.05, 0.3, 50, 40, 130, 25, 60, 0.06, 1.0, 40, 0, 0, 0.01, 0, 0, 0.3, 0.5, 0.2, 0.15, 0.1, 0.05}
	runSplit(t, "Sacramento", p, [][]float64{rain, pet}, 11, 1e-9)
}

func TestProbeSplitDissolvedNutrientKnown(t *testing.T) {
	n := 20
	up := series(n, func(i int) float64 { return 10 + float64(i%4) })
	lat := series(n, func(i int) float64 { return 1 })
	vol := series(n, func(i int) float64 { return 1000 + 400*math.Sin(float64(i)) })
	out := series(n, func(i int) float64 { return 3 + float64(i%5) })
	fp := series(n, func(i int) float64 { return 0 })
	// doDecay, pointSourceLoad, linkHeight, linkWidth, linkLength, uptakeVelocity, durationInSeconds
	runSplit(t, "InstreamDissolvedNutrientDecay", []float64{1, 0, 2, 10, 1000, 0.5, 86400}, [][]float64{up, lat, vol, out, fp}, 7, 1e-9)
}
