package models

// Demonstration for the fix "reject input series of unequal length" (C17/R17.9).
// The JSON runner sized the input array from the first series found and copied later ones in unchecked:
// a longer later series on the last row panicked after the result document had been written (two outcomes for one
// request), on another row it spilled into the next input, and a shorter one was zero-padded without a word.
// Copy into /repo/models/ to run. Fails before the fix, passes after it.

import (
	"bytes"
	"encoding/json"
	"strings"
	"testing"

	"github.com/flowmatters/openwater-core/sim"
)

func runJSON(t *testing.T, req string) (doc map[string]interface{}, ndocs int, panicked interface{}) {
	defer func() { panicked = recover() }()
	var out bytes.Buffer
	sim.RunSingleModelJSON(strings.NewReader(req), &out, false)
	dec := json.NewDecoder(&out)
	for {
		var d map[string]interface{}
		if err := dec.Decode(&d); err != nil {
			break
		}
		if doc == nil {
			doc = d
		}
		ndocs++
	}
	return
}

func TestProbeUnequalLengthInputs(t *testing.T) {
	for _, req := range []string{
		`{"Name":"Sum","Inputs":[{"Name":"i1","Values":[1,2]},{"Name":"i2","Values":[10,20,30]}]}`,
		`{"Name":"Sum","Inputs":[{"Name":"i1","Values":[1,2,3]},{"Name":"i2","Values":[10,20]}]}`,
		`{"Name":"EmcDwc","Inputs":[{"Name":"quickflow","Values":[1,2,3]},{"Name":"baseflow","Values":[1,2]}]}`,
	} {
		doc, n, p := runJSON(t, req)
		if p != nil {
			t.Errorf("%s: the runner panicked: %v", req, p)
			continue
		}
		if n != 1 {
			t.Errorf("%s: %d documents written, want exactly 1", req, n)
			continue
		}
		log := strings.ToLower(toString(doc["Log"]) + toString(doc["log"]))
		if !strings.Contains(log, "length") && !strings.Contains(log, "values") {
			t.Errorf("%s: inputs of unequal length were accepted without a problem report: %v", req, doc)
		}
		for k, v := range doc {
			if strings.EqualFold(k, "Outputs") && v != nil {
				t.Errorf("%s: results were produced from inputs of unequal length: %v", req, v)
			}
		}
	}
}

func toString(v interface{}) string {
	b, _ := json.Marshal(v)
	return string(b)
}
