package models

import (
	"bytes"
	"encoding/json"
	"strings"
	"testing"

	"github.com/flowmatters/openwater-core/sim"
)

// C17/R17.2: a request without inputs must be answered with exactly one JSON document and no crash.
func TestProbeJSONNoInputs(t *testing.T) {
	var out bytes.Buffer
	func() {
		defer func() {
			if e := recover(); e != nil {
				t.Errorf("runner panicked: %v", e)
			}
		}()
		sim.RunSingleModelJSON(strings.NewReader(`{"Name":"RunoffCoefficient"}`), &out, true)
	}()
	dec := json.NewDecoder(&out)
	var doc map[string]interface{}
	if err := dec.Decode(&doc); err != nil {
		t.Fatalf("no valid JSON document: %v", err)
	}
	if dec.More() {
		t.Errorf("more than one document written")
	}
	if logs, _ := doc["Log"].([]interface{}); len(logs) == 0 {
		t.Errorf("problem not described in the log: %v", doc)
	}
}
