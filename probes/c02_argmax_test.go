package data

import "testing"

func TestProbeArgmax(t *testing.T) {
	for _, c := range []struct {
		v    []int
		want int
	}{{[]int{1, 5, 2}, 1}, {[]int{1, 2, 7}, 2}, {[]int{9, 2, 7}, 0}, {[]int{3}, 0}} {
		if got := Argmax(c.v); got != c.want {
			t.Errorf("Argmax(%v) = %d, want %d", c.v, got, c.want)
		}
	}
}
