package routing

import (
	"testing"

	"github.com/flowmatters/openwater-core/data"
)

// C12/R12.3 (known finding): with bankFullFlow <= 1e-8 instreamFineSediment delegates to
// LumpedConstituentTransport passing only the upstream and lateral series; the reach-local supply
// (reachLocalMass, e.g. bank erosion) entering the reach in that branch is neither routed downstream,
// deposited nor stored. Copy into /repo/models/routing/ to run; fails on the current tree.
func TestProbeFineSedimentLumpedBranchDropsReachLocalMass(t *testing.T) {
	n := 5
	mk := func(v float64) data.ND1Float64 {
		a := data.NewArray1DFloat64(n)
		for i := 0; i < n; i++ {
			a.Set1(i, v)
		}
		return a
	}
	up, lat, local := mk(0), mk(0), mk(3) // 3 kg/s enters as reach-local supply only
	vol, outflow := mk(1000), mk(1)
	down, fp, dep, fpFrac, chFrac := mk(0), mk(0), mk(0), mk(0), mk(0)
	dt := 86400.0
	store, stored := instreamFineSediment(up, lat, local, vol, outflow, 0, 0,
		0 /* bankFullFlow */, 1e-5, 1e4, 10, 1000, 0.001, 2, 0.1, 1.5, 0.04, 1e-5, 1e-5, dt,
		down, fp, dep, fpFrac, chFrac)
	in, out := 0.0, 0.0
	for i := 0; i < n; i++ {
		in += (up.Get1(i) + lat.Get1(i) + local.Get1(i)) * dt
		out += (down.Get1(i) + fp.Get1(i)) * dt
	}
	if d := in - out - stored - store; d > 1e-6*in || d < -1e-6*in {
		t.Errorf("mass in %v != mass out %v + stored %v + channel store %v (missing %v)", in, out, stored, store, d)
	}
}
