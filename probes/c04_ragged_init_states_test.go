package models

// Demonstration for the fix "size the state array for the widest cell" (C04/R04.8).
// GR4J and Lag keep a per-cell buffer in the state vector whose length depends on a parameter
// (X4, timeLag). InitialiseStates(n) sized the shared array from cell 0, so a later cell with a longer
// buffer overran its row: a 2-cell run panicked although each cell alone runs.
// Copy into /repo/models/ to run. Fails before the fix, passes after it.

import (
	"testing"

	"github.com/flowmatters/openwater-core/data"
	"github.com/flowmatters/openwater-core/sim"
)

func probeRun(t *testing.T, model, sizing string, values []float64, nIn int) (out data.ND3Float64, final data.ND2Float64, panicked interface{}) {
	defer func() { panicked = recover() }()
	m := sim.Catalog[model]()
	d := m.Description()
	n := len(values)
	p := data.NewArray2DFloat64(len(d.Parameters), n)
	for i, pd := range d.Parameters {
		for c := 0; c < n; c++ {
			v := pd.Default
			switch pd.Name {
			case "X1":
				v = 350
			case "X2":
				v = 0.5
			case "X3":
				v = 90
			case sizing:
				v = values[c]
			}
			p.Set2(i, c, v)
		}
	}
	m.ApplyParameters(p)
	s := m.InitialiseStates(n)
	nT := 40
	in := data.NewArray3DFloat64(n, nIn, nT)
	for c := 0; c < n; c++ {
		for k := 0; k < nT; k++ {
			in.Set3(c, 0, k, float64((k*7)%13))
			if nIn > 1 {
				in.Set3(c, 1, k, 2.0)
			}
		}
	}
	out = data.NewArray3DFloat64(n, len(d.Outputs), nT)
	m.Run(in, s, out)
	return out, s, nil
}

func TestProbeRaggedInitStates(t *testing.T) {
	for _, tc := range []struct {
		model, sizing string
		nIn           int
		values        []float64
	}{
		{"GR4J", "X4", 2, []float64{1.2, 3.7}},
		{"GR4J", "X4", 2, []float64{3.7, 1.2}},
		{"Lag", "timeLag", 1, []float64{2, 6}},
		{"Lag", "timeLag", 1, []float64{6, 2}},
	} {
		both, _, p := probeRun(t, tc.model, tc.sizing, tc.values, tc.nIn)
		if p != nil {
			t.Errorf("%s %s=%v: the %d-cell run panicked: %v", tc.model, tc.sizing, tc.values, len(tc.values), p)
			continue
		}
		for c, v := range tc.values {
			alone, _, p := probeRun(t, tc.model, tc.sizing, []float64{v}, tc.nIn)
			if p != nil {
				t.Fatalf("%s %s=%v alone panicked: %v", tc.model, tc.sizing, v, p)
			}
			for k := 0; k < 40; k++ {
				if a, b := both.Get3(c, 0, k), alone.Get3(0, 0, k); a != b {
					t.Errorf("%s %s=%v: cell %d at t=%d gives %v in the %d-cell run, %v alone", tc.model, tc.sizing, tc.values, c, k, a, len(tc.values), b)
					break
				}
			}
		}
	}
}
