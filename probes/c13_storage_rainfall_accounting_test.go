package storage

import (
	"math"
	"testing"

	"github.com/flowmatters/openwater-core/data"
)

// C13/R13.1: 100 mm of rain on a 1 ha reservoir adds 1000 m^3 to the volume; the model must report
// the same amount as rainfall volume (m^3/s averaged over the step).
func TestProbeStorageRainfallAccounting(t *testing.T) {
	one := func(v float64) data.ND1Float64 { a := data.NewArray1DFloat64(1); a.Set1(0, v); return a }
	tbl := func(v ...float64) data.ND1Float64 {
		a := data.NewArray1DFloat64(len(v))
		for i, x := range v {
			a.Set1(i, x)
		}
		return a
	}
	deltaT := 86400.0
	volumeTS, outflowTS, rainVol, evapVol := one(0), one(0), one(0), one(0)
	vol, _, _ := storageWaterBalance(one(100), one(0), one(0), one(0), one(0), one(0),
		5000, 0, 0, deltaT, 2,
		tbl(0, 10), tbl(0, 100000), tbl(10000, 10000), tbl(0, 0), tbl(0, 0),
		volumeTS, outflowTS, rainVol, evapVol)
	if math.Abs(vol-6000) > 1e-6 {
		t.Fatalf("final volume %v, want 6000", vol)
	}
	if got := rainVol.Get1(0) * deltaT; math.Abs(got-1000) > 1e-6 {
		t.Errorf("reported rainfall volume %v m^3, volume increased by 1000 m^3", got)
	}
}
