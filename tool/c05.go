package main

// C05: race freedom. R05.1 goroutine confinement of every `go` statement in the
// module, R05.2 counted join, R05.3 covered by R05.1 for the ow-sim goroutines.

import (
	"fmt"
	"go/token"
	"go/types"
	"sort"
	"strings"

	"golang.org/x/tools/go/ssa"
)

func init() { register("C05", "other", checkC05) }

type goSite struct {
	fn  *ssa.Function // spawner
	g   *ssa.Go
	cl  *ssa.Function // target closure or function
	mc  *ssa.MakeClosure
	ord int
}

func goSites(p *Program) []goSite {
	var out []goSite
	for _, fn := range p.SrcFuncs() {
		ord := 0
		eachInstr(fn, func(_ *ssa.BasicBlock, _ int, ins ssa.Instruction) {
			g, ok := ins.(*ssa.Go)
			if !ok {
				return
			}
			ord++
			s := goSite{fn: fn, g: g, ord: ord}
			if mc, ok := g.Common().Value.(*ssa.MakeClosure); ok {
				s.mc = mc
				s.cl, _ = mc.Fn.(*ssa.Function)
			} else if f := g.Common().StaticCallee(); f != nil {
				s.cl = f
			}
			out = append(out, s)
		})
	}
	return out
}

// storesAfter: stores to cell `a` in the spawner that can execute after the go statement.
func storesAfter(a ssa.Value, g ssa.Instruction) []ssa.Instruction {
	var out []ssa.Instruction
	for _, r := range refs(a) {
		st, ok := r.(*ssa.Store)
		if !ok || st.Addr != a {
			continue
		}
		if canReach(g, st) {
			out = append(out, st)
		}
	}
	return out
}

func storesAfterIf(a ssa.Value, g ssa.Instruction) []ssa.Instruction {
	if g == nil {
		return nil
	}
	return storesAfter(a, g)
}

// closureStoresToFree: direct stores to the captured variable inside the closure (and nested closures).
func closureStoresToFree(cl *ssa.Function, fv *ssa.FreeVar, seen map[*ssa.Function]bool) ssa.Instruction {
	if seen[cl] {
		return nil
	}
	seen[cl] = true
	var found ssa.Instruction
	eachInstr(cl, func(_ *ssa.BasicBlock, _ int, ins ssa.Instruction) {
		if found != nil {
			return
		}
		switch x := ins.(type) {
		case *ssa.Store:
			if x.Addr == ssa.Value(fv) {
				found = ins
			}
		case *ssa.MakeClosure:
			inner, _ := x.Fn.(*ssa.Function)
			for j, b := range x.Bindings {
				if b == ssa.Value(fv) && inner != nil && j < len(inner.FreeVars) {
					if s := closureStoresToFree(inner, inner.FreeVars[j], seen); s != nil {
						found = s
					}
				}
			}
		}
	})
	return found
}

// fieldStoresThrough: stores to fields of the struct reached from loads of the captured cell.
func fieldStoresThrough(cl *ssa.Function, fv *ssa.FreeVar) ssa.Instruction {
	derived := map[ssa.Value]bool{}
	for changed := true; changed; {
		changed = false
		eachInstr(cl, func(_ *ssa.BasicBlock, _ int, ins ssa.Instruction) {
			v, ok := ins.(ssa.Value)
			if !ok || derived[v] {
				return
			}
			switch x := ins.(type) {
			case *ssa.UnOp:
				if x.Op == token.MUL && (x.X == ssa.Value(fv) || derived[x.X]) {
					if _, isPtr := x.Type().Underlying().(*types.Pointer); isPtr || x.X == ssa.Value(fv) {
						derived[v] = true
						changed = true
					}
				}
			case *ssa.FieldAddr:
				if derived[x.X] {
					derived[v] = true
					changed = true
				}
			}
		})
	}
	var found ssa.Instruction
	eachInstr(cl, func(_ *ssa.BasicBlock, _ int, ins ssa.Instruction) {
		if st, ok := ins.(*ssa.Store); ok && found == nil {
			if fa, ok := st.Addr.(*ssa.FieldAddr); ok && derived[fa.X] {
				found = ins
			}
		}
		if mu, ok := ins.(*ssa.MapUpdate); ok && found == nil {
			if derived[mu.Map] {
				found = ins
			}
		}
	})
	return found
}

func checkC05(p *Program, r *Report) {
	r.Rule("R05.1", "goroutine confinement for every go statement: each captured variable is read-only in the goroutine and not re-assigned by the spawner once the goroutine may run; captured index vectors are never written (effect summaries, incl. passing them as `loc` to Apply); captured arrays are written only through per-cell views (R04.2) or not at all; the receiver's fields and captured maps are not stored to")
	r.Rule("R05.2", "counted join: every path of the goroutine sends exactly once on the done channel (no send in a loop), and every return of the spawner is dominated by a receive loop on the same channel whose trip count is the number of goroutines started (same bound value, or a counter incremented in the block of the go statement)")
	r.Rule("R05.4", "no go statement is unaccounted for: each is either a counted-join goroutine (R05.2) or the ow-sim writer, whose token protocol is decided by C07")
	r.Assumptions = append(r.Assumptions,
		"not decided: non-interference of the ow-sim writer goroutine and the main loop on modelReference.Generations[·] (an index-and-time argument over tokens, see C07); a lockset rule there would be a permanent false alarm",
		"pointer arguments handed to distinct goroutines (runGeneration: one *modelGeneration per model name) are assumed to be distinct objects",
		"schedule independence is claimed as the consequence of R05.1–2 with R04.1–2 and R14 (no shared mutable location), not separately established")
	eff := ComputeEffects(p)
	models, _ := p.Registry()
	// the wrappers whose cells a go statement starts: one for a go statement in a wrapper's own Run, all of them for
	// a shared spawning helper
	wrappersOf := map[*ssa.Function][]*Model{}
	for _, m := range models {
		if m.GoClosure != nil {
			wrappersOf[m.GoClosure] = append(wrappersOf[m.GoClosure], m)
		}
	}
	// buffers aliasing the shared state array must not grow (cross-cell overlap through slice capacity)
	{
		sub := NewReport("C04", r.Tier)
		checkNoAppendOnShared(p, sub, models)
		r.Rule("R05.5", "cell goroutines cannot reach each other's rows through spare slice capacity: no append on slices aliasing the shared arrays (R04.6)")
		for _, f := range sub.Findings {
			r.Fail("R05.5", f.Key, f.Pos, f.Message)
		}
		if len(sub.Findings) == 0 {
			r.OK("R05.5", fmt.Sprintf("%d kernel functions: no append on aliased buffers", sub.PerRule["R04.6"][1]))
		}
	}
	// the arrays every cell goroutine reads (inputs, parameter views) are written by none of them
	{
		sub := NewReport("C04", r.Tier)
		nW := 0
		for _, m := range models {
			if !m.Vector || m.Run == nil || m.Closure == nil || m.KernelCall == nil {
				continue
			}
			nW++
			newWrapperCtx(p, sub, eff, m).checkNoInputParamMutation()
		}
		r.Rule("R05.7", "what all cells read, no cell writes: nothing reachable from a wrapper's cell goroutine (the kernel, its helpers, the data package's whole-array helpers) writes through Run's inputs or through a parameter view — those are shared by the cells whenever there are fewer input blocks or parameter sets than cells (R04.1 seen as a race)")
		for _, f := range sub.Findings {
			r.Fail("R05.7", f.Key, f.Pos, f.Message+" — concurrently running cells that share this block read it while it changes")
		}
		if len(sub.Findings) == 0 {
			r.OK("R05.7", fmt.Sprintf("%d wrappers: cell goroutines never write the shared inputs or parameter views", nW))
		}
		r.Floor("R05.7", "wrappers", nW, 41)
	}
	// reading an array never writes it: parameter arrays and input blocks are read by every cell goroutine at once
	{
		r.Rule("R05.8", "reads are pure: no method of an array type other than the mutators (Set*, Apply*, CopyFrom) writes through its receiver — not the elements, not the stride/shape metadata, not a scratch field (effect summaries over every concrete array type of both back-ends); a getter that writes is a race between the cells that share the array")
		nR := 0
		for _, at := range arrayTypes(p) {
			var names []string
			for n := range at.method {
				names = append(names, n)
			}
			sort.Strings(names)
			for _, n := range names {
				if strings.HasPrefix(n, "Set") || strings.HasPrefix(n, "Apply") || n == "CopyFrom" {
					continue
				}
				f := at.method[n]
				if f == nil || f.Blocks == nil {
					continue
				}
				nR++
				key := fmt.Sprintf("%s.%s.%s:pure-read", at.rel, at.named.Obj().Name(), n)
				if w := eff.Mutates(f, 0); w != nil {
					r.Fail("R05.8", key, p.Pos(w.site.Pos()), fmt.Sprintf("%s.%s writes through its receiver (%s): arrays are read concurrently by the cell goroutines (parameters, shared input blocks), so two cells reading race on it", at.named.Obj().Name(), n, w.what))
				} else {
					r.OK("R05.8", fmt.Sprintf("%s.%s.%s does not write its receiver", at.rel, at.named.Obj().Name(), n))
				}
			}
		}
		r.Floor("R05.8", "read methods of array types", nR, 100)
	}
	sites := goSites(p)
	// package-level state reachable from goroutine bodies
	{
		r.Rule("R05.6", "goroutines share no package-level mutable state: no function reachable from the body of any go statement writes a package-level variable")
		var roots []*ssa.Function
		for _, s := range sites {
			if s.cl != nil {
				roots = append(roots, s.cl)
			}
		}
		ws := globalWritesFrom(p, roots)
		seenW := map[string]bool{}
		for _, w := range ws {
			k := FuncKey(w.fn) + ":writes:" + w.g.Name()
			if seenW[k] {
				continue
			}
			seenW[k] = true
			r.Fail("R05.6", k, p.Pos(w.site.Pos()), fmt.Sprintf("package-level variable %s is written by %s, which runs inside cell/model goroutines: concurrent cells race on it and results depend on the schedule", w.g.Name(), FuncKey(w.fn)))
		}
		if len(ws) == 0 {
			r.OK("R05.6", fmt.Sprintf("%d goroutine bodies: no reachable write to a package-level variable", len(roots)))
		}
	}
	r.Floor("R05.1", "go statements", len(sites), 3)
	nCellGoroutines := 0
	for _, s := range sites {
		ms := wrappersOf[s.cl]
		key := fmt.Sprintf("%s:go#%d", FuncKey(s.fn), s.ord)
		if s.cl == nil {
			r.Undecided("R05.1", key, p.Pos(s.g.Pos()), "go statement with a dynamic target")
			continue
		}
		bad := false
		fail := func(sub, pos, msg string) {
			bad = true
			r.Fail("R05.1", key+":"+sub, pos, msg)
		}
		type capt struct {
			cl    *ssa.Function
			mc    *ssa.MakeClosure
			after ssa.Instruction // from here on a goroutine reading the captured variables may run
		}
		caps := []capt{}
		if s.mc != nil {
			caps = append(caps, capt{s.cl, s.mc, s.g})
		}
		for _, m := range ms {
			if m.ClosureMC != nil && m.Closure != s.cl {
				// the per-cell body the goroutine calls. When Run delegates the fan-out to a helper, the helper has joined
				// every goroutine before Run continues (R05.2 on the helper's own go statement), so nothing Run does
				// after the call can overlap with a cell
				var after ssa.Instruction
				if m.SpawnCall == nil {
					after = m.SpawnAt
				}
				caps = append(caps, capt{m.Closure, m.ClosureMC, after})
			}
		}
		for _, cp := range caps {
			scl, smc := cp.cl, cp.mc
			for j, b := range smc.Bindings {
				fv := scl.FreeVars[j]
				name := fv.Name()
				if st := closureStoresToFree(scl, fv, map[*ssa.Function]bool{}); st != nil {
					fail(name+":assigned-in-goroutine", p.Pos(st.Pos()), fmt.Sprintf("captured variable %s is assigned inside the goroutine while the spawner and sibling goroutines share it", name))
				}
				for _, st := range storesAfterIf(b, cp.after) {
					fail(name+":assigned-after-go", p.Pos(st.Pos()), fmt.Sprintf("captured variable %s is assigned by the spawner after a goroutine reading it may have started", name))
				}
				pt, ok := fv.Type().Underlying().(*types.Pointer)
				if !ok {
					continue
				}
				elem := pt.Elem()
				switch {
				case isSliceType(elem):
					if mw := eff.MutatesFree(scl, j); mw != nil {
						fail(name+":shared-vector-written", p.Pos(mw.site.Pos()), fmt.Sprintf("index vector %s is shared by all goroutines but written in the goroutine: %s", name, mw.what))
					}
					// spawner writes elements after go
					if a, ok := b.(*ssa.Alloc); ok {
						for _, ref := range refs(a) {
							ld, ok := ref.(*ssa.UnOp)
							if !ok {
								continue
							}
							for _, r2 := range refs(ld) {
								if ia, ok := r2.(*ssa.IndexAddr); ok {
									for _, r3 := range refs(ia) {
										if st, ok := r3.(*ssa.Store); ok && st.Addr == ssa.Value(ia) && cp.after != nil && canReach(cp.after, st) {
											fail(name+":element-written-after-go", p.Pos(st.Pos()), fmt.Sprintf("element of shared vector %s written by the spawner while goroutines read it", name))
										}
									}
								}
							}
						}
					}
				case types.IsInterface(elem) && isNDType(elem):
					if len(ms) > 0 {
						// writes judged by the per-cell footprint rule
						continue
					}
					if mw := eff.MutatesFree(scl, j); mw != nil {
						fail(name+":shared-array-written", p.Pos(mw.site.Pos()), fmt.Sprintf("array %s is shared with the spawner and written in the goroutine: %s", name, mw.what))
					}
				default:
					if _, isChan := elem.Underlying().(*types.Chan); isChan {
						continue
					}
					if st := fieldStoresThrough(scl, fv); st != nil {
						fail(name+":object-written", p.Pos(st.Pos()), fmt.Sprintf("object reached through captured variable %s is stored to in the goroutine", name))
					}
				}
			}
		}
		// wrapper goroutines: the per-cell footprint (shared arrays)
		for _, m := range ms {
			if m.KernelCall == nil {
				continue
			}
			nCellGoroutines++
			sub := NewReport("C04", r.Tier)
			w := newWrapperCtx(p, sub, eff, m)
			w.checkWriteFootprint()
			for _, f := range sub.Findings {
				if f.Rule == "R04.2" {
					fail("footprint:"+f.Key, f.Pos, "shared array written outside the goroutine's own cell: "+f.Message)
				}
			}
		}
		if !bad {
			nfree := 0
			if s.mc != nil {
				nfree = len(s.mc.Bindings)
			}
			r.OK("R05.1", fmt.Sprintf("%s → %s: %d captured variables confined", key, FuncKey(s.cl), nfree))
		}
		checkJoin(p, r, s, key)
	}
	r.Floor("R05.1", "wrappers whose cell goroutines are analysed", nCellGoroutines, 41)
	checkOwnCellIndex(p, r, models, "R05.9", false)
}

// checkOwnCellIndex (R05.9, and R04.9 with the bound clause): the index a cell's body works with is the spawn
// loop's counter; for C04 the loop also has to run over exactly the cells of the states array.
func checkOwnCellIndex(p *Program, r *Report, models []*Model, rule string, withBound bool) {
	if withBound {
		r.Rule(rule, "every cell is run, once: the index parameter of the per-cell body is bound, through the goroutine's argument (and through the spawning helper when Run delegates the fan-out), to the counter of the loop that starts the goroutines; that loop begins at 0, advances by 1 and ends at the cell extent of the states (or outputs) array Run was given")
	} else {
		r.Rule(rule, "every cell goroutine is given its own cell: the index parameter of the per-cell body is bound, through the goroutine's argument (and through the spawning helper when Run delegates the fan-out), to the counter of the loop that starts the goroutines, which begins at 0 and advances by 1 per goroutine — two goroutines never work on the same cell")
	}
	n := 0
	for _, m := range models {
		if !m.Vector || m.Run == nil || m.Closure == nil || m.GoInstr == nil {
			continue
		}
		n++
		key := m.RelPkg + "." + m.Name + ":own-cell"
		why := cellIndexBinding(m)
		if why == "" && withBound {
			why = cellLoopBound(p, m)
		}
		if why != "" {
			r.Fail(rule, key, p.Pos(m.GoInstr.Pos()), m.Name+": the cell goroutines are not each given their own cell index, or not every cell gets one: "+why+" — goroutines then write the same rows of states and outputs, or cells are never computed")
		} else {
			r.OK(rule, fmt.Sprintf("%s.%s: cell index = counter of the spawn loop in %s", m.RelPkg, m.Name, m.SpawnFn.Name()))
		}
	}
	r.Floor(rule, "wrappers", n, 41)
}

// cellLoopBound: the spawn loop's bound is the cell extent of Run's states (or outputs) argument.
func cellLoopBound(p *Program, m *Model) string {
	g := m.GoInstr
	l := innermostLoop(findLoops(g.Parent()), g.Block())
	if l == nil {
		return "the go statement is not in a loop"
	}
	_, _, hi, ok := countingLoop(l)
	if !ok {
		return "the loop that starts the goroutines is not a counting loop"
	}
	bound := origin1(hi)
	if m.SpawnCall != nil {
		k := -1
		for i, prm := range m.SpawnFn.Params {
			if ssa.Value(prm) == bound {
				k = i
			}
		}
		if k < 0 || k >= len(m.SpawnCall.Common().Args) {
			return "the bound of the spawning helper's loop is not one of its parameters"
		}
		bound = origin1(m.SpawnCall.Common().Args[k])
	}
	call, ok := bound.(*ssa.Call)
	if !ok || callName(call.Common()) != "Len" || recvOf(call.Common()) == nil || len(callArgs(call.Common())) != 1 {
		return "the number of goroutines started is not the cell extent of an array (" + bound.String() + ")"
	}
	recv := origin1(recvOf(call.Common()))
	dim, isConst := constInt(callArgs(call.Common())[0])
	for idx, cname := range map[int]string{2: "DIMS_CELL", 3: "DIMO_CELL"} {
		if idx < len(m.Run.Params) && recv == ssa.Value(m.Run.Params[idx]) {
			if want, ok := simConst(p, cname); ok && isConst && dim == want {
				return ""
			}
			return "the number of goroutines started is an extent of " + m.Run.Params[idx].Name() + ", but not its cell extent"
		}
	}
	return "the number of goroutines started is not taken from the states or outputs array"
}

func cellIndexBinding(m *Model) string {
	body := m.Closure
	if len(body.Params) != 1 {
		return fmt.Sprintf("the per-cell body takes %d parameters", len(body.Params))
	}
	g := m.GoInstr
	var goArg ssa.Value // the value the go statement passes for the index
	switch {
	case m.GoClosure == body:
		if len(g.Common().Args) != 1 {
			return "the go statement does not pass exactly one argument"
		}
		goArg = g.Common().Args[0]
	default:
		gcl := m.GoClosure
		if gcl == nil || len(gcl.Params) != 1 || len(g.Common().Args) != 1 {
			return "the goroutine's function does not take exactly the cell index"
		}
		// the goroutine calls the body with its own parameter
		found := false
		for _, c := range callsIn(gcl) {
			isBody := false
			if mc := closureValueOfCaptured(c.Common().Value); mc != nil && mc.Fn == ssa.Value(body) {
				isBody = true
			}
			if m.SpawnCall != nil && !c.Common().IsInvoke() && c.Common().StaticCallee() == nil {
				for k := range m.SpawnFn.Params {
					if isParamValue(c.Common().Value, m.SpawnFn, k) && k < len(m.SpawnCall.Common().Args) {
						if mc := closureValueOf(m.SpawnCall.Common().Args[k]); mc != nil && mc.Fn == ssa.Value(body) {
							isBody = true
						}
					}
				}
			}
			if !isBody {
				continue
			}
			found = true
			if len(c.Common().Args) != 1 || origin1(c.Common().Args[0]) != ssa.Value(gcl.Params[0]) {
				return "the goroutine calls the per-cell body with something other than its own argument"
			}
		}
		if !found {
			return "the call of the per-cell body inside the goroutine was not found"
		}
		goArg = g.Common().Args[0]
	}
	// the go statement's argument is the counter of the loop that contains it
	phi, ok := origin1(goArg).(*ssa.Phi)
	if !ok {
		return "the argument of the go statement is not a loop counter (" + goArg.String() + ")"
	}
	loops := findLoops(g.Parent())
	l := innermostLoop(loops, g.Block())
	if l == nil || phi.Block() != l.Header {
		return "the argument of the go statement is not the counter of the loop that starts the goroutines"
	}
	cphi, lo, _, ok := countingLoop(l)
	if !ok || cphi != phi {
		return "the loop that starts the goroutines is not a counting loop over its argument"
	}
	if c, ok := constInt(lo); !ok || c != 0 {
		return "the loop that starts the goroutines does not begin at 0"
	}
	return ""
}

// closureValueOfCaptured: like closureValueOf, also through a variable captured from the enclosing function.
func closureValueOfCaptured(v ssa.Value) *ssa.MakeClosure {
	if mc := closureValueOf(v); mc != nil {
		return mc
	}
	for _, o := range origins(v) {
		u, ok := o.(*ssa.UnOp)
		if !ok {
			continue
		}
		fv, ok := u.X.(*ssa.FreeVar)
		if !ok {
			continue
		}
		if a, ok := bindingOf(fv.Parent(), freeVarIndex(fv.Parent(), fv)).(*ssa.Alloc); ok {
			if sv := singleStoreCell(a); sv != nil {
				if mc, ok := sv.(*ssa.MakeClosure); ok {
					return mc
				}
			}
		}
	}
	return nil
}

// sendsOn: Send instructions in fn.
func sendsIn(fn *ssa.Function) []*ssa.Send {
	var out []*ssa.Send
	eachInstr(fn, func(_ *ssa.BasicBlock, _ int, ins ssa.Instruction) {
		if s, ok := ins.(*ssa.Send); ok {
			out = append(out, s)
		}
	})
	return out
}

func recvsIn(fn *ssa.Function) []*ssa.UnOp {
	var out []*ssa.UnOp
	eachInstr(fn, func(_ *ssa.BasicBlock, _ int, ins ssa.Instruction) {
		if u, ok := ins.(*ssa.UnOp); ok && u.Op == token.ARROW {
			out = append(out, u)
		}
	})
	return out
}

// chanCellOf: the captured cell (free var) or parent alloc a channel value is loaded from.
func chanCellOf(v ssa.Value) ssa.Value {
	if u, ok := v.(*ssa.UnOp); ok && u.Op == token.MUL {
		return u.X
	}
	if phi, ok := v.(*ssa.Phi); ok && len(phi.Edges) > 0 {
		return chanCellOf(phi.Edges[0])
	}
	return v
}

func checkJoin(p *Program, r *Report, s goSite, key string) {
	cl := s.cl
	sends := sendsIn(cl)
	recvs := recvsIn(cl)
	if len(recvs) > 0 && len(sends) > 0 {
		// token protocol (ow-sim writer): decided by C07
		r.OK("R05.4", fmt.Sprintf("%s: goroutine both receives and sends on channels (token hand-off) — join decided by C07 R07.1–4", key))
		return
	}
	if len(sends) == 0 {
		if why, isWG := waitGroupJoin(s); isWG {
			if why == "" {
				r.OK("R05.2", fmt.Sprintf("%s: joined through a sync.WaitGroup: Add before each go (or the loop bound before the loop), Done exactly once on every path of the goroutine, Wait before every return of the spawner", key))
			} else {
				r.Fail("R05.2", key+":waitgroup", p.Pos(s.g.Pos()), "the goroutine is joined through a sync.WaitGroup, but "+why)
			}
			return
		}
		r.Fail("R05.2", key+":no-send", p.Pos(s.g.Pos()), "goroutine never signals completion: the spawner cannot join it")
		return
	}
	// all sends on the same channel cell
	cell := chanCellOf(sends[0].Chan)
	for _, sd := range sends {
		if chanCellOf(sd.Chan) != cell {
			r.Undecided("R05.2", key+":channels", p.Pos(sd.Pos()), "goroutine sends on more than one channel")
			return
		}
	}
	loops := findLoops(cl)
	for _, sd := range sends {
		if innermostLoop(loops, sd.Block()) != nil {
			r.Fail("R05.2", key+":send-in-loop", p.Pos(sd.Pos()), "completion signal is sent inside a loop: the spawner's count no longer matches")
			return
		}
	}
	// every return preceded by a send: remove blocks containing a send; no return block reachable
	hasSend := map[*ssa.BasicBlock]bool{}
	for _, sd := range sends {
		hasSend[sd.Block()] = true
	}
	entry := cl.Blocks[0]
	for _, ret := range returnsOf(cl) {
		if hasSend[ret.Block()] {
			continue
		}
		// reachable from entry avoiding send blocks?
		reach := map[*ssa.BasicBlock]bool{}
		if !hasSend[entry] {
			reach = reachable(entry, func(from *ssa.BasicBlock, i int) bool { return hasSend[from.Succs[i]] })
		}
		if reach[ret.Block()] {
			r.Fail("R05.2", key+":return-without-send", p.Pos(ret.Pos()), "a path through the goroutine returns without signalling completion: the spawner blocks forever")
			return
		}
	}
	// at most one send per path: no send can reach another
	for _, a := range sends {
		for _, b := range sends {
			if a != b && canReach(a, b) {
				r.Fail("R05.2", key+":double-send", p.Pos(b.Pos()), "a path through the goroutine signals completion twice")
				return
			}
		}
	}
	// R05.10: the signal is the goroutine's last act. Anything it does after the send — a write-back of states, a
	// store, a call — can run after the spawner has counted it as finished and returned
	r.Rule("R05.10", "the completion signal is sent last: after the send on the done channel a goroutine executes no call, store or further send before it returns — otherwise the spawner can return (and its caller read or reuse the shared arrays) while the goroutine is still writing")
	for _, sd := range sends {
		var late ssa.Instruction
		seenB := map[*ssa.BasicBlock]bool{}
		var scan func(b *ssa.BasicBlock, from int)
		scan = func(b *ssa.BasicBlock, from int) {
			for i := from; i < len(b.Instrs) && late == nil; i++ {
				switch x := b.Instrs[i].(type) {
				case *ssa.Call, *ssa.Go, *ssa.Defer, *ssa.Send:
					late = x
				case *ssa.Store:
					late = x
				}
			}
			for _, sc := range b.Succs {
				if !seenB[sc] && late == nil {
					seenB[sc] = true
					scan(sc, 0)
				}
			}
		}
		idx := -1
		for i, ins := range sd.Block().Instrs {
			if ins == ssa.Instruction(sd) {
				idx = i
			}
		}
		scan(sd.Block(), idx+1)
		if late != nil {
			r.Fail("R05.10", key+":signal-not-last", p.Pos(late.Pos()), "the goroutine goes on working after it has signalled completion: the spawner may already have returned, so what is written here (the cell's final states) can land after the caller has read or reused the array")
		} else {
			r.OK("R05.10", fmt.Sprintf("%s: nothing follows the completion signal", key))
		}
	}
	// spawner side
	var parentCell ssa.Value
	if fv, ok := cell.(*ssa.FreeVar); ok && s.mc != nil {
		parentCell = s.mc.Bindings[freeVarIndex(cl, fv)]
	} else {
		parentCell = cell
	}
	sp := s.fn
	sloops := findLoops(sp)
	spawnLoop := innermostLoop(sloops, s.g.Block())
	var recvLoop *Loop
	var recvIns *ssa.UnOp
	// receives on the done channel: in the join loop, and possibly one inside the spawn loop (a limit on the number of
	// goroutines in flight: wait for one to finish before starting the next)
	var spawnRecvs []*ssa.UnOp
	nJoinRecvs := 0
	for _, rc := range recvsIn(sp) {
		if chanCellOf(rc.X) == parentCell {
			l := innermostLoop(sloops, rc.Block())
			if l != nil && spawnLoop != nil && (l.Header == spawnLoop.Header || l.Blocks[s.g.Block()]) {
				spawnRecvs = append(spawnRecvs, rc)
				continue
			}
			if l != nil {
				recvLoop = l
				recvIns = rc
				nJoinRecvs++
			} else if canReach(s.g, rc) {
				nJoinRecvs++ // a receive outside any loop also takes a completion
				recvIns = rc
			}
		}
	}
	if nJoinRecvs > 1 {
		r.Undecided("R05.2", key+":join-shape", p.Pos(recvIns.Pos()), "completions are received at more than one place after the spawn loop; counted join not recognised")
		return
	}
	if recvLoop == nil && len(spawnRecvs) > 0 {
		recvIns = spawnRecvs[0]
		r.Undecided("R05.2", key+":join-shape", p.Pos(recvIns.Pos()), "receive happens inside the spawn loop; counted join not recognised")
		return
	}
	if recvLoop == nil {
		r.Fail("R05.2", key+":no-join", p.Pos(s.g.Pos()), "spawner has no receive loop on the goroutines' done channel: it may return while goroutines still run")
		return
	}
	if spawnLoop == nil {
		r.Undecided("R05.2", key+":spawn-loop", p.Pos(s.g.Pos()), "go statement outside a loop but joined by a loop")
		return
	}
	if recvLoop == spawnLoop || recvLoop.Blocks[s.g.Block()] {
		r.Undecided("R05.2", key+":join-shape", p.Pos(recvIns.Pos()), "receive happens inside the spawn loop; counted join not recognised")
		return
	}
	// every return dominated by the receive loop header and outside the loop
	for _, ret := range returnsOf(sp) {
		if !recvLoop.Header.Dominates(ret.Block()) || recvLoop.Blocks[ret.Block()] {
			// returns before any goroutine was spawned are fine: not reachable from the go statement
			if canReach(s.g, ret) {
				r.Fail("R05.2", key+":return-bypasses-join", p.Pos(ret.Pos()), "spawner can return after starting goroutines without passing the receive loop")
				return
			}
		}
	}
	// the receive must execute on every iteration of its loop (dominates the latch)
	for _, b := range recvLoop.Header.Preds {
		if recvLoop.Blocks[b] && !recvIns.Block().Dominates(b) {
			r.Fail("R05.2", key+":conditional-receive", p.Pos(recvIns.Pos()), "the receive is skipped on some iterations of the join loop")
			return
		}
	}
	// the join loop is left only by its counting condition(s): the header's `k < B`, and at most one further
	// `k < K` of a compound condition (then it runs min(B, K) times)
	var joinCap ssa.Value
	for b := range recvLoop.Blocks {
		if b == recvLoop.Header {
			continue
		}
		for si, sc := range b.Succs {
			if recvLoop.Blocks[sc] {
				continue
			}
			iff, ok := b.Instrs[len(b.Instrs)-1].(*ssa.If)
			var bo *ssa.BinOp
			if ok {
				bo, _ = iff.Cond.(*ssa.BinOp)
			}
			hphi, _ := func() (*ssa.Phi, bool) {
				hi, ok := recvLoop.Header.Instrs[len(recvLoop.Header.Instrs)-1].(*ssa.If)
				if !ok {
					return nil, false
				}
				hb, ok := hi.Cond.(*ssa.BinOp)
				if !ok {
					return nil, false
				}
				ph, ok := hb.X.(*ssa.Phi)
				return ph, ok
			}()
			if bo == nil || bo.Op != token.LSS || si != 1 || hphi == nil || bo.X != ssa.Value(hphi) || joinCap != nil || instrDominates(recvIns, iff) {
				r.Undecided("R05.2", key+":join-exit", p.Pos(recvIns.Pos()), "the join loop can be left otherwise than by its counting condition: the number of completions received is not determined")
				return
			}
			joinCap = bo.Y
		}
	}
	// trip counts
	rb, rwhy := loopCount(recvLoop)
	if rb == nil && rwhy == "loop variable does not start at 0" {
		r.Fail("R05.2", key+":count-mismatch", p.Pos(recvIns.Pos()), "join loop does not start counting at 0: fewer receives than goroutines started")
		return
	}
	if rb == nil {
		r.Undecided("R05.2", key+":recv-bound", p.Pos(recvIns.Pos()), "join loop bound not recognised: "+rwhy)
		return
	}
	sb, _ := loopBound(spawnLoop)
	goEveryIter := true
	for _, b := range spawnLoop.Header.Preds {
		if spawnLoop.Blocks[b] && !s.g.Block().Dominates(b) {
			goEveryIter = false
		}
	}
	if len(spawnRecvs) > 0 || joinCap != nil {
		// in-flight limit: while spawning, one completion is taken before each start from the K-th on — (n−K)⁺ in all —
		// and min(n, K) after the loop: together n
		why := ""
		var skip ssa.Value
		plusOne := false
		switch {
		case sb == nil || !goEveryIter || !sameValue(sb, rb):
			why = "the join loop does not count up to the number of goroutines started"
		case len(spawnRecvs) != 1 || joinCap == nil:
			why = "a limit on the goroutines in flight needs exactly one receive inside the spawn loop and a join loop capped by the same limit"
		default:
			rc := spawnRecvs[0]
			sphi, _, _, okc := countingLoop(spawnLoop)
			if !okc || instrDominates(s.g, rc) {
				why = "the receive inside the spawn loop does not come before the go statement of a counting loop"
				break
			}
			for _, g := range guardsAt(rc.Block()) {
				bo, ok := g.Cond.(*ssa.BinOp)
				if !ok || bo.X != ssa.Value(sphi) || !spawnLoop.Blocks[rc.Block()] {
					continue
				}
				switch {
				case bo.Op == token.GEQ && g.Val, bo.Op == token.LSS && !g.Val:
					skip = bo.Y
				case bo.Op == token.GTR && g.Val, bo.Op == token.LEQ && !g.Val:
					skip, plusOne = bo.Y, true
				}
			}
			if skip == nil {
				why = "the receive inside the spawn loop is not guarded by a comparison of the spawn counter with the limit"
				break
			}
			ks, okS := constInt(skip)
			kc, okC := constInt(joinCap)
			switch {
			case okS && okC:
				if plusOne {
					ks++
				}
				if ks != kc {
					why = fmt.Sprintf("while spawning, a completion is taken before each start from index %d on, but the join loop takes min(n, %d): for n > %d one goroutine is never joined (or one receive too many blocks forever)", ks, kc, kc)
				}
			case !plusOne && sameValue(skip, joinCap):
			default:
				why = "the limit tested inside the spawn loop and the cap of the join loop are not provably the same number"
			}
		}
		if why == "" {
			r.OK("R05.2", fmt.Sprintf("%s: one send per path; in-flight limit: (n−K)⁺ completions taken while spawning + min(n, K) after = n", key))
		} else {
			r.Fail("R05.2", key+":count-mismatch", p.Pos(recvIns.Pos()), "number of receives does not provably equal the number of goroutines started: "+why)
		}
		return
	}
	if sb != nil && goEveryIter && sameValue(sb, rb) {
		r.OK("R05.2", fmt.Sprintf("%s: one send per path; spawner receives %s times = spawn loop bound", key, rb.Name()))
		return
	}
	// counter idiom: rb resolves to a header phi of the spawn loop with init 0, updated by +1 in the go's block
	if why := counterMatchesGo(rb, spawnLoop, s.g); why == "" {
		r.OK("R05.2", fmt.Sprintf("%s: one send per path; spawner receives `count` times, count++ in the block of the go statement", key))
		return
	} else {
		r.Fail("R05.2", key+":count-mismatch", p.Pos(recvIns.Pos()), "number of receives does not provably equal the number of goroutines started: "+why)
	}
}

// loopBound: for a loop `for k := 0; k < B; k++` returns B.
func loopBound(l *Loop) (ssa.Value, string) {
	h := l.Header
	iff, ok := h.Instrs[len(h.Instrs)-1].(*ssa.If)
	if !ok {
		return nil, "loop header does not end in a condition"
	}
	bo, ok := iff.Cond.(*ssa.BinOp)
	if !ok || bo.Op != token.LSS {
		return nil, "loop condition is not `k < bound`"
	}
	phi, ok := bo.X.(*ssa.Phi)
	if !ok || phi.Block() != h {
		return nil, "loop variable is not a header phi"
	}
	// init 0 and step +1
	for i, e := range phi.Edges {
		pred := h.Preds[i]
		if l.Blocks[pred] {
			inc, ok := e.(*ssa.BinOp)
			if !ok || inc.Op != token.ADD || inc.X != ssa.Value(phi) {
				return nil, "loop variable is not incremented by 1"
			}
			if c, ok := constInt(inc.Y); !ok || c != 1 {
				return nil, "loop variable is not incremented by 1"
			}
		} else {
			if c, ok := constInt(e); !ok || c != 0 {
				return nil, "loop variable does not start at 0"
			}
		}
	}
	// the true edge must enter the loop
	if !l.Blocks[h.Succs[0]] {
		return nil, "loop condition polarity"
	}
	return bo.Y, ""
}

func sameValue(a, b ssa.Value) bool {
	if a == b {
		return true
	}
	oa, ob := origins(a), origins(b)
	if len(oa) == 1 && len(ob) == 1 && oa[0] != nil && oa[0] == ob[0] {
		return true
	}
	// the same sub-slice expression of the same slice: x[lo:hi] twice
	if sa, ok := a.(*ssa.Slice); ok {
		if sb, ok := b.(*ssa.Slice); ok {
			same := func(x, y ssa.Value) bool {
				if x == nil || y == nil {
					return x == nil && y == nil
				}
				return sameValue(x, y)
			}
			if sameValue(sa.X, sb.X) && same(sa.Low, sb.Low) && same(sa.High, sb.High) && same(sa.Max, sb.Max) {
				return true
			}
		}
	}
	// the same constant
	if c1, ok := constInt(a); ok {
		if c2, ok := constInt(b); ok && c1 == c2 {
			return true
		}
	}
	// the same arithmetic on the same operands (len(shape)-1 computed twice)
	if ba, ok := a.(*ssa.BinOp); ok {
		if bb, ok := b.(*ssa.BinOp); ok && ba.Op == bb.Op && sameValue(ba.X, bb.X) && sameValue(ba.Y, bb.Y) {
			return true
		}
	}
	// len(x) of the same slice
	ca, ok1 := a.(*ssa.Call)
	cb, ok2 := b.(*ssa.Call)
	if ok1 && ok2 && callName(ca.Common()) == "len" && callName(cb.Common()) == "len" {
		return sameValue(ca.Common().Args[0], cb.Common().Args[0])
	}
	return false
}

// counterMatchesGo: v (at the join loop) is a counter that is 0 before the spawn loop and incremented by
// exactly 1 in the block containing the go statement (hence once per goroutine started).
func counterMatchesGo(v ssa.Value, spawn *Loop, g *ssa.Go) string {
	// v may be a phi at the spawn loop header (value after the loop) or a load of a cell
	phi, ok := v.(*ssa.Phi)
	if !ok {
		return "bound is neither the spawn loop's bound nor a counter"
	}
	if phi.Block() != spawn.Header {
		return "counter is not carried by the spawn loop"
	}
	// every in-loop incoming value: either phi itself (unchanged) or phi+1 defined in go's block, possibly via inner phis
	var check func(e ssa.Value, seen map[ssa.Value]bool) string
	check = func(e ssa.Value, seen map[ssa.Value]bool) string {
		if seen[e] {
			return ""
		}
		seen[e] = true
		if e == ssa.Value(phi) {
			return ""
		}
		switch x := e.(type) {
		case *ssa.BinOp:
			if x.Op == token.ADD && x.X == ssa.Value(phi) {
				if c, ok := constInt(x.Y); ok && c == 1 {
					if x.Block() == g.Block() {
						return ""
					}
					return "counter is incremented in a different block than the go statement"
				}
			}
			return "counter update is not +1"
		case *ssa.Phi:
			for _, ee := range x.Edges {
				if w := check(ee, seen); w != "" {
					return w
				}
			}
			return ""
		}
		return "counter update not recognised"
	}
	inc := false
	for i, e := range phi.Edges {
		pred := spawn.Header.Preds[i]
		if spawn.Blocks[pred] {
			if w := check(e, map[ssa.Value]bool{}); w != "" {
				return w
			}
			inc = true
		} else {
			if c, ok := constInt(e); !ok || c != 0 {
				return "counter does not start at 0"
			}
		}
	}
	if !inc {
		return "counter never incremented"
	}
	// the go's block must contain the increment (checked), and the go executes at most once per iteration: its block is not in an inner loop
	if l := innermostLoop(findLoops(g.Parent()), g.Block()); l != spawn && l != nil && l.Header != spawn.Header {
		return "go statement is in an inner loop"
	}
	_ = strings.Contains
	return ""
}

// waitGroupJoin: the counted join expressed with a sync.WaitGroup. isWG reports whether the goroutine calls Done on
// a WaitGroup at all; why is empty when the idiom is complete: Done once on every path (deferred in the entry block,
// or one call that dominates every return and is not in a loop), Add(1) on the same WaitGroup before the go statement
// in the same iteration — or Add(bound of the spawn loop) before the loop —, and Wait on it dominating every return of
// the spawner, outside the spawn loop.
func waitGroupJoin(s goSite) (why string, isWG bool) {
	isWGMethod := func(c *ssa.CallCommon, name string) bool {
		f := c.StaticCallee()
		return f != nil && f.Name() == name && fnPkg(f) != nil && fnPkg(f).Path() == "sync" && f.Signature.Recv() != nil && strings.Contains(f.Signature.Recv().Type().String(), "WaitGroup")
	}
	// the WaitGroup a value denotes, in the spawner's terms
	inSpawner := func(v ssa.Value) ssa.Value {
		v = stripConv(v)
		if fv, ok := v.(*ssa.FreeVar); ok && s.mc != nil {
			if j := freeVarIndex(s.cl, fv); j >= 0 && j < len(s.mc.Bindings) {
				return stripConv(s.mc.Bindings[j])
			}
		}
		if prm, ok := v.(*ssa.Parameter); ok && prm.Parent() == s.cl {
			for i, fp := range s.cl.Params {
				if fp == prm && i < len(s.g.Common().Args) {
					return stripConv(s.g.Common().Args[i])
				}
			}
		}
		return v
	}
	var doneObj ssa.Value
	nDone := 0
	loops := findLoops(s.cl)
	rets := returnsOf(s.cl)
	bad := ""
	eachInstr(s.cl, func(b *ssa.BasicBlock, _ int, ins ssa.Instruction) {
		switch x := ins.(type) {
		case *ssa.Defer:
			if isWGMethod(x.Common(), "Done") {
				nDone++
				doneObj = inSpawner(x.Common().Args[0])
				if b != s.cl.Blocks[0] {
					bad = "Done is deferred on some paths only"
				}
			}
		case *ssa.Call:
			if isWGMethod(x.Common(), "Done") {
				nDone++
				doneObj = inSpawner(x.Common().Args[0])
				if innermostLoop(loops, b) != nil {
					bad = "Done is called inside a loop of the goroutine: the count no longer matches"
				}
				for _, ret := range rets {
					if !instrDominates(x, ret) {
						bad = "a path through the goroutine returns without calling Done: Wait blocks forever"
					}
				}
			}
		}
	})
	if nDone == 0 {
		return "", false
	}
	if nDone > 1 {
		return "Done is called at more than one place in the goroutine", true
	}
	if bad != "" {
		return bad, true
	}
	sp := s.fn
	sloops := findLoops(sp)
	spawn := innermostLoop(sloops, s.g.Block())
	added, waited := false, false
	var waits []*ssa.Call
	for _, c := range callsIn(sp) {
		call, ok := c.(*ssa.Call)
		if !ok {
			continue
		}
		switch {
		case isWGMethod(c.Common(), "Add") && stripConv(c.Common().Args[0]) == doneObj:
			n := c.Common().Args[1]
			if k, ok := constInt(n); ok && k == 1 && instrDominates(call, s.g) && (spawn == nil || spawn.Blocks[call.Block()]) {
				added = true
			}
			if spawn != nil && !spawn.Blocks[call.Block()] && call.Block().Dominates(spawn.Header) {
				if _, _, hi, ok := countingLoop(spawn); ok && origin1(n) == origin1(hi) {
					added = true
				}
			}
		case isWGMethod(c.Common(), "Wait") && stripConv(c.Common().Args[0]) == doneObj:
			if spawn == nil || !spawn.Blocks[call.Block()] {
				waits = append(waits, call)
			}
		}
	}
	if !added {
		return "no Add(1) on the same WaitGroup precedes the go statement in its iteration (nor Add(loop bound) before the loop)", true
	}
	waited = len(waits) > 0
	for _, ret := range returnsOf(sp) {
		dom := false
		for _, w := range waits {
			if instrDominates(w, ret) {
				dom = true
			}
		}
		if !dom && canReach(s.g, ret) {
			waited = false
		}
	}
	if !waited {
		return "a return of the spawner is reachable from the go statement without passing Wait on the same WaitGroup: Run would return while cells are still being computed", true
	}
	return "", true
}

// loopCount: the number of iterations of a counting loop whose variable is used for nothing but counting:
// `for k := 0; k < B; k++` or the countdown `for k := B; k > 0; k--` → B.
func loopCount(l *Loop) (ssa.Value, string) {
	if b, why := loopBound(l); why == "" {
		return b, ""
	} else if cd := countdownFrom(l); cd != nil {
		return cd, ""
	} else {
		return nil, why
	}
}

func countdownFrom(l *Loop) ssa.Value {
	h := l.Header
	iff, ok := h.Instrs[len(h.Instrs)-1].(*ssa.If)
	if !ok || !l.Blocks[h.Succs[0]] {
		return nil
	}
	bo, ok := iff.Cond.(*ssa.BinOp)
	if !ok {
		return nil
	}
	var phi *ssa.Phi
	switch {
	case bo.Op == token.GTR: // k > 0
		if c, isC := constInt(bo.Y); isC && c == 0 {
			phi, _ = bo.X.(*ssa.Phi)
		}
	case bo.Op == token.GEQ: // k >= 1
		if c, isC := constInt(bo.Y); isC && c == 1 {
			phi, _ = bo.X.(*ssa.Phi)
		}
	case bo.Op == token.LSS: // 0 < k
		if c, isC := constInt(bo.X); isC && c == 0 {
			phi, _ = bo.Y.(*ssa.Phi)
		}
	}
	if phi == nil || phi.Block() != h {
		return nil
	}
	var start ssa.Value
	for i, e := range phi.Edges {
		if l.Blocks[h.Preds[i]] {
			dec, ok := e.(*ssa.BinOp)
			if !ok || dec.X != ssa.Value(phi) {
				return nil
			}
			c, isC := constInt(dec.Y)
			if !isC || !(dec.Op == token.SUB && c == 1 || dec.Op == token.ADD && c == -1) {
				return nil
			}
		} else {
			if start != nil {
				return nil
			}
			start = e
		}
	}
	// the counter is used for nothing else
	for _, ref := range refs(phi) {
		switch x := ref.(type) {
		case *ssa.BinOp:
			if x != bo && !(x.X == ssa.Value(phi) && (x.Op == token.SUB || x.Op == token.ADD)) {
				return nil
			}
		case *ssa.DebugRef:
		default:
			return nil
		}
	}
	return start
}
