package main

import (
	"fmt"
	"go/types"

	"golang.org/x/tools/go/ssa"
)

// checkRunnerAssertions (R17.16): the runner does not crash on what a request can make a library return. A type
// assertion without the two-result form panics when the dynamic type is another one; on an `error` value that a
// library call produced (json.Decoder.Decode returns *json.SyntaxError for bad syntax but *json.UnmarshalTypeError
// for well-formed JSON of the wrong shape, and passes reader errors through) the dynamic type is chosen by the
// request. In package sim no value of type error is asserted to a concrete type in the one-result form.
func checkRunnerAssertions(p *Program, r *Report) {
	r.Rule("R17.16", "no unchecked assertion on an error: in package sim a value of interface type error is never converted with the one-result type assertion x.(T) — which concrete error a decoder or a reader returns depends on the request, and a mismatch panics after the document was written (errors.As or the two-result form are the checked ways)")
	n, bad := 0, 0
	for _, fn := range p.PkgFuncs("sim") {
		eachInstr(fn, func(_ *ssa.BasicBlock, _ int, ins ssa.Instruction) {
			ta, ok := ins.(*ssa.TypeAssert)
			if !ok {
				return
			}
			named, isNamed := ta.X.Type().(*types.Named)
			if !isNamed || named.Obj().Pkg() != nil || named.Obj().Name() != "error" {
				return
			}
			n++
			if !ta.CommaOk {
				bad++
				r.Fail("R17.16", fmt.Sprintf("%s:assert#%d", FuncKey(fn), bad), p.Pos(ta.Pos()), fmt.Sprintf("an error value is asserted to %s without the two-result form: for any other error (a well-formed request of the wrong shape gives *json.UnmarshalTypeError, a failing reader its own error) the runner panics instead of describing the problem", types.TypeString(ta.AssertedType, nil)))
			}
		})
	}
	if bad == 0 {
		r.OK("R17.16", fmt.Sprintf("package sim: %d assertions on error values, none in the one-result form", n))
	}
}
