package main

// C17: the JSON single-model runner.

import (
	"fmt"
	"go/token"
	"go/types"
	"strings"

	"golang.org/x/tools/go/ssa"
)

func init() { register("C17", "other", checkC17) }

// mayBeNil: can interface/pointer value v be nil at instruction `at`? Returns a witness description or "".
func mayBeNil(p *Program, v ssa.Value, at ssa.Instruction, depth int, seen map[ssa.Value]bool, assumed *[]string) string {
	if v == nil {
		return "zero value"
	}
	if depth > 6 || seen[v] {
		return ""
	}
	seen[v] = true
	defer delete(seen, v)
	if at != nil && nonNilGuarded(at.Block(), v) {
		return ""
	}
	switch x := v.(type) {
	case *ssa.Const:
		if x.Value == nil {
			return "the constant nil"
		}
		return ""
	case *ssa.MakeInterface, *ssa.Alloc, *ssa.MakeSlice, *ssa.MakeMap, *ssa.MakeChan, *ssa.MakeClosure, *ssa.Function:
		return ""
	case *ssa.ChangeInterface:
		return mayBeNil(p, x.X, at, depth, seen, assumed)
	case *ssa.TypeAssert:
		if x.CommaOk {
			return mayBeNil(p, x.X, at, depth, seen, assumed)
		}
		return "" // panics rather than yielding nil for interface targets? (x.(I) on nil panics) — treated by the operand check
	case *ssa.Phi:
		for i, e := range x.Edges {
			pred := x.Block().Preds[i]
			var last ssa.Instruction
			if len(pred.Instrs) > 0 {
				last = pred.Instrs[len(pred.Instrs)-1]
			}
			// a guard on the phi itself may dominate `at`; guards on the operand are evaluated at the predecessor
			if w := mayBeNil(p, e, last, depth, seen, assumed); w != "" {
				return w
			}
		}
		return ""
	case *ssa.UnOp:
		if x.Op == token.MUL {
			if a, ok := x.X.(*ssa.Alloc); ok && allocIsSimpleCell(a) {
				for _, sv := range reachingStores(a, x) {
					if w := mayBeNil(p, sv, x, depth, seen, assumed); w != "" {
						return w
					}
				}
				return ""
			}
		}
		return ""
	case *ssa.Extract:
		call, ok := x.Tuple.(*ssa.Call)
		if !ok {
			return ""
		}
		return callResultMayBeNil(p, call, x.Index, at, depth, seen, assumed)
	case *ssa.Call:
		return callResultMayBeNil(p, x, 0, at, depth, seen, assumed)
	case *ssa.Parameter:
		// a helper of the runner's package: what its callers in the package hand it
		fn := x.Parent()
		if fn == nil || fnPkg(fn) == nil || depth > 3 || fn.Signature.Recv() != nil {
			return ""
		}
		pi := -1
		for i, q := range fn.Params {
			if q == x {
				pi = i
			}
		}
		for _, caller := range p.PkgFuncs(relPkg(fnPkg(fn).Path())) {
			for _, c := range callsIn(caller) {
				cv, isCall := c.(*ssa.Call)
				if !isCall || c.Common().StaticCallee() != fn || pi < 0 || pi >= len(c.Common().Args) {
					continue
				}
				if w := mayBeNil(p, c.Common().Args[pi], cv, depth+1, seen, assumed); w != "" {
					return w + " (handed to " + fn.Name() + " by " + caller.Name() + ")"
				}
			}
		}
		return ""
	}
	return ""
}

func callResultMayBeNil(p *Program, call *ssa.Call, idx int, at ssa.Instruction, depth int, seen map[ssa.Value]bool, assumed *[]string) string {
	c := call.Common()
	if c.IsInvoke() {
		*assumed = append(*assumed, fmt.Sprintf("result of interface method %s assumed non-nil by contract", c.Method.Name()))
		return ""
	}
	f := c.StaticCallee()
	if f == nil || !InModule(f) || f.Blocks == nil {
		return ""
	}
	// which returns of f are selected? if `at` is guarded by (error result == nil), only the successful ones
	errIdx := -1
	res := f.Signature.Results()
	for i := 0; i < res.Len(); i++ {
		if types.Identical(res.At(i).Type(), types.Universe.Lookup("error").Type()) {
			errIdx = i
		}
	}
	onlySuccess := false
	if errIdx >= 0 && at != nil {
		for _, ref := range refs(call) {
			ex, ok := ref.(*ssa.Extract)
			if !ok || ex.Index != errIdx {
				continue
			}
			for _, g := range guardsAt(at.Block()) {
				bo, ok := g.Cond.(*ssa.BinOp)
				if !ok {
					continue
				}
				if (bo.X == ssa.Value(ex) && isNilConst(bo.Y)) || (bo.Y == ssa.Value(ex) && isNilConst(bo.X)) {
					if bo.Op == token.NEQ && !g.Val || bo.Op == token.EQL && g.Val {
						onlySuccess = true
					}
				}
			}
		}
	}
	for _, ret := range returnsOf(f) {
		if idx >= len(ret.Results) {
			continue
		}
		if onlySuccess && errIdx >= 0 && !isNilErr(ret.Results[errIdx]) {
			continue
		}
		if w := mayBeNil(p, ret.Results[idx], ret, depth+1, seen, assumed); w != "" {
			return fmt.Sprintf("%s (returned by %s at %s)", w, f.Name(), p.Pos(ret.Pos()))
		}
	}
	return ""
}

func checkC17(p *Program, r *Report) {
	r.Rule("R17.1", "one document on every exit: RunSingleModelJSON registers the deferred result encoding in its entry block before any call that can fail; the encoder is invoked exactly once on every path of encodeResults; the writer is used for nothing else")
	r.Rule("R17.2", "nil-safety of the run: every interface value on which a method is invoked between request decoding and Run, and every argument of Run, is non-nil on every path (nil-ness lattice with per-return-site summaries; `err == nil` selects the callee's successful returns)")
	r.Rule("R17.3", "unknown model is checked before use: in package sim every call of a factory loaded from sim.Catalog is dominated by a nil comparison")
	r.Rule("R17.4", "non-finite numbers never reach the encoder as floats: the only float64→interface conversion in the JSON-safe code is in JsonSafeValue under the false edges of IsNaN and IsInf(·,0), and every element/result placed in the result tree comes from JsonSafeValue/JsonSafeArray")
	r.Rule("R17.5", "defaults and zero-fills are reported: a default value is returned only with a non-empty message; Initialise appends a warning for every defaulted parameter and every missing input; the runner logs every warning before Run")
	r.Rule("R17.6", "the runner performs the FindDimensions→InitialiseDimensions handshake its sibling entry points perform (libopenwater, ow-sim)")
	r.Assumptions = append(r.Assumptions,
		"not decided: equality with a direct run (value property); absence of panics inside kernels, which run in goroutines the runner cannot recover (e.g. a defaulted parameter leading to an out-of-range index)",
		"results of TimeSteppingModel interface methods (InitialiseStates, Description) are assumed non-nil by contract")
	pk := p.SSAPkg[modPath+"/sim"]
	if pk == nil {
		r.Undecided("R17.1", "pkg:sim", "-", "package sim not loaded")
		return
	}
	runner := pk.Func("RunSingleModelJSON")
	// the encoding function: the function of package sim, reached from a deferred call of the runner, that calls
	// (*json.Encoder).Encode; its writer parameter is the one handed to json.NewEncoder
	var enc *ssa.Function
	encW := 0
	if runner != nil {
		callsEncode := func(f *ssa.Function) bool {
			for _, c := range callsIn(f) {
				if g := c.Common().StaticCallee(); g != nil && g.Name() == "Encode" && fnPkg(g) != nil && fnPkg(g).Path() == "encoding/json" {
					return true
				}
			}
			return false
		}
		var search func(f *ssa.Function, depth int)
		search = func(f *ssa.Function, depth int) {
			if f == nil || f.Blocks == nil || enc != nil || depth > 2 || fnPkg(f) != pk.Pkg {
				return
			}
			if callsEncode(f) {
				enc = f
				return
			}
			for _, c := range callsIn(f) {
				search(c.Common().StaticCallee(), depth+1)
			}
		}
		eachInstr(runner, func(_ *ssa.BasicBlock, _ int, ins ssa.Instruction) {
			d, ok := ins.(*ssa.Defer)
			if !ok {
				return
			}
			if mc, ok := d.Common().Value.(*ssa.MakeClosure); ok {
				f, _ := mc.Fn.(*ssa.Function)
				search(f, 0)
			} else {
				search(d.Common().StaticCallee(), 0)
			}
		})
		if enc == nil {
			// not deferred at all (R17.1 will say so): any step of the runner that encodes
			for _, f := range runnerParts(runner) {
				if enc == nil && callsEncode(f) {
					enc = f
				}
			}
		}
		if enc == nil {
			enc = pk.Func("encodeResults")
		}
	}
	if runner == nil || enc == nil {
		r.Undecided("R17.1", "anchors", "-", "RunSingleModelJSON, or the function that encodes the answer document, not found")
		return
	}
	for _, c := range callsIn(enc) {
		if f := c.Common().StaticCallee(); f != nil && f.Name() == "NewEncoder" && len(c.Common().Args) == 1 {
			for i, prm := range enc.Params {
				if origin1(c.Common().Args[0]) == ssa.Value(prm) {
					encW = i
				}
			}
		}
	}
	// ---- R17.1
	{
		key := "sim.RunSingleModelJSON"
		var def *ssa.Defer
		eachInstr(runner, func(_ *ssa.BasicBlock, _ int, ins ssa.Instruction) {
			d, ok := ins.(*ssa.Defer)
			if !ok {
				return
			}
			// the deferred callee reaches encodeResults
			var callee *ssa.Function
			if mc, ok := d.Common().Value.(*ssa.MakeClosure); ok {
				callee, _ = mc.Fn.(*ssa.Function)
			} else {
				callee = d.Common().StaticCallee()
			}
			if callee == nil {
				return
			}
			if callee == enc {
				def = d
			}
			for _, c := range callsIn(callee) {
				if c.Common().StaticCallee() == enc {
					def = d
				}
				if g := c.Common().StaticCallee(); g != nil && g.Blocks != nil && fnPkg(g) == pk.Pkg {
					for _, c2 := range callsIn(g) {
						if c2.Common().StaticCallee() == enc {
							def = d
						}
					}
				}
			}
		})
		if def == nil {
			r.Fail("R17.1", key+":defer", p.Pos(runner.Pos()), "the result document is not written by a deferred call: error exits (and panics) leave no document")
		} else {
			bad := ""
			if def.Block() != runner.Blocks[0] {
				bad = "the deferred encoding is registered conditionally or after a branch"
			}
			for _, ins := range def.Block().Instrs {
				if ins == ssa.Instruction(def) {
					break
				}
				if c, ok := ins.(*ssa.Call); ok {
					if _, isB := c.Common().Value.(*ssa.Builtin); !isB {
						bad = fmt.Sprintf("a call (%s) that can fail or panic precedes the registration of the deferred encoding", callName(c.Common()))
					}
				}
			}
			if bad != "" {
				r.Fail("R17.1", key+":defer-first", p.Pos(def.Pos()), bad)
			} else {
				r.OK("R17.1", key+": deferred encodeResults registered first in the entry block")
			}
		}
		// explicit (non-deferred) calls of encodeResults would produce a second document
		for _, c := range callsIn(runner) {
			if _, isDefer := c.(*ssa.Defer); !isDefer && c.Common().StaticCallee() == enc {
				r.Fail("R17.1", key+":second-document", p.Pos(c.Pos()), "encodeResults is also called directly: two documents are written on that path")
			}
		}
		// encodeResults: Encode exactly once on every path
		var encodes []ssa.CallInstruction
		for _, c := range callsIn(enc) {
			if f := c.Common().StaticCallee(); f != nil && f.Name() == "Encode" && fnPkg(f) != nil && fnPkg(f).Path() == "encoding/json" {
				encodes = append(encodes, c)
			}
		}
		switch {
		case len(encodes) != 1:
			r.Fail("R17.1", "sim.encodeResults:encode-count", p.Pos(enc.Pos()), fmt.Sprintf("encodeResults contains %d Encode calls; exactly one document must be written", len(encodes)))
		default:
			e := encodes[0]
			bad := ""
			if innermostLoop(findLoops(enc), e.Block()) != nil {
				bad = "Encode is called in a loop"
			}
			for _, ret := range returnsOf(enc) {
				if !instrDominates(e, ret) {
					bad = "a path through encodeResults returns without writing the document"
				}
			}
			// the encoder writes to the w parameter
			okW := false
			for _, c := range callsIn(enc) {
				if f := c.Common().StaticCallee(); f != nil && f.Name() == "NewEncoder" {
					if origin1(c.Common().Args[0]) == ssa.Value(enc.Params[encW]) {
						okW = true
					}
				}
			}
			if !okW {
				bad = "the encoder does not write to the writer handed to the runner"
			}
			if bad != "" {
				r.Fail("R17.1", "sim.encodeResults:encode-once", p.Pos(e.Pos()), bad)
			} else {
				r.OK("R17.1", "sim.encodeResults: Encode(w) exactly once on every path")
			}
		}
		// w used for nothing else
		other := false
		for _, fn := range []*ssa.Function{runner, enc} {
			w := fn.Params[1]
			if fn == enc {
				w = fn.Params[encW]
			}
			var walk func(v ssa.Value)
			seen := map[ssa.Value]bool{}
			walk = func(v ssa.Value) {
				if seen[v] {
					return
				}
				seen[v] = true
				for _, ref := range refs(v) {
					switch x := ref.(type) {
					case *ssa.Store:
						if x.Val == v {
							if a, ok := x.Addr.(*ssa.Alloc); ok {
								for _, r2 := range refs(a) {
									if ld, ok := r2.(*ssa.UnOp); ok {
										walk(ld)
									}
								}
							}
						}
					case ssa.CallInstruction:
						f := x.Common().StaticCallee()
						if f != nil && (f.Name() == "NewEncoder" || f == enc) {
							continue
						}
						other = true
						r.Fail("R17.1", FuncKey(fn)+":writer-use", p.Pos(ref.Pos()), "the output writer is handed to something other than the single JSON encoder: more than one thing can write to it")
					case *ssa.MakeClosure, *ssa.DebugRef, *ssa.MakeInterface, *ssa.ChangeInterface:
						if val, ok := ref.(ssa.Value); ok {
							walk(val)
						}
					}
				}
			}
			walk(w)
		}
		if !other {
			r.OK("R17.1", "the writer reaches only json.NewEncoder in encodeResults")
		}
	}
	// ---- R17.2
	{
		var assumed []string
		n := 0
		// every part of the runner from which the call of Run is reached (the runner itself, and helpers the run is
		// delegated to)
		var onPath []*ssa.Function
		{
			parts := runnerParts(runner)
			reaches := map[*ssa.Function]bool{runBody(runner): true}
			for changed := true; changed; {
				changed = false
				for _, f := range parts {
					if reaches[f] {
						continue
					}
					for _, c := range callsIn(f) {
						if g := c.Common().StaticCallee(); g != nil && reaches[g] {
							reaches[f] = true
							changed = true
						}
					}
				}
			}
			for _, f := range parts {
				if reaches[f] {
					onPath = append(onPath, f)
				}
			}
		}
		for _, part := range onPath {
			part := part
			eachInstr(part, func(_ *ssa.BasicBlock, _ int, ins ssa.Instruction) {
				c, ok := ins.(*ssa.Call)
				if !ok || !c.Common().IsInvoke() {
					return
				}
				cc := c.Common()
				if cc.Method.Name() == "Error" {
					return
				}
				vals := []ssa.Value{cc.Value}
				what := []string{"receiver of " + cc.Method.Name()}
				if cc.Method.Name() == "Run" {
					for i, a := range cc.Args {
						vals = append(vals, a)
						what = append(what, fmt.Sprintf("argument %d of Run", i))
					}
				}
				for i, v := range vals {
					n++
					key := fmt.Sprintf("sim.RunSingleModelJSON:%s", what[i])
					if part != runner {
						key = fmt.Sprintf("sim.%s:%s", part.Name(), what[i])
					}
					if w := mayBeNil(p, v, c, 0, map[ssa.Value]bool{}, &assumed); w != "" {
						r.Fail("R17.2", key, p.Pos(c.Pos()), fmt.Sprintf("%s may be nil: %s — the runner panics after (or instead of) answering", what[i], w))
					} else {
						r.OK("R17.2", key+" is non-nil on every path")
					}
				}
			})
		}
		// helper functions called with possibly-nil results: InitialiseOutputs(model, …)
		r.Floor("R17.2", "nil-safety obligations", n, 3)
		for _, a := range uniq(assumed) {
			r.Notes = append(r.Notes, a)
		}
	}
	// ---- R17.3
	{
		n := 0
		for _, fn := range p.PkgFuncs("sim") {
			eachInstr(fn, func(_ *ssa.BasicBlock, _ int, ins ssa.Instruction) {
				c, ok := ins.(*ssa.Call)
				if !ok || c.Common().IsInvoke() || c.Common().StaticCallee() != nil {
					return
				}
				// callee value loaded from sim.Catalog
				fromCatalog := false
				var fv ssa.Value = c.Common().Value
				for _, o := range origins(fv) {
					if lk, ok := o.(*ssa.Lookup); ok {
						if g := globalOf(lk.X); g != nil && g.Name() == "Catalog" {
							fromCatalog = true
						}
					}
				}
				if !fromCatalog {
					return
				}
				n++
				key := FuncKey(fn) + ":catalog-call"
				if nonNilGuarded(c.Block(), fv) || nonNilGuarded(c.Block(), origin1(fv)) {
					r.OK("R17.3", key+": factory from sim.Catalog is nil-checked before the call")
				} else {
					r.Fail("R17.3", key, p.Pos(c.Pos()), "a factory looked up in sim.Catalog is called without a nil check: an unknown model name crashes the runner instead of producing a problem document")
				}
			})
		}
		r.Floor("R17.3", "catalogue factory calls in sim", n, 1)
	}
	checkJsonSafe(p, r, enc)
	checkWarnings(p, r, pk, runner)
	// ---- R17.6
	checkProtocol(p, r, []string{"sim"}, "R17.6", false)
}

func checkJsonSafe(p *Program, r *Report, enc *ssa.Function) {
	jpk := p.SSAPkg[modPath+"/io/json"]
	if jpk == nil {
		r.Undecided("R17.4", "pkg:io/json", "-", "package io/json not loaded")
		return
	}
	safeVal := jpk.Func("JsonSafeValue")
	safeArr := jpk.Func("JsonSafeArray")
	if safeVal == nil || safeArr == nil {
		r.Undecided("R17.4", "anchors", "-", "JsonSafeValue/JsonSafeArray not found")
		return
	}
	isFloat := func(t types.Type) bool {
		b, ok := t.Underlying().(*types.Basic)
		return ok && b.Info()&types.IsFloat != 0
	}
	n := 0
	fns := append(p.PkgFuncs("io/json"), enc)
	seenF := map[*ssa.Function]bool{enc: true}
	for qi := len(fns) - 1; qi < len(fns); qi++ {
		for _, c := range callsIn(fns[qi]) {
			if f := c.Common().StaticCallee(); f != nil && InModule(f) && f.Blocks != nil && !seenF[f] && relPkg(fnPkg(f).Path()) == "sim" {
				seenF[f] = true
				fns = append(fns, f)
			}
		}
	}
	for _, fn := range fns {
		k := 0
		eachInstr(fn, func(_ *ssa.BasicBlock, _ int, ins ssa.Instruction) {
			mi, ok := ins.(*ssa.MakeInterface)
			if !ok || !isFloat(mi.X.Type()) {
				return
			}
			// conversions feeding only fmt (Sprint of the non-finite value) are not results
			onlyFmt := true
			for _, ref := range refs(mi) {
				if st, ok := ref.(*ssa.Store); ok {
					if !addrIsLocalTemp(st.Addr) {
						onlyFmt = false
					}
					continue
				}
				if _, ok := ref.(*ssa.DebugRef); ok {
					continue
				}
				onlyFmt = false
			}
			if onlyFmt && len(refs(mi)) > 0 {
				return
			}
			n++
			k++
			key := fmt.Sprintf("%s:float-to-interface#%d", FuncKey(fn), k)
			if fn != safeVal {
				r.Fail("R17.4", key, p.Pos(mi.Pos()), "a float64 is placed in the result tree outside JsonSafeValue: NaN/Inf would make encoding/json fail and no document would be written")
				return
			}
			nan, inf := false, false
			for _, g := range guardsAt(mi.Block()) {
				c, ok := g.Cond.(*ssa.Call)
				if !ok || g.Val {
					continue
				}
				f := c.Common().StaticCallee()
				if f == nil || fnPkg(f) == nil || fnPkg(f).Path() != "math" {
					continue
				}
				if c.Common().Args[0] != mi.X {
					continue
				}
				if f.Name() == "IsNaN" {
					nan = true
				}
				if f.Name() == "IsInf" {
					if s, ok := constInt(c.Common().Args[1]); ok && s == 0 {
						inf = true
					}
				}
			}
			if nan && inf {
				r.OK("R17.4", "io/json.JsonSafeValue: float returned only when !IsNaN && !IsInf(·,0)")
			} else {
				r.Fail("R17.4", key, p.Pos(mi.Pos()), fmt.Sprintf("JsonSafeValue can return the float itself although it may be non-finite (IsNaN excluded: %v, IsInf(·,0) excluded: %v)", nan, inf))
			}
		})
	}
	r.Floor("R17.4", "float→interface conversions", n, 1)
	// elements of JsonSafeArray's result and values placed in the result tree come from the safe functions,
	// directly or through helper functions / maps whose every entry is safe
	var safeTree func(v ssa.Value, depth int) string
	safeTree = func(v ssa.Value, depth int) string {
		if depth > 5 {
			return "helper nesting too deep"
		}
		for _, o := range origins(v) {
			if o == nil {
				continue
			}
			o = stripConv(o)
			switch x := o.(type) {
			case *ssa.Const:
				if x.Value != nil {
					return "a constant is placed in the result tree"
				}
			case *ssa.Call:
				f := x.Common().StaticCallee()
				if f == safeVal || f == safeArr {
					continue
				}
				if f == nil || !InModule(f) || f.Blocks == nil {
					return "value produced by " + callName(x.Common())
				}
				for _, ret := range returnsOf(f) {
					if w := safeTree(ret.Results[0], depth+1); w != "" {
						return w
					}
				}
			case *ssa.MakeMap:
				for _, ref := range refs(x) {
					if mu, ok := ref.(*ssa.MapUpdate); ok && mu.Map == ssa.Value(x) {
						if w := safeTree(mu.Value, depth+1); w != "" {
							return w
						}
					}
				}
				for _, ref := range refsThroughConv(x) {
					if mu, ok := ref.(*ssa.MapUpdate); ok {
						if w := safeTree(mu.Value, depth+1); w != "" {
							return w
						}
					}
				}
			default:
				return "value of unrecognised origin " + o.String()
			}
		}
		return ""
	}
	eachInstr(safeArr, func(_ *ssa.BasicBlock, _ int, ins ssa.Instruction) {
		st, ok := ins.(*ssa.Store)
		if !ok {
			return
		}
		ia, ok := st.Addr.(*ssa.IndexAddr)
		if !ok || !types.IsInterface(st.Val.Type()) || addrIsLocalTemp(ia) {
			return
		}
		if w := safeTree(st.Val, 0); w == "" {
			r.OK("R17.4", FuncKey(safeArr)+": array element produced by JsonSafeValue/JsonSafeArray")
		} else {
			r.Fail("R17.4", FuncKey(safeArr)+":element", p.Pos(st.Pos()), "an element of the JSON-safe array is not produced by JsonSafeValue/JsonSafeArray: "+w)
		}
	})
	nFields := 0
	// the answer document is filled in by the encoding function or by a function of the package it calls
	// (`overall := run.response(split)`)
	fillers := []*ssa.Function{enc}
	for _, c := range callsIn(enc) {
		if g := c.Common().StaticCallee(); g != nil && g.Blocks != nil && fnPkg(g) == fnPkg(enc) && g != enc {
			fillers = append(fillers, g)
		}
	}
	for _, filler := range fillers {
		eachInstr(filler, func(_ *ssa.BasicBlock, _ int, ins ssa.Instruction) {
			st, ok := ins.(*ssa.Store)
			if !ok {
				return
			}
			fa, ok := st.Addr.(*ssa.FieldAddr)
			if !ok {
				return
			}
			name, _, _ := fieldName(fa)
			if name != "Outputs" && name != "States" || !types.IsInterface(st.Val.Type()) {
				return
			}
			nFields++
			if w := safeTree(st.Val, 0); w == "" {
				r.OK("R17.4", FuncKey(enc)+": RunResults."+name+" is built only from JsonSafeValue/JsonSafeArray results")
			} else {
				r.Fail("R17.4", FuncKey(enc)+":"+name, p.Pos(st.Pos()), "RunResults."+name+" is not produced by the JSON-safe conversion: "+w)
			}
		})
	}
	if nFields == 0 {
		r.Undecided("R17.4", FuncKey(enc)+":fields", p.Pos(enc.Pos()), "no assignment of RunResults.Outputs/States found")
	}
}

// runnerParts: the runner and the functions of its own package it calls directly or through one of those (the steps a
// restructured runner is made of), in call order.
func runnerParts(runner *ssa.Function) []*ssa.Function {
	out := []*ssa.Function{runner}
	seen := map[*ssa.Function]bool{runner: true}
	for i := 0; i < len(out) && i < 40; i++ {
		for _, c := range callsIn(out[i]) {
			g := c.Common().StaticCallee()
			if g == nil || g.Blocks == nil || seen[g] || fnPkg(g) != fnPkg(runner) {
				continue
			}
			seen[g] = true
			out = append(out, g)
		}
	}
	return out
}

// runBody: the part of the runner that holds the call of the model's Run.
func runBody(runner *ssa.Function) *ssa.Function {
	for _, f := range runnerParts(runner) {
		for _, c := range callsIn(f) {
			if c.Common().IsInvoke() && c.Common().Method.Name() == "Run" {
				return f
			}
		}
	}
	return runner
}

func checkWarnings(p *Program, r *Report, pk *ssa.Package, runner *ssa.Function) {
	body := runBody(runner)
	// Find: default returned only with a message
	var find, initialise *ssa.Function
	for _, fn := range p.PkgFuncs("sim") {
		if fn.Name() == "Find" && fn.Signature.Recv() != nil && fn.Signature.Results().Len() == 2 {
			find = fn
		}
		if fn.Name() == "Initialise" && fn.Signature.Recv() != nil {
			initialise = fn
		}
	}
	// the part of the runner that calls Initialise is the one that receives the warnings (the run itself may be
	// delegated further)
	if initialise != nil {
		for _, f := range runnerParts(runner) {
			for _, c := range callsIn(f) {
				if c.Common().StaticCallee() == initialise {
					body = f
				}
			}
		}
	}
	if find == nil || initialise == nil {
		r.Undecided("R17.5", "anchors", "-", "modelValues.Find / singleModel.Initialise not found")
		return
	}
	var defParam *ssa.Parameter
	for _, prm := range find.Params[1:] {
		if b, ok := prm.Type().Underlying().(*types.Basic); ok && b.Info()&types.IsFloat != 0 {
			defParam = prm
		}
	}
	okFind := true
	for _, ret := range returnsOf(find) {
		isDefault := false
		for _, o := range origins(ret.Results[0]) {
			if o == ssa.Value(defParam) {
				isDefault = true
			}
		}
		if !isDefault {
			continue
		}
		for _, o := range origins(ret.Results[1]) {
			if c, ok := o.(*ssa.Const); ok || o == nil {
				if o == nil || c.Value == nil || c.Value.ExactString() == `""` {
					okFind = false
					r.Fail("R17.5", FuncKey(find)+":silent-default", p.Pos(ret.Pos()), "a default parameter value is returned with an empty message: the use of the default is not reported in the log")
				}
			}
		}
	}
	if okFind {
		r.OK("R17.5", FuncKey(find)+": default value always accompanied by a message")
	}
	// Initialise and the helpers of its own package it delegates the assembly to (one or two levels)
	initFns := []*ssa.Function{initialise}
	callSites := map[*ssa.Function][]*ssa.Call{}
	{
		seen := map[*ssa.Function]bool{initialise: true, find: true}
		work := []*ssa.Function{initialise}
		for depth := 0; depth < 2; depth++ {
			var next []*ssa.Function
			for _, fn := range work {
				for _, c := range callsIn(fn) {
					f := c.Common().StaticCallee()
					cv, isCall := c.(*ssa.Call)
					if f == nil || !isCall || f.Blocks == nil || fnPkg(f) != fnPkg(initialise) {
						continue
					}
					if f.Name() == "Find" {
						continue
					}
					callSites[f] = append(callSites[f], cv)
					if !seen[f] {
						seen[f] = true
						initFns = append(initFns, f)
						next = append(next, f)
					}
				}
			}
			work = next
		}
	}
	// argsFor: what a helper's parameter stands for at its call sites
	argsFor := func(prm *ssa.Parameter) []ssa.Value {
		var out []ssa.Value
		fn := prm.Parent()
		for i, q := range fn.Params {
			if q != prm {
				continue
			}
			for _, cs := range callSites[fn] {
				if i < len(cs.Common().Args) {
					out = append(out, cs.Common().Args[i])
				}
			}
		}
		return out
	}
	// Initialise: the message is appended when non-empty; missing inputs appended
	warnIdx := initialise.Signature.Results().Len() - 1
	// reachesWarnings: v (a []string) flows to the warnings Initialise returns, through appends, phis and helpers
	// that thread their warnings parameter to their result
	var reachesWarnings func(v ssa.Value, seen map[ssa.Value]bool) bool
	reachesWarnings = func(v ssa.Value, seen map[ssa.Value]bool) bool {
		if seen[v] {
			return false
		}
		seen[v] = true
		for _, ref := range refs(v) {
			switch y := ref.(type) {
			case *ssa.Return:
				fn := y.Parent()
				if fn == initialise {
					if warnIdx < len(y.Results) && y.Results[warnIdx] == v {
						return true
					}
					continue
				}
				// a helper returning v: continue at the call sites with the corresponding result
				for ri, res := range y.Results {
					if res != v {
						continue
					}
					for _, cs := range callSites[fn] {
						if fn.Signature.Results().Len() == 1 {
							if reachesWarnings(cs, seen) {
								return true
							}
							continue
						}
						for _, r2 := range refs(cs) {
							if ex, ok := r2.(*ssa.Extract); ok && ex.Index == ri && reachesWarnings(ex, seen) {
								return true
							}
						}
					}
				}
			case *ssa.Phi:
				if reachesWarnings(y, seen) {
					return true
				}
			case *ssa.Call:
				if b, ok := y.Common().Value.(*ssa.Builtin); ok && b.Name() == "append" && len(y.Common().Args) > 0 && y.Common().Args[0] == v {
					if reachesWarnings(y, seen) {
						return true
					}
					continue
				}
				if f := y.Common().StaticCallee(); f != nil && callSites[f] != nil {
					for i, a := range y.Common().Args {
						if a == v && i < len(f.Params) && reachesWarnings(f.Params[i], seen) {
							return true
						}
					}
				}
			}
		}
		return false
	}
	// warningSink: a helper of the package that appends its string parameter to a field of the object it is called on
	// (`func (w *warningLog) note(msg string) { … w.messages = append(w.messages, msg) }`), where Initialise returns
	// that field of an object of the same type as its warnings. Returns the index of the string parameter, or -1.
	warningSink := func(f *ssa.Function) int {
		if f == nil || f.Blocks == nil || fnPkg(f) != fnPkg(initialise) || len(f.Params) < 2 {
			return -1
		}
		idx := -1
		for _, c := range callsIn(f) {
			b, ok := c.Common().Value.(*ssa.Builtin)
			if !ok || b.Name() != "append" || len(c.Common().Args) != 2 {
				continue
			}
			// append(obj.field, param…) stored back into obj.field
			fld, base, okf := loadedField(origin1OrSelf(c.Common().Args[0]))
			if !okf || origin1(base) != ssa.Value(f.Params[0]) {
				continue
			}
			stored := false
			if cv, ok := c.(*ssa.Call); ok {
				for _, ref := range refs(cv) {
					if st, ok := ref.(*ssa.Store); ok && st.Val == ssa.Value(cv) {
						if n2, b2, ok2 := fieldName(st.Addr); ok2 && n2 == fld && origin1(b2) == ssa.Value(f.Params[0]) {
							stored = true
						}
					}
				}
			}
			if !stored {
				continue
			}
			// the appended element(s): a slice literal holding the parameter
			for i, prm := range f.Params {
				if i == 0 {
					continue
				}
				if dependsOn(c.Common().Args[1], func(x ssa.Value) bool { return x == ssa.Value(prm) }, map[ssa.Value]bool{}) {
					idx = i
				}
				for _, ref := range refs(prm) {
					if st, ok := ref.(*ssa.Store); ok && st.Val == ssa.Value(prm) {
						if ia, ok := st.Addr.(*ssa.IndexAddr); ok && vecBase(ia.X) == vecBase(c.Common().Args[1]) {
							idx = i
						}
					}
				}
			}
		}
		if idx < 0 {
			return -1
		}
		// Initialise returns that kind of object's field as its warnings
		for _, ret := range returnsOf(initialise) {
			if warnIdx >= len(ret.Results) {
				continue
			}
			for _, o := range origins(ret.Results[warnIdx]) {
				if _, base, ok := loadedField(o); ok && o != nil && types.Identical(base.Type(), f.Params[0].Type()) {
					return idx
				}
			}
		}
		return -1
	}
	passedToSink := func(y ssa.CallInstruction, x ssa.Value) bool {
		f := y.Common().StaticCallee()
		idx := warningSink(f)
		return idx >= 0 && idx < len(y.Common().Args) && y.Common().Args[idx] == x
	}
	appendsOf := func(v ssa.Value) bool {
		// v flows into an append whose result reaches the returned warnings
		seen := map[ssa.Value]bool{}
		var walk func(x ssa.Value) bool
		walk = func(x ssa.Value) bool {
			if seen[x] {
				return false
			}
			seen[x] = true
			for _, ref := range refs(x) {
				switch y := ref.(type) {
				case *ssa.Store:
					if y.Val == x {
						if ia, ok := y.Addr.(*ssa.IndexAddr); ok {
							if walk(ia.X) {
								return true
							}
						}
					}
				case *ssa.Slice:
					if walk(y) {
						return true
					}
				case *ssa.Call:
					if b, ok := y.Common().Value.(*ssa.Builtin); ok && b.Name() == "append" {
						return reachesWarnings(y, map[ssa.Value]bool{})
					}
					if passedToSink(y, x) {
						return true
					}
					if walk(y) {
						return true
					}
				case *ssa.Return:
					// handed back by a helper: continue with the corresponding result at its call sites
					fn := y.Parent()
					for ri, res := range y.Results {
						if res != x {
							continue
						}
						for _, cs := range callSites[fn] {
							if fn.Signature.Results().Len() == 1 {
								if walk(cs) {
									return true
								}
								continue
							}
							for _, r2 := range refs(cs) {
								if ex, ok := r2.(*ssa.Extract); ok && ex.Index == ri && walk(ex) {
									return true
								}
							}
						}
					}
				case *ssa.MakeInterface:
					if walk(y) {
						return true
					}
				}
			}
			return false
		}
		return walk(v)
	}
	_ = warnIdx
	nW := 0
	var findCalls []ssa.CallInstruction
	for _, fn := range initFns {
		for _, c := range callsIn(fn) {
			if c.Common().StaticCallee() == find {
				findCalls = append(findCalls, c)
			}
		}
	}
	for _, c := range findCalls {
		if c.Common().StaticCallee() == find {
			// message result
			for _, ref := range refs(c.(*ssa.Call)) {
				ex, ok := ref.(*ssa.Extract)
				if !ok || ex.Index != 1 {
					continue
				}
				nW++
				if appendsOf(ex) {
					r.OK("R17.5", "sim.Initialise: the default-parameter message is appended to the warnings")
				} else {
					r.Fail("R17.5", "sim.Initialise:param-warning", p.Pos(c.Pos()), "the message returned for a defaulted parameter is dropped instead of being added to the warnings")
				}
			}
		}
	}
	// the looked-up (or default) value reaches the parameter vector on every path of the iteration
	for _, c := range findCalls {
		var valEx ssa.Value
		for _, ref := range refs(c.(*ssa.Call)) {
			if ex, ok := ref.(*ssa.Extract); ok && ex.Index == 0 {
				valEx = ex
			}
		}
		nW++
		var store ssa.Instruction
		lookupAt := ssa.Instruction(c)
		var findStore func(v ssa.Value, depth int)
		findStore = func(v ssa.Value, depth int) {
			if v == nil || depth > 2 {
				return
			}
			for _, ref := range refs(v) {
				switch y := ref.(type) {
				case *ssa.Store:
					if _, isElem := y.Addr.(*ssa.IndexAddr); isElem && y.Val == v {
						store = y
					}
				case ssa.CallInstruction:
					// element written through the array's setter: Set1(i, v), Set2(i, 0, v), Set(idx, v)
					if nm := callName(y.Common()); (nm == "Set" || nm == "Set1" || nm == "Set2" || nm == "Set3") && recvOf(y.Common()) != nil {
						if a := callArgs(y.Common()); len(a) > 0 && a[len(a)-1] == v {
							store = y
						}
					}
				case *ssa.Return:
					fn := y.Parent()
					for ri, res := range y.Results {
						if res != v {
							continue
						}
						for _, cs := range callSites[fn] {
							for _, r2 := range refs(cs) {
								if ex, ok := r2.(*ssa.Extract); ok && ex.Index == ri {
									lookupAt = cs
									findStore(ex, depth+1)
								}
							}
						}
					}
				}
			}
		}
		findStore(valEx, 0)
		key := "sim.Initialise:param-value-applied"
		if store == nil {
			r.Fail("R17.5", key, p.Pos(c.Pos()), "the value found for a parameter (or its default) is never placed in the parameter vector")
			continue
		}
		// every path from the lookup to the end of the iteration passes the store
		loops := findLoops(lookupAt.Parent())
		l := innermostLoop(loops, lookupAt.Block())
		bad := false
		if lookupAt.Parent() != store.Parent() {
			l = nil
		}
		if l != nil && lookupAt.Block() != store.Block() {
			reach := reachable(lookupAt.Block(), func(from *ssa.BasicBlock, i int) bool { return from.Succs[i] == store.Block() })
			if reach[l.Header] && !(lookupAt.Block() == l.Header) {
				bad = true
			}
		}
		if bad {
			r.Fail("R17.5", key, p.Pos(store.Pos()), "on some path through the parameter loop (e.g. when a default is used) the value is not stored in the parameter vector: the model runs with 0 while the log reports the default")
		} else {
			r.OK("R17.5", "sim.Initialise: the found-or-default value is stored in the parameter vector on every path")
		}
	}
	// missing input: the branch that skips an input is taken exactly when the lookup found nothing, and appends a warning
	missing := false
	skipWhy := ""
	isConstVal := func(v ssa.Value) bool { _, ok := v.(*ssa.Const); return ok }
	var skipPos token.Pos
	for _, initFn := range initFns {
		eachInstr(initFn, func(b *ssa.BasicBlock, _ int, ins ssa.Instruction) {
			iff, ok := ins.(*ssa.If)
			if !ok {
				return
			}
			bo, ok := iff.Cond.(*ssa.BinOp)
			if !ok {
				return
			}
			isFind := func(v ssa.Value) bool {
				c, ok := v.(*ssa.Call)
				return ok && callName(c.Common()) == "Find"
			}
			lenOfFind := func(v ssa.Value) bool {
				c, ok := v.(*ssa.Call)
				if !ok {
					return false
				}
				bi, ok := c.Common().Value.(*ssa.Builtin)
				return ok && bi.Name() == "len" && len(c.Common().Args) == 1 && isFind(c.Common().Args[0])
			}
			skip := -1
			switch {
			case (bo.Op == token.EQL || bo.Op == token.NEQ) && isFind(bo.X) && isNilConst(bo.Y):
				skip = 0
				if bo.Op == token.NEQ {
					skip = 1
				}
			case lenOfFind(bo.X) && isConstVal(bo.Y) || lenOfFind(bo.Y) && isConstVal(bo.X):
				skipWhy = "the number of values found (len(…) " + bo.Op.String() + " a constant)"
				skipPos = iff.Pos()
				return
			default:
				return
			}
			// the skipping branch contains an append whose result reaches the returned warnings
			for _, i2 := range b.Succs[skip].Instrs {
				if cc, ok := i2.(*ssa.Call); ok {
					if bi, ok := cc.Common().Value.(*ssa.Builtin); ok && bi.Name() == "append" && reachesWarnings(cc, map[ssa.Value]bool{}) {
						missing = true
					}
					if idx := warningSink(cc.Common().StaticCallee()); idx >= 0 {
						missing = true
					}
				}
			}
		})
	}
	if skipWhy != "" {
		nW++
		r.Fail("R17.5", "sim.Initialise:input-absent", p.Pos(skipPos), "an input is treated as missing depending on "+skipWhy+", not on whether the request supplied it: a series that was supplied but is empty is reported as missing and zero-filled — it neither sets the simulation length nor takes part in the equal-length check, so a request a direct run would refuse (or run for zero steps) produces ordinary-looking results")
		missing = true // the warning clause is not the finding here
	}
	nW++
	if missing {
		r.OK("R17.5", "sim.Initialise: a missing input appends a warning")
	} else {
		r.Fail("R17.5", "sim.Initialise:input-warning", p.Pos(initialise.Pos()), "a missing input is zero-filled without a warning")
	}
	// runner logs all warnings before Run
	var runCall *ssa.Call
	eachInstr(body, func(_ *ssa.BasicBlock, _ int, ins ssa.Instruction) {
		if c, ok := ins.(*ssa.Call); ok && c.Common().IsInvoke() && c.Common().Method.Name() == "Run" {
			runCall = c
		}
		// the run may be delegated to a helper of the package (`results = runInitialised(model, inputs, states)`)
		if c, ok := ins.(*ssa.Call); ok && !c.Common().IsInvoke() && runCall == nil {
			if h := c.Common().StaticCallee(); h != nil && h.Blocks != nil && fnPkg(h) == fnPkg(body) && h != initialise {
				for _, hc := range callsIn(h) {
					if hc.Common().IsInvoke() && hc.Common().Method.Name() == "Run" {
						runCall = c
					}
				}
			}
		}
	})
	logged := false
	if runCall != nil {
		for _, l := range findLoops(body) {
			// loop over the warnings value calling a closure with the element
			hasLog := false
			for b := range l.Blocks {
				for _, ins := range b.Instrs {
					if c, ok := ins.(*ssa.Call); ok && !c.Common().IsInvoke() {
						_, isMC := c.Common().Value.(*ssa.MakeClosure)
						g := c.Common().StaticCallee()
						// the log: a local closure, or a function/method of package sim, given the warning
						if (isMC || g != nil && fnPkg(g) == fnPkg(body)) && len(c.Common().Args) >= 1 {
							isWarnElem := func(v ssa.Value) bool {
								u, ok := v.(*ssa.UnOp)
								if !ok || u.Op != token.MUL {
									return false
								}
								ia, ok := u.X.(*ssa.IndexAddr)
								if !ok {
									return false
								}
								os := origins(ia.X)
								if len(os) != 1 || os[0] == nil {
									return false
								}
								ex, ok := os[0].(*ssa.Extract)
								if !ok {
									return false
								}
								cc, ok := ex.Tuple.(*ssa.Call)
								return ok && cc.Common().StaticCallee() == initialise
							}
							for _, a := range c.Common().Args {
								if dependsOn(a, isWarnElem, map[ssa.Value]bool{}) {
									hasLog = true
								}
							}
						}
					}
				}
			}
			if hasLog && l.Header.Dominates(runCall.Block()) && !l.Blocks[runCall.Block()] {
				logged = true
			}
		}
	}
	// or the whole list is appended to the log in one go (`runLogs = append(runLogs, warnings...)`), the result kept in
	// the variable the deferred encoding reads
	if runCall != nil && !logged {
		for _, c := range callsIn(body) {
			bi, ok := c.Common().Value.(*ssa.Builtin)
			if !ok || bi.Name() != "append" || len(c.Common().Args) != 2 {
				continue
			}
			whole := false
			for _, o := range origins(c.Common().Args[1]) {
				if ex, ok := o.(*ssa.Extract); ok {
					if cc, ok := ex.Tuple.(*ssa.Call); ok && cc.Common().StaticCallee() == initialise {
						whole = true
					}
				}
			}
			cv, isVal := c.(ssa.Value)
			if !whole || !isVal || !c.Block().Dominates(runCall.Block()) {
				continue
			}
			for _, ref := range refs(cv) {
				st, ok := ref.(*ssa.Store)
				if !ok || st.Val != cv {
					continue
				}
				if a, ok := st.Addr.(*ssa.Alloc); ok {
					for _, r2 := range refs(a) {
						if _, isMC := r2.(*ssa.MakeClosure); isMC {
							logged = true
						}
					}
				}
			}
		}
	}
	nW++
	if logged {
		r.OK("R17.5", "sim.RunSingleModelJSON: every warning is logged before Run")
	} else {
		r.Fail("R17.5", "sim.RunSingleModelJSON:log-warnings", p.Pos(runner.Pos()), "the warnings returned by Initialise are not all passed to the log before the model runs")
	}
	r.Floor("R17.5", "reporting obligations", nW, 2)

	// R17.7: a supplied series lands in the row of the input it was supplied for
	r.Rule("R17.7", "input assembly: each supplied series is written to the row whose index is the position, in the model description's input list, of the name it was looked up under (same loop index for the lookup and for the row)")
	nRows := 0
	var applyCalls []ssa.CallInstruction
	for _, fn := range initFns {
		applyCalls = append(applyCalls, callsIn(fn)...)
	}
	for _, c := range applyCalls {
		nm := callName(c.Common())
		if nm != "Apply" && nm != "ApplySlice" && nm != "Apply1" {
			continue
		}
		recv := recvOf(c.Common())
		if recv == nil || !isNDType(recv.Type()) {
			continue
		}
		args := callArgs(c.Common())
		if len(args) < 4 {
			continue
		}
		nRows++
		key := "sim.Initialise:input-row"
		// row index = loc[1]
		vals, _, unk := vecElemAt(nil2eff(p), args[0], 1, c)
		if unk != "" || len(vals) != 1 {
			r.Undecided("R17.7", key, p.Pos(c.Pos()), "row index of the input write undetermined")
			continue
		}
		row := vals[0]
		// the series written: Find(name) result, name = element [row] of the description's inputs
		okRow := false
		why := "the series written is not the result of looking up the description's input at that row"
		for _, o := range origins(args[3]) {
			fc, ok := o.(*ssa.Call)
			if !ok || callName(fc.Common()) != "Find" {
				continue
			}
			name := callArgs(fc.Common())[0]
			// name must be descInputs[row]
			for _, no := range origins(name) {
				u, ok := no.(*ssa.UnOp)
				if !ok {
					continue
				}
				ia, ok := u.X.(*ssa.IndexAddr)
				if !ok {
					continue
				}
				if ia.Index == row || origin1(ia.Index) == origin1(row) {
					// and the indexed slice is the Inputs field of the model description (possibly handed to a helper)
					lists := []ssa.Value{origin1(ia.X)}
					if prm, isPrm := origin1(ia.X).(*ssa.Parameter); isPrm {
						lists = nil
						for _, a := range argsFor(prm) {
							lists = append(lists, origin1(a))
						}
					}
					isInputs := len(lists) > 0
					for _, lv := range lists {
						if n, _, okf := loadedField(lv); !okf || n != "Inputs" {
							isInputs = false
						}
					}
					if isInputs {
						okRow = true
					} else {
						why = "the names are not taken from the model description's Inputs list"
					}
				} else {
					why = "the row index is not the position of the looked-up name in the description's input list"
				}
			}
		}
		if okRow {
			r.OK("R17.7", "sim.Initialise: series looked up as desc.Inputs[i] is written to row i")
		} else {
			r.Fail("R17.7", key, p.Pos(c.Pos()), "a supplied input series may be written to the wrong row of the input array: "+why+" (a missing earlier input shifts later ones)")
		}
	}
	if nRows == 0 {
		r.Undecided("R17.7", "sim.Initialise:input-row", p.Pos(initialise.Pos()), "no write of an input series found")
	}
	_ = strings.Contains

	checkParameterAssembly(p, r, initFns)

	// R17.9: a supplied series is copied into the input array only if its length is the array's time extent
	r.Rule("R17.9", "unequal-length inputs are a reported problem, not a copy: every path from the lookup of a supplied series to the call that copies it into the input array passes either the allocation of that array with this series' length as its time extent, or the equal side of a comparison of this series' length with another length; a path that reaches the copy unchecked writes past the row, into the next row, or pads silently")
	nLen := 0
	for _, c := range applyCalls {
		nm := callName(c.Common())
		if nm != "Apply" && nm != "ApplySlice" && nm != "Apply1" {
			continue
		}
		recv := recvOf(c.Common())
		if recv == nil || !isNDType(recv.Type()) {
			continue
		}
		args := callArgs(c.Common())
		if len(args) < 4 {
			continue
		}
		series := origin1(args[3])
		fc, ok := series.(*ssa.Call)
		if !ok || callName(fc.Common()) != "Find" {
			continue
		}
		nLen++
		fn := c.Parent()
		isLenOfSeries := func(v ssa.Value) bool {
			lc, ok := origin1(v).(*ssa.Call)
			if !ok {
				return false
			}
			b, ok := lc.Common().Value.(*ssa.Builtin)
			return ok && b.Name() == "len" && len(lc.Common().Args) == 1 && origin1(lc.Common().Args[0]) == series
		}
		// blocks that allocate the array from this series' length
		alloc := map[*ssa.BasicBlock]bool{}
		for _, c2 := range callsIn(fn) {
			a2 := c2.Common().Args
			if strings.HasPrefix(callName(c2.Common()), "NewArray") {
				if len(a2) > 0 && isLenOfSeries(a2[len(a2)-1]) {
					alloc[c2.Block()] = true
				}
				continue
			}
			// a helper of the module that makes the array: it passes one of its parameters on as the time extent of a
			// NewArray… call, and that parameter is given this series' length
			if h := c2.Common().StaticCallee(); h != nil && h.Blocks != nil && InModule(h) {
				for _, c3 := range callsIn(h) {
					a3 := c3.Common().Args
					if !strings.HasPrefix(callName(c3.Common()), "NewArray") || len(a3) == 0 {
						continue
					}
					for j, prm := range h.Params {
						if origin1(a3[len(a3)-1]) == ssa.Value(prm) && j < len(a2) && isLenOfSeries(a2[j]) {
							alloc[c2.Block()] = true
						}
					}
				}
			}
		}
		reach := reachable(fc.Block(), func(from *ssa.BasicBlock, i int) bool {
			if alloc[from.Succs[i]] {
				return true
			}
			iff, ok := from.Instrs[len(from.Instrs)-1].(*ssa.If)
			if !ok {
				return false
			}
			cnd, val := normCond(iff.Cond, i == 0)
			bo, ok := cnd.(*ssa.BinOp)
			if !ok || (bo.Op != token.EQL && bo.Op != token.NEQ) {
				return false
			}
			var other ssa.Value
			if isLenOfSeries(bo.X) {
				other = bo.Y
			} else if isLenOfSeries(bo.Y) {
				other = bo.X
			} else {
				return false
			}
			if _, isConst := other.(*ssa.Const); isConst {
				return false
			}
			// the edge on which the lengths are equal is a checked way in
			return bo.Op == token.EQL && val || bo.Op == token.NEQ && !val
		})
		key := "sim.Initialise:input-length"
		if alloc[fc.Block()] {
			reach = map[*ssa.BasicBlock]bool{}
		}
		if reach[c.Block()] && !alloc[c.Block()] {
			r.Fail("R17.9", key, p.Pos(c.Pos()), "a supplied input series can reach the copy into the input array without its length having been compared with the array's time extent: a later series that is longer runs past its row (a crash after the document, or a spill into the next input), a shorter one is zero-padded without a report")
		} else {
			r.OK("R17.9", "sim.Initialise: every supplied series is length-checked (or sizes the array) before it is copied in")
		}
	}
	if nLen == 0 {
		r.Undecided("R17.9", "sim.Initialise:input-length", p.Pos(initialise.Pos()), "no copy of a looked-up input series found")
	}

	// R17.12: the run length comes from a series the model asked for
	r.Rule("R17.12", "the run length is that of a requested input: the time extent of the input array (the last argument of the NewArray… call whose result receives the copies) derives only from len() of series returned by the lookup of a described input's name, never from len() of anything else in the request — a request may list series the model does not declare (any superset, in any order), and their lengths say nothing about the run")
	{
		n12 := 0
		for _, c := range applyCalls {
			nm := callName(c.Common())
			if nm != "Apply" && nm != "ApplySlice" && nm != "Apply1" {
				continue
			}
			recv := recvOf(c.Common())
			if recv == nil || !isNDType(recv.Type()) {
				continue
			}
			args := callArgs(c.Common())
			if len(args) < 4 {
				continue
			}
			if fc, ok := origin1(args[3]).(*ssa.Call); !ok || callName(fc.Common()) != "Find" {
				continue
			}
			var extents []ssa.Value
			var collect func(v ssa.Value, depth int)
			collect = func(v ssa.Value, depth int) {
				for _, o := range origins(v) {
					call, ok := o.(*ssa.Call)
					if !ok || depth > 3 {
						continue
					}
					a := call.Common().Args
					if strings.HasPrefix(callName(call.Common()), "NewArray") && len(a) > 0 {
						extents = append(extents, a[len(a)-1])
						continue
					}
					// a helper of the module that makes the array from one of its parameters
					if h := call.Common().StaticCallee(); h != nil && h.Blocks != nil && InModule(h) {
						for _, c3 := range callsIn(h) {
							a3 := c3.Common().Args
							if !strings.HasPrefix(callName(c3.Common()), "NewArray") || len(a3) == 0 {
								continue
							}
							for j, prm := range h.Params {
								if origin1(a3[len(a3)-1]) == ssa.Value(prm) && j < len(a) {
									extents = append(extents, a[j])
								}
							}
						}
					}
				}
			}
			collect(recv, 0)
			for _, ext := range extents {
				n12++
				var foreign ssa.Value
				dependsOn(ext, func(x ssa.Value) bool {
					lc, ok := x.(*ssa.Call)
					if !ok {
						return false
					}
					b, ok := lc.Common().Value.(*ssa.Builtin)
					if !ok || b.Name() != "len" || len(lc.Common().Args) != 1 {
						return false
					}
					for _, o := range origins(lc.Common().Args[0]) {
						if fc, ok := o.(*ssa.Call); ok && callName(fc.Common()) == "Find" {
							continue
						}
						foreign = lc
					}
					return false
				}, map[ssa.Value]bool{})
				if foreign != nil {
					r.Fail("R17.12", "sim.Initialise:run-length", p.Pos(foreign.Pos()), "the time extent of the input array is taken from len() of something other than a looked-up input of the model: a request that lists an extra series first (a superset of the inputs, which the runner must accept) then sizes the run by a series the model never reads, and the declared inputs are rejected or padded")
				} else {
					r.OK("R17.12", "sim.Initialise: the run length derives only from the lengths of looked-up inputs")
				}
			}
		}
		r.Analysed["R17.12 allocations of the input array judged"] = n12
	}

	// R17.13: elements of pointer slices of the request may be null
	r.Rule("R17.13", "a null in the request is not dereferenced: where a list of the request is declared as a slice of pointers (encoding/json decodes a `null` element to a nil pointer), every dereference of an element in package sim — a field access, a load, a method call — is dominated by a nil test of that element")
	{
		n13 := 0
		for _, fn := range p.PkgFuncs("sim") {
			if len(fn.Blocks) == 0 {
				continue
			}
			k := 0
			eachInstr(fn, func(_ *ssa.BasicBlock, _ int, ins ssa.Instruction) {
				ld, ok := ins.(*ssa.UnOp)
				if !ok || ld.Op != token.MUL {
					return
				}
				ia, ok := ld.X.(*ssa.IndexAddr)
				if !ok {
					return
				}
				st, ok := ia.X.Type().Underlying().(*types.Slice)
				if !ok {
					return
				}
				pt, ok := st.Elem().Underlying().(*types.Pointer)
				if !ok {
					return
				}
				if _, isStruct := pt.Elem().Underlying().(*types.Struct); !isStruct {
					return
				}
				// the slice type is one of package sim's own (a list of the request document)
				nt, isNamed := ia.X.Type().(*types.Named)
				if !isNamed || nt.Obj().Pkg() == nil || nt.Obj().Pkg().Path() != modPath+"/sim" {
					return
				}
				for _, ref := range refs(ld) {
					deref := false
					switch x := ref.(type) {
					case *ssa.FieldAddr:
						deref = x.X == ssa.Value(ld)
					case *ssa.UnOp:
						deref = x.Op == token.MUL && x.X == ssa.Value(ld)
					}
					if !deref {
						continue
					}
					k++
					n13++
					key := fmt.Sprintf("%s:null-element#%d", FuncKey(fn), k)
					guarded := false
					for _, g := range guardsAt(ref.Block()) {
						bo, ok := g.Cond.(*ssa.BinOp)
						if !ok || !(bo.X == ssa.Value(ld) && isNilConst(bo.Y) || bo.Y == ssa.Value(ld) && isNilConst(bo.X)) {
							continue
						}
						if bo.Op == token.NEQ && g.Val || bo.Op == token.EQL && !g.Val {
							guarded = true
						}
					}
					if guarded {
						r.OK("R17.13", FuncKey(fn)+": element of a pointer list dereferenced under a nil test")
					} else {
						r.Fail("R17.13", key, p.Pos(ref.Pos()), fmt.Sprintf("an element of the request list `%s` (a slice of pointers) is dereferenced without a nil test: a `null` entry in the JSON document decodes to a nil pointer, and the runner crashes on a well-formed request instead of answering it", nt.Obj().Name()))
					}
				}
			})
		}
		r.Analysed["R17.13 dereferences of pointer-list elements"] = n13
	}

	// R17.10: the whole request is decoded
	r.Rule("R17.10", "the request is decoded from the caller's reader itself: the argument of json.NewDecoder in the runner is the runner's own io.Reader parameter (a buffering wrapper is accepted); a limiting or transforming wrapper makes the answer depend on the size of the request")
	{
		nDec := 0
		parts := runnerParts(runner)
		for _, part := range parts {
			for _, c := range callsIn(part) {
				f := c.Common().StaticCallee()
				if f == nil || f.Name() != "NewDecoder" || fnPkg(f) == nil || fnPkg(f).Path() != "encoding/json" || len(c.Common().Args) != 1 {
					continue
				}
				nDec++
				key := FuncKey(runner) + ":decoder-source"
				v := c.Common().Args[0]
				cur := part
				bad := ""
				for depth := 0; depth < 8; depth++ {
					v = origin1(stripConv(v))
					if prm, ok := v.(*ssa.Parameter); ok && prm.Parent() == runner {
						break
					}
					if prm, ok := v.(*ssa.Parameter); ok && prm.Parent() == cur && cur != runner {
						// a step of the runner that is handed the reader: follow its (single) call site
						pi := -1
						for i, fp := range cur.Params {
							if fp == prm {
								pi = i
							}
						}
						var site ssa.CallInstruction
						var siteFn *ssa.Function
						nSites := 0
						for _, q := range parts {
							for _, c2 := range callsIn(q) {
								if c2.Common().StaticCallee() == cur {
									site, siteFn = c2, q
									nSites++
								}
							}
						}
						if nSites == 1 && pi >= 0 && pi < len(site.Common().Args) {
							v, cur = site.Common().Args[pi], siteFn
							continue
						}
						bad = "a parameter of " + cur.Name() + " whose caller could not be determined"
						break
					}
					if call, ok := v.(*ssa.Call); ok {
						g := call.Common().StaticCallee()
						if g != nil && fnPkg(g) != nil && fnPkg(g).Path() == "bufio" && strings.HasPrefix(g.Name(), "NewReader") && len(call.Common().Args) >= 1 {
							v = call.Common().Args[0]
							continue
						}
						name := callName(call.Common())
						if g != nil && fnPkg(g) != nil {
							name = fnPkg(g).Path() + "." + g.Name()
						}
						bad = "the result of " + name
						break
					}
					bad = "a value that is not the runner's reader parameter"
					break
				}
				if bad != "" {
					r.Fail("R17.10", key, p.Pos(c.Pos()), fmt.Sprintf("the request is decoded from %s, not from the caller's reader: a well-formed request can be cut short or altered before it is parsed, so it is answered with a problem document (or different results) depending on its size", bad))
				} else {
					r.OK("R17.10", FuncKey(runner)+": json.NewDecoder reads the caller's reader")
				}
			}
		}
		if nDec == 0 {
			r.Undecided("R17.10", FuncKey(runner)+":decoder-source", p.Pos(runner.Pos()), "no json.NewDecoder call found in the runner")
		}
	}

	// R17.11: a request is answered from the request alone
	{
		r.Rule("R17.11", "the runner keeps nothing between requests: no function of the module reachable from RunSingleModelJSON writes a package-level variable (a store, a map update, its address handed to a callee) or reads one that is written outside package initialisation — a buffer or cache kept at package level makes an answer depend on the requests served before (a missing input would read a previous request's values instead of zero)")
		written := map[*ssa.Global]ssa.Instruction{}
		for _, fn := range p.SrcFuncs() {
			if isInitFunc(fn) {
				continue
			}
			eachInstr(fn, func(_ *ssa.BasicBlock, _ int, ins ssa.Instruction) {
				switch x := ins.(type) {
				case *ssa.Store:
					if g := globalOf(x.Addr); g != nil && written[g] == nil {
						written[g] = ins
					}
				case *ssa.MapUpdate:
					if g := globalOf(x.Map); g != nil && written[g] == nil {
						written[g] = ins
					}
				case ssa.CallInstruction:
					ws, _ := globalAddrArgs(x)
					for _, g := range ws {
						if written[g] == nil {
							written[g] = ins
						}
					}
				}
			})
		}
		reach := moduleReach(p, []*ssa.Function{runner})
		var fns []*ssa.Function
		for fn := range reach {
			if InModule(fn) && fn.Blocks != nil && !isInitFunc(fn) {
				fns = append(fns, fn)
			}
		}
		sortFuncs(fns)
		nBad := 0
		seenKey := map[string]bool{}
		for _, w := range globalWritesFrom(p, []*ssa.Function{runner}) {
			k := fmt.Sprintf("%s:writes:%s", FuncKey(w.fn), w.g.Name())
			if seenKey[k] {
				continue
			}
			seenKey[k] = true
			nBad++
			r.Fail("R17.11", k, p.Pos(w.site.Pos()), fmt.Sprintf("package-level variable %s is written by %s while a request is served: the next request in the same process starts from what this one left there", w.g.Name(), FuncKey(w.fn)))
		}
		for _, fn := range fns {
			eachInstr(fn, func(_ *ssa.BasicBlock, _ int, ins ssa.Instruction) {
				u, ok := ins.(*ssa.UnOp)
				if !ok || u.Op != token.MUL {
					return
				}
				g := globalOf(u.X)
				if g == nil || !InModuleGlobal(g) || written[g] == nil {
					return
				}
				k := fmt.Sprintf("%s:reads:%s", FuncKey(fn), g.Name())
				if seenKey[k] {
					return
				}
				seenKey[k] = true
				nBad++
				r.Fail("R17.11", k, p.Pos(u.Pos()), fmt.Sprintf("package-level variable %s is read while a request is served and written outside package initialisation (at %s): the answer depends on earlier requests", g.Name(), p.Pos(written[g].Pos())))
			})
		}
		if nBad == 0 {
			r.OK("R17.11", fmt.Sprintf("%d module functions reachable from the runner: no package-level variable written, none read that is written outside initialisation", len(fns)))
		}
		r.Floor("R17.11", "functions reachable from the runner", len(fns), 20)
	}

	// R17.8: the conversion to the result tree is read-only on the arrays it converts
	r.Rule("R17.8", "encoding is read-only: no function of io/json (JsonSafeArray, JsonSafeValue and their helpers) may write through an array argument — element stores, mutating ND methods, or writes into the slices Shape()/NewIndex hand out that alias the array's own metadata (effect summaries, interprocedural)")
	eff := nil2eff(p)
	nEnc := 0
	for _, fn := range p.PkgFuncs("io/json") {
		if fn.Blocks == nil {
			continue
		}
		for k, prm := range fn.Params {
			if !isNDType(prm.Type()) {
				continue
			}
			nEnc++
			key := fmt.Sprintf("%s:param:%s", FuncKey(fn), prm.Name())
			if w := eff.Mutates(fn, k); w != nil {
				r.Fail("R17.8", key, p.Pos(w.site.Pos()), fmt.Sprintf("%s may modify the array it converts (%s): the results handed to the encoder, and the caller's array, change shape or content while being reported", fn.Name(), w.what))
			} else {
				r.OK("R17.8", fmt.Sprintf("%s never writes through `%s`", FuncKey(fn), prm.Name()))
			}
		}
	}
	r.Floor("R17.8", "array parameters of the JSON conversion", nEnc, 1)
	checkEmptyAxesEncode(p, r)
	checkRunnerAssertions(p, r)
}
