package main

// C08: HDF5 I/O. R08.1 lock discipline on all call paths (proof over the call
// graph, hdf5 leaves opaque); R08.2 Create never writes data; R08.3 existing
// dataset: shape check guards reuse; R08.4 file/memory selection tables agree.

import (
	"fmt"
	"go/token"
	"go/types"
	"sort"
	"strings"

	"golang.org/x/tools/go/ssa"
)

func init() { register("C08", "other", checkC08) }

const hdf5Path = "gonum.org/v1/hdf5"

const (
	lkU = 0
	lkR = 1
	lkW = 2
)

var lkName = []string{"unlocked", "read-locked", "write-locked"}

// pure-Go methods of the hdf5 package that do not enter the C library.
var hdf5Neutral = map[string]bool{"String": true, "Error": true}

// hdf5 functions that only build in-memory objects although their name starts with Create/Set.
var hdf5NotWriter = map[string]bool{
	"CreateSimpleDataspace": true, "CreateDataspace": true, "CreateDatatype": true,
	"SetDeflate": true, "SetChunk": true, "SetChunkCache": true, "SetOffset": true, "SetSize": true, "SetTag": true,
}

func isHDF5Call(c *ssa.CallCommon) (name string, ok bool) {
	f := c.StaticCallee()
	if f == nil {
		if c.IsInvoke() && c.Method.Pkg() != nil && c.Method.Pkg().Path() == hdf5Path {
			return c.Method.Name(), true
		}
		return "", false
	}
	pk := fnPkg(f)
	if pk == nil || pk.Path() != hdf5Path {
		return "", false
	}
	if f.Name() == "init" {
		return "", false
	}
	return f.Name(), true
}

// hdf5Need returns the lock level the call needs.
func hdf5Need(c *ssa.CallCommon, name string) int {
	if hdf5Neutral[name] {
		return lkU
	}
	if name == "OpenFile" {
		args := callArgs(c)
		if len(args) >= 2 {
			if v, ok := constInt(args[1]); ok && v == 0 { // F_ACC_RDONLY
				return lkR
			}
		}
		return lkW
	}
	if hdf5NotWriter[name] {
		return lkR
	}
	if hasPrefixAny(name, "Create", "Write", "Append", "Flush", "Delete", "Unlink", "Resize", "Set", "Insert", "Pack", "Move", "Link") && name != "LinkExists" {
		return lkW
	}
	return lkR
}

type lockFailure struct {
	site   ssa.Instruction
	inFn   *ssa.Function
	callee string
	need   int
	had    int
	how    string // "", "deferred-before-release"
}

type lockState struct {
	held  int
	stack []*ssa.Defer
	top   bool // unvisited
	fuzzy bool // defer stacks disagreed at a merge
}

func (s lockState) key() string {
	var sb strings.Builder
	fmt.Fprintf(&sb, "%d/%v/", s.held, s.fuzzy)
	for _, d := range s.stack {
		fmt.Fprintf(&sb, "%p,", d)
	}
	return sb.String()
}

func meetLock(a, b lockState) lockState {
	if a.top {
		return b
	}
	if b.top {
		return a
	}
	out := lockState{held: a.held, fuzzy: a.fuzzy || b.fuzzy}
	if b.held < out.held {
		out.held = b.held
	}
	n := len(a.stack)
	if len(b.stack) < n {
		n = len(b.stack)
	}
	i := 0
	for i < n && a.stack[i] == b.stack[i] {
		i++
	}
	if i != len(a.stack) || i != len(b.stack) {
		out.fuzzy = true
	}
	out.stack = append([]*ssa.Defer(nil), a.stack[:i]...)
	return out
}

type lockSummary struct {
	exit     int
	failures []lockFailure
	sites    int // hdf5 call sites seen (directly)
	touches  bool
}

type lockAnalysis struct {
	p        *Program
	mu       *ssa.Global
	memo     map[string]*lockSummary
	inProg   map[string]bool
	hdf5Seen map[ssa.Instruction]bool
	hdf5OK   map[ssa.Instruction]int // min state observed at site
	undec    []string
}

func (la *lockAnalysis) isMuCall(c *ssa.CallCommon) (op string, ok bool) {
	f := c.StaticCallee()
	if f == nil || f.Signature.Recv() == nil {
		return "", false
	}
	pk := fnPkg(f)
	if pk == nil || pk.Path() != "sync" {
		return "", false
	}
	if typeNameOf(f.Signature.Recv().Type()) != "RWMutex" && typeNameOf(f.Signature.Recv().Type()) != "Mutex" {
		return "", false
	}
	switch f.Name() {
	case "Lock", "RLock", "Unlock", "RUnlock":
	default:
		return "", false
	}
	if len(c.Args) == 0 || c.Args[0] != ssa.Value(la.mu) {
		return "", false
	}
	if typeNameOf(f.Signature.Recv().Type()) == "Mutex" && f.Name() == "Lock" {
		return "Lock", true
	}
	return f.Name(), true
}

// fnTouches: fn directly contains a lock operation, an hdf5 call or a call to a module function in io.
func (la *lockAnalysis) fnTouches(fn *ssa.Function) bool {
	t := false
	for _, c := range callsIn(fn) {
		if _, ok := la.isMuCall(c.Common()); ok {
			t = true
		}
		if _, ok := c.(*ssa.Defer); ok {
			if _, ok := isHDF5Call(c.Common()); ok {
				t = true
			}
			if f := c.Common().StaticCallee(); f != nil && InModule(f) && relPkg(fnPkg(f).Path()) == "io" {
				t = true
			}
		}
	}
	return t
}

// applyCall: transfer of a (non-deferred) call in state st. Returns new held.
func (la *lockAnalysis) applyCall(fn *ssa.Function, ins ssa.Instruction, c *ssa.CallCommon, held int, deferredCtx string, fails *[]lockFailure) int {
	if op, ok := la.isMuCall(c); ok {
		switch op {
		case "Lock":
			return lkW
		case "RLock":
			return lkR
		default:
			return lkU
		}
	}
	if name, ok := isHDF5Call(c); ok {
		need := hdf5Need(c, name)
		la.hdf5Seen[ins] = true
		if prev, ok := la.hdf5OK[ins]; !ok || held < prev {
			la.hdf5OK[ins] = held
		}
		if held < need {
			*fails = append(*fails, lockFailure{site: ins, inFn: fn, callee: "hdf5." + name, need: need, had: held, how: deferredCtx})
		}
		return held
	}
	var callees []*ssa.Function
	if f := c.StaticCallee(); f != nil {
		callees = []*ssa.Function{f}
	} else if _, isB := c.Value.(*ssa.Builtin); isB {
		return held
	} else {
		callees = la.p.Callees(ins.(ssa.CallInstruction))
	}
	res := -1
	for _, f := range callees {
		if f.Blocks == nil || !InModule(f) {
			continue // stdlib / external leaf: does not touch the package lock (it is unexported) nor hdf5 (checked by isHDF5Call)
		}
		sum := la.summary(f, held)
		for _, fl := range sum.failures {
			*fails = append(*fails, fl)
		}
		if res < 0 || sum.exit < res {
			res = sum.exit
		}
	}
	if res < 0 {
		return held
	}
	return res
}

// summary analyses fn with the lock in state `entry` at entry.
func (la *lockAnalysis) summary(fn *ssa.Function, entry int) *lockSummary {
	key := fmt.Sprintf("%p/%d", fn, entry)
	if s, ok := la.memo[key]; ok {
		return s
	}
	if la.inProg[key] {
		return &lockSummary{exit: entry}
	}
	la.inProg[key] = true
	defer delete(la.inProg, key)

	sum := &lockSummary{exit: -1}
	in := map[*ssa.BasicBlock]lockState{}
	for _, b := range fn.Blocks {
		in[b] = lockState{top: true}
	}
	if len(fn.Blocks) == 0 {
		sum.exit = entry
		la.memo[key] = sum
		return sum
	}
	in[fn.Blocks[0]] = lockState{held: entry}
	work := []*ssa.BasicBlock{fn.Blocks[0]}
	failsAt := map[ssa.Instruction][]lockFailure{}
	exits := map[*ssa.BasicBlock]int{}
	iter := 0
	for len(work) > 0 {
		iter++
		if iter > 10000 {
			la.undec = append(la.undec, "lock dataflow did not converge in "+FuncKey(fn))
			break
		}
		b := work[0]
		work = work[1:]
		st := in[b]
		if st.top {
			continue
		}
		cur := lockState{held: st.held, stack: append([]*ssa.Defer(nil), st.stack...), fuzzy: st.fuzzy}
		for _, ins := range b.Instrs {
			switch x := ins.(type) {
			case *ssa.Defer:
				dup := false
				for _, d := range cur.stack {
					if d == x {
						dup = true
					}
				}
				if !dup {
					cur.stack = append(cur.stack, x)
				}
			case *ssa.RunDefers:
				if cur.fuzzy && la.fnTouches(fn) {
					la.undec = append(la.undec, fmt.Sprintf("%s: deferred calls differ between merging paths; order of release vs. hdf5 calls undecided", FuncKey(fn)))
				}
				for i := len(cur.stack) - 1; i >= 0; i-- {
					d := cur.stack[i]
					var fl []lockFailure
					cur.held = la.applyCall(fn, d, d.Common(), cur.held, "deferred", &fl)
					failsAt[d] = mergeFails(failsAt[d], fl)
				}
				cur.stack = nil
			case *ssa.Go:
				// the goroutine does not inherit the lock: its target is analysed as a root
			case ssa.CallInstruction:
				var fl []lockFailure
				cur.held = la.applyCall(fn, ins, x.Common(), cur.held, "", &fl)
				failsAt[ins] = mergeFails(failsAt[ins], fl)
			case *ssa.Return:
				exits[b] = cur.held
			case *ssa.Panic:
				// no normal exit
			}
		}
		for _, s := range b.Succs {
			n := meetLock(in[s], cur)
			if in[s].top || n.key() != in[s].key() {
				in[s] = n
				work = append(work, s)
			}
		}
	}
	for _, h := range exits {
		if sum.exit < 0 || h < sum.exit {
			sum.exit = h
		}
	}
	if sum.exit < 0 {
		sum.exit = entry
	}
	// stable order
	var inss []ssa.Instruction
	for ins := range failsAt {
		inss = append(inss, ins)
	}
	sort.Slice(inss, func(i, j int) bool { return inss[i].Pos() < inss[j].Pos() })
	for _, ins := range inss {
		sum.failures = append(sum.failures, failsAt[ins]...)
	}
	la.memo[key] = sum
	return sum
}

func mergeFails(a, b []lockFailure) []lockFailure {
	for _, f := range b {
		dup := false
		for _, g := range a {
			if g.site == f.site {
				dup = true
			}
		}
		if !dup {
			a = append(a, f)
		}
	}
	return a
}

// siteKey: function key + callee + ordinal of that callee within the function (no line numbers).
func siteKey(fn *ssa.Function, site ssa.Instruction, callee string) string {
	ord := 0
	found := false
	eachInstr(fn, func(_ *ssa.BasicBlock, _ int, ins ssa.Instruction) {
		if found {
			return
		}
		if c, ok := ins.(ssa.CallInstruction); ok {
			n := ""
			if nm, ok := isHDF5Call(c.Common()); ok {
				n = "hdf5." + nm
			} else {
				n = callName(c.Common())
			}
			if n == callee {
				ord++
			}
		}
		if ins == site {
			found = true
		}
	})
	return fmt.Sprintf("%s:%s#%d", FuncKey(fn), callee, ord)
}

// lockRoots: functions that may be entered with the lock not held.
func lockRoots(p *Program) []*ssa.Function {
	valueUsed := map[*ssa.Function]bool{}
	for _, fn := range p.SrcFuncs() {
		eachInstr(fn, func(_ *ssa.BasicBlock, _ int, ins ssa.Instruction) {
			var ops [16]*ssa.Value
			for _, op := range ins.Operands(ops[:0]) {
				if op == nil || *op == nil {
					continue
				}
				f, ok := (*op).(*ssa.Function)
				if !ok {
					if mc, ok := (*op).(*ssa.MakeClosure); ok {
						f, _ = mc.Fn.(*ssa.Function)
					}
					if f == nil {
						continue
					}
				}
				// the callee operand of a plain call is not a value use
				if c, ok := ins.(*ssa.Call); ok && c.Common().Value == *op {
					continue
				}
				if c, ok := ins.(*ssa.Defer); ok && c.Common().Value == *op {
					continue
				}
				valueUsed[f] = true
			}
			if g, ok := ins.(*ssa.Go); ok {
				if f := g.Common().StaticCallee(); f != nil {
					valueUsed[f] = true
				}
				if mc, ok := g.Common().Value.(*ssa.MakeClosure); ok {
					if f, ok := mc.Fn.(*ssa.Function); ok {
						valueUsed[f] = true
					}
				}
			}
		})
	}
	var roots []*ssa.Function
	for _, fn := range p.SrcFuncs() {
		isRoot := false
		switch {
		case fn.Parent() != nil:
			// closures: root if used as a value other than being called in place by the parent, or go'd.
			isRoot = true
			// a closure only ever deferred/called directly by its parent inherits the parent's state through applyCall
			onlyDirect := true
			for _, r := range refsOfClosure(fn) {
				switch r.(type) {
				case *ssa.Call, *ssa.Defer:
				default:
					onlyDirect = false
				}
			}
			if onlyDirect && len(refsOfClosure(fn)) > 0 {
				isRoot = false
			}
		case fn.Name() == "main" || fn.Name() == "init" || strings.HasPrefix(fn.Name(), "init#"):
			isRoot = true
		case fn.Object() != nil && fn.Object().Exported():
			isRoot = true
		case fn.Signature.Recv() != nil:
			// unexported method: root if its receiver type could satisfy an interface call — keep simple: root iff value-used
			isRoot = valueUsed[fn]
		default:
			isRoot = valueUsed[fn]
		}
		if valueUsed[fn] {
			isRoot = true
		}
		if isRoot {
			roots = append(roots, fn)
		}
	}
	return roots
}

// refsOfClosure returns the instructions using the MakeClosure(s) of fn in its parent.
func refsOfClosure(fn *ssa.Function) []ssa.Instruction {
	var out []ssa.Instruction
	par := fn.Parent()
	if par == nil {
		return nil
	}
	eachInstr(par, func(_ *ssa.BasicBlock, _ int, ins ssa.Instruction) {
		if mc, ok := ins.(*ssa.MakeClosure); ok && mc.Fn == fn {
			out = append(out, refs(mc)...)
		}
		// closures without free variables are referenced as plain *ssa.Function
		var ops [16]*ssa.Value
		for _, op := range ins.Operands(ops[:0]) {
			if op != nil && *op == ssa.Value(fn) {
				out = append(out, ins)
			}
		}
	})
	return out
}

func checkC08(p *Program, r *Report) {
	r.Rule("R08.1", "lock discipline: forward dataflow over {unlocked,R,W} with LIFO defer modelling, interprocedural by per-entry-state summaries; every call into gonum hdf5 needs ≥R, file-mutating calls need W; every function enterable without the lock (exported, value-used, go target, main/init) is analysed from 'unlocked'; outside package io hdf5 calls are accepted only where statically no second goroutine can exist")
	r.Rule("R08.2", "Create never writes data: no hdf5 Write/WriteSubset/Append reachable through module calls from any Create method")
	r.Rule("R08.3", "open-or-create: a dataset obtained from OpenDataset is returned only on the true edge of a shape comparison that depends on its extent and on the requested shape; the comparison function returns true only as the result of comparing both")
	r.Rule("R08.4", "loadSubset: the per-dimension count of the file hyperslab and the extent of the result/memory space are produced by the same function of (selection, extent)")
	r.Assumptions = append(r.Assumptions,
		"hdf5 API classification (reader/writer/neutral) is a table in tool/c08.go: writer = CreateFile, OpenFile with flags≠F_ACC_RDONLY, names starting Create/Write/Append/Flush/Delete/Resize except in-memory constructors (CreateSimpleDataspace, NewPropList, SetDeflate, …)",
		"not decided: round-trip values, selection arithmetic (sliceSize floors the count for step>1: observed, value property), dropped read/write errors")

	ioPkg := p.SSAPkg[modPath+"/io"]
	if ioPkg == nil {
		r.Undecided("R08.1", "pkg:io", "-", "package io not loaded")
		return
	}
	// the package lock: unique package-level sync.(RW)Mutex of io
	var mus []*ssa.Global
	for _, m := range ioPkg.Members {
		if g, ok := m.(*ssa.Global); ok {
			tn := namedOf(g.Type())
			if tn != nil && tn.Obj().Pkg() != nil && tn.Obj().Pkg().Path() == "sync" && (tn.Obj().Name() == "RWMutex" || tn.Obj().Name() == "Mutex") {
				mus = append(mus, g)
			}
		}
	}
	if len(mus) != 1 {
		r.Undecided("R08.1", "package-lock", "-", fmt.Sprintf("expected exactly one package-level mutex in io, found %d", len(mus)))
		return
	}
	la := &lockAnalysis{p: p, mu: mus[0], memo: map[string]*lockSummary{}, inProg: map[string]bool{}, hdf5Seen: map[ssa.Instruction]bool{}, hdf5OK: map[ssa.Instruction]int{}}

	roots := lockRoots(p)
	r.Analysed["R08.1 root functions analysed from 'unlocked'"] = len(roots)
	type vio struct {
		f    lockFailure
		root *ssa.Function
	}
	bySite := map[ssa.Instruction]vio{}
	for _, root := range roots {
		sum := la.summary(root, lkU)
		for _, f := range sum.failures {
			if _, ok := bySite[f.site]; !ok {
				bySite[f.site] = vio{f, root}
			}
		}
	}
	// all hdf5 call sites in module source (must all have been visited)
	total := 0
	inIO := 0
	for _, fn := range p.SrcFuncs() {
		if strings.HasPrefix(fn.Name(), "init") && fn.Synthetic != "" {
			continue
		}
		eachInstr(fn, func(_ *ssa.BasicBlock, _ int, ins ssa.Instruction) {
			c, ok := ins.(ssa.CallInstruction)
			if !ok {
				return
			}
			name, ok := isHDF5Call(c.Common())
			if !ok || hdf5Neutral[name] {
				return
			}
			total++
			if relPkg(fnPkg(fn).Path()) == "io" {
				inIO++
			}
			if !la.hdf5Seen[ins] {
				// not reachable from any root: dead code or only reachable through an unanalysed path
				if reachableFromRoots(p, fn, roots) {
					r.Undecided("R08.1", siteKey(fn, ins, "hdf5."+name), p.Pos(ins.Pos()), "hdf5 call site not visited by the lock dataflow")
				}
				return
			}
			if v, bad := bySite[ins]; bad {
				_ = v
				return
			}
			r.OK("R08.1", fmt.Sprintf("%s: hdf5.%s in state %s", FuncKey(fn), name, lkName[la.hdf5OK[ins]]))
		})
	}
	r.Floor("R08.1", "hdf5 call sites in io", inIO, 200)
	r.Analysed["R08.1 hdf5 call sites (module)"] = total

	// report failures
	var sites []ssa.Instruction
	for s := range bySite {
		sites = append(sites, s)
	}
	sort.Slice(sites, func(i, j int) bool { return sites[i].Pos() < sites[j].Pos() })
	for _, s := range sites {
		v := bySite[s]
		f := v.f
		rel := relPkg(fnPkg(f.inFn).Path())
		key := siteKey(f.inFn, f.site, f.callee)
		if rel != "io" {
			if ok, why := singleThreadedAt(p, f.inFn, f.site); ok {
				r.OK("R08.1", fmt.Sprintf("%s: %s outside io accepted: %s", FuncKey(f.inFn), f.callee, why))
				r.Exceptions = append(r.Exceptions, fmt.Sprintf("%s: %s without the (unexported) lock: %s", FuncKey(f.inFn), f.callee, why))
				continue
			}
		}
		how := ""
		if f.how == "deferred" {
			how = " (deferred call runs after the deferred release, or no release registered before it)"
		}
		r.Fail("R08.1", key, p.Pos(f.site.Pos()),
			fmt.Sprintf("%s needs the package lock %s but it is %s here%s; entry point: %s", f.callee, lkName[f.need], lkName[f.had], how, FuncKey(v.root)))
	}
	for _, u := range la.undec {
		r.Undecided("R08.1", "dataflow:"+u, "-", u)
	}
	// lock-balance: every exported io function returns with the lock released
	for _, root := range roots {
		if relPkg(fnPkg(root).Path()) != "io" {
			continue
		}
		sum := la.summary(root, lkU)
		if isLockHelper(la, root) {
			continue
		}
		if sum.exit != lkU {
			r.Fail("R08.1", "balance:"+FuncKey(root), p.Pos(root.Pos()), fmt.Sprintf("returns with the package lock still %s on some path", lkName[sum.exit]))
		}
	}

	checkR082(p, r, la)
	checkR083(p, r)
	checkR084(p, r)
}

func isLockHelper(la *lockAnalysis, fn *ssa.Function) bool {
	// a function whose only effect is to acquire: contains a mu call and no hdf5 call
	has := false
	eachInstr(fn, func(_ *ssa.BasicBlock, _ int, ins ssa.Instruction) {
		if c, ok := ins.(ssa.CallInstruction); ok {
			if _, ok := la.isMuCall(c.Common()); ok {
				has = true
			}
		}
	})
	return has && len(fn.Blocks) <= 2
}

func reachableFromRoots(p *Program, fn *ssa.Function, roots []*ssa.Function) bool {
	cg := p.CallGraph()
	seen := map[*ssa.Function]bool{}
	var work []*ssa.Function
	for _, r := range roots {
		work = append(work, r)
		seen[r] = true
	}
	for len(work) > 0 {
		f := work[len(work)-1]
		work = work[:len(work)-1]
		if f == fn {
			return true
		}
		n := cg.Nodes[f]
		if n == nil {
			continue
		}
		for _, e := range n.Out {
			if !seen[e.Callee.Func] {
				seen[e.Callee.Func] = true
				work = append(work, e.Callee.Func)
			}
		}
	}
	return false
}

// goReach: functions from which a `go` statement in a module function is reachable.
func goReach(p *Program) map[*ssa.Function]bool {
	cg := p.CallGraph()
	res := map[*ssa.Function]bool{}
	var work []*ssa.Function
	for fn := range p.AllFuncs {
		if !InModule(fn) {
			continue
		}
		has := false
		eachInstr(fn, func(_ *ssa.BasicBlock, _ int, ins ssa.Instruction) {
			if _, ok := ins.(*ssa.Go); ok {
				has = true
			}
		})
		if has {
			res[fn] = true
			work = append(work, fn)
		}
	}
	for len(work) > 0 {
		f := work[len(work)-1]
		work = work[:len(work)-1]
		n := cg.Nodes[f]
		if n == nil {
			continue
		}
		for _, e := range n.In {
			c := e.Caller.Func
			if !res[c] {
				res[c] = true
				work = append(work, c)
			}
		}
	}
	return res
}

var goReachCache = map[*Program]map[*ssa.Function]bool{}

// singleThreadedAt: the call site is in a main package and no goroutine started by module code can exist when it executes.
func singleThreadedAt(p *Program, fn *ssa.Function, site ssa.Instruction) (bool, string) {
	pk := fnPkg(fn)
	if pk == nil || pk.Name() != "main" {
		return false, ""
	}
	gr := goReachCache[p]
	if gr == nil {
		gr = goReach(p)
		goReachCache[p] = gr
	}
	mainPkg := p.SSAPkg[pk.Path()]
	mainFn := mainPkg.Func("main")
	if mainFn == nil {
		return false, ""
	}
	if !gr[mainFn] {
		// also the init functions of the program must not start goroutines: approximated by module-wide check of init
		return true, "program " + relPkg(pk.Path()) + " has no reachable go statement in module code"
	}
	if fn != mainFn {
		return false, ""
	}
	// every instruction that can execute before site must not reach a go
	for _, b := range fn.Blocks {
		for _, ins := range b.Instrs {
			if ins == site {
				continue
			}
			if !canReach(ins, site) {
				continue
			}
			if _, ok := ins.(*ssa.Go); ok {
				return false, ""
			}
			if c, ok := ins.(ssa.CallInstruction); ok {
				for _, cal := range p.Callees(c) {
					if gr[cal] {
						return false, ""
					}
				}
			}
		}
	}
	return true, "in main.main before any instruction that can reach a go statement"
}

// ---- R08.2 ----

func hdf5Reach(p *Program, fn *ssa.Function, seen map[*ssa.Function]bool, out map[string]ssa.Instruction) {
	if seen[fn] {
		return
	}
	seen[fn] = true
	for _, c := range callsIn(fn) {
		if name, ok := isHDF5Call(c.Common()); ok {
			if _, dup := out[name]; !dup {
				out[name] = c
			}
			continue
		}
		for _, cal := range p.Callees(c) {
			if InModule(cal) && cal.Blocks != nil {
				hdf5Reach(p, cal, seen, out)
			}
		}
	}
}

func checkR082(p *Program, r *Report, la *lockAnalysis) {
	n := 0
	for _, fn := range p.PkgFuncs("io") {
		if fn.Name() != "Create" || fn.Signature.Recv() == nil {
			continue
		}
		n++
		reach := map[string]ssa.Instruction{}
		hdf5Reach(p, fn, map[*ssa.Function]bool{}, reach)
		bad := false
		var names []string
		for name := range reach {
			names = append(names, name)
		}
		sort.Strings(names)
		for _, name := range names {
			if name == "Write" || name == "WriteSubset" || name == "Append" {
				bad = true
				r.Fail("R08.2", FuncKey(fn)+":hdf5."+name, p.Pos(reach[name].Pos()), "Create can reach hdf5."+name+": creating an existing dataset must never change its contents")
			}
		}
		if !bad {
			r.OK("R08.2", fmt.Sprintf("%s reaches only {%s}", FuncKey(fn), strings.Join(names, ",")))
		}
	}
	r.Floor("R08.2", "Create methods", n, 8)
}

// ---- R08.3 ----

// dependsOn: v is data-dependent (through SSA operands, loads of locals stored to) on target, within one function.
func dependsOn(v ssa.Value, target func(ssa.Value) bool, seen map[ssa.Value]bool) bool {
	if v == nil || seen[v] {
		return false
	}
	seen[v] = true
	if target(v) {
		return true
	}
	switch x := v.(type) {
	case *ssa.Const, *ssa.Global, *ssa.Function, *ssa.Builtin:
		return false
	case *ssa.Parameter, *ssa.FreeVar:
		return false
	case *ssa.Alloc:
		// depends on everything stored into it (directly, or element-wise for array literals)
		for _, ref := range refs(x) {
			if st, ok := ref.(*ssa.Store); ok && st.Addr == x {
				if dependsOn(st.Val, target, seen) {
					return true
				}
			}
		}
		return dependsOnStoresInto(x, target, seen)
	case ssa.Instruction:
		if u, ok := v.(*ssa.UnOp); ok && u.Op == token.MUL {
			if a, ok := u.X.(*ssa.Alloc); ok && allocIsSimpleCell(a) {
				for _, sv := range reachingStores(a, u) {
					if sv != nil && dependsOn(sv, target, seen) {
						return true
					}
				}
				return false
			}
		}
		var ops [16]*ssa.Value
		for _, op := range x.Operands(ops[:0]) {
			if op != nil && *op != nil && dependsOn(*op, target, seen) {
				return true
			}
		}
		// loads from an address whose element stores depend
		if u, ok := v.(*ssa.UnOp); ok && u.Op == token.MUL {
			if ia, ok := u.X.(*ssa.IndexAddr); ok {
				if dependsOnStoresInto(ia.X, target, seen) {
					return true
				}
			}
		}
	}
	return false
}

func dependsOnStoresInto(base ssa.Value, target func(ssa.Value) bool, seen map[ssa.Value]bool) bool {
	for _, ref := range refs(base) {
		if ia, ok := ref.(*ssa.IndexAddr); ok {
			for _, r2 := range refs(ia) {
				if st, ok := r2.(*ssa.Store); ok && st.Addr == ia {
					if dependsOn(st.Val, target, seen) {
						return true
					}
				}
			}
		}
	}
	return false
}

func checkR083(p *Program, r *Report) {
	n := 0
	for _, fn := range p.PkgFuncs("io") {
		var opens []ssa.CallInstruction
		creates := false
		for _, c := range callsIn(fn) {
			if name, ok := isHDF5Call(c.Common()); ok {
				if name == "OpenDataset" || name == "OpenDatasetWith" {
					opens = append(opens, c)
				}
				if name == "CreateDataset" || name == "CreateDatasetWith" {
					creates = true
				}
				continue
			}
			for _, cal := range p.Callees(c) {
				if InModule(cal) {
					reach := map[string]ssa.Instruction{}
					hdf5Reach(p, cal, map[*ssa.Function]bool{}, reach)
					if reach["CreateDataset"] != nil || reach["CreateDatasetWith"] != nil {
						creates = true
					}
				}
			}
		}
		// open-or-create pattern with a requested shape
		var shapeParam *ssa.Parameter
		for _, prm := range fn.Params {
			if s, ok := prm.Type().Underlying().(*types.Slice); ok {
				if b, ok := s.Elem().Underlying().(*types.Basic); ok && b.Kind() == types.Int {
					shapeParam = prm
				}
			}
		}
		if len(opens) == 0 || !creates || shapeParam == nil {
			continue
		}
		// is the function returning a dataset?
		retDS := false
		res := fn.Signature.Results()
		for i := 0; i < res.Len(); i++ {
			if typeNameOf(res.At(i).Type()) == "Dataset" {
				retDS = true
			}
		}
		if !retDS {
			continue
		}
		n++
		for _, open := range opens {
			openVal := open.Value()
			isOpened := func(v ssa.Value) bool {
				if v == ssa.Value(openVal) {
					return true
				}
				if e, ok := v.(*ssa.Extract); ok && e.Tuple == ssa.Value(openVal) && e.Index == 0 {
					return true
				}
				return false
			}
			for _, ret := range returnsOf(fn) {
				for _, res := range ret.Results {
					if typeNameOf(res.Type()) != "Dataset" || isNilConst(res) {
						continue
					}
					if !dependsOn(res, isOpened, map[ssa.Value]bool{}) {
						continue
					}
					// need a guard: call to a module bool function taking (opened ds, shape) with true edge
					okGuard := false
					for _, g := range guardsAt(ret.Block()) {
						call, ok := g.Cond.(*ssa.Call)
						if !ok || !g.Val {
							continue
						}
						hasDS, hasShape := false, false
						for _, a := range call.Common().Args {
							if dependsOn(a, isOpened, map[ssa.Value]bool{}) {
								hasDS = true
							}
							if a == ssa.Value(shapeParam) {
								hasShape = true
							}
						}
						if !hasDS || !hasShape {
							continue
						}
						cal := call.Common().StaticCallee()
						if cal == nil || !InModule(cal) {
							continue
						}
						if bad := shapeCompareSound(p, cal); bad != "" {
							r.Fail("R08.3", FuncKey(cal)+":compare", p.Pos(cal.Pos()), bad)
							okGuard = true // reported at the comparison function
							continue
						}
						okGuard = true
					}
					key := FuncKey(fn) + ":return-opened-dataset"
					if okGuard {
						r.OK("R08.3", key+" guarded by shape comparison")
					} else {
						r.Fail("R08.3", key, p.Pos(ret.Pos()), "an existing dataset (OpenDataset result) is returned without being dominated by the true edge of a shape comparison with the requested shape: a different shape must be refused")
					}
				}
			}
		}
	}
	r.Floor("R08.3", "open-or-create functions", n, 1)
}

// shapeCompareSound: every return of the bool function is either constant false or a value depending on both
// the dataset's extent (SimpleExtentDims) and the shape parameter.
func shapeCompareSound(p *Program, fn *ssa.Function) string {
	var shapeParam, dsParam *ssa.Parameter
	for _, prm := range fn.Params {
		if _, ok := prm.Type().Underlying().(*types.Slice); ok {
			shapeParam = prm
		}
		if typeNameOf(prm.Type()) == "Dataset" {
			dsParam = prm
		}
	}
	if shapeParam == nil || dsParam == nil {
		return "comparison function does not take (dataset, shape)"
	}
	isDims := func(v ssa.Value) bool {
		if c, ok := v.(*ssa.Call); ok {
			if name, ok := isHDF5Call(c.Common()); ok && (name == "SimpleExtentDims") {
				return true
			}
		}
		return false
	}
	for _, ret := range returnsOf(fn) {
		if len(ret.Results) != 1 {
			continue
		}
		for _, v := range origins(ret.Results[0]) {
			if v == nil {
				continue // zero value = false
			}
			if c, ok := v.(*ssa.Const); ok {
				if c.Value != nil && c.Value.String() == "false" {
					continue
				}
				return fmt.Sprintf("%s can return constant true without comparing shapes", FuncKey(fn))
			}
			if !dependsOn(v, isDims, map[ssa.Value]bool{}) || !dependsOn(v, func(x ssa.Value) bool { return x == ssa.Value(shapeParam) }, map[ssa.Value]bool{}) {
				return fmt.Sprintf("%s returns a value that does not depend on both the dataset extent and the requested shape", FuncKey(fn))
			}
		}
	}
	return ""
}

// ---- R08.4 ----

// countProducers: the set of module functions whose results flow into stores to elements of v (slice) / into v.
func elemProducers(p *Program, fn *ssa.Function, isBase func(ssa.Value) bool) map[string]bool {
	out := map[string]bool{}
	eachInstr(fn, func(_ *ssa.BasicBlock, _ int, ins ssa.Instruction) {
		st, ok := ins.(*ssa.Store)
		if !ok {
			return
		}
		ia, ok := st.Addr.(*ssa.IndexAddr)
		if !ok || !isBase(ia.X) {
			return
		}
		collectProducers(st.Val, out, map[ssa.Value]bool{})
	})
	return out
}

func collectProducers(v ssa.Value, out map[string]bool, seen map[ssa.Value]bool) {
	if v == nil || seen[v] {
		return
	}
	seen[v] = true
	switch x := v.(type) {
	case *ssa.Call:
		if f := x.Common().StaticCallee(); f != nil && InModule(f) {
			out[FuncKey(f)] = true
			return
		}
	case *ssa.Convert:
		collectProducers(x.X, out, seen)
	case *ssa.ChangeType:
		collectProducers(x.X, out, seen)
	case *ssa.Phi:
		for _, e := range x.Edges {
			collectProducers(e, out, seen)
		}
	case *ssa.UnOp:
		if x.Op == token.MUL {
			if ia, ok := x.X.(*ssa.IndexAddr); ok {
				out["elem-of:"+ia.X.Name()+":"+ia.X.Type().String()] = true
				return
			}
		}
		out["other"] = true
	default:
		if _, ok := v.(*ssa.Const); !ok {
			out["other"] = true
		}
	}
}

func checkR084(p *Program, r *Report) {
	n := 0
	for _, fn := range p.PkgFuncs("io") {
		var sel, rd ssa.CallInstruction
		for _, c := range callsIn(fn) {
			if name, ok := isHDF5Call(c.Common()); ok {
				if name == "SelectHyperslab" {
					sel = c
				}
				if name == "ReadSubset" {
					rd = c
				}
			}
		}
		if sel == nil || rd == nil {
			continue
		}
		n++
		key := FuncKey(fn) + ":selection"
		// count argument (3rd non-receiver arg)
		args := callArgs(sel.Common())
		if len(args) < 4 {
			r.Undecided("R08.4", key, p.Pos(sel.Pos()), "unexpected SelectHyperslab arity")
			continue
		}
		count := args[2]
		// count must come from a module function (makeHyperslab) result #k
		ex, ok := count.(*ssa.Extract)
		var maker *ssa.Function
		var idx int
		if ok {
			if c, ok := ex.Tuple.(*ssa.Call); ok {
				maker = c.Common().StaticCallee()
				idx = ex.Index
			}
		}
		if maker == nil || !InModule(maker) {
			r.Undecided("R08.4", key, p.Pos(sel.Pos()), "count argument of SelectHyperslab is not the result of a module function; cannot compare with the memory extent")
			continue
		}
		// inside maker: producers of stores into the idx-th result
		var resVal []ssa.Value
		for _, ret := range returnsOf(maker) {
			if idx < len(ret.Results) {
				resVal = append(resVal, ret.Results[idx])
			}
		}
		isRes := func(v ssa.Value) bool {
			for _, rv := range resVal {
				if v == rv {
					return true
				}
				// named results: load of alloc
				if u, ok := rv.(*ssa.UnOp); ok && u.Op == token.MUL {
					if u2, ok := v.(*ssa.UnOp); ok && u2.Op == token.MUL && u2.X == u.X {
						return true
					}
				}
			}
			return false
		}
		fileProd := elemProducers(p, maker, isRes)
		// memory extent: producers of stores into the shape slice passed to NewArray*/CreateSimpleDataspace in fn
		var shapeVals []ssa.Value
		for _, c := range callsIn(fn) {
			nm := callName(c.Common())
			if strings.HasPrefix(nm, "NewArray") && len(c.Common().Args) == 1 {
				shapeVals = append(shapeVals, c.Common().Args[0])
			}
		}
		if len(shapeVals) == 0 {
			r.Undecided("R08.4", key, p.Pos(rd.Pos()), "no result array allocation found in the function reading a subset")
			continue
		}
		memProd := elemProducers(p, fn, func(v ssa.Value) bool {
			for _, s := range shapeVals {
				if v == s {
					return true
				}
			}
			return false
		})
		// compare: module-function producers must be equal and non-empty
		fp, mp := modProducers(fileProd), modProducers(memProd)
		if len(fp) == 0 && len(mp) == 0 {
			r.Notes = append(r.Notes, FuncKey(fn)+": selection counts are computed inline on both sides; R08.4 cannot compare them (not failed)")
			continue
		}
		if strings.Join(fp, ",") != strings.Join(mp, ",") {
			r.Fail("R08.4", key, p.Pos(sel.Pos()), fmt.Sprintf("file selection count is computed by {%s} but the memory extent by {%s}: the two selections may differ in cardinality", strings.Join(fp, ","), strings.Join(mp, ",")))
		} else {
			r.OK("R08.4", fmt.Sprintf("%s: file count and memory extent both computed by %s", FuncKey(fn), strings.Join(fp, ",")))
		}
	}
	r.Floor("R08.4", "loadSubset functions", n, 8)
}

func modProducers(m map[string]bool) []string {
	var out []string
	for k := range m {
		if !strings.HasPrefix(k, "elem-of:") && k != "other" {
			out = append(out, k)
		}
	}
	sort.Strings(out)
	return out
}
