package main

import (
	"fmt"
	"go/constant"
	"go/token"
	"go/types"
	"sort"
	"strings"

	"golang.org/x/tools/go/callgraph"
	"golang.org/x/tools/go/ssa"
)

// ---------- call resolution ----------

type calleeIndex struct {
	bySite map[ssa.CallInstruction][]*ssa.Function
}

func (p *Program) calleeIdx(g *callgraph.Graph) *calleeIndex {
	idx := &calleeIndex{bySite: map[ssa.CallInstruction][]*ssa.Function{}}
	for _, n := range g.Nodes {
		for _, e := range n.Out {
			if e.Site == nil {
				continue
			}
			idx.bySite[e.Site] = append(idx.bySite[e.Site], e.Callee.Func)
		}
	}
	return idx
}

var vtaIdxCache = map[*Program]*calleeIndex{}
var chaIdxCache = map[*Program]*calleeIndex{}

// Callees returns the possible callees of a call site: the static callee, or
// all VTA callees of an interface/dynamic call (sorted by key).
func (p *Program) Callees(site ssa.CallInstruction) []*ssa.Function {
	if f := site.Common().StaticCallee(); f != nil {
		return []*ssa.Function{f}
	}
	idx := vtaIdxCache[p]
	if idx == nil {
		idx = p.calleeIdx(p.CallGraph())
		vtaIdxCache[p] = idx
	}
	out := append([]*ssa.Function(nil), idx.bySite[site]...)
	sortFuncs(out)
	return out
}

// CalleesCHA: open-world resolution (any type in the program implementing the interface).
func (p *Program) CalleesCHA(site ssa.CallInstruction) []*ssa.Function {
	if f := site.Common().StaticCallee(); f != nil {
		return []*ssa.Function{f}
	}
	idx := chaIdxCache[p]
	if idx == nil {
		idx = p.calleeIdx(p.CHA())
		chaIdxCache[p] = idx
	}
	out := append([]*ssa.Function(nil), idx.bySite[site]...)
	sortFuncs(out)
	return out
}

func sortFuncs(fs []*ssa.Function) {
	sort.Slice(fs, func(i, j int) bool { return FuncKey(fs[i]) < FuncKey(fs[j]) })
}

// callName returns the method/function name of a call (invoke or static).
func callName(c *ssa.CallCommon) string {
	if c.IsInvoke() {
		return c.Method.Name()
	}
	if f := c.StaticCallee(); f != nil {
		if a := accessorOf(f); a != nil {
			return a.method
		}
		return f.Name()
	}
	if b, ok := c.Value.(*ssa.Builtin); ok {
		return b.Name()
	}
	return ""
}

// callPkg returns the package path of the (static or interface) callee.
func callPkg(c *ssa.CallCommon) string {
	if c.IsInvoke() {
		if c.Method.Pkg() != nil {
			return c.Method.Pkg().Path()
		}
		return ""
	}
	if f := c.StaticCallee(); f != nil {
		if pk := fnPkg(f); pk != nil {
			return pk.Path()
		}
	}
	return ""
}

// recvOf returns the receiver value of a method call (interface or static).
func recvOf(c *ssa.CallCommon) ssa.Value {
	if c.IsInvoke() {
		return c.Value
	}
	if f := c.StaticCallee(); f != nil {
		if a := accessorOf(f); a != nil && a.series < len(c.Args) {
			return c.Args[a.series]
		}
		if f.Signature.Recv() != nil && len(c.Args) > 0 {
			return c.Args[0]
		}
	}
	return nil
}

// callArgs returns the non-receiver arguments.
func callArgs(c *ssa.CallCommon) []ssa.Value {
	if c.IsInvoke() {
		return c.Args
	}
	if f := c.StaticCallee(); f != nil {
		if a := accessorOf(f); a != nil {
			out := []ssa.Value{c.Args[a.index]}
			if a.value >= 0 {
				out = append(out, c.Args[a.value])
			}
			return out
		}
		if f.Signature.Recv() != nil && len(c.Args) > 0 {
			return c.Args[1:]
		}
	}
	return c.Args
}

// An accessor is a one-line helper of a models package that reads or writes one element of a series it is handed
// — `func at(s data.ND1Float64, idx []int) float64 { return s.Get(idx) }`, or the same as a method of a cursor type
// (`func (step seriesStep) write(s data.ND1Float64, v float64) { s.Set(step, v) }`). Calls of an accessor are read
// by every rule as the element access they stand for: callName gives Get/Get1/Set/Set1, recvOf the series argument,
// callArgs the index (vector or number) and, for a write, the value. What qualifies: a single basic block whose only
// call is that access, with the series, the index and the value each being one of the helper's own parameters, the
// read's result returned unchanged, and nothing stored anywhere.
type accessor struct {
	method               string
	series, index, value int // positions in the call's argument list (receiver first); value = -1 for reads
}

var accessorCache = map[*ssa.Function]*accessor{}
var accessorSeen = map[*ssa.Function]bool{}

func accessorOf(f *ssa.Function) *accessor {
	if accessorSeen[f] {
		return accessorCache[f]
	}
	accessorSeen[f] = true
	if f.Blocks == nil || len(f.Blocks) != 1 || !InModule(f) || fnPkg(f) == nil || !strings.HasPrefix(relPkg(fnPkg(f).Path()), "models") {
		return nil
	}
	paramIdx := func(v ssa.Value) int {
		v = stripConv(v) // a cursor of a named slice type is converted to []int before it is passed on
		for i, prm := range f.Params {
			if v == ssa.Value(prm) {
				return i
			}
		}
		return -1
	}
	var acc *accessor
	var call *ssa.Call
	for _, ins := range f.Blocks[0].Instrs {
		switch x := ins.(type) {
		case *ssa.DebugRef, *ssa.ChangeType, *ssa.Convert:
		case *ssa.Call:
			if acc != nil || !x.Common().IsInvoke() {
				return nil
			}
			nm := x.Common().Method.Name()
			want := 1
			if nm == "Set" || nm == "Set1" {
				want = 2
			} else if nm != "Get" && nm != "Get1" {
				return nil
			}
			if len(x.Common().Args) != want {
				return nil
			}
			a := &accessor{method: nm, series: paramIdx(x.Common().Value), index: paramIdx(x.Common().Args[0]), value: -1}
			if want == 2 {
				a.value = paramIdx(x.Common().Args[1])
				if a.value < 0 {
					return nil
				}
			}
			if a.series < 0 || a.index < 0 {
				return nil
			}
			acc, call = a, x
		case *ssa.Return:
			if acc == nil {
				return nil
			}
			if acc.value < 0 {
				if len(x.Results) != 1 || x.Results[0] != ssa.Value(call) {
					return nil
				}
			} else if len(x.Results) != 0 {
				return nil
			}
		default:
			return nil
		}
	}
	accessorCache[f] = acc
	return acc
}

// ---------- instruction iteration ----------

func eachInstr(fn *ssa.Function, f func(b *ssa.BasicBlock, i int, ins ssa.Instruction)) {
	for _, b := range fn.Blocks {
		for i, ins := range b.Instrs {
			f(b, i, ins)
		}
	}
}

func callsIn(fn *ssa.Function) []ssa.CallInstruction {
	var out []ssa.CallInstruction
	eachInstr(fn, func(_ *ssa.BasicBlock, _ int, ins ssa.Instruction) {
		if c, ok := ins.(ssa.CallInstruction); ok {
			out = append(out, c)
		}
	})
	return out
}

func instrIndex(ins ssa.Instruction) int {
	for i, x := range ins.Block().Instrs {
		if x == ins {
			return i
		}
	}
	return -1
}

// ---------- CFG: reachability, edge dominance ----------

// reachable returns the blocks reachable from start, never following an edge for which skip returns true.
func reachable(start *ssa.BasicBlock, skip func(from *ssa.BasicBlock, succIdx int) bool) map[*ssa.BasicBlock]bool {
	seen := map[*ssa.BasicBlock]bool{start: true}
	work := []*ssa.BasicBlock{start}
	for len(work) > 0 {
		b := work[len(work)-1]
		work = work[:len(work)-1]
		for i, s := range b.Succs {
			if skip != nil && skip(b, i) {
				continue
			}
			if !seen[s] {
				seen[s] = true
				work = append(work, s)
			}
		}
	}
	return seen
}

// edgeDominates: every path from the entry to block t uses edge a→a.Succs[idx].
func edgeDominates(a *ssa.BasicBlock, idx int, t *ssa.BasicBlock) bool {
	fn := a.Parent()
	if len(fn.Blocks) == 0 {
		return false
	}
	if t == fn.Blocks[0] {
		return false
	}
	r := reachable(fn.Blocks[0], func(from *ssa.BasicBlock, i int) bool { return from == a && i == idx })
	all := reachable(fn.Blocks[0], nil)
	return all[t] && !r[t]
}

// Guard is a branch fact that holds at a block: cond evaluated to Val.
type Guard struct {
	Cond ssa.Value
	Val  bool
	If   *ssa.If
}

// guardsAt returns all branch conditions whose true/false edge dominates block t
// (negations are normalised away).
func guardsAt(t *ssa.BasicBlock) []Guard {
	fn := t.Parent()
	var out []Guard
	for _, b := range fn.Blocks {
		if len(b.Instrs) == 0 {
			continue
		}
		iff, ok := b.Instrs[len(b.Instrs)-1].(*ssa.If)
		if !ok {
			continue
		}
		for idx := 0; idx < 2; idx++ {
			if b.Succs[0] == b.Succs[1] {
				continue
			}
			if edgeDominates(b, idx, t) {
				c, v := normCond(iff.Cond, idx == 0)
				out = append(out, Guard{Cond: c, Val: v, If: iff})
			}
		}
	}
	return out
}

// normCond strips boolean negations.
func normCond(c ssa.Value, v bool) (ssa.Value, bool) {
	for {
		if u, ok := c.(*ssa.UnOp); ok && u.Op == token.NOT {
			c = u.X
			v = !v
			continue
		}
		return c, v
	}
}

// returnsOf lists the Return instructions of fn.
func returnsOf(fn *ssa.Function) []*ssa.Return {
	var out []*ssa.Return
	for _, b := range fn.Blocks {
		if len(b.Instrs) == 0 || b == fn.Recover {
			continue
		}
		if r, ok := b.Instrs[len(b.Instrs)-1].(*ssa.Return); ok {
			out = append(out, r)
		}
	}
	return out
}

// instrDominates: a executes before b on every path reaching b.
func instrDominates(a, b ssa.Instruction) bool {
	if a.Block() == b.Block() {
		return instrIndex(a) < instrIndex(b)
	}
	return a.Block().Dominates(b.Block())
}

// canReach: there is a CFG path from instruction a to instruction b (a before b).
func canReach(a, b ssa.Instruction) bool {
	if a.Block() == b.Block() && instrIndex(a) < instrIndex(b) {
		return true
	}
	r := reachable(a.Block(), nil)
	// a.Block() is in r trivially; need a real path for the same block (loop)
	if a.Block() == b.Block() {
		for _, s := range a.Block().Succs {
			if reachable(s, nil)[b.Block()] {
				return true
			}
		}
		return false
	}
	return r[b.Block()]
}

// ---------- natural loops ----------

type Loop struct {
	Header *ssa.BasicBlock
	Blocks map[*ssa.BasicBlock]bool
	Parent *Loop
}

func findLoops(fn *ssa.Function) []*Loop {
	byHeader := map[*ssa.BasicBlock]*Loop{}
	var order []*ssa.BasicBlock
	for _, b := range fn.Blocks {
		for _, s := range b.Succs {
			if s.Dominates(b) { // back edge b→s
				l := byHeader[s]
				if l == nil {
					l = &Loop{Header: s, Blocks: map[*ssa.BasicBlock]bool{s: true}}
					byHeader[s] = l
					order = append(order, s)
				}
				// collect body
				work := []*ssa.BasicBlock{b}
				for len(work) > 0 {
					x := work[len(work)-1]
					work = work[:len(work)-1]
					if l.Blocks[x] {
						continue
					}
					l.Blocks[x] = true
					work = append(work, x.Preds...)
				}
			}
		}
	}
	var loops []*Loop
	for _, h := range order {
		loops = append(loops, byHeader[h])
	}
	// nesting
	for _, l := range loops {
		for _, m := range loops {
			if l == m || !m.Blocks[l.Header] {
				continue
			}
			if l.Parent == nil || len(m.Blocks) < len(l.Parent.Blocks) {
				l.Parent = m
			}
		}
	}
	return loops
}

func innermostLoop(loops []*Loop, b *ssa.BasicBlock) *Loop {
	var best *Loop
	for _, l := range loops {
		if l.Blocks[b] && (best == nil || len(l.Blocks) < len(best.Blocks)) {
			best = l
		}
	}
	return best
}

// ---------- constants ----------

func constInt(v ssa.Value) (int64, bool) {
	c, ok := v.(*ssa.Const)
	if !ok || c.Value == nil {
		return 0, false
	}
	if c.Value.Kind() != constant.Int {
		return 0, false
	}
	return c.Int64(), true
}

func isNilConst(v ssa.Value) bool {
	c, ok := v.(*ssa.Const)
	return ok && c.Value == nil
}

// ---------- value tracing ----------

// stripConv removes interface/type conversions that keep the identity of the object.
func stripConv(v ssa.Value) ssa.Value {
	for {
		switch x := v.(type) {
		case *ssa.ChangeInterface:
			v = x.X
		case *ssa.MakeInterface:
			v = x.X
		case *ssa.TypeAssert:
			v = x.X
		case *ssa.ChangeType:
			v = x.X
		case *ssa.Extract:
			// comma-ok type assert
			if ta, ok := x.Tuple.(*ssa.TypeAssert); ok && x.Index == 0 {
				v = ta.X
			} else {
				return v
			}
		default:
			return v
		}
	}
}

// namedOf returns the named type behind pointers.
func namedOf(t types.Type) *types.Named {
	for {
		switch x := t.(type) {
		case *types.Pointer:
			t = x.Elem()
		case *types.Named:
			return x
		case *types.Alias:
			t = types.Unalias(x)
		default:
			return nil
		}
	}
}

func typeNameOf(t types.Type) string {
	if n := namedOf(t); n != nil {
		return n.Obj().Name()
	}
	return t.String()
}

// fieldOf: if v is &x.f (FieldAddr) or x.f (Field), returns field name.
func fieldName(v ssa.Value) (string, ssa.Value, bool) {
	switch x := v.(type) {
	case *ssa.FieldAddr:
		st := x.X.Type().Underlying().(*types.Pointer).Elem().Underlying().(*types.Struct)
		return st.Field(x.Field).Name(), x.X, true
	case *ssa.Field:
		st := x.X.Type().Underlying().(*types.Struct)
		return st.Field(x.Field).Name(), x.X, true
	}
	return "", nil, false
}

// loadedField: if v is a load (*UnOp MUL) of a FieldAddr, returns field name and base.
func loadedField(v ssa.Value) (string, ssa.Value, bool) {
	if u, ok := v.(*ssa.UnOp); ok && u.Op == token.MUL {
		return fieldName(u.X)
	}
	if f, ok := v.(*ssa.Field); ok {
		return fieldName(f)
	}
	return "", nil, false
}

// refs returns referrers safely.
func refs(v ssa.Value) []ssa.Instruction {
	r := v.Referrers()
	if r == nil {
		return nil
	}
	return *r
}

func hasPrefixAny(s string, pre ...string) bool {
	for _, p := range pre {
		if strings.HasPrefix(s, p) {
			return true
		}
	}
	return false
}

// ---------- reaching stores for local cells ----------

// allocIsSimpleCell: the alloc is used only by direct loads and stores (no address escape).
func allocIsSimpleCell(a *ssa.Alloc) bool {
	for _, r := range refs(a) {
		switch x := r.(type) {
		case *ssa.Store:
			if x.Addr != ssa.Value(a) {
				return false
			}
		case *ssa.UnOp:
			if x.Op != token.MUL {
				return false
			}
		case *ssa.DebugRef:
		default:
			return false
		}
	}
	return true
}

// reachingStores returns the values that may be in cell `a` just before instruction `at`
// (flow-sensitive). ok=false if the cell may be uninitialised (zero value) on some path:
// then a nil entry is included.
func reachingStores(a *ssa.Alloc, at ssa.Instruction) []ssa.Value {
	var out []ssa.Value
	seenBlk := map[*ssa.BasicBlock]bool{}
	add := func(v ssa.Value) {
		for _, o := range out {
			if o == v {
				return
			}
		}
		out = append(out, v)
	}
	var scan func(b *ssa.BasicBlock, from int)
	scan = func(b *ssa.BasicBlock, from int) {
		for i := from; i >= 0; i-- {
			if st, ok := b.Instrs[i].(*ssa.Store); ok && st.Addr == ssa.Value(a) {
				add(st.Val)
				return
			}
			if b.Instrs[i] == ssa.Instruction(a) {
				add(nil) // zero value
				return
			}
		}
		if len(b.Preds) == 0 {
			add(nil)
			return
		}
		for _, p := range b.Preds {
			if seenBlk[p] {
				continue
			}
			seenBlk[p] = true
			scan(p, len(p.Instrs)-1)
		}
	}
	scan(at.Block(), instrIndex(at)-1)
	return out
}

// reachingFieldStores: the values that field `field` of the local struct variable `base` may hold just before `at`:
// the latest store to that field on each way in, looking through a copy of the whole struct from another local
// (a composite literal assigned to the variable). ok=false when some way in cannot be resolved (the struct is written
// as a whole from something else, or never written).
func reachingFieldStores(base *ssa.Alloc, field int, at ssa.Instruction, depth int) (vals []ssa.Value, ok bool) {
	if depth > 3 {
		return nil, false
	}
	ok = true
	seenBlk := map[*ssa.BasicBlock]bool{}
	add := func(v ssa.Value) {
		for _, o := range vals {
			if o == v {
				return
			}
		}
		vals = append(vals, v)
	}
	var scan func(b *ssa.BasicBlock, from int)
	scan = func(b *ssa.BasicBlock, from int) {
		for i := from; i >= 0; i-- {
			st, isStore := b.Instrs[i].(*ssa.Store)
			if isStore {
				if fa, isFA := st.Addr.(*ssa.FieldAddr); isFA && fa.X == ssa.Value(base) && fa.Field == field {
					add(st.Val)
					return
				}
				if st.Addr == ssa.Value(base) {
					// the whole struct: copied from another local struct?
					if u, isLoad := st.Val.(*ssa.UnOp); isLoad && u.Op == token.MUL {
						if b2, isAlloc := u.X.(*ssa.Alloc); isAlloc {
							vs, ok2 := reachingFieldStores(b2, field, u, depth+1)
							if ok2 {
								for _, v := range vs {
									add(v)
								}
								return
							}
						}
					}
					ok = false
					return
				}
			}
			if b.Instrs[i] == ssa.Instruction(base) {
				add(nil) // zero value of the field
				return
			}
		}
		if len(b.Preds) == 0 {
			add(nil)
			return
		}
		for _, p := range b.Preds {
			if seenBlk[p] {
				continue
			}
			seenBlk[p] = true
			scan(p, len(p.Instrs)-1)
		}
	}
	scan(at.Block(), instrIndex(at)-1)
	return vals, ok
}

// origins resolves v through phis, identity conversions and loads of simple local cells
// to the set of defining values (nil = zero value of a cell).
func origins(v ssa.Value) []ssa.Value {
	var out []ssa.Value
	seen := map[ssa.Value]bool{}
	var walk func(v ssa.Value)
	walk = func(v ssa.Value) {
		if v == nil {
			out = append(out, nil)
			return
		}
		if seen[v] {
			return
		}
		seen[v] = true
		switch x := v.(type) {
		case *ssa.Phi:
			for _, e := range x.Edges {
				walk(e)
			}
			return
		case *ssa.ChangeInterface:
			walk(x.X)
			return
		case *ssa.MakeInterface:
			walk(x.X)
			return
		case *ssa.ChangeType:
			walk(x.X)
			return
		case *ssa.TypeAssert:
			walk(x.X)
			return
		case *ssa.Extract:
			if ta, ok := x.Tuple.(*ssa.TypeAssert); ok && x.Index == 0 {
				walk(ta.X)
				return
			}
		case *ssa.UnOp:
			if x.Op == token.MUL {
				if a, ok := x.X.(*ssa.Alloc); ok && allocIsSimpleCell(a) {
					for _, s := range reachingStores(a, x) {
						walk(s)
					}
					return
				}
				if a, ok := x.X.(*ssa.Alloc); ok {
					if sv := singleStoreCell(a); sv != nil {
						walk(sv)
						return
					}
				}
				if fa, ok := x.X.(*ssa.FieldAddr); ok {
					if sv := singleStoreField(fa); sv != nil {
						walk(sv)
						return
					}
				}
			}
		}
		out = append(out, v)
	}
	walk(v)
	return out
}

func ptrTo(t types.Type) types.Type { return types.NewPointer(t) }

// ---------- index-vector element tracking ----------

// vecBase normalises a []int value: slice-of-array-literal → the array alloc.
func vecBase(v ssa.Value) ssa.Value {
	for {
		switch x := v.(type) {
		case *ssa.Slice:
			if a, ok := x.X.(*ssa.Alloc); ok && x.Low == nil && x.High == nil {
				return a
			}
			return v
		default:
			return v
		}
	}
}

// unknownVal marks "cannot determine".
type unknownVal struct{ ssa.Value }

// vecElemAt returns the possible values of element k of vector vec just before `at`.
// An *unknownVal entry means undetermined (non-constant index store, passed to a writer, ...).
// initial: value of a fresh vector (NewIndex(c) → c; array literal → zero) is resolved by the caller
// through the returned `fresh` flag (the definition was reached without a store).
// vecIndexHook lets a caller that knows the calling context resolve a store index that is not a constant in
// the function itself (`from[len(extent)] = …` in a helper whose extent argument is a literal at the call).
var vecIndexHook func(ssa.Value) (int64, bool)

func vecElemAt(eff *Effects, vec ssa.Value, k int64, at ssa.Instruction) (vals []ssa.Value, fresh bool, unknown string) {
	base := vecBase(vec)
	sameVec := func(v ssa.Value) bool {
		if vecBase(v) == base {
			return true
		}
		// a load of a cell that holds the vector
		if u, ok := v.(*ssa.UnOp); ok && u.Op == token.MUL {
			if o := origin1local(v); o != nil && vecBase(o) == base {
				return true
			}
		}
		return false
	}
	seen := map[*ssa.BasicBlock]bool{}
	var scan func(b *ssa.BasicBlock, from int)
	scan = func(b *ssa.BasicBlock, from int) {
		for i := from; i >= 0; i-- {
			ins := b.Instrs[i]
			if v, ok := ins.(ssa.Value); ok && v == base {
				fresh = true
				return
			}
			switch x := ins.(type) {
			case *ssa.Store:
				if ia, ok := x.Addr.(*ssa.IndexAddr); ok && sameVec(ia.X) {
					c, ok := constInt(ia.Index)
					if !ok && vecIndexHook != nil {
						c, ok = vecIndexHook(ia.Index)
					}
					if ok {
						if c == k {
							vals = append(vals, x.Val)
							return
						}
					} else {
						unknown = "store at a non-constant index"
						return
					}
				}
			case ssa.CallInstruction:
				c := x.Common()
				args := c.Args
				if c.IsInvoke() {
					args = append([]ssa.Value{c.Value}, c.Args...)
				}
				for j, a := range args {
					if !sameVec(a) {
						continue
					}
					if bi, ok := c.Value.(*ssa.Builtin); ok {
						if bi.Name() == "copy" && j == 0 || bi.Name() == "append" {
							unknown = "vector passed to " + bi.Name()
							return
						}
						continue
					}
					mod, ext := eff.calleesOpen(x)
					for _, cal := range mod {
						if w := eff.Mutates(cal, j); w != nil {
							if writesOnlyOtherElems(eff, cal, j, k, 0) {
								continue // the callee assigns other elements of the vector only
							}
							// a setter helper (`func setStep(idx []int, i int) { idx[0] = i }`) called directly: element k
							// becomes the corresponding argument
							if len(mod) == 1 && len(ext) == 0 && !c.IsInvoke() {
								if src, ok := elemSetter(cal, j, k); ok {
									if prm, isPrm := src.(*ssa.Parameter); isPrm {
										for pi, fp := range cal.Params {
											if fp == prm && pi < len(args) {
												vals = append(vals, args[pi])
												return
											}
										}
									} else {
										vals = append(vals, src)
										return
									}
								}
							}
							// Apply restores loc: accepted for the data package's own Apply (documented save/restore)
							unknown = "vector passed to " + FuncKey(cal) + " which writes it"
							return
						}
					}
					_ = ext
				}
			}
		}
		if len(b.Preds) == 0 {
			fresh = true
			return
		}
		for _, p := range b.Preds {
			if !seen[p] {
				seen[p] = true
				scan(p, len(p.Instrs)-1)
				if unknown != "" {
					return
				}
			}
		}
	}
	scan(at.Block(), instrIndex(at)-1)
	return
}

// elemSetter: f does nothing with its j-th parameter (a vector) but store into constant elements of it, element k
// is assigned exactly once, on every path to a return, and the value assigned is one of f's own parameters or a
// constant: that value.
func elemSetter(f *ssa.Function, j int, k int64) (ssa.Value, bool) {
	if f == nil || f.Blocks == nil || j >= len(f.Params) {
		return nil, false
	}
	var src ssa.Value
	rets := returnsOf(f)
	for _, ref := range refs(f.Params[j]) {
		switch x := ref.(type) {
		case *ssa.DebugRef:
		case *ssa.IndexAddr:
			c, isConst := constInt(x.Index)
			if !isConst || x.X != ssa.Value(f.Params[j]) {
				return nil, false
			}
			for _, u := range refs(x) {
				if _, dbg := u.(*ssa.DebugRef); dbg {
					continue
				}
				st, isStore := u.(*ssa.Store)
				if !isStore || st.Addr != ssa.Value(x) {
					return nil, false
				}
				if c != k {
					continue
				}
				if src != nil {
					return nil, false
				}
				for _, ret := range rets {
					if !instrDominates(st, ret) {
						return nil, false
					}
				}
				switch st.Val.(type) {
				case *ssa.Parameter, *ssa.Const:
					src = st.Val
				default:
					return nil, false
				}
			}
		default:
			return nil, false
		}
	}
	return src, src != nil
}

// writesOnlyOtherElems: every write f makes to its j-th parameter (a []int) is a store at a constant index other
// than k, and wherever f passes the vector on, the receiver does not write it (or, recursively, writes only other
// elements).
func writesOnlyOtherElems(eff *Effects, f *ssa.Function, j int, k int64, depth int) bool {
	if f == nil || f.Blocks == nil || j >= len(f.Params) || depth > 3 {
		return false
	}
	prm := f.Params[j]
	isVec := func(v ssa.Value) bool {
		if v == ssa.Value(prm) {
			return true
		}
		o := origin1local(v)
		return o != nil && o == ssa.Value(prm)
	}
	ok := true
	eachInstr(f, func(_ *ssa.BasicBlock, _ int, ins ssa.Instruction) {
		if !ok {
			return
		}
		switch x := ins.(type) {
		case *ssa.Store:
			if ia, isIA := x.Addr.(*ssa.IndexAddr); isIA && isVec(ia.X) {
				if c, isC := constInt(ia.Index); !isC || c == k {
					ok = false
				}
			}
			if isVec(x.Val) {
				ok = false // the vector escapes into memory
			}
		case *ssa.Slice:
			if isVec(x.X) {
				ok = false // re-sliced: element numbering changes
			}
		case *ssa.MakeClosure:
			for _, b := range x.Bindings {
				if isVec(b) {
					ok = false
				}
			}
		case ssa.CallInstruction:
			c := x.Common()
			args := c.Args
			if c.IsInvoke() {
				args = append([]ssa.Value{c.Value}, c.Args...)
			}
			for ai, a := range args {
				if !isVec(a) {
					continue
				}
				if bi, isB := c.Value.(*ssa.Builtin); isB {
					if bi.Name() == "copy" && ai == 0 || bi.Name() == "append" {
						ok = false
					}
					continue
				}
				mod, _ := eff.calleesOpen(x)
				for _, cal := range mod {
					if eff.Mutates(cal, ai) != nil && !writesOnlyOtherElems(eff, cal, ai, k, depth+1) {
						ok = false
					}
				}
			}
		}
	})
	return ok
}

// ---------- reachability that tracks boolean phis ----------

// reachableBoolSensitive: blocks reachable from start without entering a block for which stop() is true,
// pruning branches on a boolean phi (or a load of a simple bool cell) whose value is a known constant along the
// path taken (the `found := false; if …{found = true}; if !found {…}` idiom).
func reachableBoolSensitive(start *ssa.BasicBlock, stop func(b *ssa.BasicBlock) bool) map[*ssa.BasicBlock]bool {
	type state struct {
		b   *ssa.BasicBlock
		env string
	}
	out := map[*ssa.BasicBlock]bool{}
	seen := map[state]bool{}
	var visit func(b *ssa.BasicBlock, from *ssa.BasicBlock, env map[ssa.Value]bool)
	envKey := func(env map[ssa.Value]bool) string {
		var ks []string
		for k, v := range env {
			ks = append(ks, fmt.Sprintf("%s=%v", k.Name(), v))
		}
		sort.Strings(ks)
		return strings.Join(ks, ",")
	}
	visit = func(b *ssa.BasicBlock, from *ssa.BasicBlock, env map[ssa.Value]bool) {
		// phis of b get their value from the edge taken
		ne := map[ssa.Value]bool{}
		for k, v := range env {
			ne[k] = v
		}
		if from != nil {
			idx := -1
			for i, p := range b.Preds {
				if p == from {
					idx = i
				}
			}
			for _, ins := range b.Instrs {
				phi, ok := ins.(*ssa.Phi)
				if !ok {
					break
				}
				delete(ne, phi)
				if idx >= 0 {
					if c, ok := phi.Edges[idx].(*ssa.Const); ok && c.Value != nil && (c.Value.String() == "true" || c.Value.String() == "false") {
						ne[phi] = c.Value.String() == "true"
					} else if v, ok := ne[phi.Edges[idx]]; ok {
						ne[phi] = v
					}
				}
			}
		}
		st := state{b, envKey(ne)}
		if seen[st] {
			return
		}
		seen[st] = true
		out[b] = true
		if len(b.Instrs) == 0 {
			return
		}
		if iff, ok := b.Instrs[len(b.Instrs)-1].(*ssa.If); ok {
			c, want := normCond(iff.Cond, true)
			if v, known := ne[c]; known {
				// only one successor feasible
				i := 1
				if v == want {
					i = 0
				}
				if !stop(b.Succs[i]) {
					visit(b.Succs[i], b, ne)
				}
				return
			}
		}
		if iff, ok := b.Instrs[len(b.Instrs)-1].(*ssa.If); ok && len(b.Succs) == 2 {
			c, want := normCond(iff.Cond, true)
			for i, s := range b.Succs {
				if stop(s) {
					continue
				}
				e2 := map[ssa.Value]bool{}
				for k, v := range ne {
					e2[k] = v
				}
				if isBoolish(c) {
					e2[c] = (i == 0) == want
				}
				visit(s, b, e2)
			}
			return
		}
		for _, s := range b.Succs {
			if !stop(s) {
				visit(s, b, ne)
			}
		}
	}
	visit(start, nil, map[ssa.Value]bool{})
	return out
}

// isBoolish: conditions worth remembering along a path (call results and phis; comparisons are re-evaluated values).
func isBoolish(v ssa.Value) bool {
	switch v.(type) {
	case *ssa.Call, *ssa.Phi, *ssa.Extract, *ssa.Parameter:
		return true
	}
	return false
}

// singleStoreCell: a cell captured by closures but assigned exactly once (in its own function, before any
// closure is made) and never assigned by the closures: its loads all yield that value.
func singleStoreCell(a *ssa.Alloc) ssa.Value {
	var val ssa.Value
	n := 0
	for _, r := range refs(a) {
		switch x := r.(type) {
		case *ssa.Store:
			if x.Addr != ssa.Value(a) {
				return nil
			}
			n++
			val = x.Val
		case *ssa.UnOp:
			if x.Op != token.MUL {
				return nil
			}
		case *ssa.MakeClosure:
			cl, _ := x.Fn.(*ssa.Function)
			if cl == nil {
				return nil
			}
			for j, b := range x.Bindings {
				if b == ssa.Value(a) && j < len(cl.FreeVars) {
					if closureStoresToFree(cl, cl.FreeVars[j], map[*ssa.Function]bool{}) != nil {
						return nil
					}
				}
			}
		case *ssa.DebugRef:
		default:
			return nil
		}
	}
	if n != 1 {
		return nil
	}
	return val
}

func origin1local(v ssa.Value) ssa.Value {
	o := origins(v)
	if len(o) == 1 && o[0] != nil {
		return o[0]
	}
	return nil
}

// singleStoreField: fa addresses field f of a local struct (an Alloc of this function) that is assigned exactly
// once in this function and never assigned by any other function of the program's module packages: loads of
// that field all yield the stored value.
func singleStoreField(fa *ssa.FieldAddr) ssa.Value {
	base, ok := fa.X.(*ssa.Alloc)
	if !ok {
		return nil
	}
	fn := base.Parent()
	var val ssa.Value
	n := 0
	for _, ref := range refs(base) {
		f2, ok := ref.(*ssa.FieldAddr)
		if !ok || f2.Field != fa.Field {
			continue
		}
		for _, r2 := range refs(f2) {
			if st, ok := r2.(*ssa.Store); ok && st.Addr == ssa.Value(f2) {
				n++
				val = st.Val
			}
		}
	}
	if n != 1 {
		return nil
	}
	// no other function stores to this field of this struct type
	st := base.Type().Underlying().(*types.Pointer).Elem()
	if fn.Pkg == nil {
		return nil
	}
	for _, m := range fn.Pkg.Members {
		collect := func(g *ssa.Function) bool {
			bad := false
			var visit func(h *ssa.Function)
			visit = func(h *ssa.Function) {
				if h == nil || h == fn || h.Blocks == nil {
					return
				}
				eachInstr(h, func(_ *ssa.BasicBlock, _ int, ins ssa.Instruction) {
					s2, ok := ins.(*ssa.Store)
					if !ok {
						return
					}
					f3, ok := s2.Addr.(*ssa.FieldAddr)
					if !ok || f3.Field != fa.Field {
						return
					}
					if pt, ok := f3.X.Type().Underlying().(*types.Pointer); ok && types.Identical(pt.Elem(), st) {
						bad = true
					}
				})
				for _, af := range h.AnonFuncs {
					visit(af)
				}
			}
			visit(g)
			return bad
		}
		switch x := m.(type) {
		case *ssa.Function:
			if collect(x) {
				return nil
			}
		case *ssa.Type:
			ms := fn.Prog.MethodSets.MethodSet(types.NewPointer(x.Type()))
			for i := 0; i < ms.Len(); i++ {
				if collect(fn.Prog.MethodValue(ms.At(i))) {
					return nil
				}
			}
		}
	}
	return val
}
