package main

// R04.8: the shared state array built by InitialiseStates(n) has rows wide enough for every cell.

import (
	"fmt"
	"go/token"
	"go/types"
	"strings"

	"golang.org/x/tools/go/ssa"
)

// lenOfInitResult: v is x.Len(1) where x is a result of one of the init calls (directly, or loaded from a slice
// element that the init result was stored into).
func lenOfInitResult(v ssa.Value, inits map[*ssa.Call]bool) bool {
	c, ok := stripConv(v).(*ssa.Call)
	if !ok || callName(c.Common()) != "Len" {
		return false
	}
	if a := callArgs(c.Common()); len(a) != 1 {
		return false
	} else if k, ok := constInt(a[0]); !ok || k != 1 {
		return false
	}
	recv := recvOf(c.Common())
	for _, o := range origins(recv) {
		if o == nil {
			return false
		}
		o = stripConv(o)
		if oc, ok := o.(*ssa.Call); ok && inits[oc] {
			continue
		}
		// load of slice element: some store into an element of the same slice holds an init result
		u, ok := o.(*ssa.UnOp)
		if !ok || u.Op != token.MUL {
			return false
		}
		ia, ok := u.X.(*ssa.IndexAddr)
		if !ok {
			return false
		}
		found := false
		for _, ref := range refs(ia.X) {
			ia2, ok := ref.(*ssa.IndexAddr)
			if !ok {
				continue
			}
			for _, r2 := range refs(ia2) {
				if st, ok := r2.(*ssa.Store); ok && st.Addr == ssa.Value(ia2) {
					for _, so := range origins(st.Val) {
						if sc, ok := stripConv(so).(*ssa.Call); ok && inits[sc] {
							found = true
						}
					}
				}
			}
		}
		if !found {
			return false
		}
	}
	return true
}

func checkInitStatesWidth(p *Program, r *Report, models []*Model) {
	r.Rule("R04.8", "state rows fit every cell: where a model's initial states come from a custom init function (whose state vector length may depend on the cell's parameters), InitialiseStates allocates the shared n×W state array only after every cell has been initialised, with W the running maximum of the cells' state vector lengths — not the length cell 0 happens to have")
	n := 0
	for _, m := range models {
		fn := m.Methods["InitialiseStates"]
		if fn == nil || m.InitFunc == "" {
			continue
		}
		key := m.RelPkg + "." + m.Name + ":init-states-width"
		inits := map[*ssa.Call]bool{}
		for _, c := range callsIn(fn) {
			if call, ok := c.(*ssa.Call); ok {
				if f := c.Common().StaticCallee(); f != nil && f.Name() == m.InitFunc && fnPkg(f) == fnPkg(fn) {
					inits[call] = true
				}
			}
		}
		// the cells may be initialised by a helper method of the wrapper that hands back the rows and their greatest
		// length (`cellStates, numStates := m.initialCellStates(n)`): the accumulation is then judged in the helper
		fnI := fn
		var helperCall *ssa.Call
		if len(inits) == 0 {
			for _, c := range callsIn(fn) {
				call, ok := c.(*ssa.Call)
				h := c.Common().StaticCallee()
				if !ok || h == nil || h.Blocks == nil || fnPkg(h) != fnPkg(fn) || h == fn {
					continue
				}
				for _, c2 := range callsIn(h) {
					if call2, ok := c2.(*ssa.Call); ok {
						if f := c2.Common().StaticCallee(); f != nil && f.Name() == m.InitFunc && fnPkg(f) == fnPkg(fn) {
							inits[call2] = true
							fnI, helperCall = h, call
						}
					}
				}
				if helperCall != nil {
					break
				}
			}
		}
		if len(inits) == 0 {
			r.Undecided("R04.8", key, p.Pos(fn.Pos()), "call of the init function "+m.InitFunc+" not found in InitialiseStates")
			continue
		}
		n++
		loops := findLoops(fnI)
		// the constructor(s) of the returned array
		var ctors []*ssa.Call
		bad := ""
		for _, ret := range returnsOf(fn) {
			for _, o := range origins(ret.Results[0]) {
				if o == nil || isNilConst(o) {
					continue // n == 0: no cells, no array
				}
				c, ok := stripConv(o).(*ssa.Call)
				if !ok || !strings.HasPrefix(callName(c.Common()), "NewArray2D") || len(c.Common().Args) != 2 {
					bad = "the returned state array is not built by NewArray2D…(n, W)"
					continue
				}
				ctors = append(ctors, c)
			}
		}
		if bad == "" && len(ctors) == 0 {
			bad = "no constructor of the returned state array found"
		}
		for _, ct := range ctors {
			if bad != "" {
				break
			}
			W := ct.Common().Args[1]
			if _, isConst := constInt(W); isConst {
				continue
			}
			if helperCall != nil {
				// W is a result of the helper: judged as the value the helper returns
				ex, isEx := origin1(W).(*ssa.Extract)
				rets := returnsOf(fnI)
				if !isEx || ex.Tuple != ssa.Value(helperCall) || len(rets) != 1 || ex.Index >= len(rets[0].Results) {
					bad = "the row width is not the width the initialising helper " + fnI.Name() + " reports"
					break
				}
				W = rets[0].Results[ex.Index]
			}
			for ic := range inits {
				li := innermostLoop(loops, ic.Block())
				if li == nil {
					bad = "the init function is not called in a loop over the cells"
					break
				}
				if ct.Parent() == fnI && li.Blocks[ct.Block()] {
					bad = fmt.Sprintf("the state array is allocated inside the loop that initialises the cells, from the state vector of the cell at hand (cell 0): a later cell whose %s result is longer overruns its row", m.InitFunc)
					break
				}
				// W is a header phi of that loop accumulating the maximum of the cells' lengths
				var acc *ssa.Phi
				for _, o := range origins(W) {
					if ph, ok := o.(*ssa.Phi); ok && ph.Block() == li.Header {
						acc = ph
					}
				}
				wo := origin1(W)
				if ph, ok := wo.(*ssa.Phi); ok && ph.Block() == li.Header {
					acc = ph
				}
				if acc == nil {
					bad = "the row width is not accumulated over the loop that initialises the cells"
					break
				}
				okMax := false
				for ei, e := range acc.Edges {
					if !li.Blocks[li.Header.Preds[ei]] {
						continue
					}
					// e: max(acc, len) by call, or a join phi of {acc, len} with the len edge guarded by len > acc
					if call, ok := stripConv(e).(*ssa.Call); ok {
						nm := strings.ToLower(callName(call.Common()))
						a := call.Common().Args
						if strings.Contains(nm, "max") && len(a) == 2 && (a[0] == ssa.Value(acc) && lenOfInitResult(a[1], inits) || a[1] == ssa.Value(acc) && lenOfInitResult(a[0], inits)) {
							okMax = true
						}
						continue
					}
					j, ok := e.(*ssa.Phi)
					if !ok {
						continue
					}
					good := true
					sawLen := false
					for k, je := range j.Edges {
						if je == ssa.Value(acc) {
							continue
						}
						if !lenOfInitResult(je, inits) {
							good = false
							continue
						}
						sawLen = true
						// guarded by len > acc
						g := false
						for _, gd := range guardsAt(j.Block().Preds[k]) {
							bo, ok := gd.Cond.(*ssa.BinOp)
							if !ok {
								continue
							}
							xl, yl := lenOfInitResult(bo.X, inits), lenOfInitResult(bo.Y, inits)
							switch {
							case xl && bo.Y == ssa.Value(acc) && (bo.Op == token.GTR || bo.Op == token.GEQ) && gd.Val:
								g = true
							case yl && bo.X == ssa.Value(acc) && (bo.Op == token.LSS || bo.Op == token.LEQ) && gd.Val:
								g = true
							case xl && bo.Y == ssa.Value(acc) && (bo.Op == token.LSS || bo.Op == token.LEQ) && !gd.Val:
								g = true
							case yl && bo.X == ssa.Value(acc) && (bo.Op == token.GTR || bo.Op == token.GEQ) && !gd.Val:
								g = true
							}
						}
						if !g {
							good = false
						}
					}
					if good && sawLen {
						okMax = true
					}
				}
				if !okMax {
					bad = "the accumulated row width is not the maximum of the cells' state vector lengths"
				}
			}
		}
		if bad != "" {
			r.Fail("R04.8", key, p.Pos(fn.Pos()), fmt.Sprintf("%s.InitialiseStates: %s", m.Name, bad))
		} else {
			r.OK("R04.8", fmt.Sprintf("%s.%s: state rows are as wide as the widest cell's %s result", m.RelPkg, m.Name, m.InitFunc))
		}
	}
	r.Floor("R04.8", "models with a custom init function", n, 1)
}

// checkStateRowLength (R04.10): the state rows of a model are as wide as the widest cell's (R04.8), so the length of
// a slice-typed state argument says something about the *other* cells of the run. A kernel must not derive anything
// that reaches its outputs or states from that length (a bounds assertion that panics is not a value).
func checkStateRowLength(p *Program, r *Report, models []*Model) {
	r.Rule("R04.10", "a cell does not read the width of the shared state rows: in kernels with slice-typed state arguments (whose rows InitialiseStates sizes for the widest cell), no value that reaches outputs, returned states or the control of the computation derives from len() of such an argument, in the kernel or in a helper it hands the slice to — a cell would otherwise behave differently depending on the parameters of the other cells of the run")
	n := 0
	for _, m := range models {
		k := m.Kernel
		if k == nil || len(m.States) == 0 {
			continue
		}
		key := m.RelPkg + "." + k.Name()
		var work []bufView
		for pi, prm := range k.Params {
			if _, isSlice := prm.Type().Underlying().(*types.Slice); isSlice {
				work = append(work, bufView{k, pi, -1})
			}
		}
		seen := map[bufView]bool{}
		for len(work) > 0 {
			bv := work[0]
			work = work[1:]
			if seen[bv] || len(seen) > 40 {
				continue
			}
			seen[bv] = true
			n++
			bad := false
			for _, c := range callsIn(bv.fn) {
				if bi, ok := c.Common().Value.(*ssa.Builtin); ok && bi.Name() == "len" && len(c.Common().Args) == 1 && bv.is(c.Common().Args[0]) {
					if val, ok := c.(ssa.Value); ok && influences(val) {
						bad = true
						r.Fail("R04.10", fmt.Sprintf("%s:len-of-state-row:%s", key, bv.fn.Name()), p.Pos(c.Pos()), fmt.Sprintf("%s derives a value that reaches outputs, states or the flow of the computation from the length of the slice-typed state argument `%s`: the state rows are sized for the widest cell of the run, so this cell's result changes with the parameters of the other cells", bv.fn.Name(), k.Params[seenRoot(bv, k)].Name()))
					}
					continue
				}
				for _, child := range handedTo(&bv, bv.is, c) {
					work = append(work, child)
				}
			}
			if !bad {
				r.OK("R04.10", fmt.Sprintf("%s: nothing in %s derives from the length of a state row", key, bv.fn.Name()))
			}
		}
	}
	r.Floor("R04.10", "functions handed a slice-typed state argument", n, 2)
}

func seenRoot(bv bufView, k *ssa.Function) int {
	if bv.fn == k {
		return bv.prm
	}
	for pi, prm := range k.Params {
		if _, isSlice := prm.Type().Underlying().(*types.Slice); isSlice {
			return pi
		}
	}
	return 0
}

// checkFreshParameterShapes (R04.11): Reshape keeps the shape vector it is handed as the extents of the view it
// returns. In ApplyParameters every parameter view therefore gets a shape vector of its own (a literal or make): a
// scratch vector that is reset and appended to for the next parameter shares its storage with the views decoded
// before, whose extents then change under them — a scalar parameter reports the table length as its number of
// parameter sets, and cells pick the wrong set.
func checkFreshParameterShapes(p *Program, r *Report, models []*Model) {
	r.Rule("R04.11", "parameter views do not share their shape vectors: in every wrapper's ApplyParameters (and the helpers of package sim it uses) the shape handed to Reshape/MustReshape is a freshly allocated vector — not the result of append, not a re-slice of a vector used before — because the view retains it as its extents")
	n := 0
	for _, m := range models {
		ap := m.Methods["ApplyParameters"]
		if ap == nil || len(ap.Blocks) == 0 || len(m.Params) == 0 {
			continue
		}
		key := m.RelPkg + "." + m.Name
		k := 0
		for _, c := range callsIn(ap) {
			nm := callName(c.Common())
			if nm != "MustReshape" && nm != "Reshape" && nm != "ReshapeFast" {
				continue
			}
			args := callArgs(c.Common())
			if len(args) != 1 {
				continue
			}
			k++
			n++
			bad := ""
			for _, o := range origins(args[0]) {
				switch x := o.(type) {
				case *ssa.Call:
					if bi, ok := x.Common().Value.(*ssa.Builtin); ok && bi.Name() == "append" {
						bad = "the result of append (it may reuse the storage of the vector appended to)"
					}
				case *ssa.Slice:
					if _, isAlloc := x.X.(*ssa.Alloc); !isAlloc {
						bad = "a re-slice of an existing vector"
					}
				case *ssa.Parameter:
					bad = "a vector handed in by the caller"
				}
			}
			if bad != "" {
				r.Fail("R04.11", fmt.Sprintf("%s:shape#%d", key, k), p.Pos(c.Pos()), "the shape given to "+nm+" in ApplyParameters is "+bad+": the parameter view keeps that vector as its extents, so the next parameter's shape overwrites it — Len1() of a scalar parameter is no longer the number of parameter sets and cells read another set's value")
			} else {
				r.OK("R04.11", fmt.Sprintf("%s: parameter view %d gets a shape vector of its own", key, k))
			}
		}
	}
	r.Floor("R04.11", "parameter views reshaped in ApplyParameters", n, 40)
}
