package main

// Stride-unit analysis (R01.1): an abstract interpretation over three base units
//   S storage cells, R index of the array the strides were allocated for, V index of the view
// with the field typing Start:S, Offset:S/R, Step:R/V, OffsetStep:S/V, loc:V, step:1.
// Integer literals and lengths are polymorphic. Helper functions are analysed from their
// bodies, context-sensitively (depth ≤ 4); only data.Offsets (→ S/R) is tabled.

import (
	"fmt"
	"go/token"
	"go/types"
	"strings"

	"golang.org/x/tools/go/ssa"
)

type unit struct {
	kind    int // 0 poly, 1 concrete, 2 conflict
	s, r, v int
	why     string // for conflicts: where it arose
}

var (
	uPoly       = unit{}
	uS          = unit{kind: 1, s: 1}
	uSperR      = unit{kind: 1, s: 1, r: -1}
	uRperV      = unit{kind: 1, r: 1, v: -1}
	uSperV      = unit{kind: 1, s: 1, v: -1}
	uV          = unit{kind: 1, v: 1}
	uOne        = unit{kind: 1}
	commonField = map[string]unit{"Start": uS, "Offset": uSperR, "Step": uRperV, "OffsetStep": uSperV}
)

func (u unit) String() string {
	switch u.kind {
	case 0:
		return "any"
	case 2:
		return "CONFLICT(" + u.why + ")"
	}
	var num, den []string
	add := func(n int, name string) {
		for i := 0; i < n; i++ {
			num = append(num, name)
		}
		for i := 0; i < -n; i++ {
			den = append(den, name)
		}
	}
	add(u.s, "S")
	add(u.r, "R")
	add(u.v, "V")
	a := strings.Join(num, "·")
	if a == "" {
		a = "1"
	}
	if len(den) > 0 {
		return a + "/" + strings.Join(den, "·")
	}
	return a
}

func (u unit) eq(o unit) bool { return u.kind == o.kind && u.s == o.s && u.r == o.r && u.v == o.v }

func uMul(a, b unit) unit {
	if a.kind == 2 {
		return a
	}
	if b.kind == 2 {
		return b
	}
	if a.kind == 0 || b.kind == 0 {
		return uPoly
	}
	return unit{kind: 1, s: a.s + b.s, r: a.r + b.r, v: a.v + b.v}
}

func uDiv(a, b unit) unit {
	if a.kind == 2 {
		return a
	}
	if b.kind == 2 {
		return b
	}
	if a.kind == 0 || b.kind == 0 {
		return uPoly
	}
	return unit{kind: 1, s: a.s - b.s, r: a.r - b.r, v: a.v - b.v}
}

// uJoin: both must denote the same unit (addition, phi, assignment to the same vector).
func uJoin(a, b unit, where string) unit {
	if a.kind == 2 {
		return a
	}
	if b.kind == 2 {
		return b
	}
	if a.kind == 0 {
		return b
	}
	if b.kind == 0 {
		return a
	}
	if a.eq(b) {
		return a
	}
	return unit{kind: 2, why: fmt.Sprintf("%s combined with %s at %s", a, b, where)}
}

type unitSink struct {
	pos   token.Pos
	fn    *ssa.Function
	what  string // "store Start", "return of Index", "index into Impl"
	want  unit
	got   unit
	field string
	ctx   string // "" at a root; the parameter units when judged in a caller's context
}

type unitAnalysis struct {
	p       *Program
	sinks   []unitSink
	seenCtx map[string]bool
}

func isCommonStruct(t types.Type) bool {
	n := namedOf(t)
	if n == nil {
		return false
	}
	name := n.Obj().Name()
	return strings.HasPrefix(name, "Nd") && strings.HasSuffix(name, "Common")
}

// locParamIndex: the []int parameter that is a view position, by the API's own signatures.
var locFuncs = map[string]bool{"Index": true, "SliceInto": true, "Get": true, "Set": true, "Slice": true, "Apply": true, "ApplySlice": true}

type unitEnv struct {
	ua    *unitAnalysis
	fn    *ssa.Function
	depth int
	val   map[ssa.Value]unit
	vec   map[ssa.Value]unit // element unit of vectors, keyed by base
	root  bool
}

func (ua *unitAnalysis) newEnv(fn *ssa.Function, params []unit, depth int, root bool) *unitEnv {
	e := &unitEnv{ua: ua, fn: fn, depth: depth, val: map[ssa.Value]unit{}, vec: map[ssa.Value]unit{}, root: root}
	for i, p := range fn.Params {
		if i < len(params) {
			e.setAny(p, params[i])
		}
	}
	return e
}

func isIntVec(t types.Type) bool {
	switch x := t.Underlying().(type) {
	case *types.Slice:
		b, ok := x.Elem().Underlying().(*types.Basic)
		return ok && b.Info()&types.IsInteger != 0
	case *types.Pointer:
		if a, ok := x.Elem().Underlying().(*types.Array); ok {
			b, ok := a.Elem().Underlying().(*types.Basic)
			return ok && b.Info()&types.IsInteger != 0
		}
	}
	return false
}

func isInt(t types.Type) bool {
	b, ok := t.Underlying().(*types.Basic)
	return ok && b.Info()&types.IsInteger != 0
}

func (e *unitEnv) setAny(v ssa.Value, u unit) {
	if isIntVec(v.Type()) {
		e.vec[vecBaseDeep(v)] = u
	} else {
		e.val[v] = u
	}
}

// vecBaseDeep: normalise a vector value to its base (slice-of-alloc → alloc; phi unchanged).
func vecBaseDeep(v ssa.Value) ssa.Value {
	for {
		switch x := v.(type) {
		case *ssa.Slice:
			v = x.X
		case *ssa.ChangeType:
			v = x.X
		default:
			return v
		}
	}
}

func (e *unitEnv) get(v ssa.Value) unit {
	if v == nil {
		return uPoly
	}
	if _, ok := v.(*ssa.Const); ok {
		return uPoly
	}
	if isIntVec(v.Type()) {
		return e.vec[vecBaseDeep(v)]
	}
	return e.val[v]
}

// run evaluates the function to a fixpoint and returns the units of its results.
func (e *unitEnv) run() []unit {
	fn := e.fn
	if fn.Blocks == nil {
		return nil
	}
	for iter := 0; iter < 12; iter++ {
		changed := false
		upd := func(v ssa.Value, u unit) {
			if isIntVec(v.Type()) {
				b := vecBaseDeep(v)
				n := uJoin(e.vec[b], u, e.ua.p.Pos(v.Pos()))
				if !n.eq(e.vec[b]) || n.kind != e.vec[b].kind {
					e.vec[b] = n
					changed = true
				}
				return
			}
			if old, ok := e.val[v]; !ok || !old.eq(u) {
				e.val[v] = u
				changed = true
			}
		}
		eachInstr(fn, func(_ *ssa.BasicBlock, _ int, ins ssa.Instruction) {
			switch x := ins.(type) {
			case *ssa.UnOp:
				if x.Op == token.MUL {
					// load
					switch a := x.X.(type) {
					case *ssa.FieldAddr:
						if name, _, ok := fieldName(a); ok && isCommonStruct(a.X.Type()) {
							if u, ok := commonField[name]; ok {
								upd(x, u)
								return
							}
						}
						upd(x, uPoly)
					case *ssa.IndexAddr:
						if isIntVec(a.X.Type()) {
							upd(x, e.get(a.X))
						}
					case *ssa.Alloc:
						// local cell: join of stores
						u := uPoly
						for _, r := range refs(a) {
							if st, ok := r.(*ssa.Store); ok && st.Addr == ssa.Value(a) {
								u = uJoin(u, e.get(st.Val), e.ua.p.Pos(st.Pos()))
							}
						}
						if isInt(x.Type()) || isIntVec(x.Type()) {
							upd(x, u)
						}
					}
				} else if x.Op == token.SUB && isInt(x.Type()) {
					upd(x, e.get(x.X))
				}
			case *ssa.BinOp:
				if !isInt(x.Type()) {
					return
				}
				a, b := e.get(x.X), e.get(x.Y)
				switch x.Op {
				case token.MUL:
					upd(x, uMul(a, b))
				case token.QUO:
					upd(x, uDiv(a, b))
				case token.ADD, token.SUB:
					upd(x, uJoin(a, b, e.ua.p.Pos(x.Pos())))
				case token.REM:
					upd(x, a)
				default:
					upd(x, uPoly)
				}
			case *ssa.Phi:
				if !isInt(x.Type()) && !isIntVec(x.Type()) {
					return
				}
				u := uPoly
				for _, ed := range x.Edges {
					u = uJoin(u, e.get(ed), e.ua.p.Pos(x.Pos()))
				}
				upd(x, u)
			case *ssa.Store:
				if ia, ok := x.Addr.(*ssa.IndexAddr); ok && isIntVec(ia.X.Type()) {
					upd(ia.X, e.get(x.Val))
				}
			case *ssa.Convert:
				if isInt(x.Type()) {
					upd(x, e.get(x.X))
				}
			case *ssa.Slice:
				// same base: nothing to do
			case *ssa.Call:
				c := x.Common()
				if b, ok := c.Value.(*ssa.Builtin); ok {
					if b.Name() == "len" || b.Name() == "cap" {
						upd(x, uPoly)
					}
					return
				}
				res := e.callUnits(x)
				if res == nil {
					return
				}
				if x.Type() != nil {
					if tup, ok := x.Type().(*types.Tuple); ok {
						_ = tup // extracts handled below
					} else if (isInt(x.Type()) || isIntVec(x.Type())) && len(res) > 0 {
						upd(x, res[0])
					}
				}
			case *ssa.Extract:
				if call, ok := x.Tuple.(*ssa.Call); ok && (isInt(x.Type()) || isIntVec(x.Type())) {
					res := e.callUnits(call)
					if x.Index < len(res) {
						upd(x, res[x.Index])
					}
				}
			}
		})
		if !changed {
			break
		}
	}
	// results
	var out []unit
	for _, ret := range returnsOf(fn) {
		for i, rv := range ret.Results {
			for len(out) <= i {
				out = append(out, uPoly)
			}
			if isInt(rv.Type()) || isIntVec(rv.Type()) {
				u := e.get(rv)
				// a shortcut taken because another vector is all ones (`if allOnes(rhs) { return lhs }`): the value
				// returned equals its element-wise product with that vector, and carries the product's unit
				if isIntVec(rv.Type()) {
					for _, w := range allOnesGuards(ret.Block()) {
						if vecBaseDeep(w) != vecBaseDeep(rv) {
							u = uMul(u, e.get(w))
						}
					}
				}
				out[i] = uJoin(out[i], u, e.ua.p.Pos(ret.Pos()))
			}
		}
	}
	return out
}

var unitCallMemo = map[string][]unit{}
var unitCallSinks = map[string][]unitSink{}

// callUnits returns result units of a call, analysing module helpers from their bodies.
func (e *unitEnv) callUnits(call *ssa.Call) []unit {
	c := call.Common()
	f := c.StaticCallee()
	if f == nil {
		return nil
	}
	if !InModule(f) {
		return nil
	}
	rel := relPkg(fnPkg(f).Path())
	if rel == "data" && f.Name() == "Offsets" {
		return []unit{uSperR}
	}
	if f.Blocks == nil || e.depth >= 4 {
		return nil
	}
	if rel != "data" && rel != "data/cdata" && rel != "util/slice" {
		return nil
	}
	params := make([]unit, len(c.Args))
	key := FuncKey(f)
	for i, a := range c.Args {
		params[i] = e.get(a)
		key += "|" + params[i].String()
	}
	addSinks := func() {
		if e.ua.seenCtx == nil {
			e.ua.seenCtx = map[string]bool{}
		}
		if !e.ua.seenCtx[key] {
			e.ua.seenCtx[key] = true
			e.ua.sinks = append(e.ua.sinks, unitCallSinks[key]...)
		}
	}
	if r, ok := unitCallMemo[key]; ok {
		addSinks()
		return r
	}
	unitCallMemo[key] = nil
	sub := e.ua.newEnv(f, params, e.depth+1, false)
	// API typing also applies inside callees (e.g. Index called with an untyped vector keeps its own loc typing only at the root)
	res := sub.run()
	unitCallMemo[key] = res
	// the callee's own stride-field stores, judged with the units this caller passes in (only where at least one
	// argument carries a unit: an all-polymorphic context says nothing the root analysis of the callee does not)
	typed := false
	for _, u := range params {
		if u.kind != 0 {
			typed = true
		}
	}
	if typed {
		ctx := key[len(FuncKey(f)):]
		for _, sk := range sub.storeSinks(ctx) {
			if strings.HasPrefix(sk.what, "store to ") {
				unitCallSinks[key] = append(unitCallSinks[key], sk)
			}
		}
		addSinks()
	}
	return res
}

// analyseRoot evaluates fn with the API typing of its parameters and records the sinks.
func (ua *unitAnalysis) analyseRoot(fn *ssa.Function) {
	params := make([]unit, len(fn.Params))
	if locFuncs[fn.Name()] && fn.Signature.Recv() != nil {
		// first []int parameter is the view position
		for i, p := range fn.Params {
			if i == 0 {
				continue
			}
			if isIntVec(p.Type()) {
				params[i] = uV
				break
			}
		}
		// `step` parameters are pure numbers
		for i, p := range fn.Params {
			if p.Name() == "step" {
				params[i] = uOne
			}
		}
	}
	e := ua.newEnv(fn, params, 0, true)
	res := e.run()
	ua.sinks = append(ua.sinks, e.storeSinks("")...)
	if fn.Name() == "Index" && fn.Signature.Recv() != nil && isCommonStruct(fn.Signature.Recv().Type()) && len(res) == 1 {
		ua.sinks = append(ua.sinks, unitSink{pos: fn.Pos(), fn: fn, what: "result of Index", want: uS, got: res[0], field: "Index()"})
	}
}

// storeSinks: the unit obligations inside the evaluated function: stores to the stride fields and indexings of Impl.
// ctx is empty for a root (API typing) and names the calling context (parameter units) for a helper evaluated
// for one of its callers: a setter helper's stores are then judged with the units its caller passes in.
func (e *unitEnv) storeSinks(ctx string) []unitSink {
	fn := e.fn
	var out []unitSink
	eachInstr(fn, func(_ *ssa.BasicBlock, _ int, ins ssa.Instruction) {
		switch x := ins.(type) {
		case *ssa.Store:
			if fa, ok := x.Addr.(*ssa.FieldAddr); ok && isCommonStruct(fa.X.Type()) {
				if name, _, ok := fieldName(fa); ok {
					if want, ok := commonField[name]; ok {
						out = append(out, unitSink{ctx: ctx, pos: x.Pos(), fn: fn, what: "store to " + name, want: want, got: e.get(x.Val), field: name})
					}
				}
			}
		case *ssa.IndexAddr:
			if isImplValue(x.X) {
				out = append(out, unitSink{ctx: ctx, pos: x.Pos(), fn: fn, what: "index into Impl", want: uS, got: e.get(x.Index), field: "Impl[]"})
			}
		case *ssa.Slice:
			if isImplValue(x.X) {
				if x.Low != nil {
					out = append(out, unitSink{ctx: ctx, pos: x.Pos(), fn: fn, what: "low bound of Impl[a:b]", want: uS, got: e.get(x.Low), field: "Impl[a:]"})
				}
				if x.High != nil {
					out = append(out, unitSink{ctx: ctx, pos: x.Pos(), fn: fn, what: "high bound of Impl[a:b]", want: uS, got: e.get(x.High), field: "Impl[:b]"})
				}
			}
		}
	})
	return out
}

// isImplValue: v is (a load of, or a local copy of) the Impl field of a concrete array.
func isImplValue(v ssa.Value) bool {
	for _, o := range origins(v) {
		if o == nil {
			return false
		}
		u, ok := o.(*ssa.UnOp)
		if !ok || u.Op != token.MUL {
			return false
		}
		fa, ok := u.X.(*ssa.FieldAddr)
		if !ok {
			return false
		}
		if name, _, _ := fieldName(fa); name != "Impl" {
			return false
		}
	}
	return true
}

// allOnesGuards: the vectors known to hold only ones in block b — arguments of a call of an all-ones predicate
// whose true edge dominates b.
func allOnesGuards(b *ssa.BasicBlock) []ssa.Value {
	var out []ssa.Value
	for _, g := range guardsAt(b) {
		if !g.Val {
			continue
		}
		c, ok := g.Cond.(*ssa.Call)
		if !ok || len(c.Common().Args) != 1 || c.Common().IsInvoke() {
			continue
		}
		if f := c.Common().StaticCallee(); f != nil && isAllOnesPredicate(f) {
			out = append(out, c.Common().Args[0])
		}
	}
	return out
}

var allOnesMemo = map[*ssa.Function]bool{}

// isAllOnesPredicate: f(v []int) bool returns true only if every element of v equals 1 — every `return false` is
// reached only… no: every `return true` lies outside the scan loop, and inside the loop every element that is not 1
// leads to `return false` (the loop body's only way on is the edge on which the element read equals 1).
func isAllOnesPredicate(f *ssa.Function) bool {
	if v, ok := allOnesMemo[f]; ok {
		return v
	}
	res := func() bool {
		if len(f.Blocks) == 0 || len(f.Params) != 1 || !isIntVec(f.Params[0].Type()) || f.Signature.Results().Len() != 1 {
			return false
		}
		if b, ok := f.Signature.Results().At(0).Type().Underlying().(*types.Basic); !ok || b.Kind() != types.Bool {
			return false
		}
		loops := findLoops(f)
		if len(loops) != 1 {
			return false
		}
		l := loops[0]
		// the loop visits every element: a range loop or a counting loop over len(v) is assumed from its shape:
		// exactly one element read v[i] inside the loop, compared with 1
		var test *ssa.If
		var eqOnTrue bool
		nReads := 0
		for b := range l.Blocks {
			for _, ins := range b.Instrs {
				if ld, ok := ins.(*ssa.UnOp); ok && ld.Op == token.MUL {
					if ia, ok := ld.X.(*ssa.IndexAddr); ok && vecBaseDeep(ia.X) == ssa.Value(f.Params[0]) {
						nReads++
					}
				}
			}
			iff, ok := b.Instrs[len(b.Instrs)-1].(*ssa.If)
			if !ok || b == l.Header {
				continue
			}
			bo, ok := iff.Cond.(*ssa.BinOp)
			if !ok || (bo.Op != token.EQL && bo.Op != token.NEQ) {
				return false
			}
			x, y := bo.X, bo.Y
			if c, isC := constInt(x); isC && c == 1 {
				x, y = y, x
			}
			if c, isC := constInt(y); !isC || c != 1 {
				return false
			}
			ld, ok := x.(*ssa.UnOp)
			if !ok {
				return false
			}
			ia, ok := ld.X.(*ssa.IndexAddr)
			if !ok || vecBaseDeep(ia.X) != ssa.Value(f.Params[0]) {
				return false
			}
			if test != nil {
				return false
			}
			test, eqOnTrue = iff, bo.Op == token.EQL
		}
		if test == nil || nReads != 1 {
			return false
		}
		// the not-equal edge leads to `return false` without coming back to the loop
		ne := test.Block().Succs[0]
		if eqOnTrue {
			ne = test.Block().Succs[1]
		}
		if l.Blocks[ne] {
			return false
		}
		rt, ok := ne.Instrs[len(ne.Instrs)-1].(*ssa.Return)
		if !ok || len(ne.Instrs) != 1 {
			return false
		}
		if c, ok := rt.Results[0].(*ssa.Const); !ok || c.Value == nil || c.Value.String() != "false" {
			return false
		}
		// every other return is `true`… and is reached only by leaving the loop at its header
		for _, r2 := range returnsOf(f) {
			if r2 == rt {
				continue
			}
			c, ok := r2.Results[0].(*ssa.Const)
			if !ok || c.Value == nil || c.Value.String() != "true" {
				return false
			}
			if l.Blocks[r2.Block()] {
				return false
			}
		}
		return true
	}()
	allOnesMemo[f] = res
	return res
}
