package main

// R06.7 — state buffers are refilled seamlessly.
//
// A slice-typed state parameter of a kernel (lag buffer, unit-hydrograph buffers) is rewritten by *events*: counting
// loops `buf[i+c] = …` in the kernel, and calls that hand the buffer on to a module helper which rewrites it in the
// same way (at any depth). In every function the events on one branch arm form a chain (by dominance); the rule asks
// that the first event of a chain start at index 0 and that every further event start either a new pass at 0 or
// exactly where the previous one ended — compared as linear forms over the function's own quantities (lag, series
// lengths, …); equal lengths are never assumed. A helper whose own events form one unconditional chain is summarised
// by the range [first start, last end), translated into the caller's quantities at each call (parameter → argument);
// a helper whose first rewrite does not start at 0 is judged at its call sites against what precedes the call.
// What cannot be translated (a start that depends on something other than the helper's parameters) is counted as
// "not judged" in the evidence, not guessed.

import (
	"fmt"
	"go/token"
	"go/types"
	"sort"

	"golang.org/x/tools/go/ssa"
)

type rfAtom struct {
	kind string    // "v": the value itself; "len": the length of val (dim ≥ 0: Len(dim))
	val  ssa.Value // value, or the array/slice whose length it is
	dim  int64
}

type rfEvent struct {
	anchor *ssa.BasicBlock
	ord    int // instruction index of a call within its block; -1 for a loop (anchored at its header)
	loop   *Loop
	call   ssa.CallInstruction
	callee *rfEntry
	// copy(buf[a:b], src): copyCall is the call; mismatch says why the range is not known (windows of different length)
	copyCall ssa.CallInstruction
	mismatch string
	// a shift within the buffer: the source window ends at srcHi
	selfShift bool
	srcHi     linForm
	lo, hi    linForm
	known     bool // lo/hi are linear forms over the function's atoms
	pos       token.Pos
}

type rfEntry struct {
	fn     *ssa.Function
	view   bufView // where the buffer is in fn: a slice parameter, or a field of a struct parameter wrapping it
	name   string
	kernel bool
	events []*rfEvent
	sites  []*rfEvent // call events (in the callers) that hand the buffer to this function

	sumState int // 0 not computed, 1 in progress, 2 done
	sumKnown bool
	sumLo    linForm
	sumHi    linForm
}

type rfCtx struct {
	p       *Program
	r       *Report
	atomID  map[string]int
	atoms   []rfAtom
	entries map[bufView]*rfEntry
	owner   map[*rfEvent]*rfEntry
}

func (c *rfCtx) atom(kind string, val ssa.Value, dim int64) int {
	name := fmt.Sprintf("%s:%p:%d", kind, val, dim)
	id, ok := c.atomID[name]
	if !ok {
		id = len(c.atoms)
		c.atoms = append(c.atoms, rfAtom{kind, val, dim})
		c.atomID[name] = id
	}
	return id
}

// comp: the atoms of the linear forms. Length queries on the same receiver are one atom.
func (c *rfCtx) comp(v ssa.Value) (int, bool) {
	switch x := v.(type) {
	case *ssa.Call:
		nm := callName(x.Common())
		if (nm == "Len1" || nm == "Len") && recvOf(x.Common()) != nil {
			if nm == "Len1" {
				return c.atom("len", origin1(recvOf(x.Common())), -1), true
			}
			if d, ok := constInt(callArgs(x.Common())[0]); ok {
				return c.atom("len", origin1(recvOf(x.Common())), d), true
			}
		} else if nm == "len" && len(x.Common().Args) == 1 {
			return c.atom("len", origin1(x.Common().Args[0]), -1), true
		}
		return c.atom("v", v, 0), true
	case *ssa.BinOp:
		if x.Op == token.ADD || x.Op == token.SUB {
			return 0, false
		}
		return c.atom("v", v, 0), true
	case *ssa.Convert:
		if b, ok := x.X.Type().Underlying().(*types.Basic); ok && b.Info()&types.IsInteger != 0 {
			return 0, false
		}
		return c.atom("v", origin1(x.X), 0), true // int(timeLag): one atom per converted source
	case *ssa.Parameter, *ssa.Phi, *ssa.Extract:
		return c.atom("v", v, 0), true
	case *ssa.UnOp:
		// a field of a struct parameter (`uh.n`)
		if fn := x.Parent(); fn != nil {
			if pi, k, ok := fieldLoad(fn, x); ok {
				return c.atom("fld", fn.Params[pi], int64(k)), true
			}
		}
	}
	return 0, false
}

func rfFloatSlice(t types.Type) bool {
	sl, ok := t.Underlying().(*types.Slice)
	if !ok {
		return false
	}
	b, ok := sl.Elem().Underlying().(*types.Basic)
	return ok && b.Info()&types.IsFloat != 0
}

func lfZero() linForm { return linForm{coef: map[int]int64{}, ok: true} }

func lfAddScaled(dst *linForm, a linForm, k int64) {
	dst.c += k * a.c
	for id, v := range a.coef {
		dst.coef[id] += k * v
	}
}

// translate a linear form over the callee's atoms into the caller's, through the call's arguments.
func (c *rfCtx) translate(lf linForm, callee *ssa.Function, call ssa.CallInstruction) linForm {
	if !lf.ok {
		return linForm{}
	}
	out := lfZero()
	out.c = lf.c
	args := call.Common().Args
	for id, k := range lf.coef {
		if k == 0 {
			continue
		}
		if id <= 0 || id >= len(c.atoms) {
			return linForm{}
		}
		at := c.atoms[id]
		prm, ok := at.val.(*ssa.Parameter)
		if !ok || prm.Parent() != callee {
			return linForm{}
		}
		pi := -1
		for i, fp := range callee.Params {
			if fp == prm {
				pi = i
			}
		}
		if pi < 0 || pi >= len(args) {
			return linForm{}
		}
		switch at.kind {
		case "v":
			a := linEval(args[pi], c.comp, 0)
			if !a.ok {
				return linForm{}
			}
			lfAddScaled(&out, a, k)
		case "len":
			out.coef[c.atom("len", origin1(args[pi]), at.dim)] += k
		case "fld":
			// the struct is built by the caller (a literal) or is the caller's own parameter passed on
			if caller := call.Parent(); caller != nil {
				if q := paramBase(caller, args[pi]); q >= 0 {
					out.coef[c.atom("fld", caller.Params[q], at.dim)] += k
					continue
				}
			}
			vals := structFieldValues(args[pi], int(at.dim), 0)
			if len(vals) != 1 {
				return linForm{}
			}
			a := linEval(vals[0], c.comp, 0)
			if !a.ok {
				return linForm{}
			}
			lfAddScaled(&out, a, k)
		default:
			return linForm{}
		}
	}
	return out
}

func (e *rfEntry) precedes(a, b *rfEvent) bool {
	if a == b {
		return false
	}
	if a.loop != nil && a.loop.Blocks[b.anchor] {
		return false // b happens inside a's loop
	}
	if a.anchor == b.anchor {
		return a.ord >= 0 && b.ord >= 0 && a.ord < b.ord
	}
	return a.anchor.Dominates(b.anchor)
}

// prev: the latest event that is always executed before w on w's branch arm.
func (e *rfEntry) prev(w *rfEvent) *rfEvent {
	var best *rfEvent
	for _, x := range e.events {
		if !e.precedes(x, w) {
			continue
		}
		if best == nil || e.precedes(best, x) {
			best = x
		}
	}
	return best
}

func (c *rfCtx) entryFor(view bufView, name string, kernel bool) (*rfEntry, bool) {
	if e, ok := c.entries[view]; ok {
		return e, false
	}
	e := &rfEntry{fn: view.fn, view: view, name: name, kernel: kernel}
	c.entries[view] = e
	return e, true
}

// build the events of e (and, recursively, the entries of the helpers it hands the buffer to).
func (c *rfCtx) build(e *rfEntry, depth int) {
	loops := findLoops(e.fn)
	for _, l := range loops {
		phi, lo, hi, ok := countingLoop(l)
		if !ok {
			continue
		}
		for b := range l.Blocks {
			if innermostLoop(loops, b) != l {
				continue
			}
			for _, ins := range b.Instrs {
				st, ok := ins.(*ssa.Store)
				if !ok {
					continue
				}
				ia, ok := st.Addr.(*ssa.IndexAddr)
				if !ok || !e.view.is(ia.X) {
					continue
				}
				comp2 := func(v ssa.Value) (int, bool) {
					if v == ssa.Value(phi) {
						return 0, true
					}
					return c.comp(v)
				}
				idx := linEval(ia.Index, comp2, 0)
				if !idx.ok || idx.coef[0] != 1 {
					continue
				}
				sub := func(at ssa.Value) linForm {
					a := linEval(at, c.comp, 0)
					if !a.ok {
						return linForm{}
					}
					out := lfZero()
					out.c = idx.c
					for kk, vv := range idx.coef {
						if kk != 0 {
							out.coef[kk] += vv
						}
					}
					lfAddScaled(&out, a, 1)
					return out
				}
				ev := &rfEvent{anchor: l.Header, ord: -1, loop: l, lo: sub(lo), hi: sub(hi), pos: st.Pos()}
				ev.known = ev.lo.ok && ev.hi.ok
				// a shift within the buffer (`buf[i-k] = buf[i]`): where the values moved come from
				if ld, ok := origin1(st.Val).(*ssa.UnOp); ok && ld.Op == token.MUL {
					if sia, ok := ld.X.(*ssa.IndexAddr); ok && e.view.is(sia.X) {
						if sidx := linEval(sia.Index, comp2, 0); sidx.ok && sidx.coef[0] == 1 {
							if b := linEval(hi, c.comp, 0); b.ok {
								ev.srcHi = lfZero()
								ev.srcHi.c = sidx.c
								for kk, vv := range sidx.coef {
									if kk != 0 {
										ev.srcHi.coef[kk] += vv
									}
								}
								lfAddScaled(&ev.srcHi, b, 1)
								ev.selfShift = true
							}
						}
					}
				}
				e.events = append(e.events, ev)
				c.owner[ev] = e
			}
		}
	}
	// copy(buf[a:b], …): a rewrite of [a, b) — provided the source window has the same length (copy moves only the
	// shorter of the two)
	for _, call := range callsIn(e.fn) {
		bi, ok := call.Common().Value.(*ssa.Builtin)
		if !ok || bi.Name() != "copy" || len(call.Common().Args) != 2 {
			continue
		}
		dst, src := call.Common().Args[0], call.Common().Args[1]
		window := func(v ssa.Value) (lo, n linForm) {
			if sl, ok := v.(*ssa.Slice); ok {
				lo = lfZero()
				if sl.Low != nil {
					lo = linEval(sl.Low, c.comp, 0)
				}
				hi := lfZero()
				if sl.High != nil {
					hi = linEval(sl.High, c.comp, 0)
				} else {
					hi.coef[c.atom("len", origin1(sl.X), -1)] = 1
				}
				if !lo.ok || !hi.ok {
					return linForm{}, linForm{}
				}
				n = lfZero()
				lfAddScaled(&n, hi, 1)
				lfAddScaled(&n, lo, -1)
				return lo, n
			}
			n = lfZero()
			n.coef[c.atom("len", origin1(v), -1)] = 1
			return lfZero(), n
		}
		var base ssa.Value = dst
		if sl, ok := dst.(*ssa.Slice); ok {
			base = sl.X
		}
		if !e.view.is(base) {
			continue
		}
		dlo, dn := window(dst)
		slo, sn := window(src)
		ev := &rfEvent{anchor: call.Block(), ord: instrIndex(call), copyCall: call, pos: call.Pos()}
		var sbase ssa.Value = src
		if sl, ok := src.(*ssa.Slice); ok {
			sbase = sl.X
		}
		if e.view.is(sbase) && slo.ok && sn.ok {
			ev.selfShift = true
			ev.srcHi = lfZero()
			lfAddScaled(&ev.srcHi, slo, 1)
			lfAddScaled(&ev.srcHi, sn, 1)
		}
		if dlo.ok && dn.ok && sn.ok && dn.eq(sn) {
			ev.lo = dlo
			ev.hi = lfZero()
			lfAddScaled(&ev.hi, dlo, 1)
			lfAddScaled(&ev.hi, dn, 1)
			ev.known = true
		} else if dn.ok && sn.ok {
			ev.mismatch = fmt.Sprintf("destination window holds %s elements, source window %s", dn, sn)
		}
		e.events = append(e.events, ev)
		c.owner[ev] = e
	}
	if depth < 6 {
		for _, call := range callsIn(e.fn) {
			h := call.Common().StaticCallee()
			if h == nil || h == e.fn {
				continue
			}
			for _, cv := range handedTo(&e.view, e.view.is, call) {
				as := "`" + h.Params[cv.prm].Name() + "`"
				if cv.field >= 0 {
					as = "`" + h.Params[cv.prm].Name() + "." + structOf(h.Params[cv.prm].Type()).Field(cv.field).Name() + "`"
				}
				child, fresh := c.entryFor(cv, e.name+" (as "+as+" in "+h.Name()+")", false)
				if fresh {
					c.build(child, depth+1)
				}
				if len(child.events) == 0 {
					continue // the helper only reads the buffer
				}
				ev := &rfEvent{anchor: call.Block(), ord: instrIndex(call), call: call, callee: child, pos: call.Pos()}
				e.events = append(e.events, ev)
				c.owner[ev] = e
				child.sites = append(child.sites, ev)
			}
		}
	}
	sort.SliceStable(e.events, func(i, j int) bool {
		a, b := e.events[i], e.events[j]
		if a.anchor != b.anchor {
			return a.anchor.Index < b.anchor.Index
		}
		return a.ord < b.ord
	})
}

// summary of a helper: known when its events form one unconditional chain of known ranges.
func (c *rfCtx) summarise(e *rfEntry) {
	if e.sumState != 0 {
		return
	}
	e.sumState = 1
	defer func() { e.sumState = 2 }()
	if len(e.events) == 0 {
		return
	}
	rets := returnsOf(e.fn)
	var chain []*rfEvent
	for _, ev := range e.events {
		c.resolve(ev)
		if !ev.known {
			return
		}
		for _, ret := range rets {
			if !ev.anchor.Dominates(ret.Block()) {
				return
			}
		}
		chain = append(chain, ev)
	}
	sort.SliceStable(chain, func(i, j int) bool { return e.precedes(chain[i], chain[j]) })
	for i := 0; i+1 < len(chain); i++ {
		if !e.precedes(chain[i], chain[i+1]) {
			return
		}
	}
	e.sumKnown = true
	e.sumLo = chain[0].lo
	e.sumHi = chain[len(chain)-1].hi
}

// resolve the range of a call event from the callee's summary.
func (c *rfCtx) resolve(ev *rfEvent) {
	if ev.call == nil || ev.known || ev.callee == nil {
		return
	}
	if ev.callee.sumState == 1 {
		return // recursion
	}
	c.summarise(ev.callee)
	if !ev.callee.sumKnown {
		return
	}
	lo := c.translate(ev.callee.sumLo, ev.callee.fn, ev.call)
	hi := c.translate(ev.callee.sumHi, ev.callee.fn, ev.call)
	if lo.ok && hi.ok {
		ev.lo, ev.hi, ev.known = lo, hi, true
	}
}

func checkBufferRefill(p *Program, r *Report, models []*Model) {
	r.Rule("R06.7", "state buffers are refilled seamlessly: where a kernel — or a module helper the kernel hands the buffer to, at any depth — rewrites a slice-typed state parameter, once per call (not inside a loop of the kernel), with counting loops `buf[i+c] = …`, the index range written by the first rewrite of a branch starts at 0, and the range of each following rewrite either starts a new pass at 0 or starts exactly where the previous one ended (compared as linear forms; equal lengths are not assumed; a helper with one unconditional chain of rewrites counts in its caller as the range it covers, translated through the call's arguments)")
	n, notJudged, perStepEvents := 0, 0, 0
	for _, m := range models {
		k := m.Kernel
		if k == nil || len(m.States) == 0 {
			continue
		}
		key := m.RelPkg + "." + k.Name()
		c := &rfCtx{p: p, r: r, atomID: map[string]int{}, atoms: []rfAtom{{}}, entries: map[bufView]*rfEntry{}, owner: map[*rfEvent]*rfEntry{}}
		var roots []*rfEntry
		for pi, prm := range k.Params {
			if rfFloatSlice(prm.Type()) {
				e, _ := c.entryFor(bufView{k, pi, -1}, prm.Name(), true)
				c.build(e, 0)
				roots = append(roots, e)
			}
		}
		// every entry reachable from the roots, in a stable order
		var all []*rfEntry
		seen := map[*rfEntry]bool{}
		var walk func(e *rfEntry)
		walk = func(e *rfEntry) {
			if seen[e] {
				return
			}
			seen[e] = true
			all = append(all, e)
			for _, ev := range e.events {
				if ev.callee != nil {
					walk(ev.callee)
				}
			}
		}
		for _, e := range roots {
			walk(e)
		}
		for _, e := range all {
			for _, ev := range e.events {
				c.resolve(ev)
			}
		}
		// Only the rewrites a call performs once matter for continuity: they rebuild the buffer for the next call.
		// What happens to a buffer inside a loop of the kernel (the per-timestep shift of a unit-hydrograph store) is
		// repeated identically by split and unsplit runs and is not judged here.
		nested := func(e *rfEntry, ev *rfEvent) bool {
			for _, l := range findLoops(e.fn) {
				if l.Blocks[ev.anchor] && (ev.loop == nil || l.Header != ev.loop.Header) {
					return true
				}
			}
			return false
		}
		perStep := map[*rfEntry]bool{}
		for _, e := range all { // callers come before callees in `all`
			if e.kernel || len(e.sites) == 0 {
				continue
			}
			every := true
			for _, site := range e.sites {
				parent := c.owner[site]
				if !perStep[parent] && !nested(parent, site) {
					every = false
				}
			}
			perStep[e] = every
		}
		for _, e := range all {
			ord := 0
			for _, w := range e.events {
				if w.call != nil && !w.known {
					continue // a branching helper: its rewrites are judged inside it (and, for their start, at this call)
				}
				if perStep[e] || nested(e, w) {
					perStepEvents++
					continue
				}
				ord++
				okey := fmt.Sprintf("%s:%s:refill#%d", key, e.name, ord)
				what := "loop"
				if w.call != nil {
					what = "call of " + w.callee.fn.Name()
				}
				if w.copyCall != nil {
					what = "copy"
					if w.mismatch != "" {
						n++
						r.Fail("R06.7", okey, p.Pos(w.pos), fmt.Sprintf("the state buffer `%s` is rewritten by a copy between windows of different length (%s; #k are the function's own quantities): copy moves only the shorter of the two, so for all but particular lengths part of the window keeps stale values or part of what should be kept is dropped", e.name, w.mismatch))
						continue
					}
					if !w.known {
						notJudged++
						continue
					}
				}
				if !w.known {
					n++
					r.Undecided("R06.7", okey, p.Pos(w.pos), "the index range written by this loop is not a linear form")
					continue
				}
				if w.selfShift && w.known {
					// the values kept are the tail of what the branch rebuilds: the source window ends where the last
					// rewrite of the chain ends
					var last *rfEvent
					amb := false
					for _, x := range e.events {
						if x == w || !e.precedes(w, x) || perStep[e] || nested(e, x) {
							continue
						}
						if last == nil || e.precedes(last, x) {
							last = x
						} else if !e.precedes(x, last) {
							amb = true
						}
					}
					switch {
					case last == nil || amb || !last.known:
						notJudged++
					case last.hi.eq(w.srcHi):
						n++
						r.OK("R06.7", fmt.Sprintf("%s: the shift of `%s` keeps the tail of the range the branch rebuilds", key, e.name))
					default:
						n++
						r.Fail("R06.7", okey+":shift-source", p.Pos(w.pos), fmt.Sprintf("the shift that keeps the unreleased part of the state buffer `%s` takes its values from a window ending at index %s, but the branch rebuilds the buffer up to index %s (#k are the function's own quantities): the values kept are not the last ones of the buffer, so an entry already used is kept or the newest one is dropped", e.name, w.srcHi, last.hi))
					}
				}
				pv := e.prev(w)
				switch {
				case pv == nil && w.lo.eq(lfZero()):
					n++
					r.OK("R06.7", fmt.Sprintf("%s: first rewrite of `%s` in its branch (%s) starts at index 0", key, e.name, what))
				case pv == nil && e.kernel:
					n++
					r.Fail("R06.7", okey, p.Pos(w.pos), fmt.Sprintf("the first %s that rewrites the state buffer `%s` in this branch starts at index %s, not 0: the front of the buffer keeps stale values", what, e.name, w.lo))
				case pv == nil:
					// a helper whose rewrite starts at one of its parameters: judged where the helper is called
					if c.firstOfChain(e, w) {
						continue // the caller judges the call as a whole (summary)
					}
					for si, site := range e.sites {
						parent := c.owner[site]
						tlo := c.translate(w.lo, e.fn, site.call)
						ppv := parent.prev(site)
						skey := fmt.Sprintf("%s@call#%d", okey, si+1)
						switch {
						case !tlo.ok:
							notJudged++
						case tlo.eq(lfZero()):
							n++
							r.OK("R06.7", fmt.Sprintf("%s: rewrite of `%s` starts at index 0 as called from %s", key, e.name, parent.fn.Name()))
						case ppv == nil && parent.kernel:
							n++
							r.Fail("R06.7", skey, p.Pos(site.pos), fmt.Sprintf("as called here, %s starts rewriting the state buffer `%s` at index %s and nothing has rewritten the front of the buffer before: it keeps stale values", e.fn.Name(), e.name, tlo))
						case ppv == nil || !ppv.known:
							notJudged++
						case ppv.hi.eq(tlo):
							n++
							r.OK("R06.7", fmt.Sprintf("%s: rewrite of `%s` continues where the previous one ended, as called from %s", key, e.name, parent.fn.Name()))
						default:
							n++
							r.Fail("R06.7", skey, p.Pos(site.pos), fmt.Sprintf("the state buffer `%s` is refilled with a gap or an overlap: what precedes this call wrote up to index %s, %s starts at %s (#k are the function's own quantities: lag, series length); only for particular lengths do the two ranges meet", e.name, ppv.hi, e.fn.Name(), tlo))
						}
					}
				case !pv.known:
					notJudged++
				case w.lo.eq(lfZero()):
					n++
					r.OK("R06.7", fmt.Sprintf("%s: rewrite %d of `%s` (%s) is a new pass from index 0", key, ord, e.name, what))
				case pv.hi.eq(w.lo):
					n++
					r.OK("R06.7", fmt.Sprintf("%s: rewrite %d of `%s` (%s) continues where the previous one ended", key, ord, e.name, what))
				default:
					n++
					r.Fail("R06.7", okey, p.Pos(w.pos), fmt.Sprintf("the state buffer `%s` is refilled with a gap or an overlap: the previous rewrite wrote up to index %s, this %s starts at %s (#k are the function's own quantities: lag, series length); only for particular lengths do the two ranges meet, otherwise values land in the wrong slots or past the end", e.name, pv.hi, what, w.lo))
				}
			}
		}
	}
	r.Analysed["R06.7 rewrites not judged (start or predecessor not expressible in the caller's quantities)"] = notJudged
	r.Analysed["R06.7 per-timestep rewrites inside a loop of the kernel (not continuity-relevant, not judged)"] = perStepEvents
	r.Floor("R06.7", "state-buffer rewrites", n, 1)
}

// firstOfChain: e has a known summary and w is the first event of its chain (so every caller judges it through the
// call event).
func (c *rfCtx) firstOfChain(e *rfEntry, w *rfEvent) bool {
	if !e.sumKnown {
		return false
	}
	for _, x := range e.events {
		if x != w && e.precedes(x, w) {
			return false
		}
	}
	for _, site := range e.sites {
		if !site.known {
			return false
		}
	}
	return len(e.sites) > 0
}

// checkEntryClamps (R06.8): a state is not cut on the way in. Where a state argument reaches the variable carried
// around the time loop through math.Min / math.Max against a bound B that is not a constant (a capacity), the loop
// itself has to hold the carried variable against the same B — a comparison or a Min/Max inside the loop with B on
// one side and the carried variable on the other. Otherwise the uninterrupted run can produce values beyond B, and
// every hot start cuts them back: the entry clamp states a belief about the state that the loop does not share.
func checkEntryClamps(p *Program, r *Report, models []*Model) {
	r.Rule("R06.8", "a state is not cut on the way in: where a state argument reaches the loop-carried variable through math.Min/math.Max against a non-constant bound B before the time loop, and the loop holds the same variable against a bound of its own (a comparison or Min/Max inside the loop with the carried variable on one side), that bound is B as well; an entry clamp against another bound than the loop's cuts, at every hot start, values the uninterrupted run carries on")
	nClamps, notComparable := 0, 0
	for _, m := range models {
		k := m.Kernel
		if k == nil || len(m.States) == 0 {
			continue
		}
		key := m.RelPkg + "." + k.Name()
		states := map[ssa.Value]string{}
		for i := range m.States {
			if len(m.Inputs)+i < len(k.Params) {
				states[k.Params[len(m.Inputs)+i]] = m.States[i]
			}
		}
		dependsOnState := func(v ssa.Value) string {
			name := ""
			dependsOn(v, func(x ssa.Value) bool {
				if n, ok := states[x]; ok {
					name = n
					return true
				}
				return false
			}, map[ssa.Value]bool{})
			return name
		}
		for _, l := range timeLoops(k) {
			for _, ins := range l.Header.Instrs {
				phi, ok := ins.(*ssa.Phi)
				if !ok {
					break
				}
				web := phiWeb(phi)
				inWeb := func(v ssa.Value) bool {
					return dependsOn(v, func(x ssa.Value) bool { return web[x] && !isOutsideLoop(x, l) }, map[ssa.Value]bool{})
				}
				for ei, e := range phi.Edges {
					if l.Blocks[l.Header.Preds[ei]] {
						continue
					}
					// Min/Max calls on the way from a state to the entry value, outside the loop
					seen := map[ssa.Value]bool{}
					var walk func(v ssa.Value, depth int)
					walk = func(v ssa.Value, depth int) {
						if v == nil || seen[v] || depth > 8 {
							return
						}
						seen[v] = true
						ins, ok := v.(ssa.Instruction)
						if !ok || l.Blocks[ins.Block()] {
							return
						}
						if c, ok := v.(*ssa.Call); ok {
							if f := c.Common().StaticCallee(); f != nil && fnPkg(f) != nil && fnPkg(f).Path() == "math" && (f.Name() == "Min" || f.Name() == "Max") && len(c.Common().Args) == 2 {
								for i := 0; i < 2; i++ {
									x, b := c.Common().Args[i], c.Common().Args[1-i]
									st := dependsOnState(x)
									if st == "" || dependsOnState(b) != "" {
										continue
									}
									if _, isConst := b.(*ssa.Const); isConst {
										continue
									}
									nClamps++
									held := false
									for blk := range l.Blocks {
										for _, i2 := range blk.Instrs {
											var ops []ssa.Value
											switch y := i2.(type) {
											case *ssa.BinOp:
												switch y.Op {
												case token.LSS, token.GTR, token.LEQ, token.GEQ:
													ops = []ssa.Value{y.X, y.Y}
												}
											case *ssa.Call:
												if g := y.Common().StaticCallee(); g != nil && fnPkg(g) != nil && fnPkg(g).Path() == "math" && (g.Name() == "Min" || g.Name() == "Max") && len(y.Common().Args) == 2 {
													ops = y.Common().Args
												}
											}
											if len(ops) != 2 {
												continue
											}
											for j := 0; j < 2; j++ {
												if (sameValue(ops[j], b) || origin1(ops[j]) != nil && origin1(ops[j]) == origin1(b)) && inWeb(ops[1-j]) {
													held = true
												}
											}
										}
									}
									// does the loop hold the variable against some *other* bound (an explicit comparison or Min/Max with
									// the carried variable on one side and a non-constant on the other)?
									other := ""
									for blk := range l.Blocks {
										for _, i2 := range blk.Instrs {
											var ops []ssa.Value
											switch y := i2.(type) {
											case *ssa.BinOp:
												switch y.Op {
												case token.LSS, token.GTR, token.LEQ, token.GEQ:
													ops = []ssa.Value{y.X, y.Y}
												}
											case *ssa.Call:
												if g := y.Common().StaticCallee(); g != nil && fnPkg(g) != nil && fnPkg(g).Path() == "math" && (g.Name() == "Min" || g.Name() == "Max") && len(y.Common().Args) == 2 {
													ops = y.Common().Args
												}
											}
											if len(ops) != 2 {
												continue
											}
											for j := 0; j < 2; j++ {
												if _, isConst := ops[j].(*ssa.Const); isConst {
													continue
												}
												if web[ops[1-j]] && !inWeb(ops[j]) && isOutsideLoop(origin1OrSelf(ops[j]), l) {
													other = describeBound(p, origin1OrSelf(ops[j]))
												}
											}
										}
									}
									ckey := fmt.Sprintf("%s:entry-clamp:%s", key, st)
									if !held && other == "" {
										notComparable++
										continue // the loop states no bound of its own for this variable: nothing to contradict
									}
									if held {
										r.OK("R06.8", fmt.Sprintf("%s: state `%s` is clamped on entry against a bound the time loop holds the carried variable to as well", key, st))
									} else {
										r.Fail("R06.8", ckey, p.Pos(c.Pos()), fmt.Sprintf("state `%s` is clamped by math.%s against %s before the time loop, while the loop itself holds the carried variable against a different bound (%s) and never against that one: the two disagree about how large the store may get, so the uninterrupted run carries values that every hot start cuts back — a split run loses (or gains) what the entry clamp removes", st, f.Name(), describeBound(p, b), other))
									}
								}
							}
						}
						var ops [16]*ssa.Value
						for _, op := range ins.Operands(ops[:0]) {
							if op != nil {
								walk(*op, depth+1)
							}
						}
					}
					walk(e, 0)
				}
			}
		}
	}
	r.Analysed["R06.8 entry clamps of states against non-constant bounds"] = nClamps
	r.Analysed["R06.8 entry clamps not judged (the loop states no bound of its own)"] = notComparable
}

func origin1OrSelf(v ssa.Value) ssa.Value {
	if o := origin1(v); o != nil {
		return o
	}
	return v
}

func isOutsideLoop(v ssa.Value, l *Loop) bool {
	ins, ok := v.(ssa.Instruction)
	return ok && !l.Blocks[ins.Block()]
}

func describeBound(p *Program, v ssa.Value) string {
	if prm, ok := v.(*ssa.Parameter); ok {
		return "`" + prm.Name() + "`"
	}
	if pos := v.Pos(); pos.IsValid() {
		return "the value at " + p.Pos(pos)
	}
	return v.Name()
}

// checkStatesHandedOn (R06.9): every way out of a stateful kernel hands the states on. For each return statement
// and each state result, the value returned depends on a state argument (through the carried variable, a delegate's
// result, …). A return that yields a constant for a state — a shortcut written before the state argument was copied
// into the result variable — restarts the model from nothing at the next call. Returns taken because an `error` value
// is non-nil are exempt (a configuration the model refuses behaves alike in split and unsplit runs).
func checkStatesHandedOn(p *Program, r *Report, models []*Model) {
	r.Rule("R06.9", "every way out hands the states on: on every return statement of a stateful kernel (other than one guarded by `err != nil` on an error value), the value returned for each state depends on some state argument, or that state's argument has been consumed by something that always happens on the way to the return — a shortcut that returns a constant for a state, without having touched the state argument, drops what the model had stored")
	n := 0
	for _, m := range models {
		k := m.Kernel
		if k == nil || len(m.States) == 0 {
			continue
		}
		key := m.RelPkg + "." + k.Name()
		states := map[ssa.Value]bool{}
		for i := range m.States {
			if len(m.Inputs)+i < len(k.Params) {
				states[k.Params[len(m.Inputs)+i]] = true
			}
		}
		base := 0
		if !m.OutputsAsParams {
			base = len(m.Outputs)
		}
		for ri, ret := range returnsOf(k) {
			errPath := false
			for _, g := range guardsAt(ret.Block()) {
				bo, ok := g.Cond.(*ssa.BinOp)
				if !ok {
					continue
				}
				for _, side := range [][2]ssa.Value{{bo.X, bo.Y}, {bo.Y, bo.X}} {
					if isNilConst(side[1]) && types.Identical(side[0].Type(), types.Universe.Lookup("error").Type()) {
						if bo.Op == token.NEQ && g.Val || bo.Op == token.EQL && !g.Val {
							errPath = true
						}
					}
				}
			}
			if errPath {
				continue
			}
			for si := range m.States {
				if base+si >= len(ret.Results) {
					continue
				}
				n++
				v := ret.Results[base+si]
				dep := dependsOn(v, func(x ssa.Value) bool { return states[x] }, map[ssa.Value]bool{})
				if !dep && len(k.Params) > len(m.Inputs)+si {
					// the state may have been handed on otherwise before this return: consumed by something that
					// always happens on the way here (trap-all adds its stored mass to the first output and returns 0)
					for _, ref := range refs(k.Params[len(m.Inputs)+si]) {
						if _, dbg := ref.(*ssa.DebugRef); dbg {
							continue
						}
						if ref.Block() != nil && ref.Block().Dominates(ret.Block()) {
							dep = true
						}
					}
				}
				if dep {
					r.OK("R06.9", fmt.Sprintf("%s: return %d hands state `%s` on", key, ri+1, m.States[si]))
				} else {
					r.Fail("R06.9", fmt.Sprintf("%s:return#%d:%s", key, ri+1, m.States[si]), p.Pos(ret.Pos()), fmt.Sprintf("on this way out of %s the value returned for state `%s` does not depend on any state argument (it is %s): whatever the model had stored is dropped, and the next call starts from that constant", k.Name(), m.States[si], v.String()))
				}
			}
		}
	}
	r.Floor("R06.9", "state results on return statements", n, 20)
}

// checkCarriedStructFields (R06.1/R06.2 for scalars kept in a local struct): a float field of a struct variable that
// lives across the time loop, and that the loop both writes and reads — directly or through methods handed the
// variable's address — is a carried value like a loop-header phi: its value on entering the loop must derive from a
// state argument, and its final value must be returned as state.
func checkCarriedStructFields(p *Program, r *Report, k *ssa.Function, key string, l *Loop, stateParams map[ssa.Value]string) {
	isState := func(x ssa.Value) bool { _, ok := stateParams[x]; return ok }
	eachInstr(k, func(blk *ssa.BasicBlock, _ int, ins ssa.Instruction) {
		a, ok := ins.(*ssa.Alloc)
		if !ok || l.Blocks[blk] {
			return
		}
		st, ok := a.Type().Underlying().(*types.Pointer).Elem().Underlying().(*types.Struct)
		if !ok {
			return
		}
		for fi := 0; fi < st.NumFields(); fi++ {
			if b, ok := st.Field(fi).Type().Underlying().(*types.Basic); !ok || b.Info()&types.IsFloat == 0 {
				continue
			}
			wIn, rIn, calleeWrites := false, false, false
			var mustWrites []ssa.Instruction
			var directStores []*ssa.Store
			var loads []ssa.Instruction
			for lb := range l.Blocks {
				for _, i2 := range lb.Instrs {
					switch x := i2.(type) {
					case *ssa.Store:
						if fa, ok := x.Addr.(*ssa.FieldAddr); ok && fa.X == ssa.Value(a) && fa.Field == fi {
							wIn = true
							directStores = append(directStores, x)
						}
					case *ssa.UnOp:
						if fa, ok := x.X.(*ssa.FieldAddr); ok && x.Op == token.MUL && fa.X == ssa.Value(a) && fa.Field == fi {
							rIn = true
							loads = append(loads, x)
						}
					case ssa.CallInstruction:
						h := x.Common().StaticCallee()
						if h == nil || h.Blocks == nil || !InModule(h) {
							continue
						}
						for ai, arg := range x.Common().Args {
							if ai >= len(h.Params) {
								break
							}
							switch {
							case stripConv(arg) == ssa.Value(a): // &state handed to a method
								if fieldWrittenBy(h, ai, fi, 0) {
									wIn, calleeWrites = true, true
								}
								if usesField(h, ai, fi, 0) {
									rIn = true
									loads = append(loads, x)
								} else if fieldAlwaysWrittenBy(h, ai, fi) {
									// assigns the field on every path and never reads it: what is read afterwards is this
									// iteration's value
									mustWrites = append(mustWrites, x)
								}
							default: // a copy of the struct (value receiver): read only
								if u, ok := arg.(*ssa.UnOp); ok && u.Op == token.MUL && u.X == ssa.Value(a) && usesField(h, ai, fi, 0) {
									rIn = true
									loads = append(loads, x)
								}
							}
						}
					}
				}
			}
			if !wIn || !rIn {
				continue
			}
			// scratch: written in the kernel itself at the top of every iteration before any use
			{
				scratch := true
				for _, ld := range loads {
					dom := false
					if !calleeWrites || len(mustWrites) > 0 {
						for _, s := range directStores {
							if instrDominates(s, ld) {
								dom = true
							}
						}
					}
					for _, mw := range mustWrites {
						if mw != ld && instrDominates(mw, ld) {
							dom = true
						}
					}
					if !dom {
						scratch = false
					}
				}
				if scratch {
					continue
				}
			}
			name := a.Comment + "." + st.Field(fi).Name()
			ckey := fmt.Sprintf("%s:field:%s", key, name)
			// value on entering the loop
			vals, ok := reachingFieldStores(a, fi, l.Header.Instrs[0], 0)
			fromState := ok && len(vals) > 0
			for _, v := range vals {
				if v == nil || !dependsOn(v, isState, map[ssa.Value]bool{}) {
					fromState = false
				}
			}
			if fromState {
				r.OK("R06.1", fmt.Sprintf("%s: carried field `%s` starts from a state argument", key, name))
			} else {
				r.Fail("R06.1", ckey, p.Pos(a.Pos()), fmt.Sprintf("field `%s` of a struct that lives across the time loop is written in one timestep and read in a later one, but its value on entering the loop does not derive from a state argument: after a split it restarts from that value", name))
			}
			// final value returned as state
			returned := false
			for _, ret := range returnsOf(k) {
				for _, rv := range ret.Results {
					for _, o := range origins(rv) {
						if u, ok := o.(*ssa.UnOp); ok && u.Op == token.MUL {
							if fa, ok := u.X.(*ssa.FieldAddr); ok && fa.X == ssa.Value(a) && fa.Field == fi && !l.Blocks[u.Block()] {
								returned = true
							}
						}
					}
				}
			}
			if returned {
				r.OK("R06.2", fmt.Sprintf("%s: carried field `%s` is returned as state", key, name))
			} else if len(stateParams) > 0 {
				r.Fail("R06.2", ckey, p.Pos(a.Pos()), fmt.Sprintf("field `%s` is carried between timesteps but its final value is not returned as state: the next segment cannot resume from it", name))
			}
		}
	})
}

// checkEntryReplacement (R06.10): a state is not replaced on the way in. The value a carried variable enters the
// time loop with is the state argument on every path; where one path into the loop brings the state and another
// brings a value that does not depend on it but on the inputs or parameters (`if storage <= 0 { storage = f(inflow[0]) }`
// — "no state supplied, start from the first input"), the state's own value decides whether it is believed: the
// uninterrupted run carries the sentinel value on (an empty store stays empty), while a hot start from the very
// same value jumps to the derived one. A constant replacement is not judged (R06.8's territory: a clamp).
func checkEntryReplacement(p *Program, r *Report, models []*Model) {
	clampIfs := 0
	r.Rule("R06.10", "a state is not replaced on the way in: for every variable carried around a kernel's time loop whose entry value comes from a state argument on some path, no other path into the loop brings a value that is independent of that state and computed from inputs or parameters (a sentinel test on the state deciding whether the state is believed)")
	n := 0
	for _, m := range models {
		k := m.Kernel
		if k == nil || len(m.States) == 0 {
			continue
		}
		key := m.RelPkg + "." + k.Name()
		states := map[ssa.Value]string{}
		for i := range m.States {
			if len(m.Inputs)+i < len(k.Params) {
				states[k.Params[len(m.Inputs)+i]] = m.States[i]
			}
		}
		stateOf := func(v ssa.Value) string {
			name := ""
			dependsOn(v, func(x ssa.Value) bool {
				if nm, ok := states[x]; ok {
					name = nm
					return true
				}
				return false
			}, map[ssa.Value]bool{})
			return name
		}
		// does v derive from anything but constants?
		derived := func(v ssa.Value) bool {
			return dependsOn(v, func(x ssa.Value) bool {
				switch y := x.(type) {
				case *ssa.Parameter:
					return true
				case *ssa.Call:
					return y.Common().IsInvoke() || y.Common().StaticCallee() == nil || InModule(y.Common().StaticCallee())
				case *ssa.UnOp:
					return y.Op == token.MUL
				}
				return false
			}, map[ssa.Value]bool{})
		}
		for _, l := range timeLoops(k) {
			for _, ins := range l.Header.Instrs {
				phi, ok := ins.(*ssa.Phi)
				if !ok {
					break
				}
				for ei, e := range phi.Edges {
					if ei >= len(l.Header.Preds) || l.Blocks[l.Header.Preds[ei]] {
						continue
					}
					// the alternatives merged before the loop
					var alts []ssa.Value
					seen := map[ssa.Value]bool{}
					var open func(v ssa.Value)
					open = func(v ssa.Value) {
						if seen[v] {
							return
						}
						seen[v] = true
						if ph, ok := v.(*ssa.Phi); ok && !l.Blocks[ph.Block()] {
							for _, pe := range ph.Edges {
								open(pe)
							}
							return
						}
						alts = append(alts, v)
					}
					open(e)
					if len(alts) < 2 {
						continue
					}
					st := ""
					for _, a := range alts {
						if s := stateOf(a); s != "" {
							st = s
						}
					}
					if st == "" {
						continue
					}
					n++
					okey := fmt.Sprintf("%s:entry-replace:%s", key, st)
					bad := false
					for _, a := range alts {
						if stateOf(a) != "" {
							continue
						}
						if _, isC := a.(*ssa.Const); isC || !derived(a) {
							continue
						}
						// `if s > cap { s = cap }`: the replacement is the very bound the state is compared with — a clamp in
						// if-form (min/max), which cuts but does not replace; R06.8's territory, not judged here
						if comparedWithState(k, l, a, stateOf) {
							clampIfs++
							continue
						}
						bad = true
						pos := phi.Pos()
						if ai, ok := a.(ssa.Instruction); ok && ai.Pos().IsValid() {
							pos = ai.Pos()
						}
						r.Fail("R06.10", okey, p.Pos(pos), fmt.Sprintf("the variable carried around the time loop enters it with state `%s` on one path and, on another, with a value computed from inputs or parameters that does not depend on the state: the state's own value decides whether it is believed, so a hot start from a value the uninterrupted run carries on (an empty store) jumps to the derived value and the split run departs from the uninterrupted one", st))
					}
					if !bad {
						r.OK("R06.10", fmt.Sprintf("%s: every path into the time loop brings state `%s` (or a constant) to the carried variable", key, st))
					}
				}
			}
		}
	}
	r.Analysed["R06.10 carried variables with alternative entry values"] = n
	r.Analysed["R06.10 replacements that are the bound the state is compared with (clamp in if-form, not judged)"] = clampIfs
}

// comparedWithState: before the loop, an ordering comparison has a on one side and a value derived from a state on the other.
func comparedWithState(k *ssa.Function, l *Loop, a ssa.Value, stateOf func(ssa.Value) string) bool {
	found := false
	eachInstr(k, func(b *ssa.BasicBlock, _ int, ins ssa.Instruction) {
		bo, ok := ins.(*ssa.BinOp)
		if !ok || l.Blocks[b] {
			return
		}
		switch bo.Op {
		case token.LSS, token.GTR, token.LEQ, token.GEQ:
		default:
			return
		}
		for j, op := range []ssa.Value{bo.X, bo.Y} {
			other := bo.Y
			if j == 1 {
				other = bo.X
			}
			if (op == a || sameValue(op, a)) && stateOf(other) != "" {
				found = true
			}
		}
	})
	return found
}

// checkStaleStateReads (R06.11): inside the time loop a state is read through its carried variable. Where a state
// argument initialises a variable carried round the time loop (the running value of that state), a direct use of
// the argument inside the loop reads the value the call started with: every timestep of an uninterrupted run then
// works from the store as it was at the start of the period, while after a split the next call works from the
// carried-forward value — the result depends on where the period is cut.
func checkStaleStateReads(p *Program, r *Report, models []*Model) {
	r.Rule("R06.11", "inside a kernel's time loop a state is read through its carried variable: a state argument that initialises a loop-carried variable (directly) is not used inside the loop itself by anything that influences outputs or returned states — the argument holds the value at the start of the call, not the running one")
	n := 0
	for _, m := range models {
		k := m.Kernel
		if k == nil || len(m.States) == 0 {
			continue
		}
		key := m.RelPkg + "." + k.Name()
		states := map[ssa.Value]string{}
		for i := range m.States {
			if len(m.Inputs)+i < len(k.Params) {
				prm := k.Params[len(m.Inputs)+i]
				if b, ok := prm.Type().Underlying().(*types.Basic); ok && b.Info()&types.IsFloat != 0 {
					states[prm] = m.States[i]
				}
			}
		}
		for _, l := range timeLoops(k) {
			carried := map[ssa.Value]bool{}
			for _, ins := range l.Header.Instrs {
				phi, ok := ins.(*ssa.Phi)
				if !ok {
					break
				}
				for ei, e := range phi.Edges {
					if ei < len(l.Header.Preds) && !l.Blocks[l.Header.Preds[ei]] {
						for _, o := range origins(e) {
							if nm, isState := states[o]; isState {
								carried[o] = true
								// the value the carried variable starts from, where that is not the argument itself (the
								// argument converted before the loop, `snapshot := store` taken above the loop): inside the
								// loop it is the state as it was on entry just the same
								if ei2, isInstr := e.(ssa.Instruction); isInstr && e != o && ei2.Block() != nil && !l.Blocks[ei2.Block()] {
									if _, isConst := e.(*ssa.Const); !isConst {
										if _, had := states[e]; !had {
											states[e] = nm
										}
										carried[e] = true
									}
								}
							}
						}
					}
				}
			}
			// the running value may live in a field of a local struct (`stores := simhydStores{soilMoisture: initial…}`)
			// that the loop, or a method it calls on the struct, assigns
			eachInstr(k, func(blk *ssa.BasicBlock, _ int, ins ssa.Instruction) {
				a, ok := ins.(*ssa.Alloc)
				if !ok || l.Blocks[blk] {
					return
				}
				if _, isStruct := a.Type().Underlying().(*types.Pointer).Elem().Underlying().(*types.Struct); !isStruct {
					return
				}
				for _, ref := range refs(a) {
					fa, ok := ref.(*ssa.FieldAddr)
					if !ok || l.Blocks[fa.Block()] {
						continue
					}
					var init ssa.Value
					for _, r2 := range refs(fa) {
						if st, ok := r2.(*ssa.Store); ok && st.Addr == ssa.Value(fa) {
							for _, o := range origins(st.Val) {
								if _, isState := states[o]; isState {
									init = o
								}
							}
						}
					}
					if init == nil {
						continue
					}
					written := false
					for lb := range l.Blocks {
						for _, i2 := range lb.Instrs {
							switch x := i2.(type) {
							case *ssa.Store:
								if f2, ok := x.Addr.(*ssa.FieldAddr); ok && f2.X == ssa.Value(a) && f2.Field == fa.Field {
									written = true
								}
							case ssa.CallInstruction:
								h := x.Common().StaticCallee()
								if h == nil || h.Blocks == nil || !InModule(h) {
									continue
								}
								for ai, arg := range x.Common().Args {
									if ai < len(h.Params) && stripConv(arg) == ssa.Value(a) && fieldWrittenBy(h, ai, fa.Field, 0) {
										written = true
									}
								}
							}
						}
					}
					if written {
						carried[init] = true
					}
				}
			})
			var prms []ssa.Value
			for prm := range carried {
				prms = append(prms, prm)
			}
			sort.Slice(prms, func(i, j int) bool { return prms[i].Pos() < prms[j].Pos() })
			for _, prm := range prms {
				n++
				okey := fmt.Sprintf("%s:stale-state:%s", key, states[prm])
				bad := false
				for _, ref := range refs(prm) {
					b := ref.Block()
					if b == nil || !l.Blocks[b] {
						continue
					}
					if ph, isPhi := ref.(*ssa.Phi); isPhi && b == l.Header {
						_ = ph
						continue
					}
					v, isVal := ref.(ssa.Value)
					if isVal && !influences(v) {
						continue
					}
					bad = true
					r.Fail("R06.11", okey, p.Pos(ref.Pos()), fmt.Sprintf("state argument `%s` is used inside the time loop although a variable carried round the loop holds its running value: each timestep works from the value the call started with, so the result depends on where the simulated period is cut into calls", states[prm]))
					break
				}
				if !bad {
					r.OK("R06.11", fmt.Sprintf("%s: state `%s` is read inside the time loop only through its carried variable", key, states[prm]))
				}
			}
		}
	}
	r.Floor("R06.11", "carried float states", n, 10)
}

// fieldAlwaysWrittenBy: h assigns field fi of the struct its parameter ai points to in a block that dominates every
// return (directly, not through further callees).
func fieldAlwaysWrittenBy(h *ssa.Function, ai, fi int) bool {
	if h == nil || ai >= len(h.Params) || len(h.Blocks) == 0 {
		return false
	}
	rets := returnsOf(h)
	found := false
	eachInstr(h, func(b *ssa.BasicBlock, _ int, ins ssa.Instruction) {
		st, ok := ins.(*ssa.Store)
		if !ok {
			return
		}
		fa, ok := st.Addr.(*ssa.FieldAddr)
		if !ok || fa.Field != fi || origin1(fa.X) != ssa.Value(h.Params[ai]) {
			return
		}
		for _, ret := range rets {
			if !b.Dominates(ret.Block()) {
				return
			}
		}
		found = true
	})
	return found
}
