package main

import (
	"fmt"
	"go/token"

	"golang.org/x/tools/go/ssa"
)

// checkPiecewiseInterpolant (R18.5): on every path on which Piecewise returns without an error, the value returned is
// the linear interpolant of the two bracketing table entries — as polynomials, cleared of denominators,
// y·(x1−x0) − (y0·(x1−x0) + (x−x0)·(y1−y0)) ≡ 0, where x0, x1, y0, y1 are the reads of xs and ys at the two positions
// the bracket search hands back. Any algebraically equal form passes; a path guarded by x1 == x0 is not possible for a
// strictly increasing table and is skipped. At a knot the interpolant is the table value, so this also decides the
// "exact at the knots" clause given the bracket search (R18.3) — a shortcut that returns something else on some
// condition (a neighbouring value for a "narrow" segment, a rounded fraction) does not.
func checkPiecewiseInterpolant(p *Program, r *Report) {
	r.Rule("R18.5", "Piecewise returns the interpolant: on every path through util/fn.Piecewise that returns a nil error, the returned value y satisfies y·(x1−x0) = y0·(x1−x0) + (x−x0)·(y1−y0) identically (polynomial normal form over the argument x and the four table reads at the bracket positions; paths guarded by x1 == x0 are skipped: not possible for a strictly increasing table)")
	pkg := p.SSAPkg[modPath+"/util/fn"]
	if pkg == nil {
		r.Undecided("R18.5", "pkg", "-", "util/fn not loaded")
		return
	}
	fn := pkg.Func("Piecewise")
	if fn == nil || fn.Blocks == nil || len(fn.Params) != 3 {
		r.Undecided("R18.5", "Piecewise", "-", "Piecewise(x, xs, ys) not found")
		return
	}
	key := "util/fn.Piecewise"
	if len(findLoops(fn)) > 0 {
		r.Unsupported("R18.5", key+" contains a loop (the bracket search inlined?): the returned value is not followed through it")
		return
	}
	xPrm, xsPrm, ysPrm := fn.Params[0], fn.Params[1], fn.Params[2]
	// the two bracket positions: the two int results of one call of a helper of the package
	var lo, hi ssa.Value
	for _, c := range callsIn(fn) {
		call, ok := c.(*ssa.Call)
		if !ok {
			continue
		}
		h := c.Common().StaticCallee()
		if h == nil || fnPkg(h) != fnPkg(fn) || h.Signature.Results().Len() != 2 {
			continue
		}
		for _, ref := range refs(call) {
			if ex, ok := ref.(*ssa.Extract); ok {
				if ex.Index == 0 {
					lo = ex
				} else {
					hi = ex
				}
			}
		}
	}
	if lo == nil || hi == nil {
		r.Unsupported("R18.5", key+": the two bracket positions are not the results of one helper call")
		return
	}
	eff := nil2eff(p)
	names := map[ssa.Value]string{xPrm: "x"}
	for _, c := range callsIn(fn) {
		call, ok := c.(*ssa.Call)
		nm := callName(c.Common())
		if !ok || nm != "Get" && nm != "Get1" {
			continue
		}
		var tbl string
		switch origin1(recvOf(c.Common())) {
		case ssa.Value(xsPrm):
			tbl = "x"
		case ssa.Value(ysPrm):
			tbl = "y"
		default:
			continue
		}
		a := callArgs(c.Common())[0]
		var at ssa.Value = a
		if isIntVec(a.Type()) {
			vals, _, unk := vecElemAt(eff, origin1OrSelf(a), 0, c)
			if unk != "" || len(vals) != 1 {
				r.Unsupported("R18.5", key+": the position of a table read is not determined")
				return
			}
			at = vals[0]
		}
		switch origin1OrSelf(at) {
		case lo:
			names[call] = tbl + "0"
		case hi:
			names[call] = tbl + "1"
		default:
			r.Unsupported("R18.5", key+": a table is read at a position that is not one of the two bracket positions")
			return
		}
	}
	// entry → return paths
	var paths [][]*ssa.BasicBlock
	var cur []*ssa.BasicBlock
	var walk func(b *ssa.BasicBlock)
	walk = func(b *ssa.BasicBlock) {
		if len(paths) > 128 {
			return
		}
		cur = append(cur, b)
		defer func() { cur = cur[:len(cur)-1] }()
		if _, ok := b.Instrs[len(b.Instrs)-1].(*ssa.Return); ok {
			paths = append(paths, append([]*ssa.BasicBlock{}, cur...))
			return
		}
		for _, s := range b.Succs {
			walk(s)
		}
	}
	walk(fn.Blocks[0])
	n := 0
	dx := poly{"x1": 1, "x0": -1}
	want := polyAdd(polyMul(poly{"y0": 1}, dx), polyMul(poly{"x": 1, "x0": -1}, poly{"y1": 1, "y0": -1}), 1)
	for _, path := range paths {
		ret := path[len(path)-1].Instrs[len(path[len(path)-1].Instrs)-1].(*ssa.Return)
		if len(ret.Results) != 2 {
			continue
		}
		pc := &pathCtx{pos: map[*ssa.BasicBlock]int{}, path: path, stateOf: map[*ssa.Phi]int{}, kernel: fn}
		pc.names = names
		for i, b := range path {
			pc.pos[b] = i
		}
		// the error result on this path
		errV := ret.Results[1]
		for d := 0; d < 8; d++ {
			ph, ok := errV.(*ssa.Phi)
			if !ok {
				break
			}
			i, on := pc.pos[ph.Block()]
			if !on || i == 0 {
				break
			}
			moved := false
			for k, pr := range ph.Block().Preds {
				if pr == path[i-1] {
					errV = ph.Edges[k]
					moved = true
				}
			}
			if !moved {
				break
			}
		}
		if !isNilConst(errV) {
			continue // an error is reported: no value promised
		}
		// infeasible for a strictly increasing table: x1 == x0
		degenerate := false
		for i := 0; i+1 < len(path); i++ {
			c, v, ok := edgeCond(path[i], path[i+1])
			bo, isB := c.(*ssa.BinOp)
			if !ok || !isB || !(bo.Op == token.EQL && v || bo.Op == token.NEQ && !v) {
				continue
			}
			d := polyAdd(pc.ex(bo.X, 0), pc.ex(bo.Y, 0), -1)
			if polyEqual(d, dx) || polyEqual(d, polyMul(dx, poly{"": -1})) {
				degenerate = true
			}
		}
		if degenerate {
			continue
		}
		n++
		got := pc.ex(ret.Results[0], 0)
		d := pc.clearDenominators(polyAdd(polyMul(got, dx), want, -1))
		pk := fmt.Sprintf("%s:interpolant:path[%s]", key, pathKey(path))
		if polyIsZero(d) {
			r.OK("R18.5", fmt.Sprintf("%s path[%s]: the value returned is y0 + (x−x0)/(x1−x0)·(y1−y0)", key, pathKey(path)))
		} else {
			r.Fail("R18.5", pk, p.Pos(ret.Pos()), fmt.Sprintf("on the path with branches [%s] Piecewise returns %s without an error, which is not the linear interpolant y0 + (x−x0)/(x1−x0)·(y1−y0) of the bracketing entries: between (or at) the knots on this path the table is not reproduced", describePath(p, path), showPoly(got)))
		}
	}
	r.Floor("R18.5", "error-free paths through Piecewise", n, 1)
}
