package main

import (
	"fmt"
	"go/token"
	"go/types"

	"golang.org/x/tools/go/ssa"
)

// checkPiecewiseInterpolant (R18.5): on every path on which Piecewise returns without an error, the value returned is
// the linear interpolant of the two bracketing table entries — as polynomials, cleared of denominators,
// y·(x1−x0) − (y0·(x1−x0) + (x−x0)·(y1−y0)) ≡ 0, where x0, x1, y0, y1 are the reads of xs and ys at the two positions
// the bracket search hands back. Any algebraically equal form passes; a path guarded by x1 == x0 is not possible for a
// strictly increasing table and is skipped. At a knot the interpolant is the table value, so this also decides the
// "exact at the knots" clause given the bracket search (R18.3) — a shortcut that returns something else on some
// condition (a neighbouring value for a "narrow" segment, a rounded fraction) does not.
func checkPiecewiseInterpolant(p *Program, r *Report) {
	r.Rule("R18.5", "Piecewise returns the interpolant: on every path through util/fn.Piecewise that returns a nil error, the returned value y satisfies y·(x1−x0) = y0·(x1−x0) + (x−x0)·(y1−y0) identically (polynomial normal form over the argument x and the four table reads at the bracket positions; paths guarded by x1 == x0 are skipped: not possible for a strictly increasing table)")
	pkg := p.SSAPkg[modPath+"/util/fn"]
	if pkg == nil {
		r.Undecided("R18.5", "pkg", "-", "util/fn not loaded")
		return
	}
	fn := pkg.Func("Piecewise")
	if fn == nil || fn.Blocks == nil || len(fn.Params) != 3 {
		r.Undecided("R18.5", "Piecewise", "-", "Piecewise(x, xs, ys) not found")
		return
	}
	key := "util/fn.Piecewise"
	if len(findLoops(fn)) > 0 {
		r.Unsupported("R18.5", key+" contains a loop (the bracket search inlined?): the returned value is not followed through it")
		return
	}
	xPrm, xsPrm, ysPrm := fn.Params[0], fn.Params[1], fn.Params[2]
	// the two bracket positions: the two int results of one call of a helper of the package
	var lo, hi ssa.Value
	for _, c := range callsIn(fn) {
		call, ok := c.(*ssa.Call)
		if !ok {
			continue
		}
		h := c.Common().StaticCallee()
		if h == nil || fnPkg(h) != fnPkg(fn) || !twoIntResults(h) {
			continue
		}
		for _, ref := range refs(call) {
			if ex, ok := ref.(*ssa.Extract); ok {
				if ex.Index == 0 {
					lo = ex
				} else {
					hi = ex
				}
			}
		}
	}
	if lo == nil || hi == nil {
		r.Unsupported("R18.5", key+": the two bracket positions are not the results of one helper call")
		return
	}
	names := map[ssa.Value]string{xPrm: "x"}
	unknownRead := ""
	eachInstr(fn, func(_ *ssa.BasicBlock, _ int, ins ssa.Instruction) {
		v, isVal := ins.(ssa.Value)
		if !isVal {
			return
		}
		switch ins.(type) {
		case *ssa.Call, *ssa.Extract:
		default:
			return
		}
		tblV, pos, ok := tableRead(p, v, 0)
		if !ok {
			return
		}
		var tbl string
		switch tblV {
		case ssa.Value(xsPrm):
			tbl = "x"
		case ssa.Value(ysPrm):
			tbl = "y"
		default:
			return
		}
		switch origin1OrSelf(pos) {
		case lo:
			names[v] = tbl + "0"
		case hi:
			names[v] = tbl + "1"
		default:
			unknownRead = "a table is read at a position that is not one of the two bracket positions"
		}
	})
	if unknownRead != "" {
		r.Unsupported("R18.5", key+": "+unknownRead)
		return
	}
	// entry → return paths
	var paths [][]*ssa.BasicBlock
	var cur []*ssa.BasicBlock
	var walk func(b *ssa.BasicBlock)
	walk = func(b *ssa.BasicBlock) {
		if len(paths) > 128 {
			return
		}
		cur = append(cur, b)
		defer func() { cur = cur[:len(cur)-1] }()
		if _, ok := b.Instrs[len(b.Instrs)-1].(*ssa.Return); ok {
			paths = append(paths, append([]*ssa.BasicBlock{}, cur...))
			return
		}
		for _, s := range b.Succs {
			walk(s)
		}
	}
	walk(fn.Blocks[0])
	n := 0
	dx := poly{"x1": 1, "x0": -1}
	want := polyAdd(polyMul(poly{"y0": 1}, dx), polyMul(poly{"x": 1, "x0": -1}, poly{"y1": 1, "y0": -1}), 1)
	for _, path := range paths {
		ret := path[len(path)-1].Instrs[len(path[len(path)-1].Instrs)-1].(*ssa.Return)
		if len(ret.Results) != 2 {
			continue
		}
		pc := &pathCtx{pos: map[*ssa.BasicBlock]int{}, path: path, stateOf: map[*ssa.Phi]int{}, kernel: fn}
		pc.names = names
		for i, b := range path {
			pc.pos[b] = i
		}
		// the error result on this path
		errV := ret.Results[1]
		for d := 0; d < 8; d++ {
			ph, ok := errV.(*ssa.Phi)
			if !ok {
				break
			}
			i, on := pc.pos[ph.Block()]
			if !on || i == 0 {
				break
			}
			moved := false
			for k, pr := range ph.Block().Preds {
				if pr == path[i-1] {
					errV = ph.Edges[k]
					moved = true
				}
			}
			if !moved {
				break
			}
		}
		if !isNilConst(errV) {
			continue // an error is reported: no value promised
		}
		// infeasible for a strictly increasing table: x1 == x0
		degenerate := false
		for i := 0; i+1 < len(path); i++ {
			c, v, ok := edgeCond(path[i], path[i+1])
			bo, isB := c.(*ssa.BinOp)
			if !ok || !isB || !(bo.Op == token.EQL && v || bo.Op == token.NEQ && !v) {
				continue
			}
			d := polyAdd(pc.ex(bo.X, 0), pc.ex(bo.Y, 0), -1)
			if polyEqual(d, dx) || polyEqual(d, polyMul(dx, poly{"": -1})) {
				degenerate = true
			}
		}
		if degenerate {
			continue
		}
		n++
		got := pc.ex(ret.Results[0], 0)
		d := pc.clearDenominators(polyAdd(polyMul(got, dx), want, -1))
		pk := fmt.Sprintf("%s:interpolant:path[%s]", key, pathKey(path))
		if polyIsZero(d) {
			r.OK("R18.5", fmt.Sprintf("%s path[%s]: the value returned is y0 + (x−x0)/(x1−x0)·(y1−y0)", key, pathKey(path)))
		} else {
			r.Fail("R18.5", pk, p.Pos(ret.Pos()), fmt.Sprintf("on the path with branches [%s] Piecewise returns %s without an error, which is not the linear interpolant y0 + (x−x0)/(x1−x0)·(y1−y0) of the bracketing entries: between (or at) the knots on this path the table is not reproduced", describePath(p, path), showPoly(got)))
		}
	}
	r.Floor("R18.5", "error-free paths through Piecewise", n, 1)
}

func twoIntResults(h *ssa.Function) bool {
	rs := h.Signature.Results()
	if rs.Len() != 2 {
		return false
	}
	for i := 0; i < 2; i++ {
		b, ok := rs.At(i).Type().Underlying().(*types.Basic)
		if !ok || b.Info()&types.IsInteger == 0 {
			return false
		}
	}
	return true
}

// tableRead: v is the element of an array at one position — x.Get(idx) / x.Get1(i) itself, or the result of a module
// helper that does nothing else with its array and position parameters (`valueAt(vals, i)`,
// `v0, v1 := segment(vals, i, j)`). Returns the array and the position in the caller's terms.
func tableRead(p *Program, v ssa.Value, depth int) (tbl, pos ssa.Value, ok bool) {
	if depth > 3 {
		return nil, nil, false
	}
	var call *ssa.Call
	ri := 0
	switch x := origin1OrSelf(v).(type) {
	case *ssa.Call:
		call = x
	case *ssa.Extract:
		call, _ = x.Tuple.(*ssa.Call)
		ri = x.Index
	}
	if call == nil {
		return nil, nil, false
	}
	if nm := callName(call.Common()); (nm == "Get" || nm == "Get1") && recvOf(call.Common()) != nil && isNDType(recvOf(call.Common()).Type()) {
		a := callArgs(call.Common())[0]
		if isIntVec(a.Type()) {
			vals, _, unk := vecElemAt(nil2eff(p), origin1OrSelf(a), 0, call)
			if unk != "" || len(vals) != 1 {
				return nil, nil, false
			}
			a = vals[0]
		}
		return origin1OrSelf(stripConv(recvOf(call.Common()))), a, true
	}
	h := call.Common().StaticCallee()
	if h == nil || h.Blocks == nil || !InModule(h) || call.Common().IsInvoke() || len(h.Params) != len(call.Common().Args) {
		return nil, nil, false
	}
	if _, isExtract := origin1OrSelf(v).(*ssa.Extract); !isExtract && h.Signature.Results().Len() != 1 {
		return nil, nil, false
	}
	for _, ret := range returnsOf(h) {
		if ri >= len(ret.Results) {
			return nil, nil, false
		}
		t, q, ok := tableRead(p, ret.Results[ri], depth+1)
		if !ok {
			return nil, nil, false
		}
		tp, isP := origin1OrSelf(t).(*ssa.Parameter)
		if !isP || tp.Parent() != h {
			return nil, nil, false
		}
		var ta, qa ssa.Value
		for i, prm := range h.Params {
			if prm == tp {
				ta = call.Common().Args[i]
			}
			if qp, isQ := origin1OrSelf(q).(*ssa.Parameter); isQ && qp == prm {
				qa = call.Common().Args[i]
			}
		}
		if _, isC := constInt(origin1OrSelf(q)); isC {
			qa = origin1OrSelf(q)
		}
		if ta == nil || qa == nil {
			return nil, nil, false
		}
		if tbl != nil && (origin1OrSelf(stripConv(ta)) != tbl || origin1OrSelf(qa) != origin1OrSelf(pos)) {
			return nil, nil, false
		}
		tbl, pos = origin1OrSelf(stripConv(ta)), qa
	}
	return tbl, pos, tbl != nil
}
