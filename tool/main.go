package main

import (
	"encoding/json"
	"flag"
	"fmt"
	"os"
	"sort"
	"strings"
)

type checkFn func(p *Program, r *Report)

type propDef struct {
	level string
	run   checkFn
	noSSA bool
}

var props = map[string]propDef{}

func register(id, level string, fn checkFn) { props[id] = propDef{level: level, run: fn} }

func main() {
	repo := flag.String("repo", "/repo", "repository root")
	prop := flag.String("prop", "", "property id (C01..)")
	tier := flag.String("tier", "quick", "quick|thorough")
	verif := flag.String("verif", "/verif", "verif dir (evidence, known findings)")
	replay := flag.String("replay", "", "replay file: re-evaluate that obligation")
	list := flag.Bool("list", false, "list properties")
	dump := flag.String("dump", "", "debug: dump SSA of functions whose key contains this string")
	flag.Parse()
	if *dump != "" {
		p, err := Load(*repo, loadConfig{})
		if err != nil {
			fmt.Println(err)
			os.Exit(2)
		}
		for _, fn := range p.SrcFuncs() {
			if strings.Contains(FuncKey(fn), *dump) {
				fmt.Println("KEY", FuncKey(fn))
				fn.WriteTo(os.Stdout)
			}
		}
		return
	}

	if os.Getenv("OWCHECK_EFFECTS") != "" {
		p, _ := Load(*repo, loadConfig{})
		e := ComputeEffects(p)
		for _, fn := range p.SrcFuncs() {
			if !strings.Contains(FuncKey(fn), os.Getenv("OWCHECK_EFFECTS")) {
				continue
			}
			s := e.sums[fn]
			for k, w := range s.mut {
				if w != nil {
					fmt.Printf("%s slot %d: %s at %s\n", FuncKey(fn), k, w.what, p.Pos(w.site.Pos()))
				}
			}
		}
		return
	}
	if *list {
		var ids []string
		for id := range props {
			ids = append(ids, id)
		}
		sort.Strings(ids)
		for _, id := range ids {
			fmt.Println(id, props[id].level)
		}
		return
	}
	var want *Finding
	if *replay != "" {
		b, err := os.ReadFile(*replay)
		if err != nil {
			fmt.Println(err)
			os.Exit(2)
		}
		want = &Finding{}
		if err := json.Unmarshal(b, want); err != nil {
			fmt.Println(err)
			os.Exit(2)
		}
		*prop = want.Property
	}
	def, ok := props[*prop]
	if !ok {
		fmt.Printf("unknown property %q\n", *prop)
		os.Exit(2)
	}
	verifDir = *verif
	os.Exit(runProp(*repo, *verif, *prop, *tier, def, want))
}

func runProp(repo, verif, prop, tier string, def propDef, want *Finding) int {
	r := NewReport(prop, tier)
	r.Assumptions = append(r.Assumptions,
		"go/types and go/ssa (x/tools v0.29.0) model the program faithfully; reflection, unsafe and cgo bodies are not modelled",
		"gonum.org/v1/hdf5 cannot be compiled here (hdf5.h missing): type-checked with FakeImportC, its functions are opaque leaves",
		"whole program = ./... of /repo under the default build configuration (no build tags exist in the module)")
	p, err := Load(repo, loadConfig{})
	if err != nil {
		r.Undecided("LOAD", "load", "-", err.Error())
		return r.Finish(verif, def.level, nil)
	}
	if len(p.Pkgs) < 20 {
		r.Undecided("LOAD", "package-count", "-", fmt.Sprintf("only %d module packages loaded, at least 20 expected", len(p.Pkgs)))
	}
	r.Analysed["module packages"] = len(p.Pkgs)
	r.Analysed["ssa functions (whole program)"] = len(p.AllFuncs)
	func() {
		defer func() {
			if e := recover(); e != nil {
				r.Undecided("PANIC", "checker-panic", "-", fmt.Sprintf("checker panicked: %v", e))
				if os.Getenv("OWCHECK_DEBUG") != "" {
					panic(e)
				}
			}
		}()
		def.run(p, r)
	}()
	if tier == "thorough" && want == nil && prop != "C09" && prop != "C16" {
		runVariants(repo, prop, def, r)
	}
	if want != nil {
		// replay: keep only the wanted obligation
		var keep []Finding
		for _, f := range r.Findings {
			if f.Rule == want.Rule && f.Key == want.Key {
				keep = append(keep, f)
			}
		}
		if len(keep) == 0 {
			fmt.Printf("replay: obligation %s [%s] holds on the current tree\n", want.Rule, want.Key)
			return 0
		}
		for _, f := range keep {
			fmt.Printf("%s: %s [%s] %s\n", f.Pos, f.Rule, f.Key, f.Message)
			fmt.Printf("VIOLATION property=%s replay=(replayed)\n", f.Property)
		}
		return 1
	}
	return r.Finish(verif, def.level, extraCoverage[prop])
}

// extraCoverage lets a property add level-specific keys (C09: programs, ...).
var extraCoverage = map[string]map[string]interface{}{}

// runVariants re-evaluates the property under alternative build configurations and requires that no
// configuration shows a violation the default configuration does not show (packages that do not build
// there are dropped; lost anchors are expected and ignored).
func runVariants(repo, prop string, def propDef, r *Report) {
	variants := [][]string{
		{"CGO_ENABLED=0"},
		{"CGO_ENABLED=0", "GOOS=darwin", "GOARCH=amd64"},
		{"CGO_ENABLED=0", "GOOS=windows", "GOARCH=amd64"},
		{"CGO_ENABLED=0", "GOARCH=386"},
	}
	base := map[string]bool{}
	for _, f := range r.Findings {
		base[f.Rule+"|"+f.Key] = true
	}
	for _, env := range variants {
		name := strings.Join(env, " ")
		p2, err := Load(repo, loadConfig{Env: env, AllowDrop: true})
		if err != nil {
			r.Undecided("CONFIG", "load:"+name, "-", "cannot load under "+name+": "+err.Error())
			continue
		}
		// fresh caches for the new program
		unitCallMemo = map[string][]unit{}
		unitCallSinks = map[string][]unitSink{}
		r2 := NewReport(prop, "thorough")
		func() {
			defer func() {
				if e := recover(); e != nil {
					r2.Undecided("PANIC", "checker-panic", "-", fmt.Sprint(e))
				}
			}()
			def.run(p2, r2)
		}()
		extra := 0
		for _, f := range r2.Findings {
			if strings.HasPrefix(f.Key, "anchor-lost:") || strings.Contains(f.Message, "not loaded") || strings.Contains(f.Message, "not found") {
				continue
			}
			if base[f.Rule+"|"+f.Key] {
				continue
			}
			extra++
			r.Fail(f.Rule, "config["+name+"]:"+f.Key, f.Pos, "only under build configuration "+name+": "+f.Message)
		}
		r.Notes = append(r.Notes, fmt.Sprintf("configuration [%s]: %d module packages (dropped: %s), %d obligations, %d discharged, %d findings not present in the default configuration",
			name, len(p2.Pkgs), strings.Join(p2.Dropped, ","), r2.Obligations, r2.Discharged, extra))
		r.Analysed["config ["+name+"] obligations"] = r2.Obligations
	}
}
