package main

import (
	"encoding/json"
	"flag"
	"fmt"
	"os"
	"sort"
	"strings"
)

type checkFn func(p *Program, r *Report)

type propDef struct {
	level string
	run   checkFn
	noSSA bool
}

var props = map[string]propDef{}

func register(id, level string, fn checkFn) { props[id] = propDef{level: level, run: fn} }

func main() {
	repo := flag.String("repo", "/repo", "repository root")
	prop := flag.String("prop", "", "property id (C01..)")
	tier := flag.String("tier", "quick", "quick|thorough")
	verif := flag.String("verif", "/verif", "verif dir (evidence, known findings)")
	replay := flag.String("replay", "", "replay file: re-evaluate that obligation")
	list := flag.Bool("list", false, "list properties")
	dump := flag.String("dump", "", "debug: dump SSA of functions whose key contains this string")
	flag.Parse()
	if *dump != "" {
		p, err := Load(*repo, loadConfig{})
		if err != nil {
			fmt.Println(err)
			os.Exit(2)
		}
		for _, fn := range p.SrcFuncs() {
			if strings.Contains(FuncKey(fn), *dump) {
				fmt.Println("KEY", FuncKey(fn))
				fn.WriteTo(os.Stdout)
			}
		}
		return
	}

	if os.Getenv("OWCHECK_EFFECTS") != "" {
		p, _ := Load(*repo, loadConfig{})
		e := ComputeEffects(p)
		for _, fn := range p.SrcFuncs() {
			if !strings.Contains(FuncKey(fn), os.Getenv("OWCHECK_EFFECTS")) {
				continue
			}
			s := e.sums[fn]
			for k, w := range s.mut {
				if w != nil {
					fmt.Printf("%s slot %d: %s at %s\n", FuncKey(fn), k, w.what, p.Pos(w.site.Pos()))
				}
			}
		}
		return
	}
	if *list {
		var ids []string
		for id := range props {
			ids = append(ids, id)
		}
		sort.Strings(ids)
		for _, id := range ids {
			fmt.Println(id, props[id].level)
		}
		return
	}
	var want *Finding
	if *replay != "" {
		b, err := os.ReadFile(*replay)
		if err != nil {
			fmt.Println(err)
			os.Exit(2)
		}
		want = &Finding{}
		if err := json.Unmarshal(b, want); err != nil {
			fmt.Println(err)
			os.Exit(2)
		}
		*prop = want.Property
	}
	def, ok := props[*prop]
	if !ok {
		fmt.Printf("unknown property %q\n", *prop)
		os.Exit(2)
	}
	verifDir = *verif
	os.Exit(runProp(*repo, *verif, *prop, *tier, def, want))
}

func runProp(repo, verif, prop, tier string, def propDef, want *Finding) int {
	r := NewReport(prop, tier)
	r.Assumptions = append(r.Assumptions,
		"go/types and go/ssa (x/tools v0.29.0) model the program faithfully; reflection, unsafe and cgo bodies are not modelled",
		"gonum.org/v1/hdf5 cannot be compiled here (hdf5.h missing): type-checked with FakeImportC, its functions are opaque leaves",
		"whole program = ./... of /repo under the default build configuration (no build tags exist in the module)")
	p, err := Load(repo, loadConfig{})
	if err != nil {
		r.Undecided("LOAD", "load", "-", err.Error())
		return r.Finish(verif, def.level, nil)
	}
	if len(p.Pkgs) < 20 {
		r.Undecided("LOAD", "package-count", "-", fmt.Sprintf("only %d module packages loaded, at least 20 expected", len(p.Pkgs)))
	}
	r.Analysed["module packages"] = len(p.Pkgs)
	r.Analysed["ssa functions (whole program)"] = len(p.AllFuncs)
	func() {
		defer func() {
			if e := recover(); e != nil {
				r.Undecided("PANIC", "checker-panic", "-", fmt.Sprintf("checker panicked: %v", e))
				if os.Getenv("OWCHECK_DEBUG") != "" {
					panic(e)
				}
			}
		}()
		def.run(p, r)
	}()
	if want != nil {
		// replay: keep only the wanted obligation
		var keep []Finding
		for _, f := range r.Findings {
			if f.Rule == want.Rule && f.Key == want.Key {
				keep = append(keep, f)
			}
		}
		if len(keep) == 0 {
			fmt.Printf("replay: obligation %s [%s] holds on the current tree\n", want.Rule, want.Key)
			return 0
		}
		for _, f := range keep {
			fmt.Printf("%s: %s [%s] %s\n", f.Pos, f.Rule, f.Key, f.Message)
			fmt.Printf("VIOLATION property=%s replay=(replayed)\n", f.Property)
		}
		return 1
	}
	return r.Finish(verif, def.level, extraCoverage[prop])
}

// extraCoverage lets a property add level-specific keys (C09: programs, ...).
var extraCoverage = map[string]map[string]interface{}{}
