package main

import (
	"fmt"
	"go/token"

	"golang.org/x/tools/go/ssa"
)

// checkReleaseWithinCurves (R13.10): the function that applies the release rule — the one that itself looks up both
// the minimum-release and the maximum-release curve — returns on every path a value that lies between the two
// looked-up values: a looked-up value itself, a math.Max/Min (m.MaxFloat64/MinFloat64) combination that holds it
// against them, or another value on a path on which comparisons with the looked-up minimum and maximum have
// established the order. A constant returned on a shortcut path (nothing ordered → 0) releases less than the minimum
// curve demands. Assumes minimum curve ≤ maximum curve (a property of the table, not of the code).
func checkReleaseWithinCurves(p *Program, r *Report, key string, closures []*ssa.Function, consultsArg func(c ssa.CallInstruction) [2]bool) {
	r.Rule("R13.10", "the release lies between the curves on every path: in the function that looks up both the minimum-release and the maximum-release curve and returns the release, every returned value is a looked-up curve value, a Max/Min combination bounded by them, or a value whose return is dominated by comparisons establishing minimum ≤ value and value ≤ maximum (minimum curve ≤ maximum curve assumed); a constant or unclamped value on a shortcut path breaks the release rule for the inputs that take it")
	n := 0
	for _, f := range closures {
		if f.Blocks == nil || f.Signature.Results().Len() != 1 {
			continue
		}
		var minVals, maxVals []ssa.Value
		for _, c := range callsIn(f) {
			v, ok := c.(*ssa.Call)
			if !ok {
				continue
			}
			got := consultsArg(c)
			if got[0] && !got[1] {
				minVals = append(minVals, v)
			}
			if got[1] && !got[0] {
				maxVals = append(maxVals, v)
			}
		}
		if len(minVals) == 0 || len(maxVals) == 0 {
			continue
		}
		in := func(v ssa.Value, set []ssa.Value) bool {
			for _, s := range set {
				if s == v {
					return true
				}
			}
			return false
		}
		minMax := func(v ssa.Value) (string, []ssa.Value) {
			c, ok := v.(*ssa.Call)
			if !ok {
				return "", nil
			}
			g := c.Common().StaticCallee()
			if g == nil || len(c.Common().Args) != 2 {
				return "", nil
			}
			switch g.Name() {
			case "Max", "MaxFloat64":
				return "max", c.Common().Args
			case "Min", "MinFloat64":
				return "min", c.Common().Args
			}
			return "", nil
		}
		// ordered(v, blk, lower): comparisons dominating blk establish bound ≤ v (lower) or v ≤ bound (upper)
		ordered := func(v ssa.Value, blk *ssa.BasicBlock, lower bool, extra []Guard) bool {
			set := maxVals
			if lower {
				set = minVals
			}
			for _, g := range append(guardsAt(blk), extra...) {
				b, ok := g.Cond.(*ssa.BinOp)
				if !ok {
					continue
				}
				op, x, y := b.Op, b.X, b.Y
				if in(x, set) && y == v { // bound op v  →  v op' bound
					x, y = y, x
					switch op {
					case token.LSS:
						op = token.GTR
					case token.LEQ:
						op = token.GEQ
					case token.GTR:
						op = token.LSS
					case token.GEQ:
						op = token.LEQ
					}
				}
				if x != v || !in(y, set) {
					continue
				}
				// v op bound is g.Val
				var ge, le bool // v ≥ bound, v ≤ bound established
				switch op {
				case token.LSS:
					ge = !g.Val
					le = g.Val
				case token.LEQ:
					le = g.Val
					ge = !g.Val
				case token.GTR:
					ge = g.Val
					le = !g.Val
				case token.GEQ:
					ge = g.Val
					le = !g.Val
				}
				if lower && ge || !lower && le {
					return true
				}
			}
			return false
		}
		var bounded func(v ssa.Value, blk *ssa.BasicBlock, lower bool, depth int, extra []Guard) bool
		bounded = func(v ssa.Value, blk *ssa.BasicBlock, lower bool, depth int, extra []Guard) bool {
			if depth > 8 {
				return false
			}
			if in(v, minVals) || in(v, maxVals) {
				return true
			}
			if kind, args := minMax(v); kind != "" {
				any := (kind == "max") == lower // max(…) ≥ each argument; min(…) ≤ each argument
				a, b := bounded(args[0], blk, lower, depth+1, extra), bounded(args[1], blk, lower, depth+1, extra)
				if any {
					return a || b
				}
				return a && b
			}
			if ph, ok := v.(*ssa.Phi); ok {
				for i, e := range ph.Edges {
					pred := ph.Block().Preds[i]
					// the branch taken out of the predecessor into the join is a guard of this edge too
					var eg []Guard
					if iff, ok := pred.Instrs[len(pred.Instrs)-1].(*ssa.If); ok && pred.Succs[0] != pred.Succs[1] {
						for idx := 0; idx < 2; idx++ {
							if pred.Succs[idx] == ph.Block() {
								c, val := normCond(iff.Cond, idx == 0)
								eg = append(eg, Guard{Cond: c, Val: val, If: iff})
							}
						}
					}
					if !bounded(e, pred, lower, depth+1, eg) {
						return false
					}
				}
				return true
			}
			return ordered(v, blk, lower, extra)
		}
		for ri, ret := range returnsOf(f) {
			if len(ret.Results) != 1 {
				continue
			}
			n++
			v := ret.Results[0]
			okey := fmt.Sprintf("%s:%s:return#%d", key, f.Name(), ri)
			lo, hi := bounded(v, ret.Block(), true, 0, nil), bounded(v, ret.Block(), false, 0, nil)
			if lo && hi {
				r.OK("R13.10", okey+": the returned release is held between the looked-up minimum and maximum")
				continue
			}
			what := "neither the minimum nor the maximum release"
			if lo {
				what = "the maximum release not"
			} else if hi {
				what = "the minimum release not"
			}
			r.Fail("R13.10", okey, p.Pos(ret.Pos()), fmt.Sprintf("the release rule returns `%s` on this path with %s established for it: the value is not a looked-up curve value, not held against the curves by Max/Min, and no comparison with them dominates the return — for the inputs that take this path the release can lie outside the interval between the minimum and maximum release curves", v.String(), what))
		}
	}
	r.Analysed["R13.10 returns of the release rule"] = n
}
