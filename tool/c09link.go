package main

import (
	"fmt"
	"sort"
	"strings"

	"golang.org/x/tools/go/packages"
	"golang.org/x/tools/go/ssa"
)

// checkCatalogLinked (R09.4): a model is in the catalogue of a program only if the package whose init() registers it
// is linked into that program. The wrappers register themselves from init(), so which models a binary knows is
// decided by its import graph alone: for every main package of the module from whose functions a read of sim.Catalog
// can be reached (the runners, the inspector, the shared library), the transitive imports contain every package that
// registers an OW-SPEC model.
func checkCatalogLinked(p *Program, r *Report) {
	r.Rule("R09.4", "every registered model is linked into every program that consults the catalogue: for each main package of the module from whose functions a read (lookup, range, len) of sim.Catalog is reachable in the call graph, the transitive import closure contains every package in which an init() registers an OW-SPEC model")
	regPkgs := map[string]int{}
	for _, e := range p.CatalogEntries() {
		if pk := fnPkg(e.In); pk != nil {
			regPkgs[pk.Path()]++
		}
	}
	// functions that consult the catalogue
	consults := map[*ssa.Function]bool{}
	for _, fn := range p.SrcFuncs() {
		eachInstr(fn, func(_ *ssa.BasicBlock, _ int, ins ssa.Instruction) {
			u, ok := ins.(*ssa.UnOp)
			if !ok {
				return
			}
			g, ok := u.X.(*ssa.Global)
			if !ok || g.Name() != "Catalog" || g.Pkg == nil || relPkg(g.Pkg.Pkg.Path()) != "sim" {
				return
			}
			for _, ref := range *u.Referrers() {
				if mu, isReg := ref.(*ssa.MapUpdate); isReg && mu.Map == ssa.Value(u) {
					continue
				}
				if _, dbg := ref.(*ssa.DebugRef); dbg {
					continue
				}
				consults[fn] = true
			}
		})
	}
	cg := p.CallGraph()
	nProg := 0
	var paths []string
	for path := range p.ByPath {
		paths = append(paths, path)
	}
	sort.Strings(paths)
	for _, path := range paths {
		pkg := p.ByPath[path]
		if pkg.Name != "main" {
			continue
		}
		sp := p.SSAPkg[path]
		if sp == nil {
			continue
		}
		// reachable functions from every function of the main package (main, init, exported entry points)
		seen := map[*ssa.Function]bool{}
		var work []*ssa.Function
		for fn := range p.AllFuncs {
			if fnPkg(fn) != nil && fnPkg(fn).Path() == path {
				seen[fn] = true
				work = append(work, fn)
			}
		}
		var via *ssa.Function
		for len(work) > 0 && via == nil {
			fn := work[len(work)-1]
			work = work[:len(work)-1]
			if consults[fn] {
				via = fn
				break
			}
			if n := cg.Nodes[fn]; n != nil {
				for _, e := range n.Out {
					if c := e.Callee.Func; c != nil && !seen[c] && InModule(c) {
						seen[c] = true
						work = append(work, c)
					}
				}
			}
		}
		if via == nil {
			continue
		}
		nProg++
		closure := map[string]bool{}
		var walk func(q *packages.Package)
		walk = func(q *packages.Package) {
			if closure[q.PkgPath] {
				return
			}
			closure[q.PkgPath] = true
			for _, im := range q.Imports {
				walk(im)
			}
		}
		walk(pkg)
		var missing []string
		nModels := 0
		for rp, k := range regPkgs {
			if !closure[rp] {
				missing = append(missing, relPkg(rp))
				nModels += k
			}
		}
		sort.Strings(missing)
		key := relPkg(path) + ":links-registrations"
		if len(missing) > 0 {
			r.Fail("R09.4", key, relPkg(path), fmt.Sprintf("program %s consults sim.Catalog (through %s) but does not link %s: the %d model(s) registered there by init() are missing from its catalogue, so a run that names one fails with an unknown model", relPkg(path), FuncKey(via), strings.Join(missing, ", "), nModels))
		} else {
			r.OK("R09.4", fmt.Sprintf("%s links all %d registering packages (consults the catalogue through %s)", relPkg(path), len(regPkgs), FuncKey(via)))
		}
	}
	r.Analysed["R09.4 registering packages"] = len(regPkgs)
	r.Floor("R09.4", "programs that consult the catalogue", nProg, 2)
	r.Floor("R09.4", "registering packages", len(regPkgs), 5)
}
