package main

// C01: slices are live strided views; exact write footprints.

import (
	"fmt"
	"go/token"
	"go/types"
	"sort"
	"strings"

	"golang.org/x/tools/go/ssa"
)

func init() { register("C01", "other", checkC01) }

// concreteArrayTypes returns the named struct types (in data / data/cdata) that embed an Nd*Common and have an Impl field.
type arrayType struct {
	named  *types.Named
	rel    string
	cBack  bool
	method map[string]*ssa.Function
}

func arrayTypes(p *Program) []*arrayType {
	var out []*arrayType
	for _, rel := range []string{"data", "data/cdata"} {
		pk := p.SSAPkg[modPath+"/"+rel]
		if pk == nil {
			continue
		}
		var names []string
		for n := range pk.Members {
			names = append(names, n)
		}
		sort.Strings(names)
		for _, n := range names {
			t, ok := pk.Members[n].(*ssa.Type)
			if !ok {
				continue
			}
			st, ok := t.Type().Underlying().(*types.Struct)
			if !ok {
				continue
			}
			hasImpl, hasCommon := false, false
			for i := 0; i < st.NumFields(); i++ {
				f := st.Field(i)
				if f.Name() == "Impl" {
					hasImpl = true
				}
				if f.Embedded() && isCommonStruct(f.Type()) {
					hasCommon = true
				}
			}
			if !hasImpl || !hasCommon {
				continue
			}
			at := &arrayType{named: t.Type().(*types.Named), rel: rel, cBack: rel == "data/cdata", method: map[string]*ssa.Function{}}
			ms := p.SSA.MethodSets.MethodSet(types.NewPointer(t.Type()))
			for i := 0; i < ms.Len(); i++ {
				f := p.SSA.MethodValue(ms.At(i))
				if f != nil {
					at.method[f.Name()] = f
				}
			}
			out = append(out, at)
		}
	}
	return out
}

// declaredMethod: method declared on the concrete type itself (not promoted).
func (a *arrayType) own(name string) *ssa.Function {
	f := a.method[name]
	if f == nil || f.Synthetic != "" {
		return nil
	}
	return f
}

func checkC01(p *Program, r *Report) {
	checkArrayAlgebra(p, r, "C01")
}

func dataFuncs(p *Program) []*ssa.Function {
	var out []*ssa.Function
	out = append(out, p.PkgFuncs("data")...)
	out = append(out, p.PkgFuncs("data/cdata")...)
	return out
}

// checkArrayAlgebra runs R01.1–R01.3 on both back-ends (C01 reports all; C03 re-runs it for the C back-end).
func checkArrayAlgebra(p *Program, r *Report, prop string) {
	r.Rule("R01.1", "stride-unit consistency: abstract interpretation over units S (storage), R (allocated index), V (view index) with Start:S, Offset:S/R, Step:R/V, OffsetStep:S/V, loc:V, step:1; every store to those fields, every index into Impl and the result of Index must have the field's unit; helpers (dotProduct, Multiply, decrement, Ones, …) are analysed from their bodies")
	r.Rule("R01.2", "views share storage: Slice returns a fresh struct whose Impl is the receiver's Impl (no allocation, no copy)")
	r.Rule("R01.3", "single addressing path: every element access of a backing store uses Index(loc) of the same receiver with the method's own loc; Get and Set use the same path; range accesses Impl[a:b] only in contiguity-guarded fast paths, and never open-ended (Impl[a:] runs past the view)")
	r.Assumptions = append(r.Assumptions,
		"decides the shape of the index algebra and of storage sharing; does not decide that loc/dims/step are in bounds, nor arithmetic beyond dimensional consistency (a factor of 2 would pass)",
		"Dims/OriginalDims are untyped (extents); integer literals and lengths are unit-polymorphic")

	only := func(at *arrayType) bool {
		if prop == "C03" {
			return at.cBack
		}
		return true
	}
	// R01.1
	ua := &unitAnalysis{p: p}
	nf := 0
	for _, fn := range dataFuncs(p) {
		if prop == "C03" && relPkg(fnPkg(fn).Path()) != "data/cdata" {
			// the shared Common algebra is part of the C back-end too
			if fn.Signature.Recv() == nil || !isCommonStruct(fn.Signature.Recv().Type()) {
				continue
			}
		}
		ua.analyseRoot(fn)
		nf++
	}
	r.Analysed["R01.1 functions analysed"] = nf
	ord := map[string]int{}
	nSinks := 0
	for _, s := range ua.sinks {
		base := FuncKey(s.fn) + ":" + s.field + s.ctx
		ord[base]++
		key := fmt.Sprintf("%s#%d", base, ord[base])
		nSinks++
		ok := s.got.kind == 0 || (s.got.kind == 1 && s.got.eq(s.want))
		if ok {
			r.OK("R01.1", fmt.Sprintf("%s: %s has unit %s", FuncKey(s.fn), s.what, unitShow(s.got, s.want)))
		} else {
			r.Fail("R01.1", key, p.Pos(s.pos), fmt.Sprintf("%s must have unit %s (S=storage cells, R=allocated index, V=view index) but the value has unit %s: the formula is wrong for every non-unit step of an ancestor view", s.what, s.want, s.got))
		}
	}
	floor := 50
	if prop == "C03" {
		floor = 20
	}
	r.Floor("R01.1", "unit sinks (field stores, Impl indexings, Index results)", nSinks, floor)

	// R01.4: strides and the shape they were allocated for travel together
	r.Rule("R01.4", "stride/shape coherence: wherever a view struct is given its Offset (allocation strides), its OriginalDims comes from the same source: both inherited from the same parent view, or Offset = Offsets(S) and OriginalDims = S for the same S (the contiguity predicate compares Dims with OriginalDims and Offset with products of Dims)")
	n4 := 0
	for _, fn := range dataFuncs(p) {
		if prop == "C03" && relPkg(fnPkg(fn).Path()) != "data/cdata" {
			if fn.Signature.Recv() == nil || !isCommonStruct(fn.Signature.Recv().Type()) {
				continue
			}
		}
		type pairT struct{ off, od *fieldStoreEv }
		var offs, ods []*fieldStoreEv
		for _, ev := range commonFieldStores(fn) {
			ev := ev
			if ev.field == "Offset" {
				offs = append(offs, &ev)
			}
			if ev.field == "OriginalDims" {
				ods = append(ods, &ev)
			}
		}
		structOf := func(ev *fieldStoreEv) ssa.Value {
			return objOf(ev.base)
		}
		var order []*pairT
		for _, o := range offs {
			if o.setterOwn {
				continue // a setter helper's own store: judged at each call of the helper
			}
			pt := &pairT{off: o}
			for _, d := range ods {
				if structOf(d) != structOf(o) {
					continue
				}
				if d.at.Block() == o.at.Block() {
					pt.od = d
				} else if pt.od == nil && d.at.Block().Dominates(o.at.Block()) {
					pt.od = d
				}
			}
			order = append(order, pt)
		}
		seenP := map[*pairT]bool{}
		k := 0
		for _, pt := range order {
			if seenP[pt] {
				continue
			}
			seenP[pt] = true
			n4++
			k++
			key := fmt.Sprintf("%s:stride-shape#%d", FuncKey(fn), k)
			if pt.od == nil {
				r.Fail("R01.4", key, p.Pos(pt.off.at.Pos()), "a view is given allocation strides (Offset) but no OriginalDims")
				continue
			}
			srcOf := func(v ssa.Value, field string) (kind string, src ssa.Value) {
				if v == nil {
					return "?", nil
				}
				for _, o := range origins(v) {
					if o == nil {
						return "?", nil
					}
					if c, okc := o.(*ssa.Call); okc && callName(c.Common()) == "Offsets" {
						return "fresh", origin1(c.Common().Args[0])
					}
					// derived from a parent's field: walk to a load of <parent>.<field>
					var found ssa.Value
					dependsOn(o, func(x ssa.Value) bool {
						if n, b, okf := loadedField(x); okf && n == field {
							found = objOf(b)
							return true
						}
						return false
					}, map[ssa.Value]bool{})
					if found != nil {
						return "inherited", found
					}
					return "value", origin1(o)
				}
				return "?", nil
			}
			// judge: the relation between the strides and the allocation shape stored together; a constructor that
			// stores two of its own parameters (`newArrayTypeCView(impl, start, originalDims, dims, step, offset)`) is
			// judged at each of its calls, with the arguments passed there
			var judge func(offVal, odVal ssa.Value, depth int) (string, string)
			judge = func(offVal, odVal ssa.Value, depth int) (string, string) {
				ok1, so := srcOf(offVal, "Offset")
				ok2, sd := srcOf(odVal, "OriginalDims")
				switch {
				case ok1 == "fresh":
					if ok2 == "value" && sd == so {
						return "ok", "Offset = Offsets(S), OriginalDims = S"
					}
					return "fail", "fresh row-major strides Offsets(S) are stored together with an OriginalDims that is not S: Contiguous() then compares the view's extents with the wrong allocation shape (false negatives, or an index out of range when the rank differs)"
				case ok1 == "inherited":
					if ok2 == "inherited" && sd == so {
						return "ok", "Offset and OriginalDims inherited from the same view"
					}
					return "fail", "strides inherited from a parent view are stored with an OriginalDims from a different source"
				}
				po, isP1 := so.(*ssa.Parameter)
				pd, isP2 := sd.(*ssa.Parameter)
				if ok1 == "value" && ok2 == "value" && isP1 && isP2 && po.Parent() == pd.Parent() && depth < 3 {
					f := po.Parent()
					io, id := -1, -1
					for i, q := range f.Params {
						if q == po {
							io = i
						}
						if q == pd {
							id = i
						}
					}
					nCalls := 0
					for _, caller := range dataFuncs(p) {
						for _, c := range callsIn(caller) {
							if c.Common().StaticCallee() != f || c.Common().IsInvoke() || io >= len(c.Common().Args) || id >= len(c.Common().Args) {
								continue
							}
							nCalls++
							verdict, why := judge(c.Common().Args[io], c.Common().Args[id], depth+1)
							if verdict != "ok" {
								return verdict, fmt.Sprintf("at the call of %s in %s: %s", f.Name(), caller.Name(), why)
							}
						}
					}
					if nCalls > 0 {
						return "ok", fmt.Sprintf("constructor %s: at each of its %d calls the strides and the allocation shape passed belong together", f.Name(), nCalls)
					}
				}
				return "undecided", "origin of the stored strides not recognised"
			}
			switch verdict, why := judge(pt.off.val, pt.od.val, 0); verdict {
			case "ok":
				r.OK("R01.4", fmt.Sprintf("%s: %s", FuncKey(fn), why))
			case "fail":
				r.Fail("R01.4", key, p.Pos(pt.od.at.Pos()), why)
			default:
				r.Undecided("R01.4", key, p.Pos(pt.off.at.Pos()), why)
			}
		}
	}
	floor4 := 24
	if prop == "C03" {
		floor4 = 9
	}
	r.Floor("R01.4", "stride/shape constructions", n4, floor4)

	for _, at := range arrayTypes(p) {
		if sl := at.own("Slice"); sl != nil {
			sliceSharesStorage(sl) // records the helpers that build views (viewBuilders)
		}
	}
	checkNoDoubleStep(p, r, prop)
	checkAccessorSiblings(p, r, only)
	checkSeriesAxisSelectors(p, r, only)
	checkViewsOwnStrides(p, r, prop)
	checkRequestedExtents(p, r, prop)
	checkStartFromParentStrides(p, r, prop)
	checkRunWritesAllValues(p, r, only)
	r.Rule("R01.5", "views are live: a view object holds nothing but strides and the shared storage (no second element buffer), and what Unroll hands out is the storage itself or gathered in the same call, never a copy cached in the view")
	// R01.2 / R01.3
	ats := arrayTypes(p)
	nT := 0
	for _, at := range ats {
		if !only(at) {
			continue
		}
		nT++
		tname := at.rel + "." + at.named.Obj().Name()
		checkUnrollFresh(p, r, at, tname, "R01.5")
		// R01.2
		if sl := at.own("Slice"); sl == nil {
			r.Undecided("R01.2", tname+":Slice", "-", "concrete array type has no Slice method of its own")
		} else if why := sliceSharesStorage(sl); why != "" {
			r.Fail("R01.2", tname+":Slice", p.Pos(sl.Pos()), "Slice does not return a view sharing the receiver's storage: "+why)
		} else {
			r.OK("R01.2", tname+".Slice: result.Impl = receiver.Impl")
		}
		// R01.3
		var names []string
		for n := range at.method {
			names = append(names, n)
		}
		sort.Strings(names)
		touch := []string{}
		for _, n := range names {
			fn := at.own(n)
			if fn == nil {
				continue
			}
			touched := false
			k := 0
			eachInstr(fn, func(_ *ssa.BasicBlock, _ int, ins ssa.Instruction) {
				switch x := ins.(type) {
				case *ssa.IndexAddr:
					if !isImplValue(x.X) {
						return
					}
					touched = true
					k++
					key := fmt.Sprintf("%s.%s:Impl[]#%d", tname, n, k)
					if why := indexIsOwnIndexOfLoc(fn, x); why != "" {
						r.Fail("R01.3", key, p.Pos(x.Pos()), "element of the backing store is addressed without Index(loc) of the same receiver: "+why)
					} else {
						r.OK("R01.3", fmt.Sprintf("%s.%s: Impl[recv.Index(loc)]", tname, n))
					}
				case *ssa.Slice:
					if isImplValue(x.X) {
						touched = true
						k++
						key := fmt.Sprintf("%s.%s:Impl[a:b]#%d", tname, n, k)
						if openEndedImplWindow(x) {
							r.Fail("R01.3", key+":open-ended", p.Pos(x.Pos()), openEndedMsg)
						} else if guardedByContiguous(x.Block(), nil) {
							r.OK("R01.3", fmt.Sprintf("%s.%s: Impl[a:b] under a Contiguous() guard", tname, n))
						} else {
							r.Fail("R01.3", key, p.Pos(x.Pos()), "range access to the backing store outside a Contiguous()==true guard")
						}
					}
				}
			})
			if touched {
				touch = append(touch, n)
			}
		}
		r.Notes = append(r.Notes, fmt.Sprintf("%s: methods addressing Impl elements: %s", tname, strings.Join(touch, ",")))
		// Get and Set use the same path
		g, s := at.own("Get"), at.own("Set")
		if g == nil || s == nil {
			r.Undecided("R01.3", tname+":GetSet", "-", "Get or Set missing")
		}
	}
	want := 18
	if prop == "C03" {
		want = 9
	}
	r.Floor("R01.2", "concrete array types", nT, want)
}

func unitShow(got, want unit) string {
	if got.kind == 0 {
		return want.String() + " (polymorphic value)"
	}
	return got.String()
}

// viewBuilders: helper methods that build the view Slice returns (found by R01.2)
var viewBuilders = map[*ssa.Function]bool{}

// sliceSharesStorage: every return of Slice is a fresh struct whose Impl field is stored exactly the receiver's Impl.
func sliceSharesStorage(fn *ssa.Function) string {
	recv := fn.Params[0]
	for _, ret := range returnsOf(fn) {
		for _, o := range origins(ret.Results[0]) {
			if o == nil {
				return "may return nil"
			}
			a, ok := stripConv(o).(*ssa.Alloc)
			if !ok {
				// the view may be built by a helper method of the same type on the same receiver
				// (`return nd.view(loc, dims, step)`): judged there
				if c, isCall := stripConv(o).(*ssa.Call); isCall {
					if h := c.Common().StaticCallee(); h != nil && h != fn && h.Blocks != nil && InModule(h) && h.Signature.Recv() != nil &&
						len(c.Common().Args) > 0 && c.Common().Args[0] == ssa.Value(recv) && types.Identical(h.Signature.Recv().Type(), fn.Signature.Recv().Type()) {
						if why := sliceSharesStorage(h); why != "" {
							return why + " (in " + h.Name() + ")"
						}
						viewBuilders[h] = true
						continue
					}
				}
				return "returned value is not a freshly allocated view struct"
			}
			nStores := 0
			for _, ref := range refs(a) {
				fa, ok := ref.(*ssa.FieldAddr)
				if !ok {
					continue
				}
				if name, _, _ := fieldName(fa); name != "Impl" {
					continue
				}
				for _, r2 := range refs(fa) {
					st, ok := r2.(*ssa.Store)
					if !ok || st.Addr != ssa.Value(fa) {
						continue
					}
					nStores++
					// value must be load of recv.Impl
					good := false
					if u, ok := st.Val.(*ssa.UnOp); ok && u.Op == token.MUL {
						if rfa, ok := u.X.(*ssa.FieldAddr); ok {
							if name, base, _ := fieldName(rfa); name == "Impl" && base == ssa.Value(recv) {
								good = true
							}
						}
					}
					if !good {
						return "result.Impl is assigned " + st.Val.String() + ", not the receiver's Impl"
					}
				}
			}
			if nStores == 0 {
				return "result.Impl is never assigned"
			}
		}
	}
	return ""
}

// indexIsOwnIndexOfLoc: ia.Index == recv.Index(loc) with recv the method receiver and loc derived from the method's own parameters.
func indexIsOwnIndexOfLoc(fn *ssa.Function, ia *ssa.IndexAddr) string {
	recv := fn.Params[0]
	// Impl must be the receiver's own Impl
	okImpl := false
	for _, o := range origins(ia.X) {
		if u, ok := o.(*ssa.UnOp); ok && u.Op == token.MUL {
			if fa, ok := u.X.(*ssa.FieldAddr); ok && fa.X == ssa.Value(recv) {
				okImpl = true
			}
		}
	}
	if !okImpl {
		return "backing store of a different object than the receiver"
	}
	for _, o := range origins(ia.Index) {
		if o == nil {
			return "index may be uninitialised"
		}
		if cv, ok := o.(*ssa.Convert); ok {
			o = cv.X
		}
		call, ok := o.(*ssa.Call)
		if !ok {
			return "index is " + o.String() + ", not a call of Index"
		}
		f := call.Common().StaticCallee()
		if f == nil || f.Name() != "Index" || f.Signature.Recv() == nil || !isCommonStruct(f.Signature.Recv().Type()) {
			return "index is produced by " + callName(call.Common()) + ", not by the common Index method"
		}
		// receiver of Index: &recv.NdXCommon
		fa, ok := call.Common().Args[0].(*ssa.FieldAddr)
		if !ok || fa.X != ssa.Value(recv) {
			return "Index is called on a different object than the receiver"
		}
		// loc argument: a method parameter, or a vector built in this method (Get1/Set1 idiom: []int{loc} / NewIndex)
		loc := call.Common().Args[1]
		if !locFromParams(fn, loc) {
			return "Index argument does not derive from the method's own position arguments"
		}
	}
	return ""
}

// locFromParams: the vector is a parameter, or every element stored into it is a parameter / constant.
func locFromParams(fn *ssa.Function, loc ssa.Value) bool {
	for _, o := range origins(loc) {
		if o == nil {
			return false
		}
		if _, ok := o.(*ssa.Parameter); ok {
			continue
		}
		base := vecBase(o)
		switch b := base.(type) {
		case *ssa.Alloc, *ssa.Call, *ssa.MakeSlice:
			_ = b
			// any element store must be a parameter, constant or arithmetic on them — accept vectors local to the method
			if v, ok := base.(ssa.Value); ok {
				if inst, ok := v.(ssa.Instruction); ok && inst.Parent() == fn {
					continue
				}
			}
			return false
		default:
			return false
		}
	}
	return true
}

// guardedByContiguous: block is dominated by the true edge of a Contiguous() call (on any object if recvWant == nil).
func guardedByContiguous(b *ssa.BasicBlock, accept func(recv ssa.Value) bool) bool {
	for _, g := range guardsAt(b) {
		call, ok := g.Cond.(*ssa.Call)
		if !ok || !g.Val {
			continue
		}
		if callName(call.Common()) != "Contiguous" {
			continue
		}
		if accept == nil || accept(recvOf(call.Common())) {
			return true
		}
	}
	return false
}

// checkNoDoubleStep (R01.6): a step is applied once. Where a view v is cut with x.Slice(loc, dims, step), no
// operation on v itself (Apply, ApplySlice, Slice) is given a step derived from that same step vector: v's own
// indices already advance by it, so applying it again addresses loc + i*step² of the parent.
func checkNoDoubleStep(p *Program, r *Report, prop string) {
	r.Rule("R01.6", "a step is applied once: an operation on a view that was cut with Slice(·,·,step) is never given a step derived from that same step vector, and an element access of such a view never scales its index by that step (the view's indices already advance by it)")
	n := 0
	for _, fn := range dataFuncs(p) {
		inC := relPkg(fnPkg(fn).Path()) == "data/cdata"
		if prop == "C03" && !inC {
			continue
		}
		k := 0
		for _, c := range callsIn(fn) {
			nm := callName(c.Common())
			stepArg := -1
			switch nm {
			case "Apply":
				stepArg = 2
			case "ApplySlice":
				stepArg = 1
			case "Slice":
				stepArg = 2
			case "Get", "Set":
				stepArg = 0 // the index vector: its elements must not be scaled by the view's own step
			}
			recv := recvOf(c.Common())
			args := callArgs(c.Common())
			if stepArg < 0 || recv == nil || stepArg >= len(args) || !isNDType(recv.Type()) {
				continue
			}
			// the receiver is the result of a Slice with a step vector
			var cut *ssa.Call
			var cands []ssa.Value
			for _, o := range origins(recv) {
				cands = append(cands, o)
				// inside a visitor closure the view is a captured variable of the enclosing method
				if u, ok := o.(*ssa.UnOp); ok {
					if _, isFree := u.X.(*ssa.FreeVar); isFree {
						for _, pv := range resolveCapturedLoad(u) {
							cands = append(cands, origins(pv)...)
						}
					}
				}
			}
			for _, o := range cands {
				if o == nil {
					continue
				}
				oc, ok := stripConv(o).(*ssa.Call)
				if !ok || len(callArgs(oc.Common())) != 3 {
					continue
				}
				// Slice, or the helper of the same type that builds the view for it (`nd.view(loc, dims, step)`)
				if callName(oc.Common()) == "Slice" || viewBuilders[oc.Common().StaticCallee()] {
					cut = oc
				}
			}
			if cut == nil {
				continue
			}
			stepVec := callArgs(cut.Common())[2]
			if isNilConst(stepVec) {
				continue
			}
			n++
			k++
			key := fmt.Sprintf("%s:double-step#%d", FuncKey(fn), k)
			base := origin1(stepVec)
			if nm == "Get" || nm == "Set" {
				// what was stored into the step vector (other than constants) …
				stepSrc := map[ssa.Value]bool{}
				elemStores := func(vec ssa.Value) []*ssa.Store {
					var out []*ssa.Store
					for _, ref := range refsDeep(vecBaseDeep(vec)) {
						ia, ok := ref.(*ssa.IndexAddr)
						if !ok {
							continue
						}
						for _, r2 := range refs(ia) {
							if st, ok := r2.(*ssa.Store); ok && st.Addr == ssa.Value(ia) {
								out = append(out, st)
							}
						}
					}
					return out
				}
				for _, st := range elemStores(base) {
					if _, isConst := st.Val.(*ssa.Const); !isConst {
						if o := origin1(st.Val); o != nil {
							stepSrc[o] = true
						}
						stepSrc[st.Val] = true
					}
				}
				// … must not scale an element of the index vector
				scaled := false
				if ib := origin1(args[0]); ib != nil {
					for _, st := range elemStores(ib) {
						if dependsOn(st.Val, func(x ssa.Value) bool {
							if stepSrc[x] {
								return true
							}
							if u, ok := x.(*ssa.UnOp); ok {
								if ia, ok := u.X.(*ssa.IndexAddr); ok && (ia.X == stepVec || origin1(ia.X) == base) {
									return true
								}
							}
							return false
						}, map[ssa.Value]bool{}) {
							scaled = true
						}
					}
				}
				if scaled {
					r.Fail("R01.6", key, p.Pos(c.Pos()), fmt.Sprintf("%s addresses a view that was cut with a step vector through an index that is itself multiplied by that step: the step is applied twice (element i lands at loc + i·step² of the parent, outside the run the view stands for)", nm))
				} else {
					r.OK("R01.6", fmt.Sprintf("%s: %s on a stepped view indexes it in the view's own coordinates", FuncKey(fn), nm))
				}
				continue
			}
			derived := dependsOn(args[stepArg], func(x ssa.Value) bool {
				if x == stepVec || x == base {
					return true
				}
				if u, ok := x.(*ssa.UnOp); ok {
					if ia, ok := u.X.(*ssa.IndexAddr); ok && (ia.X == stepVec || origin1(ia.X) == base) {
						return true
					}
				}
				return false
			}, map[ssa.Value]bool{})
			if derived {
				r.Fail("R01.6", key, p.Pos(c.Pos()), fmt.Sprintf("%s is applied to a view that was cut with a step vector, and is given a step taken from that same vector: the step is applied twice (element i lands at loc + i·step² of the parent)", nm))
			} else {
				r.OK("R01.6", fmt.Sprintf("%s: %s on a stepped view does not re-apply the view's own step", FuncKey(fn), nm))
			}
		}
	}
	r.Analysed["R01.6 operations on views cut with a step"] = n
}

// checkAccessorSiblings (R01.7): Get1 and Set1 of a type address the same element. Each hands an index vector to
// Get/Set; the ways that vector can be built (a one-element literal, a zero index with the position stored at the
// first axis longer than one, a helper) must be the same set for the read and for the write.
func checkAccessorSiblings(p *Program, r *Report, only func(*arrayType) bool) {
	r.Rule("R01.7", "the 1-D accessors agree: for every array type, the index vector Set1 hands to Set is built in the same ways (literal {loc}, zero index with loc stored at the first axis longer than one, shared helper) as the one Get1 hands to Get — otherwise a write through a 1×N view lands on a different element than the read, outside the view")
	n := 0
	descr := func(fn *ssa.Function, inner string) (map[string]bool, string) {
		out := map[string]bool{}
		for _, c := range callsIn(fn) {
			if callName(c.Common()) != inner {
				continue
			}
			args := callArgs(c.Common())
			if len(args) == 0 {
				continue
			}
			for _, o := range origins(args[0]) {
				switch x := o.(type) {
				case *ssa.Slice:
					if a, ok := x.X.(*ssa.Alloc); ok {
						if at, ok := a.Type().Underlying().(*types.Pointer); ok {
							if arr, ok := at.Elem().Underlying().(*types.Array); ok {
								out[fmt.Sprintf("literal of %d", arr.Len())] = true
								continue
							}
						}
					}
					out["slice of "+x.X.Name()] = true
				case *ssa.Call:
					nm := callName(x.Common())
					if nm == "NewIndex" {
						// where is loc stored? at a position chosen by a scan over Dims, or a constant
						kind := "zero index"
						for _, ref := range refsDeep(x) {
							if st, ok := ref.(*ssa.Store); ok {
								if ia, ok := st.Addr.(*ssa.IndexAddr); ok {
									if _, isC := constInt(ia.Index); isC {
										kind = "zero index, position stored at a fixed axis"
									} else {
										kind = "zero index, position stored at a scanned axis"
									}
								}
							}
						}
						out[kind] = true
						continue
					}
					out["helper "+nm] = true
				case *ssa.MakeSlice:
					out["make"] = true
				default:
					if o == nil {
						out["nil"] = true
					} else {
						out[fmt.Sprintf("%T", o)] = true
					}
				}
			}
		}
		var ks []string
		for k := range out {
			ks = append(ks, k)
		}
		sort.Strings(ks)
		return out, strings.Join(ks, " | ")
	}
	for _, at := range arrayTypes(p) {
		if !only(at) {
			continue
		}
		g, s1 := at.own("Get1"), at.own("Set1")
		if g == nil || s1 == nil {
			continue
		}
		n++
		tname := at.rel + "." + at.named.Obj().Name()
		gd, gs := descr(g, "Get")
		sd, ss := descr(s1, "Set")
		same := len(gd) == len(sd) && len(gd) > 0
		for k := range gd {
			if !sd[k] {
				same = false
			}
		}
		if same {
			r.OK("R01.7", fmt.Sprintf("%s: Get1 and Set1 build their index the same way (%s)", tname, gs))
		} else {
			r.Fail("R01.7", tname+":Get1/Set1", p.Pos(s1.Pos()), fmt.Sprintf("Get1 addresses its element by {%s}, Set1 by {%s}: on a view with more than one axis (a 1×N row used as a series) the write lands on a different element than the read — k rows further down, outside the view", gs, ss))
		}
	}
	r.Floor("R01.7", "array types with 1-D accessors", n, 4)
}

// fieldStoreEv: a store to a field of a view's common struct: written out, or made by a setter helper
// (`func (nd *Common) setStrides(offset, step, scale []int) { nd.Offset = offset; … }`) called on the struct, in
// which case `at` is the call and val the argument that the helper stores (nil when the helper stores a computed value).
type fieldStoreEv struct {
	field     string
	base      ssa.Value
	val       ssa.Value
	at        ssa.Instruction
	setterOwn bool // the store is a setter helper's own store of one of its parameters into its receiver
}

// fieldSetter: fields of its receiver's common struct that the method assigns, mapped to the index of the parameter
// whose value is stored (−1: a computed value).
func fieldSetter(f *ssa.Function) map[string]int {
	if f == nil || f.Signature.Recv() == nil || len(f.Params) == 0 || len(f.Blocks) == 0 {
		return nil
	}
	if _, isPtr := f.Params[0].Type().Underlying().(*types.Pointer); !isPtr {
		return nil
	}
	var out map[string]int
	eachInstr(f, func(_ *ssa.BasicBlock, _ int, ins ssa.Instruction) {
		st, ok := ins.(*ssa.Store)
		if !ok {
			return
		}
		fa, ok := st.Addr.(*ssa.FieldAddr)
		if !ok || !isCommonStruct(fa.X.Type()) {
			return
		}
		name, base, _ := fieldName(fa)
		if objOf(base) != ssa.Value(f.Params[0]) {
			return
		}
		idx := -1
		if os := origins(st.Val); len(os) == 1 && os[0] != nil {
			if prm, ok := stripConv(os[0]).(*ssa.Parameter); ok {
				for i, q := range f.Params {
					if q == prm && i > 0 {
						idx = i
					}
				}
			}
		}
		if out == nil {
			out = map[string]int{}
		}
		if old, seen := out[name]; seen && old != idx {
			idx = -1
		}
		out[name] = idx
	})
	return out
}

func commonFieldStores(fn *ssa.Function) []fieldStoreEv {
	var out []fieldStoreEv
	own := fieldSetter(fn)
	eachInstr(fn, func(_ *ssa.BasicBlock, _ int, ins ssa.Instruction) {
		switch x := ins.(type) {
		case *ssa.Store:
			fa, ok := x.Addr.(*ssa.FieldAddr)
			if !ok || !isCommonStruct(fa.X.Type()) {
				return
			}
			name, base, _ := fieldName(fa)
			ev := fieldStoreEv{field: name, base: base, val: x.Val, at: x}
			if idx, ok := own[name]; ok && idx > 0 && objOf(base) == ssa.Value(fn.Params[0]) {
				ev.setterOwn = true
			}
			out = append(out, ev)
		case ssa.CallInstruction:
			c := x.Common()
			f := c.StaticCallee()
			if f == nil || !InModule(f) || c.IsInvoke() || len(c.Args) == 0 {
				return
			}
			set := fieldSetter(f)
			names := make([]string, 0, len(set))
			for name := range set {
				names = append(names, name)
			}
			sort.Strings(names)
			for _, name := range names {
				idx := set[name]
				ev := fieldStoreEv{field: name, base: c.Args[0], at: x}
				if idx > 0 && idx < len(c.Args) {
					ev.val = c.Args[idx]
				}
				out = append(out, ev)
			}
		}
	})
	return out
}

// checkSeriesAxisSelectors (R01.8): the 1-D accessors treat an n-D view with one long axis as a series. Every
// scan of the extents that picks "the axis that is longer than one" — to place the position (index1) or to name
// the axis a run advances along — must pick the same axis when more than one qualifies: Get1/Set1 put the
// position on one axis, and a run that advances along another writes elements the element accessors never address.
func checkSeriesAxisSelectors(p *Program, r *Report, only func(*arrayType) bool) {
	r.Rule("R01.8", "series-axis selectors agree: within an array type (its own methods and those of its common struct), every loop over the extents that tests Dims[i] > 1 and records the axis i selects the same axis (first or last one longer than one) — the axis the 1-D element accessors place the position on is the axis a 1-D run advances along")
	type sel struct {
		fn    *ssa.Function
		pos   token.Pos
		which string
	}
	selectorsIn := func(fn *ssa.Function) []sel {
		var out []sel
		if fn == nil || len(fn.Blocks) == 0 {
			return nil
		}
		for _, l := range findLoops(fn) {
			// the loop's own extent tests: If on Dims[i] > 1 (or 1 < Dims[i], Dims[i] >= 2, Dims[i] != 1)
			for b := range l.Blocks {
				iff, ok := b.Instrs[len(b.Instrs)-1].(*ssa.If)
				if !ok {
					continue
				}
				bo, ok := iff.Cond.(*ssa.BinOp)
				if !ok {
					continue
				}
				ext, lim, op := bo.X, bo.Y, bo.Op
				if _, isC := constInt(ext); isC {
					ext, lim = lim, ext
					switch op {
					case token.LSS:
						op = token.GTR
					case token.LEQ:
						op = token.GEQ
					case token.GTR:
						op = token.LSS
					case token.GEQ:
						op = token.LEQ
					}
				}
				c, isC := constInt(lim)
				if !isC {
					continue
				}
				matchSucc := -1
				switch {
				case op == token.GTR && c == 1, op == token.GEQ && c == 2, op == token.NEQ && c == 1:
					matchSucc = 0
				case op == token.LEQ && c == 1, op == token.LSS && c == 2, op == token.EQL && c == 1:
					matchSucc = 1
				}
				if matchSucc < 0 {
					continue
				}
				ld, ok := ext.(*ssa.UnOp)
				if !ok || ld.Op != token.MUL {
					continue
				}
				ia, ok := ld.X.(*ssa.IndexAddr)
				if !ok {
					continue
				}
				isDims := false
				for _, o := range origins(ia.X) {
					if o == nil {
						continue
					}
					if nm, _, ok := loadedField(o); ok && nm == "Dims" {
						isDims = true
					}
					if c, ok := o.(*ssa.Call); ok && callName(c.Common()) == "Shape" {
						isDims = true
					}
				}
				if !isDims {
					continue
				}
				idx := ia.Index
				// the region entered on a match: blocks of the loop reachable from the match successor without
				// passing the header; does the scan go on afterwards?
				match := b.Succs[matchSucc]
				region := map[*ssa.BasicBlock]bool{}
				goesOn := false
				var walk func(x *ssa.BasicBlock)
				walk = func(x *ssa.BasicBlock) {
					if x == l.Header {
						goesOn = true
						return
					}
					if region[x] {
						return
					}
					region[x] = true
					if !l.Blocks[x] {
						return
					}
					for _, s := range x.Succs {
						walk(s)
					}
				}
				walk(match)
				// only the blocks that the match alone leads to (dominated by the match successor)
				records := false
				for _, ref := range refs(idx) {
					rb := ref.Block()
					if rb == nil || !region[rb] || !match.Dominates(rb) {
						continue
					}
					switch x := ref.(type) {
					case *ssa.IndexAddr:
						if x.Index != idx {
							continue
						}
						for _, r2 := range refs(x) {
							if st, ok := r2.(*ssa.Store); ok && st.Addr == ssa.Value(x) {
								records = true
							}
						}
					case *ssa.Store:
						if x.Val == idx {
							records = true
						}
					case *ssa.Return:
						records = true
					case *ssa.Convert, *ssa.ChangeType:
						records = true
					}
				}
				// `axis = i` without a cell: a phi outside the region merging i on the edge from it
				for _, ref := range refs(idx) {
					if ph, ok := ref.(*ssa.Phi); ok && ph.Block() != l.Header {
						for k, e := range ph.Edges {
							if e == idx && k < len(ph.Block().Preds) && region[ph.Block().Preds[k]] {
								records = true
							}
						}
					} else if ok && ph.Block() == l.Header {
						// carried round the loop as the selected axis (not the counter itself)
						for k, e := range ph.Edges {
							if e == idx && k < len(ph.Block().Preds) && l.Blocks[ph.Block().Preds[k]] && stripConv(idx) != ssa.Value(ph) {
								if pi, isPhi := idx.(*ssa.Phi); !isPhi || pi != ph {
									records = true
								}
							}
						}
					}
				}
				if !records {
					continue
				}
				// direction of the scan
				dir := ""
				// a range loop: the index is phi+1, and the phi carries that very sum round the loop
				if add, ok := idx.(*ssa.BinOp); ok && add.Op == token.ADD {
					if ph, ok := add.X.(*ssa.Phi); ok && l.Blocks[ph.Block()] {
						if cc, isC := constInt(add.Y); isC && cc == 1 {
							for k, e := range ph.Edges {
								if k < len(ph.Block().Preds) && l.Blocks[ph.Block().Preds[k]] && e == ssa.Value(add) {
									dir = "up"
								}
							}
						}
					}
				}
				if ph, ok := idx.(*ssa.Phi); ok && ph.Block() == l.Header {
					for k, e := range ph.Edges {
						if k < len(ph.Block().Preds) && l.Blocks[ph.Block().Preds[k]] {
							if st, ok := e.(*ssa.BinOp); ok {
								if cc, isC := constInt(st.Y); isC && st.X == ssa.Value(ph) {
									switch {
									case st.Op == token.ADD && cc > 0, st.Op == token.SUB && cc < 0:
										dir = "up"
									case st.Op == token.SUB && cc > 0, st.Op == token.ADD && cc < 0:
										dir = "down"
									}
								}
							}
						}
					}
				}
				if dir == "" {
					continue
				}
				which := "the last axis longer than one"
				if (dir == "up") != goesOn {
					which = "the first axis longer than one"
				}
				out = append(out, sel{fn, iff.Cond.Pos(), which})
			}
		}
		sort.Slice(out, func(i, j int) bool { return out[i].pos < out[j].pos })
		return out
	}
	n := 0
	for _, at := range arrayTypes(p) {
		if !only(at) {
			continue
		}
		tname := at.rel + "." + at.named.Obj().Name()
		var names []string
		for nm := range at.method {
			names = append(names, nm)
		}
		sort.Strings(names)
		var sels []sel
		for _, nm := range names {
			f := at.method[nm]
			if f.Synthetic != "" {
				// promoted from the common struct: analyse the declared method
				if o := f.Object(); o != nil {
					if d := p.SSA.FuncValue(o.(*types.Func)); d != nil && d != f {
						f = d
					}
				}
			}
			sels = append(sels, selectorsIn(f)...)
		}
		if len(sels) == 0 {
			continue
		}
		n++
		// the reference: the helper the element accessors share (the selector reached from Get1), else the first
		ref := sels[0]
		if g := at.own("Get1"); g != nil {
			for _, c := range callsIn(g) {
				if f := c.Common().StaticCallee(); f != nil {
					for _, s := range sels {
						if s.fn == f {
							ref = s
						}
					}
				}
			}
			for _, s := range sels {
				if s.fn == g {
					ref = s
				}
			}
		}
		for k, s := range sels {
			key := fmt.Sprintf("%s:axis-selector:%s#%d", tname, s.fn.Name(), k)
			if s.which == ref.which {
				r.OK("R01.8", fmt.Sprintf("%s: %s selects %s", tname, s.fn.Name(), s.which))
			} else {
				r.Fail("R01.8", key, p.Pos(s.pos), fmt.Sprintf("%s selects %s, but %s (the element accessors' addressing) selects %s: on a view with two axes longer than one a run advances along an axis the element accessors never address, and leaves the view", s.fn.Name(), s.which, ref.fn.Name(), ref.which))
			}
		}
	}
	// second clause: a 1-D run that is delegated to the n-D run write names its axis by the extents
	for _, at := range arrayTypes(p) {
		if !only(at) {
			continue
		}
		fn := at.own("Apply1")
		if fn == nil || len(fn.Blocks) == 0 {
			continue
		}
		tname := at.rel + "." + at.named.Obj().Name()
		for _, c := range callsIn(fn) {
			if callName(c.Common()) != "Apply" || len(callArgs(c.Common())) < 4 {
				continue
			}
			dim := callArgs(c.Common())[1]
			if _, isC := constInt(origin1OrSelf(dim)); isC {
				continue
			}
			key := fmt.Sprintf("%s:axis-selector:Apply1-delegates", tname)
			if len(selectorsIn(fn)) > 0 {
				r.OK("R01.8", fmt.Sprintf("%s: Apply1 hands Apply an axis chosen by the extents (judged with the other selectors)", tname))
				continue
			}
			// the axis may come from a selector helper of the type (`nd.seriesAxis()`)
			viaSelector := false
			for _, o := range origins(dim) {
				if hc, ok := o.(*ssa.Call); ok {
					if h := hc.Common().StaticCallee(); h != nil && len(selectorsIn(h)) > 0 {
						viaSelector = true
					}
				}
			}
			if viaSelector {
				r.OK("R01.8", fmt.Sprintf("%s: Apply1 hands Apply the axis a selector of the type names", tname))
			} else {
				r.Fail("R01.8", key, p.Pos(c.Pos()), "Apply1 writes its run through Apply along an axis that is not chosen by the extents (no loop testing Dims[i] > 1 names it): the element accessors place a 1-D position on the axis that is longer than one, so a run that picks its axis any other way (by comparing index entries with the start position, …) advances along another axis for some positions and writes elements outside the series — and outside the caller's buffer")
			}
		}
	}
	r.Floor("R01.8", "array types with a series-axis selector", n, 4)
}

// ---- R01.9: a view owns its stride vectors ----

var retAliasMemo = map[*ssa.Function]map[int]bool{}

// returnAliases: indices of the slice parameters of f that a result of f may be (a reslice of), followed through
// phis, reslicing and calls of module functions.
func returnAliases(f *ssa.Function, depth int) map[int]bool {
	if r, ok := retAliasMemo[f]; ok {
		return r
	}
	out := map[int]bool{}
	retAliasMemo[f] = out
	if len(f.Blocks) == 0 || depth > 4 {
		return out
	}
	for _, ret := range returnsOf(f) {
		for _, rv := range ret.Results {
			if _, isSlice := rv.Type().Underlying().(*types.Slice); !isSlice {
				continue
			}
			for prm := range sliceParamsOf(rv, depth) {
				for i, q := range f.Params {
					if q == prm {
						out[i] = true
					}
				}
			}
		}
	}
	return out
}

// sliceParamsOf: the slice parameters of the enclosing function that v may be (a reslice of).
func sliceParamsOf(v ssa.Value, depth int) map[*ssa.Parameter]bool {
	out := map[*ssa.Parameter]bool{}
	seen := map[ssa.Value]bool{}
	var walk func(v ssa.Value)
	walk = func(v ssa.Value) {
		if v == nil || seen[v] {
			return
		}
		seen[v] = true
		switch x := v.(type) {
		case *ssa.Parameter:
			if _, isSlice := x.Type().Underlying().(*types.Slice); isSlice {
				out[x] = true
			}
		case *ssa.Phi:
			for _, e := range x.Edges {
				walk(e)
			}
		case *ssa.Slice:
			walk(x.X)
		case *ssa.ChangeType:
			walk(x.X)
		case *ssa.UnOp:
			// a local cell holding the slice
			if a, ok := x.X.(*ssa.Alloc); ok && x.Op == token.MUL {
				for _, ref := range refs(a) {
					if st, ok := ref.(*ssa.Store); ok && st.Addr == ssa.Value(a) {
						walk(st.Val)
					}
				}
			}
		case *ssa.Call:
			c := x.Common()
			if bi, ok := c.Value.(*ssa.Builtin); ok {
				// append(s, …) may return s's own storage
				if bi.Name() == "append" && len(c.Args) > 0 {
					if k, isC := c.Args[0].(*ssa.Const); !isC || !k.IsNil() {
						walk(c.Args[0])
					}
				}
				return
			}
			f := c.StaticCallee()
			if f == nil || !InModule(f) || c.IsInvoke() {
				return
			}
			for j := range returnAliases(f, depth+1) {
				if j < len(c.Args) {
					walk(c.Args[j])
				}
			}
		}
	}
	walk(v)
	return out
}

// checkViewsOwnStrides (R01.9): the stride vectors a view keeps are its own or its parent's. A value stored into
// Step, Offset or OffsetStep of a view that may be a slice argument of the function (the caller's `step` vector, handed
// back by a helper that "has nothing to compute") ties the view's addressing to a vector the caller is free to
// reuse: a later change of that vector moves every element of the earlier view.
func checkViewsOwnStrides(p *Program, r *Report, prop string) {
	r.Rule("R01.9", "a view owns its stride vectors: no value stored into Step, Offset or OffsetStep of a view may be (a reslice of) a slice parameter of the storing function, directly or through module helpers whose result can be one of their arguments; strides are freshly computed vectors or the parent view's own")
	n := 0
	for _, fn := range dataFuncs(p) {
		if prop == "C03" && relPkg(fnPkg(fn).Path()) != "data/cdata" {
			if fn.Signature.Recv() == nil || !isCommonStruct(fn.Signature.Recv().Type()) {
				continue
			}
		}
		k := 0
		for _, ev := range commonFieldStores(fn) {
			if ev.field != "Step" && ev.field != "Offset" && ev.field != "OffsetStep" {
				continue
			}
			if ev.setterOwn || ev.val == nil {
				continue // a setter helper's own store of its parameter: judged at each call of the helper
			}
			k++
			n++
			key := fmt.Sprintf("%s:owns-%s#%d", FuncKey(fn), ev.field, k)
			var names []string
			// whose slice a parameter of a package-private function is, is decided where the function is called (a setter
			// method storing its parameter into its receiver: `nd.Step = step` in setStrides; a private constructor
			// storing the strides it is given: newArrayTypeCView(impl, start, originalDims, dims, step, offset))
			var atCallers func(f *ssa.Function, prm *ssa.Parameter, depth int)
			atCallers = func(f *ssa.Function, prm *ssa.Parameter, depth int) {
				pi := -1
				for i, q := range f.Params {
					if q == prm {
						pi = i
					}
				}
				for _, caller := range dataFuncs(p) {
					for _, cc := range callsIn(caller) {
						if cc.Common().StaticCallee() != f || cc.Common().IsInvoke() || pi < 0 || pi >= len(cc.Common().Args) {
							continue
						}
						for cp := range sliceParamsOf(cc.Common().Args[pi], 0) {
							if !token.IsExported(caller.Name()) && depth < 3 && cp.Parent() == caller {
								atCallers(caller, cp, depth+1)
								continue
							}
							names = append(names, cp.Name()+" of "+caller.Name())
						}
					}
				}
			}
			for prm := range sliceParamsOf(ev.val, 0) {
				if st, isStore := ev.at.(*ssa.Store); isStore && fn.Signature.Recv() != nil && len(fn.Params) > 0 {
					if fa, ok := st.Addr.(*ssa.FieldAddr); ok {
						if _, base, _ := fieldName(fa); objOf(base) == ssa.Value(fn.Params[0]) {
							atCallers(fn, prm, 0)
							continue
						}
					}
				}
				if !token.IsExported(fn.Name()) && prm.Parent() == fn {
					atCallers(fn, prm, 0)
					continue
				}
				names = append(names, prm.Name())
			}
			sort.Strings(names)
			if len(names) > 0 {
				r.Fail("R01.9", key, p.Pos(ev.at.Pos()), fmt.Sprintf("the view's %s may be the caller's own slice `%s` (handed through unchanged): when the caller reuses that vector for its next slice, the stride of this view changes with it and every element of the view moves", ev.field, strings.Join(names, "`, `")))
			} else {
				r.OK("R01.9", fmt.Sprintf("%s: %s is a fresh vector or the parent's", FuncKey(fn), ev.field))
			}
		}
	}
	floor := 40
	if prop == "C03" {
		floor = 15
	}
	r.Floor("R01.9", "stride-vector stores", n, floor)
}

// checkRequestedExtents (R01.10): a slice has the extents it was asked for. Where the slicing primitive stores the
// Dims of the view it fills in (a struct handed in as a parameter), the value is one of its own slice parameters
// (or a copy of one): for in-bounds requests — all the property quantifies over — no adjustment of the extents is
// ever right, and a "hardening" that recomputes them changes which elements the view has.
func checkRequestedExtents(p *Program, r *Report, prop string) {
	r.Rule("R01.10", "a slice has the extents it was asked for: in the slicing primitive (a method that fills in a view struct passed as a parameter) the value stored into the view's Dims is the function's own `dims` slice parameter or a copy of it, never a vector computed from it")
	n := 0
	for _, fn := range dataFuncs(p) {
		if prop == "C03" && relPkg(fnPkg(fn).Path()) != "data/cdata" {
			if fn.Signature.Recv() == nil || !isCommonStruct(fn.Signature.Recv().Type()) {
				continue
			}
		}
		k := 0
		for _, ev := range commonFieldStores(fn) {
			if ev.field != "Dims" || ev.val == nil {
				continue
			}
			// the struct being filled in is a parameter other than the receiver
			isDestParam := false
			for i, q := range fn.Params {
				if (i > 0 || fn.Signature.Recv() == nil) && objOf(ev.base) == ssa.Value(q) && isCommonStruct(q.Type()) {
					isDestParam = true
				}
			}
			if !isDestParam {
				continue
			}
			k++
			n++
			key := fmt.Sprintf("%s:extents#%d", FuncKey(fn), k)
			v := ev.val
			// a copy of a parameter: append([]int(nil), dims...)
			if c, ok := origin1(v).(*ssa.Call); ok {
				if bi, isB := c.Common().Value.(*ssa.Builtin); isB && bi.Name() == "append" && len(c.Common().Args) == 2 {
					v = c.Common().Args[1]
				}
			}
			if len(sliceParamsOf(v, 0)) > 0 {
				r.OK("R01.10", fmt.Sprintf("%s: the view's Dims is the requested extent vector", FuncKey(fn)))
			} else {
				r.Fail("R01.10", key, p.Pos(ev.at.Pos()), "the extents stored for the new view are not the ones requested but a vector computed from them: for an in-bounds request the view must have exactly the requested extents — anything else drops or adds elements (a stepped slice reaching into the last partial stride loses its final element)")
			}
		}
	}
	floor := 9
	r.Floor("R01.10", "slicing primitives storing the extents of a view", n, floor)
}

// checkRunWritesAllValues (R01.11): a 1-D run write stores every value it was handed. In Apply/Apply1 the vector of
// values is never cut short: no reslice of the parameter with an upper bound. For an in-bounds run — all the
// property quantifies over — every value has its cell, so a truncation computed from the extents can only drop
// values that belong there (a stepped run reaching into the last partial stride loses its final value).
func checkRunWritesAllValues(p *Program, r *Report, only func(*arrayType) bool) {
	r.Rule("R01.11", "a run write stores every value it was handed: in Apply and Apply1 of every array type the parameter holding the values is never re-sliced to fewer elements (no vals[:n] / vals[a:b]) before it is written")
	n := 0
	for _, at := range arrayTypes(p) {
		if !only(at) {
			continue
		}
		tname := at.rel + "." + at.named.Obj().Name()
		for _, nm := range []string{"Apply", "Apply1"} {
			fn := at.own(nm)
			if fn == nil || len(fn.Blocks) == 0 {
				continue
			}
			var vals *ssa.Parameter
			for i, q := range fn.Params {
				if i == 0 {
					continue
				}
				if sl, ok := q.Type().Underlying().(*types.Slice); ok {
					if b, isB := sl.Elem().Underlying().(*types.Basic); !isB || b.Info()&types.IsInteger == 0 || q.Name() == "vals" {
						vals = q
					}
				}
			}
			if vals == nil {
				continue
			}
			n++
			key := fmt.Sprintf("%s.%s:all-values", tname, nm)
			var cut *ssa.Slice
			eachInstr(fn, func(_ *ssa.BasicBlock, _ int, ins ssa.Instruction) {
				sl, ok := ins.(*ssa.Slice)
				if !ok || sl.High == nil && sl.Low == nil {
					return
				}
				for _, o := range origins(sl.X) {
					if o == ssa.Value(vals) {
						cut = sl
					}
				}
			})
			if cut != nil {
				r.Fail("R01.11", key, p.Pos(cut.Pos()), nm+" cuts the vector of values it was handed before writing it: for an in-bounds run every value has its cell, so whatever the cut drops is an addressed element that is not written (a stepped run that reaches into the last partial stride of the axis loses its final value)")
			} else {
				r.OK("R01.11", fmt.Sprintf("%s.%s: the values are written as handed in", tname, nm))
			}
		}
	}
	// a block write visits the whole of its source: the shape ApplySlice enumerates (the argument of Product /
	// Increment / a walker) is the very result of vals.Shape(), never a copy with entries changed
	for _, at := range arrayTypes(p) {
		if !only(at) {
			continue
		}
		fn := at.own("ApplySlice")
		if fn == nil || len(fn.Blocks) == 0 {
			continue
		}
		tname := at.rel + "." + at.named.Obj().Name()
		var src *ssa.Parameter
		for i, q := range fn.Params {
			if i > 0 && isNDType(q.Type()) {
				src = q
			}
		}
		if src == nil {
			continue
		}
		k := 0
		for _, c := range callsIn(fn) {
			f := c.Common().StaticCallee()
			if f == nil || c.Common().IsInvoke() {
				continue
			}
			ai := -1
			switch f.Name() {
			case "Product":
				ai = 0
			case "Increment":
				ai = 1
			default:
				if strings.HasPrefix(f.Name(), "new") && strings.Contains(strings.ToLower(f.Name()), "walker") {
					ai = 0
				}
			}
			if ai < 0 || ai >= len(c.Common().Args) {
				continue
			}
			k++
			n++
			key := fmt.Sprintf("%s.ApplySlice:source-shape#%d", tname, k)
			good := true
			for _, o := range origins(c.Common().Args[ai]) {
				// a re-slice keeps the source's own entries (`shape[:last]` when the last axis is written run by run:
				// which axes a loop covers is R02.7's question)
				for depth := 0; depth < 3; depth++ {
					sl, isSlice := o.(*ssa.Slice)
					if !isSlice {
						break
					}
					o = origin1(sl.X)
				}
				sc, ok := o.(*ssa.Call)
				if !ok || callName(sc.Common()) != "Shape" || origin1(recvOf(sc.Common())) != ssa.Value(src) {
					good = false
				}
			}
			if good {
				r.OK("R01.11", fmt.Sprintf("%s.ApplySlice: enumerates the source's own shape", tname))
			} else {
				r.Fail("R01.11", key, p.Pos(c.Pos()), "ApplySlice enumerates a shape other than the source's own Shape(): for an in-bounds block every element of the source has its cell, so a shape recomputed from the destination's extents can only leave addressed elements unwritten (a stepped block reaching into the last partial stride loses its last row or column)")
			}
		}
	}
	r.Floor("R01.11", "run-write methods", n, 16)
}

// checkStartFromParentStrides (R01.12): a view starts where the parent's strides put its first element. The position
// `loc` of a slice is given in the index space of the array being sliced, so the storage offset of the view's first
// element is loc weighted by the *parent's* strides. Where a function fills in the Start of a view other than its
// receiver, no stride vector (Step, Offset, OffsetStep) that enters the stored value is read back from the view being
// filled in — unless that field was just set to the parent's own vector: the view's strides already include its step.
func checkStartFromParentStrides(p *Program, r *Report, prop string) {
	r.Rule("R01.12", "a view starts where the parent's strides put it: in a function that stores the Start of a view other than its receiver (SliceInto), every stride vector (Step, Offset, OffsetStep) the stored value depends on is a field of the array being sliced, not of the view being filled in (whose strides are already multiplied by the slice's step: a start computed with them is wrong for every stepped slice that does not begin at 0) — a field of the view that holds the parent's own vector is accepted")
	n := 0
	for _, fn := range dataFuncs(p) {
		if prop == "C03" && relPkg(fnPkg(fn).Path()) != "data/cdata" {
			if fn.Signature.Recv() == nil || !isCommonStruct(fn.Signature.Recv().Type()) {
				continue
			}
		}
		if fn.Signature.Recv() == nil || len(fn.Params) == 0 {
			continue
		}
		k := 0
		for _, ev := range commonFieldStores(fn) {
			st, isStore := ev.at.(*ssa.Store)
			if ev.field != "Start" || ev.val == nil || !isStore {
				continue
			}
			dest := objOf(ev.base)
			if dest == ssa.Value(fn.Params[0]) || dest == objOf(fn.Params[0]) {
				continue
			}
			// stride vectors the stored value depends on
			type rd struct {
				field string
				load  *ssa.UnOp
			}
			var reads []rd
			dependsOn(ev.val, func(x ssa.Value) bool {
				if ld, ok := x.(*ssa.UnOp); ok && ld.Op == token.MUL {
					if nm, b, okf := loadedField(ld); okf && (nm == "Step" || nm == "Offset" || nm == "OffsetStep") && objOf(b) == dest {
						reads = append(reads, rd{nm, ld})
					}
				}
				return false
			}, map[ssa.Value]bool{})
			// the offset may be worked out by an addressing method (`dest.Start = nd.Index(loc)`): the parent's is right,
			// the view's own would weight the position with the stepped strides
			viaView := ""
			viaParent := false
			dependsOn(ev.val, func(x ssa.Value) bool {
				if c, ok := x.(*ssa.Call); ok {
					if h := c.Common().StaticCallee(); h != nil && InModule(h) && h.Signature.Recv() != nil && len(c.Common().Args) > 0 && isCommonStruct(h.Signature.Recv().Type()) {
						if objOf(c.Common().Args[0]) == dest {
							viaView = h.Name()
						} else {
							viaParent = true
						}
					}
				}
				return false
			}, map[ssa.Value]bool{})
			if len(reads) == 0 && viaView == "" && !viaParent {
				// does it depend on strides at all?
				any := false
				dependsOn(ev.val, func(x ssa.Value) bool {
					if nm, _, okf := loadedField(x); okf && (nm == "Step" || nm == "Offset" || nm == "OffsetStep") {
						any = true
					}
					return false
				}, map[ssa.Value]bool{})
				if !any {
					continue
				}
			}
			k++
			n++
			key := fmt.Sprintf("%s:start-from-parent#%d", FuncKey(fn), k)
			bad := ""
			for _, x := range reads {
				// the value the view's field holds at this read: the parent's own vector is fine
				parents := true
				found := false
				for _, ev2 := range commonFieldStores(fn) {
					st2, ok := ev2.at.(*ssa.Store)
					if !ok || ev2.field != x.field || objOf(ev2.base) != dest || ev2.val == nil {
						continue
					}
					if !canReach(st2, x.load) {
						continue
					}
					found = true
					for _, o := range origins(ev2.val) {
						nm, b, okf := loadedField(o)
						if o == nil || !okf || nm != x.field || objOf(b) == dest {
							parents = false
						}
					}
				}
				if !found || !parents {
					bad = x.field
				}
			}
			if viaView != "" {
				r.Fail("R01.12", key, p.Pos(st.Pos()), fmt.Sprintf("the Start of the new view is worked out by the view's own %s(): its strides already include the slice's step, while the position is given in the index space of the array being sliced — every stepped slice that does not begin at 0 along the stepped axis starts at the wrong element", viaView))
			} else if bad == "" {
				r.OK("R01.12", FuncKey(fn)+": the view's Start is computed with the strides of the array being sliced")
			} else {
				r.Fail("R01.12", key, p.Pos(st.Pos()), fmt.Sprintf("the Start of the new view is computed with the view's own %s, which already includes the slice's step, while the position it is weighted with is given in the index space of the array being sliced: every stepped slice that does not begin at 0 along the stepped axis starts at the wrong element (a zero step, as in the write-back of packed state rows, cancels the position altogether)", bad))
			}
		}
	}
	floor := 1
	if prop == "C03" {
		floor = 0
	}
	r.Floor("R01.12", "view starts computed from strides", n, floor)
}
