package main

import (
	"fmt"
	"go/types"

	"golang.org/x/tools/go/ssa"
)

// checkEmptyAxesEncode (R17.15): an axis of extent zero is an empty array in the document, not `null`. encoding/json
// writes a nil slice as null and a non-nil empty one as []: every slice a function of io/json returns for the result
// tree must therefore be made (make, a literal) on every path — a `var result []T` grown with append is nil when
// the loop does not run.
func checkEmptyAxesEncode(p *Program, r *Report) {
	r.Rule("R17.15", "an empty axis encodes as [] and not as null: every slice returned by a function of io/json (the nested arrays of the result tree) originates, on every path and through append chains and phis, from make or a literal — never from the nil slice, which encoding/json writes as null when nothing was appended (a run of zero timesteps, a model without states)")
	n := 0
	var nilOrigin func(v ssa.Value, seen map[ssa.Value]bool, depth int) bool
	nilOrigin = func(v ssa.Value, seen map[ssa.Value]bool, depth int) bool {
		if v == nil || seen[v] || depth > 30 {
			return false
		}
		seen[v] = true
		switch x := v.(type) {
		case *ssa.Const:
			return x.Value == nil
		case *ssa.Phi:
			for _, e := range x.Edges {
				if nilOrigin(e, seen, depth+1) {
					return true
				}
			}
		case *ssa.Slice:
			return nilOrigin(x.X, seen, depth+1)
		case *ssa.ChangeType:
			return nilOrigin(x.X, seen, depth+1)
		case *ssa.Convert:
			return nilOrigin(x.X, seen, depth+1)
		case *ssa.UnOp:
			for _, o := range origins(x) {
				if o != nil && o != ssa.Value(x) && nilOrigin(o, seen, depth+1) {
					return true
				}
				if o == nil {
					return true // a variable read before any store: the zero value
				}
			}
		case *ssa.Call:
			if b, ok := x.Common().Value.(*ssa.Builtin); ok && b.Name() == "append" {
				return nilOrigin(x.Common().Args[0], seen, depth+1)
			}
			if f := x.Common().StaticCallee(); f != nil && f.Blocks != nil && InModule(f) && f != x.Parent() {
				for _, ret := range returnsOf(f) {
					if len(ret.Results) == 1 && nilOrigin(ret.Results[0], seen, depth+1) {
						return true
					}
				}
			}
		}
		return false
	}
	for _, fn := range p.PkgFuncs("io/json") {
		if fn.Blocks == nil || fn.Signature.Results().Len() == 0 {
			continue
		}
		for ri := 0; ri < fn.Signature.Results().Len(); ri++ {
			if _, ok := fn.Signature.Results().At(ri).Type().Underlying().(*types.Slice); !ok {
				continue
			}
			n++
			key := fmt.Sprintf("%s:result#%d:never-nil", FuncKey(fn), ri)
			bad := false
			for _, ret := range returnsOf(fn) {
				if ri < len(ret.Results) && nilOrigin(ret.Results[ri], map[ssa.Value]bool{}, 0) {
					bad = true
					r.Fail("R17.15", key, p.Pos(ret.Pos()), fn.Name()+" can return the nil slice (a `var s []T` that is only appended to, or an explicit nil): for an axis of extent zero nothing is appended and encoding/json writes null where the array's dimensions call for an empty array")
					break
				}
			}
			if !bad {
				r.OK("R17.15", FuncKey(fn)+": the returned slice is made on every path")
			}
		}
	}
	r.Floor("R17.15", "slice-valued conversions of io/json", n, 1)
}
