package main

import (
	"go/ast"
)

type (
	astNode          = ast.Node
	astIdent         = ast.Ident
	astSelectorExpr  = ast.SelectorExpr
	astParenExpr     = ast.ParenExpr
	astBinaryExpr    = ast.BinaryExpr
	astAssignStmt    = ast.AssignStmt
	astValueSpec     = ast.ValueSpec
	astCallExpr      = ast.CallExpr
	astReturnStmt    = ast.ReturnStmt
	astKeyValueExpr  = ast.KeyValueExpr
	astCompositeLit  = ast.CompositeLit
)

// inspectWithStack walks n calling f with the stack of ancestors (excluding n).
func inspectWithStack(root ast.Node, f func(n ast.Node, stack []ast.Node)) {
	var stack []ast.Node
	ast.Inspect(root, func(n ast.Node) bool {
		if n == nil {
			stack = stack[:len(stack)-1]
			return true
		}
		f(n, stack)
		stack = append(stack, n)
		return true
	})
}

func enclosingFuncName(stack []ast.Node) string {
	for i := len(stack) - 1; i >= 0; i-- {
		if fd, ok := stack[i].(*ast.FuncDecl); ok {
			return fd.Name.Name
		}
	}
	return "<file>"
}
