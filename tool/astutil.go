package main

import (
	"go/ast"
	"go/token"
)

type (
	astNode         = ast.Node
	astIdent        = ast.Ident
	astSelectorExpr = ast.SelectorExpr
	astParenExpr    = ast.ParenExpr
	astBinaryExpr   = ast.BinaryExpr
	astAssignStmt   = ast.AssignStmt
	astValueSpec    = ast.ValueSpec
	astCallExpr     = ast.CallExpr
	astReturnStmt   = ast.ReturnStmt
	astKeyValueExpr = ast.KeyValueExpr
	astCompositeLit = ast.CompositeLit
)

// inspectWithStack walks n calling f with the stack of ancestors (excluding n).
func inspectWithStack(root ast.Node, f func(n ast.Node, stack []ast.Node)) {
	var stack []ast.Node
	ast.Inspect(root, func(n ast.Node) bool {
		if n == nil {
			stack = stack[:len(stack)-1]
			return true
		}
		f(n, stack)
		stack = append(stack, n)
		return true
	})
}

func enclosingFuncName(stack []ast.Node) string {
	for i := len(stack) - 1; i >= 0; i-- {
		if fd, ok := stack[i].(*ast.FuncDecl); ok {
			return fd.Name.Name
		}
	}
	return "<file>"
}

// varNameAt: the name of the variable defined/assigned by the statement containing pos (":=" / "var x =").
func (p *Program) varNameAt(pkgPath string, pos token.Pos) string {
	pk := p.ByPath[pkgPath]
	if pk == nil || !pos.IsValid() {
		return ""
	}
	name := ""
	for _, f := range pk.Syntax {
		if pos < f.Pos() || pos > f.End() {
			continue
		}
		ast.Inspect(f, func(n ast.Node) bool {
			if n == nil || pos < n.Pos() || pos > n.End() {
				return n == nil
			}
			switch x := n.(type) {
			case *ast.AssignStmt:
				for i, rhs := range x.Rhs {
					if pos >= rhs.Pos() && pos <= rhs.End() && i < len(x.Lhs) {
						if id, ok := x.Lhs[i].(*ast.Ident); ok {
							name = id.Name
						}
					}
				}
			case *ast.ValueSpec:
				for i, rhs := range x.Values {
					if pos >= rhs.Pos() && pos <= rhs.End() && i < len(x.Names) {
						name = x.Names[i].Name
					}
				}
			}
			return true
		})
	}
	return name
}
