package main

// C06: hot-start continuity — everything a kernel carries from one timestep to the next comes
// from, and goes back to, the state vector.

import (
	"fmt"
	"go/token"
	"go/types"
	"sort"
	"strings"

	"golang.org/x/tools/go/ssa"
)

func init() { register("C06", "other", checkC06) }

// carriedExceptions: symbol-wide, each with its reason.
var carriedExceptions = map[string]string{
	"models/routing.storageRouting:qi": "solver warm-start guess for the root finder: it influences the result only within massBalanceLimit, which the property's statement allows for the iteratively solved storage routing",
}

func isNDParam(v ssa.Value) bool {
	_, ok := v.(*ssa.Parameter)
	return ok && isNDType(v.Type()) && types.IsInterface(v.Type())
}

// returnsSeriesLength: g is a module function with one return statement whose (first) result is the Len/Len1 of an
// ND array — a parameter of g or a field of a struct g is given.
func returnsSeriesLength(g *ssa.Function, depth int) bool {
	if g == nil || g.Blocks == nil || !InModule(g) || depth > 2 {
		return false
	}
	rets := returnsOf(g)
	if len(rets) != 1 || len(rets[0].Results) == 0 {
		return false
	}
	return dependsOn(rets[0].Results[0], func(v ssa.Value) bool {
		c, ok := v.(*ssa.Call)
		if !ok {
			return false
		}
		n := callName(c.Common())
		if n == "Len1" || n == "Len" || n == "Len2" || n == "Len3" {
			r := recvOf(c.Common())
			return r != nil && isNDType(r.Type())
		}
		return returnsSeriesLength(c.Common().StaticCallee(), depth+1)
	}, map[ssa.Value]bool{})
}

// timeLoops: outermost loops of fn whose bound derives from Len1()/Len() of an ND parameter.
func timeLoops(fn *ssa.Function) []*Loop {
	var out []*Loop
	for _, l := range findLoops(fn) {
		if l.Parent != nil {
			continue
		}
		b, _ := loopBound(l)
		if b == nil {
			continue
		}
		if dependsOn(b, func(v ssa.Value) bool {
			c, ok := v.(*ssa.Call)
			if !ok {
				return false
			}
			n := callName(c.Common())
			if n != "Len1" && n != "Len" && n != "Len2" && n != "Len3" {
				// a helper of the module that hands back the length of a series (`series.timesteps()`)
				return returnsSeriesLength(c.Common().StaticCallee(), 0)
			}
			r := recvOf(c.Common())
			return r != nil && isNDParam(stripConv(r))
		}, map[ssa.Value]bool{}) {
			out = append(out, l)
		}
	}
	return out
}

// influences: forward data-dependence of v reaches an output write, a return, or an argument of a module call.
func influences(v ssa.Value) bool {
	seen := map[ssa.Value]bool{}
	var walk func(v ssa.Value) bool
	walk = func(v ssa.Value) bool {
		if seen[v] {
			return false
		}
		seen[v] = true
		for _, ref := range refs(v) {
			switch x := ref.(type) {
			case *ssa.Return:
				return true
			case *ssa.Store:
				if x.Val == v {
					// stored into memory: a cell or an element
					if a, ok := x.Addr.(*ssa.Alloc); ok {
						for _, r2 := range refs(a) {
							if ld, ok := r2.(*ssa.UnOp); ok && ld.Op == token.MUL {
								if walk(ld) {
									return true
								}
							}
						}
						continue
					}
					return true // element of a slice / field: may be observed later
				}
			case ssa.CallInstruction:
				c := x.Common()
				if f := c.StaticCallee(); f != nil {
					if pk := fnPkg(f); pk != nil && (pk.Path() == "fmt" || pk.Path() == "log") {
						continue
					}
				}
				if _, isB := c.Value.(*ssa.Builtin); isB {
					if val, ok := x.(ssa.Value); ok && walk(val) {
						return true
					}
					continue
				}
				// argument of a call: result depends on it; ND mutators are output writes
				if c.IsInvoke() && isNDType(c.Value.Type()) {
					n := c.Method.Name()
					if strings.HasPrefix(n, "Set") || strings.HasPrefix(n, "Apply") || n == "CopyFrom" {
						return true
					}
				}
				if val, ok := x.(ssa.Value); ok {
					if walk(val) {
						return true
					}
				}
			case *ssa.If:
				// control influence: counts only if a branch region has an observable effect or a join phi that matters
				if controlMatters(x, walk) {
					return true
				}
			case ssa.Value:
				if walk(x) {
					return true
				}
			}
		}
		return false
	}
	return walk(v)
}

// controlMatters: the branch decides something observable: an output write / return / non-local store inside a
// region entered only through one of its edges, or a join phi whose value reaches an observable use.
func controlMatters(iff *ssa.If, walk func(ssa.Value) bool) bool {
	b := iff.Block()
	fn := b.Parent()
	// an assertion — one arm is a dead-end panic — does not choose between values: everything after it runs
	// unchanged whenever the run continues at all
	for _, s := range b.Succs {
		if len(s.Succs) == 0 && len(s.Instrs) > 0 {
			if _, isPanic := s.Instrs[len(s.Instrs)-1].(*ssa.Panic); isPanic {
				return false
			}
		}
	}
	region := map[*ssa.BasicBlock]bool{}
	for i, s := range b.Succs {
		if len(s.Preds) != 1 {
			continue
		}
		_ = i
		for _, x := range fn.Blocks {
			if s.Dominates(x) {
				region[x] = true
			}
		}
	}
	// a loop-exit condition controls the whole loop body
	for blk := range region {
		for _, ins := range blk.Instrs {
			switch x := ins.(type) {
			case *ssa.Return:
				return true
			case *ssa.Store:
				if !addrIsLocalTemp(x.Addr) {
					return true
				}
			case ssa.CallInstruction:
				c := x.Common()
				if c.IsInvoke() && isNDType(c.Value.Type()) {
					n := c.Method.Name()
					if strings.HasPrefix(n, "Set") || strings.HasPrefix(n, "Apply") || n == "CopyFrom" {
						return true
					}
				}
				if f := c.StaticCallee(); f != nil && InModule(f) {
					return true // a module function called conditionally: may write outputs
				}
			}
		}
	}
	// join phis: blocks with a predecessor in the region (or b itself) and more than one predecessor
	for _, x := range fn.Blocks {
		if len(x.Preds) < 2 {
			continue
		}
		touched := false
		for _, pr := range x.Preds {
			if region[pr] || pr == b {
				touched = true
			}
		}
		if !touched {
			continue
		}
		for _, ins := range x.Instrs {
			phi, ok := ins.(*ssa.Phi)
			if !ok {
				break
			}
			if walk(phi) {
				return true
			}
		}
	}
	return false
}

// addrIsLocalTemp: the address is a local cell, or an element/field of an allocation made in the same block
// that is only handed to fmt/log (varargs arrays of debug prints).
func addrIsLocalTemp(addr ssa.Value) bool {
	for i := 0; i < 8; i++ {
		switch x := addr.(type) {
		case *ssa.Alloc:
			if allocIsSimpleCell(x) {
				return true
			}
			// varargs array: every use is an IndexAddr/Slice that ends in a fmt/log call
			return onlyFeedsDebugPrint(x, map[ssa.Value]bool{})
		case *ssa.IndexAddr:
			addr = x.X
		case *ssa.FieldAddr:
			addr = x.X
		default:
			return false
		}
	}
	return false
}

func onlyFeedsDebugPrint(v ssa.Value, seen map[ssa.Value]bool) bool {
	if seen[v] {
		return true
	}
	seen[v] = true
	for _, ref := range refs(v) {
		switch x := ref.(type) {
		case *ssa.IndexAddr:
			if !onlyFeedsDebugPrint(x, seen) {
				return false
			}
		case *ssa.Slice:
			if !onlyFeedsDebugPrint(x, seen) {
				return false
			}
		case *ssa.Store:
			if x.Addr != v {
				return false
			}
		case ssa.CallInstruction:
			f := x.Common().StaticCallee()
			if f == nil {
				return false
			}
			if pk := fnPkg(f); pk == nil || (pk.Path() != "fmt" && pk.Path() != "log") {
				return false
			}
		case *ssa.DebugRef:
		default:
			return false
		}
	}
	return true
}

func phiName(p *ssa.Phi) string {
	if p.Comment != "" {
		return p.Comment
	}
	return p.Name()
}

func checkC06(p *Program, r *Report) {
	r.Rule("R06.1", "no hidden carry-over: in every stateful kernel, each value carried around the time loop (header phi other than the induction variable, or memory allocated outside the loop that is written — by an element store, by `copy`, or by a callee whose effect summary says it writes the elements — and read in the loop, unless every element used is rewritten first in each iteration) that influences outputs or returned states is initialised from a STATE argument")
	r.Rule("R06.2", "nothing carried is dropped: every such carried value reaches a returned state at loop exit")
	r.Rule("R06.3", "wrapper symmetry: with generated extraction states[i,k] feeds kernel argument nInputs+k and the kernel's k-th state result is written back to states[i,k]; with custom extraction the extract results feed the kernel in order and the kernel's state results feed the pack function in the same order")
	r.Rule("R06.4", "pack/extract agreement: the contents of every argument of the pack function reach the packed array; every component the extract function returns is read from the state vector; component k is read at the same (symbolic) offset at which it is written")
	r.Assumptions = append(r.Assumptions,
		"decides that carried information flows from and to the state vector; numerical equality of split and unsplit runs is not decided",
		"time loops are the outermost loops bounded by the length of an input/output series; kernels that delegate their loop to a helper are analysed through that helper (call arguments carry roles)")
	models, problems := p.Registry()
	for _, pr := range problems {
		r.Undecided("R06.3", "registry:"+pr, "-", pr)
	}
	nStateful := 0
	nWrap := 0
	for _, m := range models {
		if !m.Vector || m.Kernel == nil || m.Closure == nil {
			continue
		}
		nWrap++
		checkWrapperStates(p, r, m)
		if len(m.States) == 0 {
			continue
		}
		nStateful++
		checkCarry(p, r, m)
	}
	checkDelegatedStates(p, r, models)
	checkRunLengthIndependence(p, r, models, "R06.6", true)
	checkBufferRefill(p, r, models)
	checkEntryClamps(p, r, models)
	checkEntryReplacement(p, r, models)
	checkStaleStateReads(p, r, models)
	checkDerivedCarried(p, r, models)
	checkStatesHandedOn(p, r, models)
	r.Floor("R06.1", "stateful kernels", nStateful, 17)
	r.Floor("R06.3", "wrappers", nWrap, 41)
	checkPackExtract(p, r, models)
}

// ---- R06.1 / R06.2 ----

type kernelRoles struct {
	fn     *ssa.Function
	state  map[*ssa.Parameter]int
	series map[*ssa.Parameter]bool
}

func checkCarry(p *Program, r *Report, m *Model) {
	k := m.Kernel
	key := m.RelPkg + "." + k.Name()
	nIn := len(m.Inputs)
	stateParams := map[ssa.Value]string{}
	for i := range m.States {
		if nIn+i < len(k.Params) {
			stateParams[k.Params[nIn+i]] = m.States[i]
		}
	}
	stateIdx = map[*ssa.Parameter]int{}
	for i := range m.States {
		if nIn+i < len(k.Params) {
			stateIdx[k.Params[nIn+i]] = i
		}
	}
	stateResultBase = 0
	if !m.OutputsAsParams {
		stateResultBase = len(m.Outputs)
	}
	analyseCarry(p, r, k, key, stateParams, 0)
}

// analyseCarry checks one function given which of its parameters carry STATE. Helper kernels that receive
// state-derived arguments and contain the time loop are analysed recursively.
var stateIdx map[*ssa.Parameter]int
var stateResultBase int

func analyseCarry(p *Program, r *Report, k *ssa.Function, key string, stateParams map[ssa.Value]string, depth int) {
	isState := func(v ssa.Value) bool { _, ok := stateParams[v]; return ok }
	loops := timeLoops(k)
	if len(loops) == 0 {
		// delegate? a single call to a module function that has a time loop, passing state params
		delegated := false
		if depth < 2 {
			for _, c := range callsIn(k) {
				f := c.Common().StaticCallee()
				if f == nil || !InModule(f) || f.Blocks == nil || len(timeLoops(f)) == 0 {
					continue
				}
				sp := map[ssa.Value]string{}
				for i, a := range c.Common().Args {
					if i < len(f.Params) {
						if dependsOn(a, isState, map[ssa.Value]bool{}) {
							sp[f.Params[i]] = "state-derived argument"
						}
					}
				}
				delegated = true
				analyseCarry(p, r, f, key+"→"+f.Name(), sp, depth+1)
			}
		}
		if !delegated {
			r.OK("R06.1", key+": no time loop (nothing can be carried inside the kernel)")
		}
		return
	}
	for li, l := range loops {
		h := l.Header
		// induction variable
		var ind *ssa.Phi
		if iff, ok := h.Instrs[len(h.Instrs)-1].(*ssa.If); ok {
			if bo, ok := iff.Cond.(*ssa.BinOp); ok {
				ind, _ = bo.X.(*ssa.Phi)
			}
		}
		for _, ins := range h.Instrs {
			phi, ok := ins.(*ssa.Phi)
			if !ok {
				break
			}
			if phi == ind {
				continue
			}
			name := phiName(phi)
			ckey := fmt.Sprintf("%s:%s", key, name)
			if !influences(phi) {
				r.OK("R06.1", fmt.Sprintf("%s: carried `%s` influences neither outputs nor states", key, name))
				continue
			}
			if why, ok := carriedExceptions[ckey]; ok {
				r.OK("R06.1", fmt.Sprintf("%s: carried `%s` excepted: %s", key, name, why))
				r.Exceptions = append(r.Exceptions, ckey+": "+why)
				continue
			}
			// entering operands
			bad := false
			for i, e := range phi.Edges {
				if l.Blocks[h.Preds[i]] {
					continue
				}
				if !dependsOn(e, isState, map[ssa.Value]bool{}) {
					bad = true
				}
			}
			if bad {
				r.Fail("R06.1", ckey, p.Pos(phi.Pos()), fmt.Sprintf("`%s` is carried from one timestep to the next (loop %d of %s) and influences outputs/states, but its value on entering the loop does not derive from any state argument: a run split at any point restarts it", name, li+1, k.Name()))
			} else {
				r.OK("R06.1", fmt.Sprintf("%s: carried `%s` is initialised from the state arguments", key, name))
			}
			// R06.2b: a state argument that the kernel evolves must be returned evolved
			if depth == 0 && stateIdx != nil {
				for i, e := range phi.Edges {
					if l.Blocks[h.Preds[i]] {
						continue
					}
					prm, isPrm := e.(*ssa.Parameter)
					if !isPrm {
						continue
					}
					sk, isSt := stateIdx[prm]
					if !isSt {
						continue
					}
					ri := stateResultBase + sk
					for _, ret := range returnsOf(k) {
						if ri >= len(ret.Results) {
							continue
						}
						// R06.2c: what is returned for this state is the carried variable itself, not a transformed copy
						rv := ret.Results[ri]
						if !phiWeb(phi)[rv] && canReach(h.Instrs[0], ret) {
							same := true
							for _, o := range origins(rv) {
								if o == nil {
									continue
								}
								if _, isPrm := o.(*ssa.Parameter); isPrm {
									continue // the shared entry value
								}
								if !phiWeb(phi)[o] {
									same = false
								}
							}
							if !same {
								r.Fail("R06.2", ckey+":returned-other-value", p.Pos(ret.Pos()), fmt.Sprintf("state `%s` is carried through the run as `%s`, but the value returned for it is a different quantity (%s): the next segment resumes from something the uninterrupted run never used", prm.Name(), name, describeVal(rv)))
							}
						}
						unchanged := true
						for _, o := range origins(ret.Results[ri]) {
							if o != ssa.Value(prm) {
								unchanged = false
							}
						}
						if unchanged {
							r.Fail("R06.2", ckey+":returned-unevolved", p.Pos(ret.Pos()), fmt.Sprintf("state `%s` is evolved by the kernel (carried as `%s`) but the kernel returns the initial value unchanged: the next segment restarts from a stale state", prm.Name(), name))
						}
					}
				}
			}
			// R06.2: reaches a return
			if len(stateParams) > 0 && !reachesReturn(phi, l) {
				if _, ok := carriedExceptions[ckey]; !ok {
					r.Fail("R06.2", ckey, p.Pos(phi.Pos()), fmt.Sprintf("`%s` is carried between timesteps and influences outputs, but its final value is not part of the returned states: the next segment cannot resume from it", name))
				}
			} else {
				r.OK("R06.2", fmt.Sprintf("%s: carried `%s` is returned as state", key, name))
			}
		}
		// carried memory
		checkCarriedMemory(p, r, k, key, l, stateParams)
		checkCarriedStructFields(p, r, k, key, l, stateParams)
	}
}

func reachesReturn(phi *ssa.Phi, l *Loop) bool {
	seen := map[ssa.Value]bool{}
	var walk func(v ssa.Value) bool
	walk = func(v ssa.Value) bool {
		if seen[v] {
			return false
		}
		seen[v] = true
		for _, ref := range refs(v) {
			switch x := ref.(type) {
			case *ssa.Return:
				return true
			case *ssa.Store:
				if a, ok := x.Addr.(*ssa.Alloc); ok && x.Val == v {
					for _, r2 := range refs(a) {
						if ld, ok := r2.(*ssa.UnOp); ok && ld.Op == token.MUL && walk(ld) {
							return true
						}
					}
				}
			case *ssa.Phi:
				if walk(x) {
					return true
				}
			case *ssa.Convert:
				if walk(x) {
					return true
				}
			case *ssa.BinOp, *ssa.UnOp:
				// the carried quantity may be transformed before being returned
				if walk(x.(ssa.Value)) {
					return true
				}
			case *ssa.Call:
				if walk(x) {
					return true
				}
			case *ssa.Extract:
				if walk(x) {
					return true
				}
			}
		}
		return false
	}
	return walk(phi)
}

// checkCarriedMemory: slices/arrays defined outside the loop, stored and loaded inside.
func checkCarriedMemory(p *Program, r *Report, k *ssa.Function, key string, l *Loop, stateParams map[ssa.Value]string) {
	type memInfo struct {
		base   ssa.Value
		stores []*ssa.Store
		loads  []ssa.Instruction
		// calls inside the loop that hand the vector to a callee which writes its elements (effect summary), or copy(vec, …)
		callStores []ssa.CallInstruction
	}
	mems := map[ssa.Value]*memInfo{}
	get := func(b ssa.Value) *memInfo {
		if mems[b] == nil {
			mems[b] = &memInfo{base: b}
		}
		return mems[b]
	}
	baseOf := func(v ssa.Value) ssa.Value {
		for i := 0; i < 10; i++ {
			switch x := v.(type) {
			case *ssa.Slice:
				v = x.X
				continue
			case *ssa.UnOp:
				if a, ok := x.X.(*ssa.Alloc); ok && x.Op == token.MUL && allocIsSimpleCell(a) {
					vs := reachingStores(a, x)
					if len(vs) == 1 && vs[0] != nil {
						v = vs[0]
						continue
					}
				}
			}
			break
		}
		return v
	}
	definedOutside := func(v ssa.Value) bool {
		switch x := v.(type) {
		case *ssa.Parameter:
			return true
		case ssa.Instruction:
			return !l.Blocks[x.Block()]
		}
		return false
	}
	isVec := func(t types.Type) bool {
		switch x := t.Underlying().(type) {
		case *types.Slice:
			return true
		case *types.Pointer:
			_, ok := x.Elem().Underlying().(*types.Array)
			return ok
		}
		return false
	}
	for b := range l.Blocks {
		for _, ins := range b.Instrs {
			switch x := ins.(type) {
			case *ssa.Store:
				if ia, ok := x.Addr.(*ssa.IndexAddr); ok && isVec(ia.X.Type()) {
					base := baseOf(ia.X)
					if definedOutside(base) {
						get(base).stores = append(get(base).stores, x)
					}
				}
			case *ssa.UnOp:
				if ia, ok := x.X.(*ssa.IndexAddr); ok && x.Op == token.MUL && isVec(ia.X.Type()) {
					base := baseOf(ia.X)
					if definedOutside(base) {
						get(base).loads = append(get(base).loads, x)
					}
				}
			case ssa.CallInstruction:
				callee := x.Common().StaticCallee()
				bi, _ := x.Common().Value.(*ssa.Builtin)
				for ai, a := range x.Common().Args {
					if isVec(a.Type()) {
						base := baseOf(a)
						if definedOutside(base) {
							get(base).loads = append(get(base).loads, x)
							writes := bi != nil && bi.Name() == "copy" && ai == 0
							if callee != nil && callee.Blocks != nil && InModule(callee) && ai < len(callee.Params) && nil2eff(p).Mutates(callee, ai) != nil {
								writes = true
							}
							if mc, ok := x.Common().Value.(*ssa.MakeClosure); ok {
								_ = mc // closures called in place see the vector as a free variable: handled below
							}
							if writes {
								get(base).callStores = append(get(base).callStores, x)
							}
						}
					} else if st := structOf(a.Type()); st != nil && callee != nil && callee.Blocks != nil && InModule(callee) && ai < len(callee.Params) {
						// a small struct wrapping the vector (`uhStore{ordinates, store, n}`) handed to a method or helper
						for k := 0; k < st.NumFields(); k++ {
							if !isVec(st.Field(k).Type()) {
								continue
							}
							for _, fv := range structFieldValues(a, k, 0) {
								base := baseOf(fv)
								if !definedOutside(base) {
									continue
								}
								get(base).loads = append(get(base).loads, x)
								if viewWrites(nil2eff(p), bufView{callee, ai, k}, 0) {
									get(base).callStores = append(get(base).callStores, x)
								}
							}
						}
					}
				}
			}
		}
	}
	var bases []ssa.Value
	for b := range mems {
		bases = append(bases, b)
	}
	sort.Slice(bases, func(i, j int) bool { return bases[i].Pos() < bases[j].Pos() })
	for _, b := range bases {
		mi := mems[b]
		if len(mi.stores)+len(mi.callStores) == 0 || len(mi.loads) == 0 {
			continue // read-only tables (UH ordinates) or write-only
		}
		name := b.Name()
		if a, ok := b.(*ssa.Alloc); ok && a.Comment != "" {
			name = a.Comment
			if n := p.varNameAt(fnPkg(k).Path(), a.Pos()); n != "" && (name == "makeslice" || name == "slicelit") {
				name = n
			}
		}
		if ms, ok := b.(*ssa.MakeSlice); ok {
			if n := p.varNameAt(fnPkg(k).Path(), ms.Pos()); n != "" {
				name = n
			}
			// find the variable name through a debug ref / store to a named cell
			for _, ref := range refs(ms) {
				if st, ok := ref.(*ssa.Store); ok {
					if a, ok := st.Addr.(*ssa.Alloc); ok && a.Comment != "" {
						name = a.Comment
					}
				}
				if dr, ok := ref.(*ssa.DebugRef); ok {
					if id, ok := dr.Expr.(*astIdent); ok {
						name = id.Name
					}
				}
			}
		}
		if prm, ok := b.(*ssa.Parameter); ok {
			name = prm.Name()
		}
		ckey := fmt.Sprintf("%s:mem:%s", key, name)
		// scratch idiom: every in-loop use is dominated (within the iteration) by a constant-index store covering the vector
		if scratchVector(b, mi.stores, mi.callStores, mi.loads, l, baseOf) {
			r.OK("R06.1", fmt.Sprintf("%s: vector `%s` is scratch (rewritten at the top of every iteration before use)", key, name))
			continue
		}
		// state-derived memory
		if _, ok := stateParams[b]; ok {
			r.OK("R06.1", fmt.Sprintf("%s: carried buffer `%s` is a state argument", key, name))
			if len(stateParams) > 0 && !valueReturned(k, b) {
				r.Fail("R06.2", ckey, p.Pos(b.Pos()), fmt.Sprintf("carried buffer `%s` is updated every timestep but never returned as state", name))
			} else {
				r.OK("R06.2", fmt.Sprintf("%s: carried buffer `%s` is returned as state", key, name))
			}
			continue
		}
		// initialised by copying a state argument before the loop?
		init := false
		for _, c := range callsIn(k) {
			if bi, ok := c.Common().Value.(*ssa.Builtin); ok && bi.Name() == "copy" {
				if baseOf(c.Common().Args[0]) == b {
					if _, ok := stateParams[baseOf(c.Common().Args[1])]; ok && !l.Blocks[c.Block()] {
						init = true
					}
				}
			}
		}
		if init {
			r.OK("R06.1", fmt.Sprintf("%s: carried buffer `%s` is copied from a state argument before the loop", key, name))
			// … and what it holds at the end has to get back into the states: returned, or copied back into a state
			// argument after the loop
			back := valueReturned(k, b)
			for _, c := range callsIn(k) {
				if bi, ok := c.Common().Value.(*ssa.Builtin); ok && bi.Name() == "copy" && !l.Blocks[c.Block()] {
					if _, isState := stateParams[baseOf(c.Common().Args[0])]; isState && baseOf(c.Common().Args[1]) == b {
						for _, hb := range []*ssa.BasicBlock{l.Header} {
							if hb.Dominates(c.Block()) {
								back = true
							}
						}
					}
				}
			}
			if back {
				r.OK("R06.2", fmt.Sprintf("%s: working copy `%s` is handed back as state", key, name))
			} else {
				r.Fail("R06.2", ckey, p.Pos(b.Pos()), fmt.Sprintf("the working copy `%s` of a state buffer is updated every timestep but neither returned nor copied back into the state argument: the next call starts from the old contents", name))
			}
			continue
		}
		if _, isPrm := b.(*ssa.Parameter); isPrm && len(stateParams) == 0 {
			continue
		}
		r.Fail("R06.1", ckey, p.Pos(b.Pos()), fmt.Sprintf("buffer `%s` is allocated outside the time loop, written in one timestep and read in a later one, but it is neither a state argument nor initialised from one: after a split its contents are lost", name))
	}
}

func valueReturned(fn *ssa.Function, v ssa.Value) bool {
	for _, ret := range returnsOf(fn) {
		for _, rv := range ret.Results {
			for _, o := range origins(rv) {
				if o == v {
					return true
				}
				if s, ok := o.(*ssa.Slice); ok && s.X == v {
					return true
				}
			}
		}
	}
	return false
}

// constElemWrites: helper h does nothing with its vector parameter k but store, unconditionally, into constant
// elements of it (`idx[0] = i`): the elements written, or ok=false.
func constElemWrites(h *ssa.Function, k int) (idxs []int64, ok bool) {
	if h == nil || h.Blocks == nil || k >= len(h.Params) {
		return nil, false
	}
	rets := returnsOf(h)
	for _, ref := range refs(h.Params[k]) {
		switch x := ref.(type) {
		case *ssa.DebugRef:
		case *ssa.IndexAddr:
			c, isConst := constInt(x.Index)
			if !isConst || x.X != ssa.Value(h.Params[k]) {
				return nil, false
			}
			for _, u := range refs(x) {
				st, isStore := u.(*ssa.Store)
				if !isStore || st.Addr != ssa.Value(x) {
					if _, dbg := u.(*ssa.DebugRef); dbg {
						continue
					}
					return nil, false
				}
				for _, ret := range rets {
					if !instrDominates(st, ret) {
						return nil, false
					}
				}
				idxs = append(idxs, c)
			}
		default:
			return nil, false
		}
	}
	return idxs, len(idxs) > 0
}

// scratchVector: all in-loop stores to the vector are at constant indices (directly, or by a helper that does nothing
// else with it), and for each index written some store dominates every in-loop load/use: every element read in an
// iteration was either rewritten earlier in that iteration or is never written in the loop at all, so nothing is
// carried from one timestep to the next through it.
func scratchVector(b ssa.Value, stores []*ssa.Store, callStores []ssa.CallInstruction, loads []ssa.Instruction, l *Loop, baseOf func(ssa.Value) ssa.Value) bool {
	byIdx := map[int64][]ssa.Instruction{}
	for _, st := range stores {
		ia := st.Addr.(*ssa.IndexAddr)
		c, ok := constInt(ia.Index)
		if !ok {
			return false
		}
		byIdx[c] = append(byIdx[c], st)
	}
	writer := map[ssa.Instruction]bool{}
	for _, c := range callStores {
		h := c.Common().StaticCallee()
		found := false
		for ai, arg := range c.Common().Args {
			if baseOf(arg) != b {
				continue
			}
			if _, isSlice := arg.(*ssa.Slice); isSlice {
				if sl := arg.(*ssa.Slice); sl.Low != nil {
					return false
				}
			}
			idxs, ok := constElemWrites(h, ai)
			if !ok {
				return false
			}
			found = true
			for _, ix := range idxs {
				byIdx[ix] = append(byIdx[ix], c.(ssa.Instruction))
			}
		}
		if !found {
			return false
		}
		writer[c.(ssa.Instruction)] = true
	}
	// elements never written in the loop keep one value throughout (read-only): only the written ones matter
	if len(byIdx) == 0 {
		return false
	}
	for i, sts := range byIdx {
		for _, ld := range loads {
			if writer[ld] {
				continue // the writing call itself does not read the elements (constElemWrites)
			}
			dom := false
			for _, st := range sts {
				if instrDominates(st, ld) {
					dom = true
				}
			}
			if !dom {
				// loads of a *different* constant index are irrelevant
				if u, ok := ld.(*ssa.UnOp); ok {
					if ia, ok := u.X.(*ssa.IndexAddr); ok {
						if c, ok := constInt(ia.Index); ok && c != i {
							continue
						}
					}
				}
				return false
			}
		}
	}
	return true
}

// ---- R06.3 ----

func checkWrapperStates(p *Program, r *Report, m *Model) {
	key := m.RelPkg + "." + m.Name
	call := m.KernelCall
	args := call.Common().Args
	nIn := len(m.Inputs)
	nSt := len(m.States)
	if nSt == 0 {
		r.OK("R06.3", key+": stateless")
		return
	}
	eff := (*Effects)(nil)
	w := newWrapperCtx(p, r, eff, m)
	// kernel results: tuple or single
	resultAt := func(idx int) []ssa.Value {
		var out []ssa.Value
		tot := call.Common().Signature().Results().Len()
		if tot == 1 && idx == 0 {
			return []ssa.Value{call}
		}
		for _, ref := range refs(call) {
			if ex, ok := ref.(*ssa.Extract); ok && ex.Index == idx {
				out = append(out, ex)
			}
		}
		return out
	}
	nOutRes := 0
	if !m.OutputsAsParams {
		nOutRes = len(m.Outputs)
	}
	if m.ExtractFunc == "" {
		bad := false
		for k := 0; k < nSt; k++ {
			// argument nIn+k is initialStates.Get1(k)
			a := args[nIn+k]
			ok := false
			for _, o := range origins(a) {
				// element k of the vector a row-reading helper returns (`cellStates := sim.ReadStates(row, n)`)
				if ld, isLd := o.(*ssa.UnOp); isLd && ld.Op == token.MUL {
					if ia, isIA := ld.X.(*ssa.IndexAddr); isIA {
						if idx, isC := constInt(ia.Index); isC && idx == int64(k) {
							if rc, isCall := origin1OrSelf(ia.X).(*ssa.Call); isCall {
								if row, okr := rowReaderArg(rc); okr {
									root, _, _ := w.rootOfView(row)
									if w.roleOfRoot(root) == "states" {
										ok = true
										continue
									}
								}
							}
						}
					}
					ok = false
					break
				}
				c, isCall := o.(*ssa.Call)
				if !isCall || callName(c.Common()) != "Get1" {
					ok = false
					break
				}
				idx, isC := constInt(callArgs(c.Common())[0])
				root, _, _ := w.rootOfView(recvOf(c.Common()))
				if !isC || idx != int64(k) || w.roleOfRoot(root) != "states" {
					ok = false
					break
				}
				ok = true
			}
			if !ok {
				bad = true
				r.Fail("R06.3", fmt.Sprintf("%s:state-in#%d", key, k), p.Pos(call.Pos()), fmt.Sprintf("kernel argument %d is not the cell's state %d (%s) read from the state row", nIn+k, k, m.States[k]))
			}
			// result nOutRes+k is written with Set1(k, ·) on the state row
			wrote := false
			for _, rv := range resultAt(nOutRes + k) {
				for _, ref := range refs(rv) {
					// element k of the values handed to a row-writing helper (`sim.WriteStates(row, s0, s1, …)`)
					if st, isSt := ref.(*ssa.Store); isSt && st.Val == rv {
						if ia, isIA := st.Addr.(*ssa.IndexAddr); isIA {
							if idx, isC := constInt(ia.Index); isC && idx == int64(k) {
								for _, r2 := range refsDeep(vecBase(ia.X)) {
									wc, isCall := r2.(*ssa.Call)
									if !isCall {
										continue
									}
									if row, okw := rowWriterArg(wc, vecBase(ia.X)); okw {
										root, _, _ := w.rootOfView(row)
										if w.roleOfRoot(root) == "states" {
											wrote = true
										}
									}
								}
							}
						}
						continue
					}
					c, isCall := ref.(*ssa.Call)
					if !isCall || callName(c.Common()) != "Set1" {
						continue
					}
					ca := callArgs(c.Common())
					idx, isC := constInt(ca[0])
					root, _, _ := w.rootOfView(recvOf(c.Common()))
					if isC && idx == int64(k) && ca[1] == rv && w.roleOfRoot(root) == "states" {
						wrote = true
					}
				}
			}
			if !wrote {
				bad = true
				r.Fail("R06.3", fmt.Sprintf("%s:state-out#%d", key, k), p.Pos(call.Pos()), fmt.Sprintf("the kernel's state result %d (%s) is not written back to position %d of the cell's state row", k, m.States[k], k))
			}
		}
		if !bad {
			r.OK("R06.3", fmt.Sprintf("%s: %d states read from and written back to the same positions of the cell's state row", key, nSt))
		}
		return
	}
	// custom extraction
	var ext, pack *ssa.Call
	for _, c := range callsIn(m.Closure) {
		cc, ok := c.(*ssa.Call)
		if !ok {
			continue
		}
		if f := cc.Common().StaticCallee(); f != nil {
			if f.Name() == m.ExtractFunc {
				ext = cc
			}
			if f.Name() == m.PackFunc {
				pack = cc
			}
		}
	}
	if ext == nil || pack == nil {
		r.Fail("R06.3", key+":custom", p.Pos(call.Pos()), "custom extract/pack functions named in the spec are not called in the wrapper")
		return
	}
	bad := false
	// extract's argument is the state row
	root, _, _ := w.rootOfView(ext.Common().Args[0])
	if w.roleOfRoot(root) != "states" {
		bad = true
		r.Fail("R06.3", key+":extract-arg", p.Pos(ext.Pos()), "the extract function is not applied to the cell's state row")
	}
	extRes := func(idx int) ssa.Value {
		if ext.Common().Signature().Results().Len() == 1 {
			return ext
		}
		for _, ref := range refs(ext) {
			if ex, ok := ref.(*ssa.Extract); ok && ex.Index == idx {
				return ex
			}
		}
		return nil
	}
	for k := 0; k < nSt; k++ {
		if args[nIn+k] != extRes(k) {
			bad = true
			r.Fail("R06.3", fmt.Sprintf("%s:state-in#%d", key, k), p.Pos(call.Pos()), fmt.Sprintf("kernel argument %d is not component %d of the extracted states", nIn+k, k))
		}
		pa := pack.Common().Args
		okp := false
		if k < len(pa) {
			for _, rv := range resultAt(nOutRes + k) {
				if pa[k] == rv {
					okp = true
				}
			}
		}
		if !okp {
			bad = true
			r.Fail("R06.3", fmt.Sprintf("%s:state-out#%d", key, k), p.Pos(pack.Pos()), fmt.Sprintf("pack argument %d is not the kernel's state result %d (%s)", k, k, m.States[k]))
		}
	}
	// pack result is applied to states
	applied := false
	for _, ref := range refsThroughConv(pack) {
		if c, ok := ref.(*ssa.Call); ok && callName(c.Common()) == "ApplySlice" {
			rt, _, _ := w.rootOfView(recvOf(c.Common()))
			if w.roleOfRoot(recvOf(c.Common())) == "states" || w.roleOfRoot(rt) == "states" {
				applied = true
			}
		}
		// a module helper that applies the packed row to the array it is given (`sim.StoreStates(states, i, packed)`)
		if c, ok := ref.(*ssa.Call); ok && !c.Common().IsInvoke() {
			if h := c.Common().StaticCallee(); h != nil && InModule(h) && h.Blocks != nil && len(h.Params) == len(c.Common().Args) {
				for _, hc := range callsIn(h) {
					if callName(hc.Common()) != "ApplySlice" {
						continue
					}
					dst, okd := origin1(recvOf(hc.Common())).(*ssa.Parameter)
					ha := callArgs(hc.Common())
					if !okd || len(ha) < 3 {
						continue
					}
					src, oks := origin1(ha[2]).(*ssa.Parameter)
					if !oks {
						continue
					}
					di, si := -1, -1
					for i, q := range h.Params {
						if q == dst {
							di = i
						}
						if q == src {
							si = i
						}
					}
					if di < 0 || si < 0 {
						continue
					}
					isPack := false
					for _, o := range origins(c.Common().Args[si]) {
						if o == ssa.Value(pack) {
							isPack = true
						}
					}
					rt, _, _ := w.rootOfView(c.Common().Args[di])
					if isPack && (w.roleOfRoot(c.Common().Args[di]) == "states" || w.roleOfRoot(rt) == "states") {
						applied = true
					}
				}
			}
		}
	}
	if !applied {
		bad = true
		r.Fail("R06.3", key+":pack-applied", p.Pos(pack.Pos()), "the packed states are not written to the shared state array")
	}
	if !bad {
		r.OK("R06.3", fmt.Sprintf("%s: extract → kernel → pack in matching order (%d components), packed row applied to states", key, nSt))
	}
}

func refsThroughConv(v ssa.Value) []ssa.Instruction {
	var out []ssa.Instruction
	for _, ref := range refs(v) {
		out = append(out, ref)
		switch x := ref.(type) {
		case *ssa.ChangeInterface:
			out = append(out, refsThroughConv(x)...)
		case *ssa.MakeInterface:
			out = append(out, refsThroughConv(x)...)
		}
	}
	return out
}

// ---- R06.4 ----

// linear form over component symbols
type linForm struct {
	c    int64
	coef map[int]int64
	ok   bool
}

func (a linForm) String() string {
	if !a.ok {
		return "?"
	}
	var ks []int
	for k := range a.coef {
		if a.coef[k] != 0 {
			ks = append(ks, k)
		}
	}
	sort.Ints(ks)
	s := fmt.Sprint(a.c)
	for _, k := range ks {
		if k == rowLenSym {
			s += fmt.Sprintf("+%d·len(row)", a.coef[k])
			continue
		}
		s += fmt.Sprintf("+%d·#%d", a.coef[k], k)
	}
	return s
}

const rowLenSym = 1 << 20

func (a linForm) eq(b linForm) bool { return a.ok && b.ok && a.String() == b.String() }

func linEval(v ssa.Value, comp func(ssa.Value) (int, bool), depth int) linForm {
	if depth > 20 {
		return linForm{}
	}
	if c, ok := constInt(v); ok {
		return linForm{c: c, coef: map[int]int64{}, ok: true}
	}
	if k, ok := comp(v); ok {
		return linForm{coef: map[int]int64{k: 1}, ok: true}
	}
	switch x := v.(type) {
	case *ssa.BinOp:
		a, b := linEval(x.X, comp, depth+1), linEval(x.Y, comp, depth+1)
		if !a.ok || !b.ok {
			return linForm{}
		}
		out := linForm{coef: map[int]int64{}, ok: true}
		switch x.Op {
		case token.ADD:
			out.c = a.c + b.c
			for k, v := range a.coef {
				out.coef[k] += v
			}
			for k, v := range b.coef {
				out.coef[k] += v
			}
			return out
		case token.SUB:
			out.c = a.c - b.c
			for k, v := range a.coef {
				out.coef[k] += v
			}
			for k, v := range b.coef {
				out.coef[k] -= v
			}
			return out
		}
	case *ssa.Convert:
		return linEval(x.X, comp, depth+1)
	case *ssa.Call:
		// the length of the row itself: a symbol of its own (rows are padded to the widest cell, so an offset taken
		// from the end of the row is not the offset the pack function writes at)
		if nm := callName(x.Common()); (nm == "Len1" || nm == "Len") && recvOf(x.Common()) != nil {
			if _, isPrm := origin1(recvOf(x.Common())).(*ssa.Parameter); isPrm {
				return linForm{coef: map[int]int64{rowLenSym: 1}, ok: true}
			}
		}
	case *ssa.UnOp:
		if a, ok := x.X.(*ssa.Alloc); ok && x.Op == token.MUL && allocIsSimpleCell(a) {
			vs := reachingStores(a, x)
			if len(vs) == 1 && vs[0] != nil {
				return linEval(vs[0], comp, depth+1)
			}
		}
	}
	return linForm{}
}

func checkPackExtract(p *Program, r *Report, models []*Model) {
	n := 0
	eff := ComputeEffects(p)
	for _, m := range models {
		if m.ExtractFunc == "" || m.PackFunc == "" {
			continue
		}
		pk := p.SSAPkg[modPath+"/"+m.RelPkg]
		ext, pack := pk.Func(m.ExtractFunc), pk.Func(m.PackFunc)
		key := m.RelPkg + "." + m.Name
		if ext == nil || pack == nil {
			r.Undecided("R06.4", key+":functions", "-", "extract/pack function not found")
			continue
		}
		n++
		// ---- pack: contents of every parameter reach the returned array
		var packed ssa.Value // the constructor call whose result is returned
		for _, ret := range returnsOf(pack) {
			for _, o := range origins(ret.Results[0]) {
				if o != nil {
					packed = stripConv(o)
				}
			}
		}
		isPacked := func(v ssa.Value) bool {
			if v == nil {
				return false
			}
			for _, o := range origins(v) {
				if o == nil || stripConv(o) != packed {
					return false
				}
			}
			return true
		}
		type where struct {
			off linForm
			pos token.Pos
		}
		writeOff := map[int]where{}
		compOfPackParam := func(v ssa.Value) (int, bool) {
			for i, prm := range pack.Params {
				if v == ssa.Value(prm) {
					return i, true
				}
			}
			return 0, false
		}
		for i, prm := range pack.Params {
			stored := false
			// direct or converted uses as the value argument of Set*/Apply* on the packed array
			var uses []ssa.Value
			uses = append(uses, prm)
			for _, ref := range refs(prm) {
				if cv, ok := ref.(*ssa.Convert); ok {
					uses = append(uses, cv)
				}
			}
			for _, u := range uses {
				for _, ref := range refs(u) {
					c, ok := ref.(*ssa.Call)
					if !ok {
						continue
					}
					name := callName(c.Common())
					recv := recvOf(c.Common())
					if recv == nil || !isPacked(recv) {
						continue
					}
					ca := callArgs(c.Common())
					if len(ca) == 0 || ca[len(ca)-1] != u {
						continue // e.g. used as an index, not as the stored value
					}
					var off linForm
					switch name {
					case "Set1":
						off = linEval(ca[0], compOfPackParam, 0)
					case "Set2":
						off = linEval(ca[1], compOfPackParam, 0)
					case "Set3":
						off = linEval(ca[2], compOfPackParam, 0)
					case "Apply1":
						off = linEval(ca[0], compOfPackParam, 0)
					case "Apply":
						// Apply(loc, dim, step, vals): offset = loc[dim]
						if d, ok := constInt(ca[1]); ok {
							vals, fresh, unk := vecElemAt(eff, ca[0], d, c)
							if unk == "" && !fresh && len(vals) == 1 {
								off = linEval(vals[0], compOfPackParam, 0)
							}
						}
					default:
						continue
					}
					stored = true
					writeOff[i] = where{off, c.Pos()}
				}
			}
			okey := fmt.Sprintf("%s:pack:%s", key, prm.Name())
			if !stored {
				r.Fail("R06.4", okey, p.Pos(prm.Pos()), fmt.Sprintf("the contents of pack argument `%s` (state component %d) never reach the packed state array: that part of the model's memory is lost on every Run", prm.Name(), i))
			} else {
				r.OK("R06.4", fmt.Sprintf("%s: pack stores `%s` at offset %s", key, prm.Name(), writeOff[i].off))
			}
		}
		// ---- extract: every result is read from the state vector, at which offset?
		statesPrm := ext.Params[0]
		nRes := ext.Signature.Results().Len()
		var retVals [][]ssa.Value
		for _, ret := range returnsOf(ext) {
			retVals = append(retVals, ret.Results)
		}
		compOfExtract := func(v ssa.Value) (int, bool) {
			for _, rv := range retVals {
				for i, x := range rv {
					if x == v {
						return i, true
					}
				}
			}
			return 0, false
		}
		for k := 0; k < nRes; k++ {
			okey := fmt.Sprintf("%s:extract#%d", key, k)
			var off linForm
			good := true
			for _, rv := range retVals {
				v := rv[k]
				if cv, ok := v.(*ssa.Convert); ok {
					v = cv.X
				}
				c, ok := v.(*ssa.Call)
				if !ok {
					good = false
					continue
				}
				name := callName(c.Common())
				recv := recvOf(c.Common())
				switch name {
				case "Get1":
					if stripConv(recv) != ssa.Value(statesPrm) {
						good = false
					}
					off = linEval(callArgs(c.Common())[0], compOfExtract, 0)
				case "Unroll":
					root, slices, _ := rootOfView(recv)
					if stripConv(root) != ssa.Value(statesPrm) {
						good = false
					}
					if len(slices) == 0 {
						off = linForm{coef: map[int]int64{}, ok: true}
					} else {
						sa := callArgs(slices[len(slices)-1].Common())
						vals, fresh, unk := vecElemAt(eff, sa[0], 0, slices[len(slices)-1])
						if unk == "" && !fresh && len(vals) == 1 {
							off = linEval(vals[0], compOfExtract, 0)
						}
					}
				default:
					good = false
				}
			}
			if !good {
				r.Fail("R06.4", okey, p.Pos(ext.Pos()), fmt.Sprintf("component %d returned by the extract function is not read from the state vector", k))
				continue
			}
			wo, has := writeOff[k]
			if !has {
				continue // already reported by the pack half
			}
			if !off.ok || !wo.off.ok {
				r.Undecided("R06.4", okey+":offset", p.Pos(ext.Pos()), fmt.Sprintf("offset of component %d not expressible as a linear form (read %s, written %s)", k, off, wo.off))
				continue
			}
			if !off.eq(wo.off) {
				r.Fail("R06.4", okey+":offset", p.Pos(wo.pos), fmt.Sprintf("state component %d is written at offset %s by the pack function but read at offset %s by the extract function (#k = component k)", k, wo.off, off))
			} else {
				r.OK("R06.4", fmt.Sprintf("%s: component %d read and written at offset %s", key, k, off))
			}
		}
		if len(pack.Params) != nRes {
			r.Fail("R06.4", key+":arity", p.Pos(pack.Pos()), fmt.Sprintf("pack takes %d components, extract returns %d", len(pack.Params), nRes))
		}
	}
	r.Floor("R06.4", "pack/extract pairs", n, 2)
}

// checkDelegatedStates (R06.5): when a kernel delegates to another registered kernel, the caller's state that is
// passed in as the callee's state k must be the same state the callee's returned state k is handed back as.
func checkDelegatedStates(p *Program, r *Report, models []*Model) {
	r.Rule("R06.5", "state threading through delegation: where a kernel calls another catalogued kernel, the state argument it passes for the callee's state k and the state position at which it returns the callee's state result k are the same state of the caller")
	byKernel := map[*ssa.Function]*Model{}
	for _, m := range models {
		if m.Kernel != nil && len(m.States) > 0 {
			if byKernel[m.Kernel] == nil {
				byKernel[m.Kernel] = m
			}
		}
	}
	n := 0
	for _, m := range models {
		k := m.Kernel
		if k == nil || len(m.States) == 0 {
			continue
		}
		nIn := len(m.Inputs)
		stateOf := map[ssa.Value]int{}
		for i := range m.States {
			if nIn+i < len(k.Params) {
				stateOf[k.Params[nIn+i]] = i
			}
		}
		resBase := 0
		if !m.OutputsAsParams {
			resBase = len(m.Outputs)
		}
		for _, c := range callsIn(k) {
			call, ok := c.(*ssa.Call)
			if !ok {
				continue
			}
			f := call.Common().StaticCallee()
			cm := byKernel[f]
			if cm == nil || f == k {
				continue
			}
			cIn := len(cm.Inputs)
			cResBase := 0
			if !cm.OutputsAsParams {
				cResBase = len(cm.Outputs)
			}
			for sk := range cm.States {
				if cIn+sk >= len(call.Common().Args) {
					continue
				}
				arg := call.Common().Args[cIn+sk]
				a, isState := stateOf[origin1(arg)]
				if !isState {
					continue // derived or constant initial value: nothing to thread
				}
				// where does the callee's state result sk go?
				var res ssa.Value
				if f.Signature.Results().Len() == 1 && cResBase+sk == 0 {
					res = call
				} else {
					for _, ref := range refs(call) {
						if ex, ok := ref.(*ssa.Extract); ok && ex.Index == cResBase+sk {
							res = ex
						}
					}
				}
				if res == nil {
					continue
				}
				n++
				key := fmt.Sprintf("%s.%s→%s:state#%d", m.RelPkg, k.Name(), f.Name(), sk)
				bpos := -1
				for _, ret := range returnsOf(k) {
					for ri := range m.States {
						if resBase+ri >= len(ret.Results) {
							continue
						}
						for _, o := range origins(ret.Results[resBase+ri]) {
							if o == res {
								bpos = ri
							}
						}
					}
				}
				switch {
				case bpos < 0:
					r.Fail("R06.5", key, p.Pos(call.Pos()), fmt.Sprintf("state `%s` is handed to %s as its `%s`, but the evolved value %s returns is not returned as any state of %s", m.States[a], f.Name(), cm.States[sk], f.Name(), k.Name()))
				case bpos != a:
					r.Fail("R06.5", key, p.Pos(call.Pos()), fmt.Sprintf("%s passes its state `%s` as %s's `%s` but returns the evolved value as its state `%s`: on this path `%s` never reaches the outputs or the next segment", k.Name(), m.States[a], f.Name(), cm.States[sk], m.States[bpos], m.States[bpos]))
				default:
					r.OK("R06.5", fmt.Sprintf("%s.%s: state `%s` threads through %s and back", m.RelPkg, k.Name(), m.States[a], f.Name()))
				}
			}
		}
	}
	r.Analysed["R06.5 delegated state arguments"] = n
}

// checkRunLengthIndependence (R06.6): inside a timestep nothing depends on how long the run is. A value derived from
// the length of an input or output series may bound the time loop itself, and may size buffers, but it must not
// reach — as data or as a branch/loop condition — anything computed inside the time loop that influences outputs
// or returned states: a split run has other lengths, so such a step would differ between the split and the unsplit
// run.
func checkRunLengthIndependence(p *Program, r *Report, models []*Model, rule string, statefulOnly bool) {
	r.Rule(rule, "run-length independence: within the body of a kernel's time loop no value that influences outputs or returned states is derived from the length of an input/output series (other than the loop's own `t < n` condition and buffer allocation sizes); what a timestep does cannot depend on how many timesteps the call was given")
	n := 0
	for _, m := range models {
		k := m.Kernel
		if k == nil || statefulOnly && len(m.States) == 0 {
			continue
		}
		loops := timeLoops(k)
		key := m.RelPkg + "." + k.Name()
		if len(loops) == 0 {
			// the time loop may live in a mapping helper (`mapSeries(in, out, func(v float64) float64 {…})`): the
			// timestep is then the closure's body, and what it captures must not derive from a series length
			for _, c := range callsIn(k) {
				h := c.Common().StaticCallee()
				if h == nil || h.Blocks == nil || !InModule(h) || len(h.Params) != len(c.Common().Args) {
					continue
				}
				_, _, fi, ok := mapHelperShape(p, h)
				if !ok {
					continue
				}
				mc := closureValueOf(c.Common().Args[fi])
				if mc == nil {
					continue
				}
				n++
				bad := false
				for _, bnd := range mc.Bindings {
					vals := []ssa.Value{bnd}
					if a, ok := bnd.(*ssa.Alloc); ok {
						vals = nil
						for _, ref := range refs(a) {
							if st, ok := ref.(*ssa.Store); ok && st.Addr == ssa.Value(a) {
								vals = append(vals, st.Val)
							}
						}
					}
					for _, v := range vals {
						if dependsOn(v, func(x ssa.Value) bool {
							cv, ok := x.(*ssa.Call)
							if !ok {
								return false
							}
							nm := callName(cv.Common())
							rv := recvOf(cv.Common())
							return (nm == "Len1" || nm == "Len" || nm == "Len2" || nm == "Len3") && rv != nil && isNDType(rv.Type())
						}, map[ssa.Value]bool{}) {
							bad = true
							r.Fail(rule, key+":length-dependent#1", p.Pos(mc.Fn.Pos()), fmt.Sprintf("the per-timestep function %s hands to %s captures a value derived from a series length: the same timestep is computed differently in a shorter call, so a split run cannot reproduce the unsplit one", k.Name(), h.Name()))
						}
					}
				}
				if !bad {
					r.OK(rule, key+": nothing inside a timestep depends on the length of the run")
				}
			}
			continue
		}
		if len(loops) != 1 {
			// a kernel that passes over the series several times (Lag: release, then refill the
			// buffer from the tail of the series — that refill is defined relative to the end of the run)
			continue
		}
		n++
		nIn := len(m.Inputs)
		isSeries := func(v ssa.Value) bool {
			prm, ok := origin1(v).(*ssa.Parameter)
			if !ok || !isNDType(prm.Type()) {
				return false
			}
			for i, q := range k.Params {
				if q == prm {
					// inputs, or outputs passed as parameters (the trailing ND parameters); tables sit in between
					return i < nIn || i >= nIn+len(m.States)+len(m.Params)
				}
			}
			return false
		}
		// taint: forward slice from series lengths (not through allocations)
		taint := map[ssa.Value]ssa.Value{} // value → the length call it derives from
		var work []ssa.Value
		for _, c := range callsIn(k) {
			cv, ok := c.(*ssa.Call)
			if !ok {
				continue
			}
			nm := callName(c.Common())
			if nm != "Len1" && nm != "Len" && nm != "Len2" && nm != "Len3" {
				continue
			}
			if rv := recvOf(c.Common()); rv != nil && isSeries(rv) {
				taint[cv] = cv
				work = append(work, cv)
			}
		}
		for len(work) > 0 {
			v := work[len(work)-1]
			work = work[:len(work)-1]
			for _, ref := range refs(v) {
				switch x := ref.(type) {
				case *ssa.MakeSlice, *ssa.Alloc, *ssa.Slice:
					continue // sizes a buffer; the buffer's contents are not thereby derived from the length
				case *ssa.Store:
					if a, ok := x.Addr.(*ssa.Alloc); ok && x.Val == v {
						for _, r2 := range refs(a) {
							if ld, ok := r2.(*ssa.UnOp); ok && ld.Op == token.MUL {
								if _, seen := taint[ld]; !seen {
									taint[ld] = taint[v]
									work = append(work, ld)
								}
							}
						}
					}
				case ssa.Value:
					if _, seen := taint[x]; !seen {
						taint[x] = taint[v]
						work = append(work, x)
					}
				}
			}
		}
		bad := false
		ord := 0
		for _, l := range loops {
			hdrCond := ssa.Value(nil)
			if iff, ok := l.Header.Instrs[len(l.Header.Instrs)-1].(*ssa.If); ok {
				hdrCond = iff.Cond
			}
			for _, b := range k.Blocks {
				if !l.Blocks[b] {
					continue
				}
				for _, ins := range b.Instrs {
					v, ok := ins.(ssa.Value)
					if !ok || v == hdrCond {
						continue
					}
					if b == l.Header && hdrCond != nil && dependsOn(hdrCond, func(x ssa.Value) bool { return x == v }, map[ssa.Value]bool{}) && len(refs(v)) == 1 {
						continue // part of the loop's own bound expression
					}
					src, tainted := taint[v]
					if !tainted {
						continue
					}
					// only the first tainted value of a chain inside the loop is reported: one whose tainted operand
					// was computed outside this loop, or that is itself the length call
					first := v == src
					for _, op := range ins.Operands(nil) {
						if *op == nil {
							continue
						}
						if _, t := taint[*op]; t {
							if oi, isIns := (*op).(ssa.Instruction); !isIns || !l.Blocks[oi.Block()] {
								first = true
							}
						}
					}
					if !first {
						continue
					}
					if _, isPhi := v.(*ssa.Phi); isPhi && b == l.Header {
						continue
					}
					if !influences(v) {
						continue
					}
					ord++
					bad = true
					r.Fail(rule, fmt.Sprintf("%s:length-dependent#%d", key, ord), p.Pos(ins.Pos()), fmt.Sprintf("inside the time loop of %s a value that influences outputs or states is derived from the series length (%s at %s): the same timestep is computed differently in a shorter call, so a split run cannot reproduce the unsplit one", k.Name(), src.Name(), p.Pos(src.Pos())))
				}
			}
		}
		if !bad {
			r.OK(rule, key+": nothing inside a timestep depends on the length of the run")
		}
	}
	r.Floor(rule, "kernels with one time loop", n, 8)
}

// countingLoop: `for i := lo; i < hi; i++` → (i, lo, hi).
func countingLoop(l *Loop) (*ssa.Phi, ssa.Value, ssa.Value, bool) {
	h := l.Header
	iff, ok := h.Instrs[len(h.Instrs)-1].(*ssa.If)
	if !ok || !l.Blocks[h.Succs[0]] {
		return nil, nil, nil, false
	}
	bo, ok := iff.Cond.(*ssa.BinOp)
	if !ok || bo.Op != token.LSS {
		return nil, nil, nil, false
	}
	phi, ok := bo.X.(*ssa.Phi)
	if !ok || phi.Block() != h {
		return nil, nil, nil, false
	}
	var lo ssa.Value
	for i, e := range phi.Edges {
		if l.Blocks[h.Preds[i]] {
			inc, ok := e.(*ssa.BinOp)
			if !ok || inc.Op != token.ADD || inc.X != ssa.Value(phi) {
				return nil, nil, nil, false
			}
			if c, ok := constInt(inc.Y); !ok || c != 1 {
				return nil, nil, nil, false
			}
		} else {
			if lo != nil && lo != e {
				return nil, nil, nil, false
			}
			lo = e
		}
	}
	if lo == nil {
		return nil, nil, nil, false
	}
	return phi, lo, bo.Y, true
}

// rowReaderArg: call is `h(row, n)` of a module helper that returns a vector whose element s is row.Get1(s) for
// the very s it is stored at (one store, index and position the same value); returns the row argument.
func rowReaderArg(call *ssa.Call) (ssa.Value, bool) {
	h := call.Common().StaticCallee()
	if h == nil || !InModule(h) || h.Blocks == nil || call.Common().IsInvoke() || len(h.Params) != len(call.Common().Args) {
		return nil, false
	}
	rets := returnsOf(h)
	if len(rets) != 1 || len(rets[0].Results) != 1 {
		return nil, false
	}
	out := vecBase(origin1OrSelf(rets[0].Results[0]))
	var row *ssa.Parameter
	n := 0
	bad := false
	eachInstr(h, func(_ *ssa.BasicBlock, _ int, ins ssa.Instruction) {
		st, ok := ins.(*ssa.Store)
		if !ok {
			return
		}
		ia, ok := st.Addr.(*ssa.IndexAddr)
		if !ok || vecBase(ia.X) != out {
			return
		}
		n++
		gc, ok := st.Val.(*ssa.Call)
		if !ok || callName(gc.Common()) != "Get1" || callArgs(gc.Common())[0] != ia.Index {
			bad = true
			return
		}
		prm, ok := origin1(recvOf(gc.Common())).(*ssa.Parameter)
		if !ok {
			bad = true
			return
		}
		row = prm
	})
	if bad || n != 1 || row == nil {
		return nil, false
	}
	for i, q := range h.Params {
		if q == row {
			return call.Common().Args[i], true
		}
	}
	return nil, false
}

// rowWriterArg: call is `h(row, vals…)` of a module helper whose only write is row.Set1(s, vals[s]) with the element's
// own position s, and vals is the vector `vec` at this call; returns the row argument.
func rowWriterArg(call *ssa.Call, vec ssa.Value) (ssa.Value, bool) {
	h := call.Common().StaticCallee()
	if h == nil || !InModule(h) || h.Blocks == nil || call.Common().IsInvoke() || len(h.Params) != len(call.Common().Args) {
		return nil, false
	}
	vi := -1
	for i, a := range call.Common().Args {
		if vecBase(a) == vec {
			vi = i
		}
	}
	if vi < 0 {
		return nil, false
	}
	var row *ssa.Parameter
	n := 0
	bad := false
	for _, c := range callsIn(h) {
		nm := callName(c.Common())
		if nm != "Set1" && nm != "Set" {
			continue
		}
		n++
		a := callArgs(c.Common())
		prm, ok := origin1(recvOf(c.Common())).(*ssa.Parameter)
		if nm != "Set1" || !ok || len(a) != 2 {
			bad = true
			continue
		}
		// the value is vals[s] for the position s it is written at (a range loop: element and index of one Next, or
		// an indexed read with the same index)
		okVal := false
		switch v := a[1].(type) {
		case *ssa.UnOp:
			if ia, isIA := v.X.(*ssa.IndexAddr); isIA && v.Op == token.MUL && origin1(ia.X) == ssa.Value(h.Params[vi]) && ia.Index == a[0] {
				okVal = true
			}
		case *ssa.Extract:
			if ix, isEx := a[0].(*ssa.Extract); isEx && ix.Tuple == v.Tuple {
				okVal = true
			}
		}
		if !okVal {
			bad = true
		}
		row = prm
	}
	if bad || n != 1 || row == nil {
		return nil, false
	}
	for i, q := range h.Params {
		if q == row {
			return call.Common().Args[i], true
		}
	}
	return nil, false
}
