package main

// C20 (narrow): the reported wet-bulb depression equals dry bulb minus wet bulb.

func init() { register("C20", "other", checkC20) }

var identTableC20 = map[string]identSpec{
	"ClimateVariables": {rel: []string{"out2+out3=in0"}, note: "wet-bulb depression = dry bulb − wet bulb"},
}

func checkC20(p *Program, r *Report) {
	r.Assumptions = append(r.Assumptions,
		"narrow claim: only the relational clause 'reported wet-bulb depression equals dry bulb minus wet bulb' is decided, as a polynomial identity between the values written to the outputs (the wet-bulb result is an opaque symbol); positivity and monotonicity of the vapour-pressure curve, the ordering dew point <= wet bulb <= dry bulb, monotonicity of the dew point in humidity and finiteness are properties of transcendental formulae and of a 40-step bisection and are NOT decided")
	checkIdentityTable(p, r, "R20.1", identTableC20, 1, "relational identity by normal form: in ClimateVariables the value written to the depression output plus the value written to the wet-bulb output equals, as a polynomial over the SSA values of the timestep, the dry-bulb input read; an algebraically equal rewrite has the same normal form")
}
