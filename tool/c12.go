package main

// C12: delegation between kernels is nil-safe (R12.1); per-timestep mass budgets, delegation and removals (c12bal.go).

import (
	"fmt"
	"go/token"
	"go/types"
	"strings"

	"golang.org/x/tools/go/ssa"
)

func init() { register("C12", "other", checkC12) }

// nilDerefs: for fn, the parameters (by index) on which a method is invoked (or which are passed to a callee that
// does so) on some path not guarded by `p != nil`.
type nilSummary map[*ssa.Function]map[int]ssa.Instruction

func nonNilGuarded(b *ssa.BasicBlock, p ssa.Value) bool {
	for _, g := range guardsAt(b) {
		bo, ok := g.Cond.(*ssa.BinOp)
		if !ok {
			continue
		}
		var other ssa.Value
		if origin1(bo.X) == p || stripConv(bo.X) == p {
			other = bo.Y
		} else if origin1(bo.Y) == p || stripConv(bo.Y) == p {
			other = bo.X
		} else {
			continue
		}
		if !isNilConst(other) {
			continue
		}
		if bo.Op == token.NEQ && g.Val || bo.Op == token.EQL && !g.Val {
			return true
		}
	}
	return false
}

func computeNilSummaries(p *Program) nilSummary {
	sum := nilSummary{}
	var fns []*ssa.Function
	for fn := range p.AllFuncs {
		if fn.Blocks != nil && InModule(fn) {
			fns = append(fns, fn)
			sum[fn] = map[int]ssa.Instruction{}
		}
	}
	sortFuncs(fns)
	for changed := true; changed; {
		changed = false
		for _, fn := range fns {
			for i, prm := range fn.Params {
				if _, done := sum[fn][i]; done {
					continue
				}
				if !types.IsInterface(prm.Type()) {
					if _, isPtr := prm.Type().Underlying().(*types.Pointer); !isPtr {
						continue
					}
				}
				eachInstr(fn, func(b *ssa.BasicBlock, _ int, ins ssa.Instruction) {
					if _, done := sum[fn][i]; done {
						return
					}
					c, ok := ins.(ssa.CallInstruction)
					if !ok {
						return
					}
					cc := c.Common()
					if cc.IsInvoke() && stripConv(cc.Value) == ssa.Value(prm) {
						if !nonNilGuarded(b, prm) {
							sum[fn][i] = ins
							changed = true
						}
						return
					}
					for j, a := range cc.Args {
						if stripConv(a) != ssa.Value(prm) {
							continue
						}
						f := cc.StaticCallee()
						if f == nil || sum[f] == nil {
							continue
						}
						if _, bad := sum[f][j]; bad && !nonNilGuarded(b, prm) {
							sum[fn][i] = ins
							changed = true
						}
					}
				})
			}
		}
	}
	return sum
}

func checkC12(p *Program, r *Report) {
	r.Rule("R12.1", "delegation is nil-safe: wherever a kernel passes the constant nil for an array argument of another kernel, the callee never invokes a method on that parameter (directly or through further callees) except under a `!= nil` guard")
	r.Assumptions = append(r.Assumptions,
		"a model that panics conserves nothing, and the decay-disabled dissolved-constituent storage model named by the property is exactly the delegating path (R12.1, R12.3)",
		"R12.2 decides the budget per timestep and per CFG path; closure over a period follows by induction on steps given that states are threaded (C06)",
		"clamps against constants (math.Max(x,0), MinFloat64(100,·)) are read as their non-constant argument: the budget is decided for the case in which they do not bind; non-negativity as such and the remobilisation bound are NOT decided; StorageTrapAll (no time loop, no timestep parameter) is decided by R12.7 element for element, not in physical units",
		"the table of mass terms per model (OW-SPEC names) in tool/c12bal.go restates the property and is part of the checker")
	checkConversionScales(p, r, "R12.6", []string{"models/routing", "models/storage"})
	sum := computeNilSummaries(p)
	n := 0
	for _, fn := range p.SrcFuncs() {
		rel := relPkg(fnPkg(fn).Path())
		if !strings.HasPrefix(rel, "models") {
			continue
		}
		ordc := map[string]int{}
		for _, c := range callsIn(fn) {
			f := c.Common().StaticCallee()
			if f == nil || !InModule(f) || f.Blocks == nil {
				continue
			}
			for j, a := range c.Common().Args {
				if !isNilConst(a) || j >= len(f.Params) {
					continue
				}
				if !isNDType(f.Params[j].Type()) {
					continue
				}
				n++
				ordc[f.Name()]++
				key := fmt.Sprintf("%s→%s:nil-arg:%s", FuncKey(fn), f.Name(), f.Params[j].Name())
				if site, bad := sum[f][j]; bad {
					r.Fail("R12.1", key, p.Pos(site.Pos()), fmt.Sprintf("%s passes nil for `%s` of %s (at %s), which invokes a method on it without a nil check: the model panics instead of conserving mass", fn.Name(), f.Params[j].Name(), f.Name(), p.Pos(c.Pos())))
				} else {
					r.OK("R12.1", fmt.Sprintf("%s → %s: nil for `%s` is guarded in the callee", FuncKey(fn), f.Name(), f.Params[j].Name()))
				}
			}
		}
	}
	r.Floor("R12.1", "nil array arguments between kernels", n, 1)
	checkMassBalance(p, r)
}
