package main

// C04: vectorised Run = independent cells. Rules evaluated on every registered
// wrapper (generated from one template, but each instantiation is analysed).

import (
	"fmt"
	"go/constant"
	"go/token"
	"go/types"
	"strings"

	"golang.org/x/tools/go/ssa"
)

func init() { register("C04", "other", checkC04) }

// simConst reads an int constant from package sim.
func simConst(p *Program, name string) (int64, bool) {
	pk := p.ByPath[modPath+"/sim"]
	if pk == nil {
		return 0, false
	}
	c, ok := pk.Types.Scope().Lookup(name).(*types.Const)
	if !ok {
		return 0, false
	}
	v, ok := constant.Int64Val(c.Val())
	return v, ok
}

// bindingOf returns the value bound to free variable j of closure cl in its parent.
func bindingOf(cl *ssa.Function, j int) ssa.Value {
	par := cl.Parent()
	if par == nil {
		return nil
	}
	var out ssa.Value
	eachInstr(par, func(_ *ssa.BasicBlock, _ int, ins ssa.Instruction) {
		if mc, ok := ins.(*ssa.MakeClosure); ok && mc.Fn == cl && j < len(mc.Bindings) {
			out = mc.Bindings[j]
		}
	})
	return out
}

func freeVarIndex(cl *ssa.Function, fv *ssa.FreeVar) int {
	for j, f := range cl.FreeVars {
		if f == fv {
			return j
		}
	}
	return -1
}

// resolveCell: value loaded from a captured cell → the values stored into that cell in the parent
// (cells of the wrappers are assigned once before the go statement).
func resolveCapturedLoad(v ssa.Value) []ssa.Value {
	u, ok := v.(*ssa.UnOp)
	if !ok || u.Op != token.MUL {
		return []ssa.Value{v}
	}
	fv, ok := u.X.(*ssa.FreeVar)
	if !ok {
		return []ssa.Value{v}
	}
	cl := fv.Parent()
	b := bindingOf(cl, freeVarIndex(cl, fv))
	a, ok := b.(*ssa.Alloc)
	if !ok {
		return []ssa.Value{v}
	}
	var out []ssa.Value
	for _, r := range refs(a) {
		if st, ok := r.(*ssa.Store); ok && st.Addr == ssa.Value(a) {
			out = append(out, st.Val)
		}
	}
	if len(out) == 0 {
		return []ssa.Value{v}
	}
	return out
}

// rootOfView walks a view chain (Slice/MustReshape/Reshape/typeassert/...) up to its root value,
// recording the Slice calls on the way (innermost first).
func rootOfView(v ssa.Value) (root ssa.Value, slices []*ssa.Call, ok bool) {
	for depth := 0; depth < 50; depth++ {
		v = stripConv(v)
		switch x := v.(type) {
		case *ssa.Call:
			name := callName(x.Common())
			recv := recvOf(x.Common())
			if recv != nil && isNDType(recv.Type()) && viewMethods[name] {
				if name == "Slice" {
					slices = append(slices, x)
				}
				v = recv
				continue
			}
			return v, slices, true
		case *ssa.Extract:
			if c, ok := x.Tuple.(*ssa.Call); ok && x.Index == 0 {
				v = c
				continue
			}
			return v, slices, true
		case *ssa.Phi:
			return v, slices, false
		default:
			return v, slices, true
		}
	}
	return v, slices, false
}

type wrapperCtx struct {
	p    *Program
	r    *Report
	eff  *Effects
	m    *Model
	cl   *ssa.Function
	i    *ssa.Parameter
	cell map[string]*ssa.FreeVar // free var by name
	// frames: local helper closures of Run the current view chain passes through → the call it was reached by
	// (set by w.rootOfView; vector evaluation inside such a helper continues at that call site)
	frames map[*ssa.Function]*ssa.Call
}

// closureTarget: the single closure a function value denotes when it is a closure literal or a load of a captured
// cell that is assigned exactly once.
func closureTarget(v ssa.Value) *ssa.Function {
	var out *ssa.Function
	// a function literal that captures nothing is a plain function value, not a MakeClosure
	fnOf := func(sv ssa.Value) *ssa.Function {
		switch x := sv.(type) {
		case *ssa.MakeClosure:
			f, _ := x.Fn.(*ssa.Function)
			return f
		case *ssa.Function:
			if x.Parent() != nil {
				return x
			}
		}
		return nil
	}
	for _, o := range origins(v) {
		var f *ssa.Function
		switch x := o.(type) {
		case *ssa.MakeClosure, *ssa.Function:
			f = fnOf(x)
		case *ssa.UnOp:
			if fv, ok := x.X.(*ssa.FreeVar); ok {
				if a, ok := bindingOf(fv.Parent(), freeVarIndex(fv.Parent(), fv)).(*ssa.Alloc); ok {
					if sv := singleStoreCell(a); sv != nil {
						f = fnOf(sv)
					}
				}
			} else if a, ok := x.X.(*ssa.Alloc); ok {
				if sv := singleStoreCell(a); sv != nil {
					f = fnOf(sv)
				}
			}
		}
		if f == nil || out != nil && out != f {
			return nil
		}
		out = f
	}
	return out
}

// rootOfView (wrapper-aware): like rootOfView, and additionally follows calls of Run's local helper closures into
// their returned view, mapping the helper's parameters back to the call's arguments.
func (w *wrapperCtx) rootOfView(v ssa.Value) (root ssa.Value, slices []*ssa.Call, ok bool) {
	w.frames = map[*ssa.Function]*ssa.Call{}
	for depth := 0; depth < 80; depth++ {
		v = stripConv(v)
		switch x := v.(type) {
		case *ssa.Call:
			name := callName(x.Common())
			recv := recvOf(x.Common())
			if recv != nil && isNDType(recv.Type()) && viewMethods[name] {
				if name == "Slice" {
					slices = append(slices, x)
				}
				v = recv
				continue
			}
			if !x.Common().IsInvoke() {
				f := closureTarget(x.Common().Value)
				if f == nil {
					// a helper function of the module that cuts the view (`sim.StateRow(states, i, rowShape)`)
					if sf := x.Common().StaticCallee(); sf != nil && InModule(sf) && sf.Signature.Recv() == nil && sf.Signature.Results().Len() == 1 && isNDType(sf.Signature.Results().At(0).Type()) {
						f = sf
					}
				}
				if f != nil && f.Blocks != nil && w.frames[f] == nil {
					rets := returnsOf(f)
					if len(rets) == 1 && len(rets[0].Results) == 1 && len(f.Params) == len(x.Common().Args) {
						w.frames[f] = x
						v = rets[0].Results[0]
						continue
					}
				}
			}
			return v, slices, true
		case *ssa.Parameter:
			if call := w.frames[x.Parent()]; call != nil {
				mapped := false
				for i, prm := range x.Parent().Params {
					if prm == x && i < len(call.Common().Args) {
						v = call.Common().Args[i]
						mapped = true
					}
				}
				if mapped {
					continue
				}
			}
			return v, slices, true
		case *ssa.Extract:
			if c, ok := x.Tuple.(*ssa.Call); ok && x.Index == 0 {
				v = c
				continue
			}
			return v, slices, true
		case *ssa.Phi:
			return v, slices, false
		default:
			return v, slices, true
		}
	}
	return v, slices, false
}

// argFor: a helper closure's parameter → the argument of the call the current view chain came through.
func (w *wrapperCtx) argFor(v ssa.Value) ssa.Value {
	for n := 0; n < 4; n++ {
		prm, ok := stripConv(v).(*ssa.Parameter)
		if !ok {
			return v
		}
		call := w.frames[prm.Parent()]
		if call == nil {
			return v
		}
		mapped := false
		for i, q := range prm.Parent().Params {
			if q == prm && i < len(call.Common().Args) {
				v = call.Common().Args[i]
				mapped = true
			}
		}
		if !mapped {
			return v
		}
	}
	return v
}

func newWrapperCtx(p *Program, r *Report, eff *Effects, m *Model) *wrapperCtx {
	w := &wrapperCtx{p: p, r: r, eff: eff, m: m, cl: m.Closure, cell: map[string]*ssa.FreeVar{}}
	if len(m.Closure.Params) == 1 {
		w.i = m.Closure.Params[0]
	}
	for _, fv := range m.Closure.FreeVars {
		w.cell[fv.Name()] = fv
	}
	return w
}

// runParamIndex resolves v (closure side or Run side) to the index of the Run parameter it holds, or -1.
func (w *wrapperCtx) runParamIndex(v ssa.Value) int {
	var cands []ssa.Value
	for _, o := range origins(v) {
		if o == nil {
			return -1
		}
		o = stripConv(o)
		if u, ok := o.(*ssa.UnOp); ok && u.Op == token.MUL {
			switch a := u.X.(type) {
			case *ssa.FreeVar:
				cands = append(cands, resolveCapturedLoad(u)...)
				continue
			case *ssa.Alloc:
				n := 0
				for _, r := range refs(a) {
					if st, ok := r.(*ssa.Store); ok && st.Addr == ssa.Value(a) {
						cands = append(cands, st.Val)
						n++
					}
				}
				if n > 0 {
					continue
				}
			}
		}
		cands = append(cands, o)
	}
	idx := -1
	for _, c := range cands {
		prm, ok := stripConv(c).(*ssa.Parameter)
		if !ok || prm.Parent() != w.m.Run {
			return -1
		}
		k := -1
		for i, rp := range w.m.Run.Params {
			if rp == prm {
				k = i
			}
		}
		if idx >= 0 && idx != k {
			return -1
		}
		idx = k
	}
	return idx
}

// roleOfRoot classifies a root value: "inputs", "states", "outputs", "param:<field>", or "".
func (w *wrapperCtx) roleOfRoot(root ssa.Value) string {
	if root == nil {
		return ""
	}
	switch w.runParamIndex(root) {
	case 1:
		return "inputs"
	case 2:
		return "states"
	case 3:
		return "outputs"
	}
	for _, o := range origins(root) {
		if o == nil {
			return ""
		}
		if u, ok := stripConv(o).(*ssa.UnOp); ok && u.Op == token.MUL {
			if fa, ok := u.X.(*ssa.FieldAddr); ok {
				name, _, _ := fieldName(fa)
				if w.runParamIndex(fa.X) == 0 {
					return "param:" + name
				}
			}
		}
	}
	return ""
}

// isCellIndex: v is provably the closure's own cell number i.
func (w *wrapperCtx) isI(v ssa.Value) bool {
	for _, o := range origins(v) {
		if o != nil {
			o = w.argFor(o)
			if o != ssa.Value(w.i) {
				if os := origins(o); len(os) == 1 && os[0] == ssa.Value(w.i) {
					continue
				}
				return false
			}
			continue
		}
		return false
	}
	return true
}

// allocatedInClosure: the vector is created inside the closure (NewIndex call or literal).
func (w *wrapperCtx) allocatedInClosure(vec ssa.Value) bool {
	vec = w.argFor(vec)
	if os := origins(vec); len(os) == 1 && os[0] != nil {
		vec = os[0]
	}
	b := vecBase(vec)
	// created in the goroutine's own body, or — per call — in a helper closure the current view chain runs through
	private := func(fn *ssa.Function) bool {
		return fn == w.cl || w.frames[fn] != nil
	}
	switch x := b.(type) {
	case *ssa.Alloc:
		return private(x.Parent())
	case *ssa.Call:
		return private(x.Parent()) && callName(x.Common()) == "NewIndex"
	case *ssa.MakeSlice:
		return private(x.Parent())
	}
	return false
}

// vecElem resolves element k of vec at instruction `at` to a description.
// returns (values, ok). For vectors loaded from a captured cell the parent's stores are used.
func (w *wrapperCtx) vecElem(vec ssa.Value, k int64, at ssa.Instruction) ([]ssa.Value, string) {
	if call := w.frames[at.Parent()]; call != nil {
		// `at` lies in a helper closure the current view chain passes through
		f := at.Parent()
		mapVals := func(vals []ssa.Value) []ssa.Value {
			out := make([]ssa.Value, len(vals))
			for i, v := range vals {
				out[i] = v
				if v != nil {
					if prm, ok := stripConv(v).(*ssa.Parameter); ok && prm.Parent() == f {
						out[i] = w.argFor(prm)
					}
				}
			}
			return out
		}
		if prm, ok := stripConv(vec).(*ssa.Parameter); ok && prm.Parent() == f {
			vals, fresh, unk := vecElemAt(w.eff, prm, k, at)
			if unk != "" {
				return nil, unk
			}
			out := mapVals(vals)
			if fresh {
				// not assigned on some path inside the helper: the value it had at the call
				more, unk := w.vecElem(w.argFor(prm), k, call)
				if unk != "" {
					return nil, unk
				}
				out = append(out, more...)
			}
			return out, ""
		}
		save := w.frames
		w.frames = map[*ssa.Function]*ssa.Call{}
		for fn, c := range save {
			if fn != f {
				w.frames[fn] = c
			}
		}
		vals, unk := w.vecElem(vec, k, at)
		w.frames = save
		return mapVals(vals), unk
	}
	// captured shared vector: resolve in the parent at the go statement
	if u, ok := vec.(*ssa.UnOp); ok && u.Op == token.MUL {
		if _, ok := u.X.(*ssa.FreeVar); ok {
			var out []ssa.Value
			for _, pv := range resolveCapturedLoad(u) {
				vals, fresh, unk := vecElemAt(w.eff, pv, k, w.m.SpawnAt)
				if unk != "" {
					return nil, unk
				}
				out = append(out, vals...)
				if fresh {
					if init := freshInit(pv); init != nil {
						out = append(out, init)
					} else {
						return nil, "initial value of shared vector unknown"
					}
				}
			}
			return out, ""
		}
	}
	vals, fresh, unk := vecElemAt(w.eff, vec, k, at)
	if unk != "" {
		return nil, unk
	}
	if fresh {
		if init := freshInit(vec); init != nil {
			vals = append(vals, init)
		} else {
			return nil, "initial value of vector unknown"
		}
	}
	return vals, ""
}

// freshInit: element value of a freshly created vector: NewIndex(c) → c; zeroed literal → 0.
func freshInit(vec ssa.Value) ssa.Value {
	b := vecBase(vec)
	switch x := b.(type) {
	case *ssa.Call:
		if callName(x.Common()) == "NewIndex" {
			args := callArgs(x.Common())
			if len(args) == 1 {
				return args[0]
			}
		}
	case *ssa.Alloc, *ssa.MakeSlice:
		return ssa.NewConst(constant.MakeInt64(0), types.Typ[types.Int])
	}
	return nil
}

// lenInFrame: `len(p)` of a helper closure's vector parameter whose argument at the call the current view chain
// came through is a literal of known length.
func (w *wrapperCtx) lenInFrame(v ssa.Value) (int64, bool) {
	c, ok := stripConv(v).(*ssa.Call)
	if !ok {
		return 0, false
	}
	if bi, ok := c.Common().Value.(*ssa.Builtin); !ok || bi.Name() != "len" || len(c.Common().Args) != 1 {
		return 0, false
	}
	arg := w.argFor(c.Common().Args[0])
	if arg == c.Common().Args[0] {
		if _, isPrm := stripConv(arg).(*ssa.Parameter); isPrm {
			return 0, false
		}
	}
	if os := origins(arg); len(os) == 1 && os[0] != nil {
		arg = os[0]
	}
	switch b := vecBase(arg).(type) {
	case *ssa.Alloc:
		if at, ok := b.Type().Underlying().(*types.Pointer).Elem().Underlying().(*types.Array); ok {
			return at.Len(), true
		}
	case *ssa.MakeSlice:
		return constInt(b.Len)
	}
	return 0, false
}

func allConst(vals []ssa.Value, want int64) bool {
	if len(vals) == 0 {
		return false
	}
	for _, v := range vals {
		c, ok := constInt(v)
		if !ok || c != want {
			return false
		}
	}
	return true
}

func checkC04(p *Program, r *Report) {
	r.Rule("R04.1", "inputs and parameters are never mutated: effect summaries (element stores, copy destinations, mutating ND methods, aliases through Unroll, callee summaries, closure captures) find no write to a value derived from Run's `inputs` or from a parameter field, in Run, its goroutine, the kernel and everything they call")
	r.Rule("R04.2", "per-cell write footprint: every write to states/outputs in the goroutine goes through a view cut with Slice(pos,size,·) where pos is allocated in the goroutine, pos[CELL]==i and size[CELL]==1, or through ApplySlice(loc,·,vals) with loc[CELL]==i and vals one row high")
	r.Rule("R04.3", "broadcast bases agree: every `i % n` that feeds an index uses as n the extent of the same array along the dimension being indexed")
	r.Rule("R04.4", "table parameters are cut to the cell's own length (the cell's dimension-parameter value), not to the maximum")
	r.Rule("R04.5", "reads are per-cell too: the input block and state row handed to the kernel are cut at pos[CELL]==i%nInputs / i with extent 1; kernel arguments are, in order, inputs, states, parameters(, outputs) of the spec")
	r.Assumptions = append(r.Assumptions,
		"decides the structural conditions of cell independence; value equality with single-cell runs follows only together with C05 (confinement) and C14 (purity) and is not separately established",
		"row count of a pack function's result is proven only when it is allocated with a constant first extent; ApplyParameters row-block arithmetic is a value property")
	models, problems := p.Registry()
	for _, pr := range problems {
		r.Undecided("R04.1", "registry:"+pr, "-", pr)
	}
	eff := ComputeEffects(p)
	n := 0
	for _, m := range models {
		if !m.Vector {
			continue
		}
		if m.Run == nil || m.Closure == nil || m.KernelCall == nil {
			r.Undecided("R04.1", "wrapper:"+m.Name, "-", fmt.Sprintf("model %s: Run / goroutine / kernel call not found (Run=%v closure=%v kernel=%v)", m.Name, m.Run != nil, m.Closure != nil, m.KernelCall != nil))
			continue
		}
		n++
		w := newWrapperCtx(p, r, eff, m)
		w.checkNoInputParamMutation()
		w.checkWriteFootprint()
		w.checkBroadcast()
		w.checkKernelArgs()
	}
	r.Floor("R04.1", "vectorised wrappers", n, 41)
	checkNoAppendOnShared(p, r, models)
	checkInitStatesWidth(p, r, models)
	checkOwnCellIndex(p, r, models, "R04.9", true)
	checkStateRowLength(p, r, models)
	checkFreshParameterShapes(p, r, models)
	// R04.7: Run touches nothing else — no package-level writes from anything a Run reaches
	{
		r.Rule("R04.7", "Run touches nothing else: no function reachable from any wrapper's Run writes a package-level variable (cells would read each other's intermediate values)")
		var roots []*ssa.Function
		for _, m := range models {
			if m.Run != nil {
				roots = append(roots, m.Run)
			}
		}
		ws := globalWritesFrom(p, roots)
		seenW := map[string]bool{}
		for _, w := range ws {
			k := FuncKey(w.fn) + ":writes:" + w.g.Name()
			if seenW[k] {
				continue
			}
			seenW[k] = true
			r.Fail("R04.7", k, p.Pos(w.site.Pos()), fmt.Sprintf("package-level variable %s is written by %s during Run: a cell's result depends on what other cells (or earlier runs) left there", w.g.Name(), FuncKey(w.fn)))
		}
		if len(ws) == 0 {
			r.OK("R04.7", fmt.Sprintf("%d Run methods: no reachable write to a package-level variable", len(roots)))
		}
	}
	r.Floor("R04.2", "write obligations discharged", r.PerRule["R04.2"][0], 20)
	r.Floor("R04.3", "broadcast obligations discharged", r.PerRule["R04.3"][0], 41)
	r.Floor("R04.4", "table-parameter obligations", r.PerRule["R04.4"][0], 7)
}

// ---- R04.1 ----

func (w *wrapperCtx) checkNoInputParamMutation() {
	m := w.m
	key := m.RelPkg + "." + m.Name
	// inputs: Run param 1
	if mw := w.eff.Mutates(m.Run, 1); mw != nil {
		w.r.Fail("R04.1", key+":inputs", w.p.Pos(mw.site.Pos()), fmt.Sprintf("Run may write its inputs: %s", mw.what))
	} else {
		w.r.OK("R04.1", key+": inputs never written (Run, goroutine, kernel "+m.KernelName+" and callees)")
	}
	// parameters: every load of an ND field of the receiver, in Run and the closure
	bad := false
	for _, fn := range []*ssa.Function{m.Run, m.Closure} {
		eachInstr(fn, func(_ *ssa.BasicBlock, _ int, ins ssa.Instruction) {
			u, ok := ins.(*ssa.UnOp)
			if !ok || u.Op != token.MUL || !isNDType(u.Type()) {
				return
			}
			fa, ok := u.X.(*ssa.FieldAddr)
			if !ok {
				return
			}
			name, _, _ := fieldName(fa)
			d := newDerivation()
			d.vals[u] = true
			d.propagate(fn)
			if mw := w.eff.findMutation(fn, d); mw != nil {
				bad = true
				w.r.Fail("R04.1", key+":param:"+name, w.p.Pos(mw.site.Pos()), fmt.Sprintf("parameter view m.%s may be written: %s", name, mw.what))
			}
		})
	}
	if !bad {
		w.r.OK("R04.1", key+": parameter views never written")
	}
}

// ---- R04.2 ----

func (w *wrapperCtx) cellDimFor(role string) (int64, bool) {
	switch role {
	case "states":
		return simConst(w.p, "DIMS_CELL")
	case "outputs":
		return simConst(w.p, "DIMO_CELL")
	case "inputs":
		return simConst(w.p, "DIMI_CELL")
	}
	return 0, false
}

// sliceIsCellRestricted: Slice(pos,size,step) call on a root array restricts to cell i (or i%n for inputs).
func (w *wrapperCtx) sliceIsCellRestricted(sl *ssa.Call, role string, allowMod bool) string {
	args := callArgs(sl.Common())
	if len(args) != 3 {
		return "Slice with unexpected arity"
	}
	cd, ok := w.cellDimFor(role)
	if !ok {
		return "cell dimension constant not found in package sim"
	}
	pos, size := args[0], args[1]
	if !w.allocatedInClosure(pos) {
		return "position vector is not allocated inside the goroutine (shared between cells)"
	}
	pv, unk := w.vecElem(pos, cd, sl)
	if unk != "" {
		return "position[CELL] undetermined: " + unk
	}
	for _, v := range pv {
		if w.isI(v) {
			continue
		}
		if allowMod {
			if bo, ok := v.(*ssa.BinOp); ok && bo.Op == token.REM && w.isI(bo.X) {
				continue
			}
		}
		return fmt.Sprintf("position[CELL] is %s, not the goroutine's own cell index", v.String())
	}
	if len(pv) == 0 {
		return "position[CELL] never assigned"
	}
	sv, unk := w.vecElem(size, cd, sl)
	if unk != "" {
		return "size[CELL] undetermined: " + unk
	}
	if !allConst(sv, 1) {
		return "size[CELL] is not the constant 1"
	}
	return ""
}

func (w *wrapperCtx) checkWriteFootprint() {
	m := w.m
	key := m.RelPkg + "." + m.Name
	cl := w.cl
	nWrites := 0
	eachInstr(cl, func(_ *ssa.BasicBlock, _ int, ins ssa.Instruction) {
		call, ok := ins.(ssa.CallInstruction)
		if !ok {
			return
		}
		c := call.Common()
		if _, isB := c.Value.(*ssa.Builtin); isB {
			return
		}
		var args []ssa.Value
		if c.IsInvoke() {
			args = append([]ssa.Value{c.Value}, c.Args...)
		} else {
			args = c.Args
		}
		mod, _ := w.eff.calleesOpen(call)
		for ai, a := range args {
			if !isNDType(a.Type()) {
				continue
			}
			written := false
			for _, cal := range mod {
				if w.eff.Mutates(cal, ai) != nil {
					written = true
				}
			}
			if !written {
				continue
			}
			root, slices, ok := w.rootOfView(a)
			role := w.roleOfRoot(root)
			if !ok {
				w.r.Undecided("R04.2", fmt.Sprintf("%s:%s#arg%d", key, callName(c), ai), w.p.Pos(ins.Pos()), "written array reaches the call through a phi; view chain undecided")
				continue
			}
			if role == "" {
				// a locally created array (e.g. pack result, kernel-returned series) — not shared
				if isFreshLocal(root) {
					continue
				}
				w.r.Undecided("R04.2", fmt.Sprintf("%s:%s#arg%d", key, callName(c), ai), w.p.Pos(ins.Pos()), "written array has an unrecognised origin: "+root.String())
				continue
			}
			if role == "inputs" || strings.HasPrefix(role, "param:") {
				continue // reported by R04.1
			}
			nWrites++
			okey := fmt.Sprintf("%s:%s:%s", key, role, callName(c))
			if len(slices) > 0 {
				// outermost Slice on the root is the last in the list
				sl := slices[len(slices)-1]
				if why := w.sliceIsCellRestricted(sl, role, false); why != "" {
					w.r.Fail("R04.2", okey, w.p.Pos(sl.Pos()), fmt.Sprintf("write to %s through a view that is not restricted to the goroutine's own cell: %s", role, why))
				} else {
					w.r.OK("R04.2", fmt.Sprintf("%s: %s written via Slice(pos[CELL]=i,size[CELL]=1) → %s", key, role, callName(c)))
				}
				continue
			}
			// direct write on the shared root: ApplySlice(loc, step, vals)
			name := callName(c)
			// … or a module helper that does nothing else to the array than that (`sim.StoreStates(states, i, packed)`)
			asIns, asCommon := ins, c
			var helperFrame *ssa.Function
			if !c.IsInvoke() && name != "ApplySlice" {
				if h := c.StaticCallee(); h != nil && InModule(h) && h.Blocks != nil && h.Signature.Recv() == nil && ai < len(h.Params) && w.frames[h] == nil {
					var inner ssa.CallInstruction
					nWritesIn := 0
					for _, hc := range callsIn(h) {
						hargs := hc.Common().Args
						if hc.Common().IsInvoke() {
							hargs = append([]ssa.Value{hc.Common().Value}, hargs...)
						}
						for hi, ha := range hargs {
							if origin1(ha) != ssa.Value(h.Params[ai]) {
								continue
							}
							hm, _ := w.eff.calleesOpen(hc)
							writes := false
							for _, cal := range hm {
								if w.eff.Mutates(cal, hi) != nil {
									writes = true
								}
							}
							if writes {
								nWritesIn++
								if callName(hc.Common()) == "ApplySlice" && hi == 0 {
									inner = hc
								}
							}
						}
					}
					if cv, isCall := ins.(*ssa.Call); isCall && inner != nil && nWritesIn == 1 {
						if w.frames == nil {
							w.frames = map[*ssa.Function]*ssa.Call{}
						}
						w.frames[h] = cv
						helperFrame = h
						asIns, asCommon = inner, inner.Common()
						name = "ApplySlice"
					}
				}
			}
			if name == "ApplySlice" && (ai == 0 || helperFrame != nil) {
				cd, _ := w.cellDimFor(role)
				margs := callArgs(asCommon)
				ins := asIns
				loc := margs[0]
				if helperFrame != nil {
					defer func(h *ssa.Function) { delete(w.frames, h) }(helperFrame)
				}
				if !w.allocatedInClosure(loc) {
					w.r.Fail("R04.2", okey, w.p.Pos(ins.Pos()), "ApplySlice location vector is shared between goroutines")
					continue
				}
				lv, unk := w.vecElem(loc, cd, ins)
				bad := unk
				if bad == "" {
					for _, v := range lv {
						if !w.isI(v) {
							bad = "loc[CELL] is " + v.String() + ", not the goroutine's own cell index"
						}
					}
					if len(lv) == 0 {
						bad = "loc[CELL] never assigned"
					}
				}
				if bad != "" {
					w.r.Fail("R04.2", okey, w.p.Pos(ins.Pos()), "ApplySlice on shared "+role+": "+bad)
					continue
				}
				// vals must be one row high along CELL
				if why := w.oneRow(margs[2], cd); why != "" {
					w.r.Notes = append(w.r.Notes, fmt.Sprintf("%s: %s ApplySlice source row count not proven (%s) — assumption", key, role, why))
				}
				w.r.OK("R04.2", fmt.Sprintf("%s: %s.ApplySlice(loc[CELL]=i, ·, one-row source)", key, role))
				continue
			}
			w.r.Fail("R04.2", okey, w.p.Pos(ins.Pos()), fmt.Sprintf("shared array %s is written directly by %s without a per-cell view", role, name))
		}
	})
	// models without states and with outputs-as-params have at least one write
	if nWrites == 0 && (len(m.Outputs) > 0 || len(m.States) > 0) {
		w.r.Notes = append(w.r.Notes, key+": no write to states/outputs in the goroutine (kernel writes none of its output arguments)")
	}
}

// isFreshLocal: the array was created by the call that produced it (constructor, kernel result, pack function):
// every value the callee can return is, at the root of its view chain, an allocation made in that call or the fresh
// result of a further call. A helper that returns a view of something it was given or captured is not fresh.
func isFreshLocal(root ssa.Value) bool {
	return freshValue(root, 0, map[*ssa.Function]bool{})
}

func freshValue(v ssa.Value, depth int, busy map[*ssa.Function]bool) bool {
	if depth > 6 {
		return false
	}
	for _, o := range origins(v) {
		if o == nil {
			return false
		}
		r, _, ok := rootOfView(o)
		if !ok {
			return false
		}
		switch x := stripConv(r).(type) {
		case *ssa.Alloc, *ssa.MakeSlice, *ssa.MakeMap:
			continue
		case *ssa.MakeInterface:
			if !freshValue(x.X, depth+1, busy) {
				return false
			}
		case *ssa.Extract:
			c, ok := x.Tuple.(*ssa.Call)
			if !ok || !freshCall(c, x.Index, depth, busy) {
				return false
			}
		case *ssa.Call:
			if !freshCall(x, 0, depth, busy) {
				return false
			}
		default:
			return false
		}
	}
	return true
}

func freshCall(c *ssa.Call, res int, depth int, busy map[*ssa.Function]bool) bool {
	if c.Common().IsInvoke() {
		// constructors reached through an interface (Clone, NewArray…) are judged by name only when they are ND methods
		n := c.Common().Method.Name()
		return n == "Clone" || n == "Copy"
	}
	f := c.Common().StaticCallee()
	if f == nil {
		return false // a function value (helper closure): not known to be fresh
	}
	if f.Blocks == nil {
		return !InModule(f) // external constructor (e.g. append-free stdlib); module functions without bodies do not exist
	}
	if busy[f] {
		return true
	}
	busy[f] = true
	defer delete(busy, f)
	for _, ret := range returnsOf(f) {
		if res >= len(ret.Results) || !freshValue(ret.Results[res], depth+1, busy) {
			return false
		}
	}
	return true
}

// oneRow: the array value has extent 1 along dim cd, provably.
func (w *wrapperCtx) oneRow(v ssa.Value, cd int64) string {
	v = stripConv(v)
	call, ok := v.(*ssa.Call)
	if !ok {
		return "not a call result"
	}
	name := callName(call.Common())
	if name == "MustReshape" || name == "Reshape" {
		args := callArgs(call.Common())
		ev, unk := w.vecElem(args[0], cd, call)
		if unk == "" && allConst(ev, 1) {
			return ""
		}
		return "reshape extent along CELL not the constant 1"
	}
	f := call.Common().StaticCallee()
	if f == nil || f.Blocks == nil {
		return "unknown producer"
	}
	// pack function: every return originates from NewArray2D*(1, ·)
	for _, ret := range returnsOf(f) {
		for _, o := range origins(ret.Results[0]) {
			oc, ok := stripConv(o).(*ssa.Call)
			if !ok {
				return "pack function returns a non-constructor value"
			}
			cn := callName(oc.Common())
			if !strings.HasPrefix(cn, "NewArray") {
				return "pack function returns result of " + cn
			}
			a := callArgs(oc.Common())
			if int(cd) >= len(a) {
				return "constructor arity"
			}
			if c, ok := constInt(a[cd]); !ok || c != 1 {
				return "constructor extent along CELL is not the constant 1"
			}
		}
	}
	return ""
}

// ---- R04.3 / R04.4 ----

// extentOf: is n the extent of array `arr` (same object as recvWant) along dim d / last dim?
func sameObject(a, b ssa.Value) bool {
	oa, ob := origins(a), origins(b)
	if len(oa) != 1 || len(ob) != 1 {
		return false
	}
	x, y := stripConv(oa[0]), stripConv(ob[0])
	if x == y {
		return true
	}
	// two loads of the same field of the same base / same captured cell
	ux, ok1 := x.(*ssa.UnOp)
	uy, ok2 := y.(*ssa.UnOp)
	if ok1 && ok2 && ux.Op == token.MUL && uy.Op == token.MUL {
		if ux.X == uy.X {
			return true
		}
		fx, ok1 := ux.X.(*ssa.FieldAddr)
		fy, ok2 := uy.X.(*ssa.FieldAddr)
		if ok1 && ok2 && fx.Field == fy.Field && sameObject(fx.X, fy.X) {
			return true
		}
	}
	return false
}

func (w *wrapperCtx) checkBroadcast() {
	m := w.m
	key := m.RelPkg + "." + m.Name
	cl := w.cl
	nMod := 0
	eachInstr(cl, func(_ *ssa.BasicBlock, _ int, ins ssa.Instruction) {
		bo, ok := ins.(*ssa.BinOp)
		if !ok || bo.Op != token.REM || !w.isI(bo.X) {
			return
		}
		nMod++
		// how is the result used?
		for _, ref := range refs(bo) {
			switch u := ref.(type) {
			case *ssa.Call:
				// x.Get1(i % n): n must be x.Len1() (or Shape()[0]) of the same x
				c := u.Common()
				name := callName(c)
				recv := recvOf(c)
				okey := fmt.Sprintf("%s:mod:%s", key, describeRecv(recv))
				if recv == nil || !isNDType(recv.Type()) || !(name == "Get1") {
					w.r.Undecided("R04.3", okey, w.p.Pos(bo.Pos()), "i%n used as argument of "+name+": unrecognised use")
					continue
				}
				if why := w.isExtentOf(bo.Y, recv, 0, true); why != "" {
					w.r.Fail("R04.3", okey, w.p.Pos(bo.Pos()), "parameter broadcast uses a modulo base that is not the length of the array being indexed: "+why)
				} else {
					w.r.OK("R04.3", fmt.Sprintf("%s: %s.Get1(i %% own length)", key, describeRecv(recv)))
				}
			case *ssa.Store:
				// stored into an index vector element: find the Slice call that uses the vector
				ia, ok := u.Addr.(*ssa.IndexAddr)
				if !ok {
					w.r.Undecided("R04.3", key+":mod:store", w.p.Pos(bo.Pos()), "i%n stored to a non-vector location")
					continue
				}
				dim, okc := constInt(ia.Index)
				if !okc {
					w.r.Undecided("R04.3", key+":mod:store", w.p.Pos(bo.Pos()), "i%n stored at a non-constant vector index")
					continue
				}
				used := false
				// the Slice calls that take the vector as their position: directly, or inside a local helper closure the
				// vector is handed to (`inputsOf(pos)` returning inputs.Slice(pos, …))
				var sliceCalls []*ssa.Call
				for _, r2 := range refsDeep(vecBase(ia.X)) {
					call, ok := r2.(*ssa.Call)
					if !ok {
						continue
					}
					if callName(call.Common()) == "Slice" {
						if args := callArgs(call.Common()); len(args) == 3 && vecBase(args[0]) == vecBase(ia.X) {
							sliceCalls = append(sliceCalls, call)
						}
						continue
					}
					if h := closureTarget(call.Common().Value); h != nil && !call.Common().IsInvoke() {
						for ai, a := range call.Common().Args {
							if vecBase(a) != vecBase(ia.X) || ai >= len(h.Params) {
								continue
							}
							for _, c2 := range callsIn(h) {
								hc, ok := c2.(*ssa.Call)
								if !ok || callName(hc.Common()) != "Slice" {
									continue
								}
								if hargs := callArgs(hc.Common()); len(hargs) == 3 && origin1(hargs[0]) == ssa.Value(h.Params[ai]) {
									sliceCalls = append(sliceCalls, hc)
								}
							}
						}
					}
				}
				for _, call := range sliceCalls {
					{
					}
					used = true
					recv := recvOf(call.Common())
					okey := fmt.Sprintf("%s:mod:%s[%d]", key, describeRecv(recv), dim)
					last := false
					if strings.HasPrefix(w.roleOfRoot(recv), "param:") {
						last = true // table parameter: sets along the last dimension
					}
					if why := w.isExtentOfDim(bo.Y, recv, dim, last); why != "" {
						w.r.Fail("R04.3", okey, w.p.Pos(bo.Pos()), "broadcast modulo base is not the extent of the sliced array along the indexed dimension: "+why)
					} else {
						w.r.OK("R04.3", fmt.Sprintf("%s: %s sliced at [dim %d] = i %% own extent", key, describeRecv(recv), dim))
					}
				}
				if !used {
					w.r.Undecided("R04.3", key+":mod:unused", w.p.Pos(bo.Pos()), "vector holding i%n is not used by a Slice call")
				}
			case *ssa.DebugRef:
			default:
				w.r.Undecided("R04.3", key+":mod:use", w.p.Pos(bo.Pos()), fmt.Sprintf("i%%n used by %T", ref))
			}
		}
	})
	_ = nMod
	// R04.4: table parameters
	for _, ps := range m.Params {
		if len(ps.Dims) == 0 {
			continue
		}
		found := false
		// the cuts: Slice calls in the goroutine, and Slice calls in a local helper closure it calls with the table
		type cut struct {
			sl, via *ssa.Call
		}
		var cuts []cut
		eachInstr(cl, func(_ *ssa.BasicBlock, _ int, ins ssa.Instruction) {
			call, ok := ins.(*ssa.Call)
			if !ok {
				return
			}
			if callName(call.Common()) == "Slice" {
				cuts = append(cuts, cut{call, nil})
				return
			}
			if call.Common().IsInvoke() {
				return
			}
			if h := closureTarget(call.Common().Value); h != nil && h != cl && len(h.Blocks) > 0 {
				eachInstr(h, func(_ *ssa.BasicBlock, _ int, hi ssa.Instruction) {
					if sl, ok := hi.(*ssa.Call); ok && callName(sl.Common()) == "Slice" {
						cuts = append(cuts, cut{sl, call})
					}
				})
			}
		})
		for _, ct := range cuts {
			call := ct.sl
			saveFrames, saveHook := w.frames, vecIndexHook
			if ct.via != nil {
				h := call.Parent()
				w.frames = map[*ssa.Function]*ssa.Call{}
				for fn, c := range saveFrames {
					w.frames[fn] = c
				}
				w.frames[h] = ct.via
				fr := w.frames
				vecIndexHook = func(v ssa.Value) (int64, bool) {
					cur := w.frames
					w.frames = fr
					defer func() { w.frames = cur }()
					return w.lenInFrame(v)
				}
			}
			restore := func() { w.frames, vecIndexHook = saveFrames, saveHook }
			recv := w.argFor(recvOf(call.Common()))
			if w.roleOfRoot(recv) != "param:"+ps.Name {
				restore()
				continue
			}
			found = true
			args := callArgs(call.Common())
			okey := fmt.Sprintf("%s:table:%s", key, ps.Name)
			for di, dname := range ps.Dims {
				ev, unk := w.vecElem(args[1], int64(di), call)
				if unk != "" || len(ev) == 0 {
					w.r.Undecided("R04.4", okey, w.p.Pos(call.Pos()), "slice shape element undetermined: "+unk)
					continue
				}
				for _, v := range ev {
					if why := w.isCellDimValue(v, dname); why != "" {
						w.r.Fail("R04.4", okey, w.p.Pos(call.Pos()), fmt.Sprintf("table parameter %s is not cut to the cell's own %s: %s", ps.Name, dname, why))
					} else {
						w.r.OK("R04.4", fmt.Sprintf("%s: table %s cut to int(m.%s.Get1(i%%len)) along dim %d", key, ps.Name, dname, di))
					}
				}
			}
			// position along the parameter-set (last) dimension: i % own extent
			{
				last := int64(len(ps.Dims))
				pv, unk := w.vecElem(args[0], last, call)
				pkey := okey + ":set"
				if unk != "" || len(pv) == 0 {
					w.r.Undecided("R04.3", pkey, w.p.Pos(call.Pos()), "parameter-set index of a table parameter undetermined: "+unk)
				}
				for _, v := range pv {
					bo, ok := v.(*ssa.BinOp)
					if !ok || bo.Op != token.REM || !w.isI(bo.X) {
						w.r.Fail("R04.3", pkey, w.p.Pos(call.Pos()), fmt.Sprintf("table parameter %s is not cut at parameter set (i %% number of sets) of the goroutine's own cell index: the index is %s", ps.Name, describeIdx(v)))
						continue
					}
					if why := w.isExtentOfDim(bo.Y, recv, last, true); why != "" {
						w.r.Fail("R04.3", pkey, w.p.Pos(call.Pos()), "table parameter broadcast base: "+why)
					} else {
						w.r.OK("R04.3", fmt.Sprintf("%s: table %s cut at set i %% own last extent", key, ps.Name))
					}
				}
			}
			// position: zeros along table dims
			for di := range ps.Dims {
				pv, unk := w.vecElem(args[0], int64(di), call)
				if unk != "" || !allConst(pv, 0) {
					w.r.Fail("R04.4", okey+":from", w.p.Pos(call.Pos()), "table parameter slice does not start at 0 along its table dimension")
				}
			}
			restore()
		}
		if !found {
			w.r.Undecided("R04.4", fmt.Sprintf("%s:table:%s", key, ps.Name), w.p.Pos(cl.Pos()), "no Slice of the table parameter found in the goroutine")
		}
	}
}

func refsDeep(v ssa.Value) []ssa.Instruction {
	var out []ssa.Instruction
	seen := map[ssa.Value]bool{}
	var walk func(v ssa.Value)
	walk = func(v ssa.Value) {
		if seen[v] {
			return
		}
		seen[v] = true
		for _, r := range refs(v) {
			out = append(out, r)
			if s, ok := r.(*ssa.Slice); ok {
				walk(s)
			}
		}
	}
	walk(v)
	return out
}

func describeRecv(v ssa.Value) string {
	if v == nil {
		return "?"
	}
	for _, o := range origins(v) {
		o = stripConv(o)
		if u, ok := o.(*ssa.UnOp); ok && u.Op == token.MUL {
			if fa, ok := u.X.(*ssa.FieldAddr); ok {
				n, _, _ := fieldName(fa)
				return "m." + n
			}
			if fv, ok := u.X.(*ssa.FreeVar); ok {
				return fv.Name()
			}
		}
		if c, ok := o.(*ssa.Call); ok {
			return callName(c.Common()) + "(…)"
		}
	}
	return v.Name()
}

// isExtentOf: n == arr.Len1() / arr.Len(dim) / arr.Shape()[dim] of the same array.
func (w *wrapperCtx) isExtentOf(n ssa.Value, arr ssa.Value, dim int64, len1 bool) string {
	return w.isExtentOfDim(n, arr, dim, false)
}

func (w *wrapperCtx) isExtentOfDim(n ssa.Value, arr ssa.Value, dim int64, lastDim bool) string {
	var cands []ssa.Value
	for _, o := range origins(n) {
		cands = append(cands, resolveCapturedLoad(o)...)
	}
	if len(cands) == 0 {
		return "modulo base has no definition"
	}
	for _, c := range cands {
		c = stripConv(c)
		switch x := c.(type) {
		case *ssa.Call:
			name := callName(x.Common())
			recv := recvOf(x.Common())
			if recv == nil {
				return "modulo base is the result of " + name
			}
			if !w.sameArray(recv, arr) {
				return fmt.Sprintf("modulo base is an extent of %s, a different array than %s", describeRecv(recv), describeRecv(arr))
			}
			switch name {
			case "Len1":
				if dim != 0 || lastDim {
					// Len1 = extent of dim 0
					if !(dim == 0) {
						return "Len1() is the extent of dimension 0, but dimension " + fmt.Sprint(dim) + " is indexed"
					}
				}
			case "Len2":
				if dim != 1 {
					return "Len2() is the extent of dimension 1"
				}
			case "Len3":
				if dim != 2 {
					return "Len3() is the extent of dimension 2"
				}
			case "Len":
				a := callArgs(x.Common())
				// Len(arr.NDims()-1): the last dimension of the same array
				if lastDim {
					if bo, isBo := a[0].(*ssa.BinOp); isBo && bo.Op == token.SUB {
						if c1, isC := constInt(bo.Y); isC && c1 == 1 {
							if nc, isCall := bo.X.(*ssa.Call); isCall && callName(nc.Common()) == "NDims" && w.sameArray(recvOf(nc.Common()), arr) {
								continue
							}
						}
					}
				}
				d, ok := constInt(a[0])
				if !ok || d != dim {
					return fmt.Sprintf("Len(%v) is not the extent of the indexed dimension %d", a[0], dim)
				}
			default:
				return "modulo base is the result of " + name
			}
		case *ssa.UnOp:
			// shape[k] load: &shape[k]
			ia, ok := x.X.(*ssa.IndexAddr)
			if !ok || x.Op != token.MUL {
				return "modulo base is not an extent"
			}
			shapeCall, ok := stripConv(origin1(ia.X)).(*ssa.Call)
			if !ok || callName(shapeCall.Common()) != "Shape" {
				return "modulo base is an element of a vector that is not a Shape() result"
			}
			if !w.sameArray(recvOf(shapeCall.Common()), arr) {
				return "modulo base is an extent of a different array"
			}
			if k, ok := constInt(ia.Index); ok {
				if k != dim {
					return fmt.Sprintf("Shape()[%d] is not the extent of the indexed dimension %d", k, dim)
				}
			} else if lastDim {
				// len(shape)-1
				bo, ok := ia.Index.(*ssa.BinOp)
				if !ok || bo.Op != token.SUB {
					return "Shape() index is not len(shape)-1"
				}
				if c, ok := constInt(bo.Y); !ok || c != 1 {
					return "Shape() index is not len(shape)-1"
				}
				if lc, ok := bo.X.(*ssa.Call); !ok || callName(lc.Common()) != "len" {
					return "Shape() index is not len(shape)-1"
				}
			} else {
				return "Shape() index not constant"
			}
		default:
			return "modulo base is not an extent of the indexed array (" + c.String() + ")"
		}
	}
	return ""
}

func origin1(v ssa.Value) ssa.Value {
	o := origins(v)
	if len(o) == 1 && o[0] != nil {
		return o[0]
	}
	return v
}

// sameArray: a and b denote the same array object (possibly via the captured cell and its parent value).
func (w *wrapperCtx) sameArray(a, b ssa.Value) bool {
	if a == nil || b == nil {
		return false
	}
	if sameObject(a, b) {
		return true
	}
	// inside a helper closure: the parameter stands for the argument of the call the view chain came through
	a, b = w.argFor(a), w.argFor(b)
	if sameObject(a, b) {
		return true
	}
	ra, rb := w.roleOfRoot(origin1(a)), w.roleOfRoot(origin1(b))
	if ra != "" && ra == rb {
		return true
	}
	// parent-side value vs closure-side cell load
	for _, x := range resolveCapturedLoad(origin1(a)) {
		for _, y := range resolveCapturedLoad(origin1(b)) {
			if stripConv(origin1(x)) == stripConv(origin1(y)) {
				return true
			}
		}
	}
	return false
}

// isCellDimValue: v == int(m.<dimParam>.Get1(i % m.<dimParam>.Len1()))
func (w *wrapperCtx) isCellDimValue(v ssa.Value, dimName string) string {
	for _, o := range origins(v) {
		cv, ok := o.(*ssa.Convert)
		if !ok {
			if u, ok := o.(*ssa.UnOp); ok && u.Op == token.MUL {
				if fa, ok := u.X.(*ssa.FieldAddr); ok {
					n, _, _ := fieldName(fa)
					return "extent is the field m." + n + " (the maximum over all cells), not the cell's own value"
				}
			}
			return "extent is not a conversion of the cell's dimension parameter value"
		}
		call, ok := cv.X.(*ssa.Call)
		if !ok || callName(call.Common()) != "Get1" {
			return "extent is not read with Get1 from the dimension parameter"
		}
		if w.roleOfRoot(recvOf(call.Common())) != "param:"+dimName {
			return "extent is read from " + describeRecv(recvOf(call.Common())) + ", not from m." + dimName
		}
	}
	return ""
}

// ---- R04.5 kernel argument roles ----

func (w *wrapperCtx) checkKernelArgs() {
	m := w.m
	key := m.RelPkg + "." + m.Name
	args := m.KernelCall.Common().Args
	exp := len(m.Inputs) + len(m.States) + len(m.Params)
	if m.OutputsAsParams {
		exp += len(m.Outputs)
	}
	if len(args) != exp {
		w.r.Fail("R04.5", key+":arity", w.p.Pos(m.KernelCall.Pos()), fmt.Sprintf("kernel %s called with %d arguments, spec declares %d", m.KernelName, len(args), exp))
		return
	}
	icd, _ := simConst(w.p, "DIMI_CELL")
	_ = icd
	// inputs
	for k := range m.Inputs {
		a := args[k]
		root, slices, ok := w.rootOfView(a)
		okey := fmt.Sprintf("%s:input#%d", key, k)
		if !ok || w.roleOfRoot(root) != "inputs" || len(slices) < 2 {
			w.r.Fail("R04.5", okey, w.p.Pos(m.KernelCall.Pos()), fmt.Sprintf("kernel argument %d is not a view of Run's inputs", k))
			continue
		}
		// outermost slice (on inputs): cell-restricted with modulo allowed
		if why := w.sliceIsCellRestricted(slices[len(slices)-1], "inputs", true); why != "" {
			w.r.Fail("R04.5", okey, w.p.Pos(slices[len(slices)-1].Pos()), "input block is not restricted to the cell's own block: "+why)
			continue
		}
		// inner slice picks input number k: pos[0]==k, size[0]==1
		in := slices[0]
		ia := callArgs(in.Common())
		pv, unk := w.vecElem(ia[0], 0, in)
		sv, unk2 := w.vecElem(ia[1], 0, in)
		if unk != "" || unk2 != "" || !allConst(pv, int64(k)) || !allConst(sv, 1) {
			w.r.Fail("R04.5", okey, w.p.Pos(in.Pos()), fmt.Sprintf("input %d (%s) is not cut at row %d with extent 1 of the cell's input block", k, m.Inputs[k], k))
			continue
		}
		w.r.OK("R04.5", fmt.Sprintf("%s: kernel arg %d = inputs[i%%n, %d, :]", key, k, k))
	}
	// parameters
	base := len(m.Inputs) + len(m.States)
	for k, ps := range m.Params {
		a := args[base+k]
		okey := fmt.Sprintf("%s:param#%d", key, k)
		good := false
		for _, o := range origins(a) {
			o2 := o
			if cv, ok := o.(*ssa.Convert); ok {
				o2 = cv.X
			}
			o2 = stripConv(o2)
			if call, ok := o2.(*ssa.Call); ok {
				recv := recvOf(call.Common())
				root, _, _ := rootOfView(recv)
				if recv != nil && (w.roleOfRoot(recv) == "param:"+ps.Name || w.roleOfRoot(root) == "param:"+ps.Name) {
					good = true
					continue
				}
				// Slice(...) result typeasserted: the call itself is the view
				r2, _, _ := rootOfView(call)
				if w.roleOfRoot(r2) == "param:"+ps.Name {
					good = true
					continue
				}
				// the view is cut by a local helper closure that is handed the table
				saveFrames := w.frames
				r3, _, _ := w.rootOfView(call)
				w.frames = saveFrames
				if w.roleOfRoot(r3) == "param:"+ps.Name {
					good = true
					continue
				}
			}
			good = false
			break
		}
		if good {
			w.r.OK("R04.5", fmt.Sprintf("%s: kernel arg %d = parameter %s of the cell", key, base+k, ps.Name))
		} else {
			w.r.Fail("R04.5", okey, w.p.Pos(m.KernelCall.Pos()), fmt.Sprintf("kernel argument %d is not derived from parameter field m.%s", base+k, ps.Name))
		}
	}
	// outputs as params
	if m.OutputsAsParams {
		ocd, _ := simConst(w.p, "DIMO_OUTPUT")
		ob := base + len(m.Params)
		for k := range m.Outputs {
			a := args[ob+k]
			okey := fmt.Sprintf("%s:output#%d", key, k)
			root, slices, ok := w.rootOfView(a)
			if !ok || w.roleOfRoot(root) != "outputs" || len(slices) < 1 || len(slices) > 2 {
				w.r.Fail("R04.5", okey, w.p.Pos(m.KernelCall.Pos()), fmt.Sprintf("kernel argument %d is not a per-cell view of Run's outputs", ob+k))
				continue
			}
			// a view that is written through stays a view: Reshape aliases only what is contiguous (or a single run), so
			// on the way from the output array to the kernel it is applied only to cuts of extent one in all dimensions
			// but one — a block of several rows of a larger output array is gathered into a copy, and the writes are lost
			if why := w.reshapedBlock(slices); why != "" {
				w.r.Fail("R04.5", okey, w.p.Pos(slices[len(slices)-1].Pos()), fmt.Sprintf("output %d (%s): %s", k, m.Outputs[k], why))
				continue
			}
			if len(slices) == 1 {
				sa := callArgs(slices[0].Common())
				pv, unk := w.vecElem(sa[0], ocd, slices[0])
				sv, unk2 := w.vecElem(sa[1], ocd, slices[0])
				if unk != "" || unk2 != "" || !allConst(pv, int64(k)) || !allConst(sv, 1) {
					w.r.Fail("R04.5", okey, w.p.Pos(slices[0].Pos()), fmt.Sprintf("output %d (%s) view is not cut at output row %d with extent 1", k, m.Outputs[k], k))
					continue
				}
			} else {
				// the cell's block first (from output row 0), the row out of it second
				inner, outer := slices[0], slices[1]
				oa, ia := callArgs(outer.Common()), callArgs(inner.Common())
				opv, unk := w.vecElem(oa[0], ocd, outer)
				ipv, unk2 := w.vecElem(ia[0], ocd, inner)
				isv, unk3 := w.vecElem(ia[1], ocd, inner)
				if unk != "" || unk2 != "" || unk3 != "" || !allConst(opv, 0) || !allConst(ipv, int64(k)) || !allConst(isv, 1) {
					w.r.Fail("R04.5", okey, w.p.Pos(inner.Pos()), fmt.Sprintf("output %d (%s) view is not cut at output row %d with extent 1 of the cell's block of outputs", k, m.Outputs[k], k))
					continue
				}
			}
			w.r.OK("R04.5", fmt.Sprintf("%s: kernel arg %d = outputs[i, %d, :]", key, ob+k, k))
		}
	}
}

// reshapedBlock: one of the cuts is reshaped although it spans more than one position in two or more dimensions.
func (w *wrapperCtx) reshapedBlock(slices []*ssa.Call) string {
	for _, sl := range slices {
		reshaped := false
		for _, ref := range refs(sl) {
			if c, ok := ref.(*ssa.Call); ok {
				if nm := callName(c.Common()); (nm == "MustReshape" || nm == "Reshape" || nm == "ReshapeFast") && recvOf(c.Common()) == ssa.Value(sl) {
					reshaped = true
				}
			}
		}
		if !reshaped {
			continue
		}
		size := callArgs(sl.Common())[1]
		wide := 0
		rank := int64(6)
		if os := origins(w.argFor(size)); len(os) == 1 && os[0] != nil {
			switch b := vecBase(os[0]).(type) {
			case *ssa.Alloc:
				if at, ok := b.Type().Underlying().(*types.Pointer).Elem().Underlying().(*types.Array); ok {
					rank = at.Len()
				}
			case *ssa.MakeSlice:
				if c, isC := constInt(b.Len); isC {
					rank = c
				}
			}
		}
		for d := int64(0); d < rank; d++ {
			sv, unk := w.vecElem(size, d, sl)
			if unk != "" || len(sv) == 0 {
				if d == 0 {
					return "the extent of a reshaped cut of the outputs is undetermined"
				}
				break
			}
			if !allConst(sv, 1) {
				wide++
			}
		}
		if wide > 1 {
			return "a cut of the output array spanning several positions in more than one dimension is reshaped on the way to the kernel: for an output array larger than the run that block is not contiguous, Reshape gathers it into a copy, and what the kernel writes never reaches the caller's array"
		}
	}
	return ""
}

func describeIdx(v ssa.Value) string {
	if bo, ok := v.(*ssa.BinOp); ok {
		return describeIdx(bo.X) + " " + bo.Op.String() + " " + describeIdx(bo.Y)
	}
	if u, ok := v.(*ssa.UnOp); ok && u.Op == token.MUL {
		if fv, ok := u.X.(*ssa.FreeVar); ok {
			return "captured " + fv.Name()
		}
	}
	if p, ok := v.(*ssa.Parameter); ok {
		return p.Name()
	}
	return v.Name()
}

// ---- R04.6: state buffers that alias the shared state array are never appended to ----

// checkNoAppendOnShared: in every kernel (and the functions it calls), `append(s, …)` where s derives from a
// slice parameter or from an Unroll() result may write beyond len(s) into the backing array — for a state row
// unrolled from the shared states array that is the next cell's row.
func checkNoAppendOnShared(p *Program, r *Report, models []*Model) {
	r.Rule("R04.6", "no growth of aliased buffers: in kernels and their helpers, append is never applied to (a reslice of) a slice parameter or an Unroll() result — such slices alias the shared state/input storage with spare capacity reaching into the next cell's row; a fresh slice (make, literal, nil) is required")
	seen := map[*ssa.Function]bool{}
	n := 0
	var visit func(fn *ssa.Function, depth int)
	visit = func(fn *ssa.Function, depth int) {
		if fn == nil || seen[fn] || fn.Blocks == nil || !InModule(fn) || depth > 4 {
			return
		}
		seen[fn] = true
		n++
		derived := map[ssa.Value]string{}
		for _, prm := range fn.Params {
			if isSliceType(prm.Type()) {
				derived[prm] = "slice parameter `" + prm.Name() + "`"
			}
		}
		for changed := true; changed; {
			changed = false
			eachInstr(fn, func(_ *ssa.BasicBlock, _ int, ins ssa.Instruction) {
				v, ok := ins.(ssa.Value)
				if !ok || derived[v] != "" {
					return
				}
				switch x := ins.(type) {
				case *ssa.Call:
					if callName(x.Common()) == "Unroll" && recvOf(x.Common()) != nil && isNDType(recvOf(x.Common()).Type()) {
						derived[v] = "result of Unroll()"
						changed = true
					}
				case *ssa.Slice:
					if d := derived[x.X]; d != "" && x.Max == nil {
						derived[v] = d
						changed = true
					}
				case *ssa.Phi:
					for _, e := range x.Edges {
						if d := derived[e]; d != "" {
							derived[v] = d
							changed = true
						}
					}
				case *ssa.UnOp:
					if a, ok := x.X.(*ssa.Alloc); ok && x.Op == token.MUL {
						for _, ref := range refs(a) {
							if st, ok := ref.(*ssa.Store); ok && st.Addr == ssa.Value(a) {
								if d := derived[st.Val]; d != "" {
									derived[v] = d
									changed = true
								}
							}
						}
					}
				}
			})
		}
		k := 0
		for _, c := range callsIn(fn) {
			if b, ok := c.Common().Value.(*ssa.Builtin); ok && b.Name() == "append" {
				if d := derived[c.Common().Args[0]]; d != "" {
					k++
					r.Fail("R04.6", fmt.Sprintf("%s:append#%d", FuncKey(fn), k), p.Pos(c.Pos()), fmt.Sprintf("append to a %s: it aliases shared array storage (a state row unrolled from the states array has capacity up to the end of the array), so the appended elements overwrite the next cell's state row while that cell's goroutine uses it", d))
				}
				continue
			}
			if f := c.Common().StaticCallee(); f != nil {
				visit(f, depth+1)
			}
		}
		if k == 0 {
			r.OK("R04.6", FuncKey(fn)+": no append on parameter/Unroll-derived slices")
		}
	}
	for _, m := range models {
		if m.Kernel != nil {
			visit(m.Kernel, 0)
		}
		if m.Closure != nil {
			for _, c := range callsIn(m.Closure) {
				if f := c.Common().StaticCallee(); f != nil && InModule(f) && !isNDMethod(f) {
					visit(f, 0)
				}
			}
		}
	}
	r.Floor("R04.6", "kernel functions scanned", n, 20)
}
