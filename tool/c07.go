package main

// C07: ow-sim hand-off protocol (local invariants) and offset agreement.

import (
	"fmt"
	"go/token"
	"sort"
	"strings"

	"golang.org/x/tools/go/ssa"
)

func init() { register("C07", "other", checkC07) }

const owsim = "cmd/ow-sim"

// leafDescs describes the leaves a value is computed from, as normalised strings.
// gen: the parameter that denotes the generation number in this function (printed as "g").
func leafDescs(p *Program, v ssa.Value, gen ssa.Value, subst map[ssa.Value][]string, depth int, seen map[ssa.Value]bool) []string {
	if v == nil {
		return []string{"<zero>"}
	}
	if s, ok := subst[v]; ok {
		return s
	}
	if v == gen {
		return []string{"g"}
	}
	if seen[v] || depth > 6 {
		return nil
	}
	seen[v] = true
	defer delete(seen, v)
	switch x := v.(type) {
	case *ssa.Const:
		if x.Value == nil {
			return []string{"nil"}
		}
		return []string{x.Value.ExactString()}
	case *ssa.Parameter:
		return []string{"param:" + x.Name()}
	case *ssa.Convert:
		return leafDescs(p, x.X, gen, subst, depth, seen)
	case *ssa.ChangeType:
		return leafDescs(p, x.X, gen, subst, depth, seen)
	case *ssa.Phi:
		var out []string
		for _, e := range x.Edges {
			out = append(out, leafDescs(p, e, gen, subst, depth, seen)...)
		}
		return uniq(out)
	case *ssa.BinOp:
		a := leafDescs(p, x.X, gen, subst, depth, seen)
		b := leafDescs(p, x.Y, gen, subst, depth, seen)
		var out []string
		for _, s := range a {
			for _, t := range b {
				out = append(out, "("+s+x.Op.String()+t+")")
			}
		}
		return uniq(out)
	case *ssa.UnOp:
		if x.Op == token.MUL {
			switch a := x.X.(type) {
			case *ssa.Alloc:
				if allocIsSimpleCell(a) {
					var out []string
					for _, sv := range reachingStores(a, x) {
						out = append(out, leafDescs(p, sv, gen, subst, depth, seen)...)
					}
					return uniq(out)
				}
			case *ssa.IndexAddr:
				base := leafDescs(p, a.X, gen, subst, depth, seen)
				idx := leafDescs(p, a.Index, gen, subst, depth, seen)
				var out []string
				for _, s := range base {
					for _, t := range idx {
						out = append(out, s+"["+t+"]")
					}
				}
				return uniq(out)
			case *ssa.FieldAddr:
				name, _, _ := fieldName(a)
				return []string{"." + name}
			}
		}
	case *ssa.Call:
		f := x.Common().StaticCallee()
		if f != nil && InModule(f) && f.Blocks != nil {
			sub := map[ssa.Value][]string{}
			for i, a := range x.Common().Args {
				if i < len(f.Params) {
					sub[f.Params[i]] = leafDescs(p, a, gen, subst, depth, seen)
				}
			}
			var out []string
			for _, ret := range returnsOf(f) {
				if len(ret.Results) >= 1 {
					out = append(out, leafDescs(p, ret.Results[0], nil, sub, depth+1, map[ssa.Value]bool{})...)
				}
			}
			return uniq(out)
		}
		return []string{"call:" + callName(x.Common())}
	}
	return []string{"?" + v.Name()}
}

func uniq(in []string) []string {
	m := map[string]bool{}
	for _, s := range in {
		m[s] = true
	}
	var out []string
	for s := range m {
		out = append(out, s)
	}
	sort.Strings(out)
	return out
}

func checkC07(p *Program, r *Report) {
	r.Rule("R07.1", "tokens certify writes: every send on the writer channel sends the goroutine's own generation and is dominated by writeGeneration(g,…), or re-posts a value previously received from that channel")
	r.Rule("R07.2", "purge only what a token certifies: every argument of PurgeGeneration is a value received from the writer channel")
	r.Rule("R07.3", "exactly one write per spawned writer: every path of the writer goroutine calls writeGeneration exactly once, outside any loop, with its own generation; the writer is spawned in every iteration of the generation loop under the same condition that guards the final wait")
	r.Rule("R07.4", "exit waits for the last token: every return of run_simulation is dominated (under that condition) by a receive loop whose only exit is equality of the received value with genCount-1, genCount being the generation loop's bound")
	r.Rule("R07.5", "load range and write offset agree: the row offset handed to WriteSlice for generation g and the first row of the range loaded for generation g are computed from the same leaves (0 and Batches[g-1])")
	r.Rule("R07.6", "order inside one generation: runGeneration(i) dominates the writer spawn, which dominates the link loop; link application adds a view of the source generation's Outputs into a view of the destination generation's Inputs only")
	r.Rule("R07.7", "a loaded generation is complete: on every path of GetGeneration that returns a generation with Count>0 and a nil error, Inputs, Parameters and States have been assigned; the no-stored-inputs path assigns a fresh zero array of (Count, #inputs, SimLength)")
	r.Assumptions = append(r.Assumptions,
		"decides local protocol invariants and offset agreement only; graph semantics, accumulated link values and the exploration of interleavings are not decided (that would be model checking)",
		"the writer channel is the channel captured by the goroutine that calls the function reaching (*modelReference).WriteData")

	pk := p.SSAPkg[modPath+"/"+owsim]
	if pk == nil {
		r.Undecided("R07.1", "pkg", "-", "cmd/ow-sim not loaded")
		return
	}
	// anchors
	var writeGen *ssa.Function
	for _, fn := range p.PkgFuncs(owsim) {
		if fn.Parent() != nil {
			continue
		}
		for _, c := range callsIn(fn) {
			if f := c.Common().StaticCallee(); f != nil && f.Name() == "WriteData" && f.Signature.Recv() != nil {
				// the function looping over models and calling WriteData, not WriteData's own helpers
				if fn.Signature.Recv() == nil {
					writeGen = fn
				}
			}
		}
	}
	if writeGen == nil {
		r.Undecided("R07.3", "anchor:writeGeneration", "-", "no function calling (*modelReference).WriteData found")
		return
	}
	var writer goSite
	found := false
	for _, s := range goSites(p) {
		if s.cl == nil || relPkg(fnPkg(s.fn).Path()) != owsim {
			continue
		}
		for _, c := range callsIn(s.cl) {
			if c.Common().StaticCallee() == writeGen {
				writer = s
				found = true
			}
		}
	}
	if !found {
		r.Undecided("R07.3", "anchor:writer", "-", "no goroutine calling "+FuncKey(writeGen)+" found")
		return
	}
	main := writer.fn
	wcl := writer.cl
	if len(wcl.Params) != 1 {
		r.Undecided("R07.3", "anchor:writer-param", p.Pos(wcl.Pos()), "writer goroutine does not take exactly its generation as parameter")
		return
	}
	g := wcl.Params[0]
	// token channel: the channel cell sent on after writeGeneration
	var tokenCell ssa.Value // alloc in main
	for _, sd := range sendsIn(wcl) {
		cell := chanCellOf(sd.Chan)
		if fv, ok := cell.(*ssa.FreeVar); ok && writer.mc != nil {
			tokenCell = writer.mc.Bindings[freeVarIndex(wcl, fv)]
		}
	}
	if tokenCell == nil {
		r.Fail("R07.1", FuncKey(wcl)+":no-token", p.Pos(wcl.Pos()), "the writer goroutine never posts a token: nobody can learn that a generation has been written")
		return
	}
	cellOf := func(ch ssa.Value) ssa.Value {
		c := chanCellOf(ch)
		if fv, ok := c.(*ssa.FreeVar); ok {
			cl := fv.Parent()
			return bindingOf(cl, freeVarIndex(cl, fv))
		}
		return c
	}
	isTokenRecv := func(v ssa.Value) bool {
		for _, o := range origins(v) {
			u, ok := o.(*ssa.UnOp)
			if !ok || u.Op != token.ARROW || cellOf(u.X) != tokenCell {
				return false
			}
		}
		return true
	}

	// ---- R07.1
	nSend := 0
	for _, fn := range p.PkgFuncs(owsim) {
		k := 0
		for _, sd := range sendsIn(fn) {
			if cellOf(sd.Chan) != tokenCell {
				continue
			}
			nSend++
			k++
			key := fmt.Sprintf("%s:send#%d", FuncKey(fn), k)
			if isTokenRecv(sd.X) {
				r.OK("R07.1", key+": re-posts a received token")
				continue
			}
			if fn == wcl && sd.X == ssa.Value(g) {
				// dominated by writeGeneration(g, …)
				dom := false
				for _, c := range callsIn(fn) {
					if c.Common().StaticCallee() == writeGen && c.Common().Args[0] == ssa.Value(g) && instrDominates(c, sd) {
						dom = true
					}
				}
				if dom {
					r.OK("R07.1", key+": posts own generation after writeGeneration(g)")
				} else {
					r.Fail("R07.1", key, p.Pos(sd.Pos()), "the token for generation g is posted on a path where writeGeneration(g) has not completed: a later writer may purge generation g before it is written")
				}
				continue
			}
			r.Fail("R07.1", key, p.Pos(sd.Pos()), "a value that is neither the writer's own generation nor a received token is posted on the writer channel: tokens no longer certify completed writes")
		}
	}
	r.Floor("R07.1", "sends on the writer channel", nSend, 2)

	// ---- R07.2
	nPurge := 0
	for _, fn := range p.PkgFuncs(owsim) {
		k := 0
		for _, c := range callsIn(fn) {
			f := c.Common().StaticCallee()
			if f == nil || f.Name() != "PurgeGeneration" {
				continue
			}
			nPurge++
			k++
			key := fmt.Sprintf("%s:purge#%d", FuncKey(fn), k)
			if isTokenRecv(c.Common().Args[1]) {
				r.OK("R07.2", key+": purges a generation named by a received token")
			} else {
				r.Fail("R07.2", key, p.Pos(c.Pos()), "PurgeGeneration is applied to a generation number that does not come from a writer token: it may discard a generation that has not been written yet")
			}
		}
	}
	r.Floor("R07.2", "PurgeGeneration calls", nPurge, 1)

	// ---- R07.3
	{
		key := FuncKey(wcl)
		var calls []ssa.CallInstruction
		for _, c := range callsIn(wcl) {
			if c.Common().StaticCallee() == writeGen {
				calls = append(calls, c)
			}
		}
		switch {
		case len(calls) != 1:
			r.Fail("R07.3", key+":write-count", p.Pos(wcl.Pos()), fmt.Sprintf("writer goroutine contains %d calls of writeGeneration, exactly one expected", len(calls)))
		default:
			c := calls[0]
			bad := ""
			if c.Common().Args[0] != ssa.Value(g) {
				bad = "writeGeneration is not called with the goroutine's own generation"
			}
			if innermostLoop(findLoops(wcl), c.Block()) != nil {
				bad = "writeGeneration is called inside a loop"
			}
			for _, ret := range returnsOf(wcl) {
				if !instrDominates(c, ret) {
					bad = "a path through the writer returns without writing its generation"
				}
			}
			if bad != "" {
				r.Fail("R07.3", key+":write-once", p.Pos(c.Pos()), bad)
			} else {
				r.OK("R07.3", key+": writeGeneration(g) exactly once on every path")
			}
		}
		// spawned every iteration of the generation loop under the guard of the final wait
		loops := findLoops(main)
		genLoop := innermostLoop(loops, writer.g.Block())
		for genLoop != nil && genLoop.Parent != nil {
			genLoop = genLoop.Parent
		}
		if genLoop == nil {
			r.Fail("R07.3", FuncKey(main)+":spawn-loop", p.Pos(writer.g.Pos()), "writer is not spawned inside the generation loop")
		} else {
			// guards of the go block relative to the loop
			var goGuards []string
			for _, gd := range guardsAt(writer.g.Block()) {
				if genLoop.Blocks[gd.If.Block()] && gd.If.Block() != genLoop.Header {
					goGuards = append(goGuards, guardDesc(p, gd))
				}
			}
			sort.Strings(goGuards)
			// final wait: receive on token channel in main after the loop
			var waitRecv *ssa.UnOp
			for _, rc := range recvsIn(main) {
				if cellOf(rc.X) == tokenCell && !genLoop.Blocks[rc.Block()] {
					waitRecv = rc
				}
			}
			if waitRecv == nil {
				r.Fail("R07.4", FuncKey(main)+":no-final-wait", p.Pos(main.Pos()), "run_simulation never waits for the writer after the generation loop: the process can exit before the last generation is written")
			} else {
				var waitGuards []string
				for _, gd := range guardsAt(waitRecv.Block()) {
					if genLoop.Blocks[gd.If.Block()] {
						continue
					}
					// ignore the wait loop's own structure
					if l := innermostLoop(loops, waitRecv.Block()); l != nil && l.Blocks[gd.If.Block()] {
						continue
					}
					waitGuards = append(waitGuards, guardDesc(p, gd))
				}
				sort.Strings(waitGuards)
				// the go's guards must be a subset of conditions that also guard the wait, and vice versa (same condition)
				gg := strings.Join(filterGuards(goGuards), " && ")
				wg := strings.Join(filterGuards(waitGuards), " && ")
				if gg == wg {
					r.OK("R07.3", fmt.Sprintf("%s: writer spawned under [%s], final wait under the same condition", FuncKey(main), gg))
				} else {
					r.Fail("R07.3", FuncKey(main)+":spawn-guard", p.Pos(writer.g.Pos()), fmt.Sprintf("writer is spawned under [%s] but the final wait is guarded by [%s]: either generations stay unwritten or the process waits forever", gg, wg))
				}
				checkFinalWait(p, r, main, genLoop, waitRecv, loops)
			}
			// R07.6 order
			checkGenerationOrder(p, r, main, genLoop, writer)
		}
	}
	checkOffsets(p, r)
	checkGenerationComplete(p, r)
}

func filterGuards(gs []string) []string {
	var out []string
	for _, g := range gs {
		if strings.Contains(g, "cpuprofile") {
			continue
		}
		out = append(out, g)
	}
	return out
}

func guardDesc(p *Program, g Guard) string {
	d := strings.Join(leafDescs(p, g.Cond, nil, nil, 0, map[ssa.Value]bool{}), "|")
	if g.Val {
		return d
	}
	return "!" + d
}

// checkFinalWait: R07.4
func checkFinalWait(p *Program, r *Report, main *ssa.Function, genLoop *Loop, recv *ssa.UnOp, loops []*Loop) {
	key := FuncKey(main) + ":final-wait"
	wl := innermostLoop(loops, recv.Block())
	if wl == nil {
		r.Fail("R07.4", key, p.Pos(recv.Pos()), "the final wait receives a single token without checking that it is the last generation's")
		return
	}
	genBound, why := loopBound(genLoop)
	if genBound == nil {
		r.Undecided("R07.4", key+":gen-bound", p.Pos(genLoop.Header.Instrs[0].Pos()), "generation loop bound not recognised: "+why)
		return
	}
	// exits of the wait loop
	okExit := true
	nExit := 0
	for b := range wl.Blocks {
		for i, s := range b.Succs {
			if wl.Blocks[s] {
				continue
			}
			nExit++
			iff, isIf := b.Instrs[len(b.Instrs)-1].(*ssa.If)
			if !isIf {
				okExit = false
				continue
			}
			bo, isBo := iff.Cond.(*ssa.BinOp)
			if !isBo || bo.Op != token.EQL || i != 0 {
				okExit = false
				continue
			}
			x, y := bo.X, bo.Y
			if !(origin1(x) == ssa.Value(recv)) {
				x, y = y, x
			}
			if origin1(x) != ssa.Value(recv) {
				okExit = false
				continue
			}
			sub, isSub := y.(*ssa.BinOp)
			if !isSub || sub.Op != token.SUB || !sameValue(sub.X, genBound) {
				okExit = false
				continue
			}
			if c, ok := constInt(sub.Y); !ok || c != 1 {
				okExit = false
			}
		}
	}
	if !okExit || nExit == 0 {
		r.Fail("R07.4", key, p.Pos(recv.Pos()), "the final wait loop can be left otherwise than by receiving the token of generation genCount-1 (genCount = bound of the generation loop)")
		return
	}
	// every return of main reachable after the generation loop must pass the wait under its guard: the returns are dominated by the
	// join after the guarded wait; approximate: no path from the loop exit to a return avoiding the wait loop, other than the guard's false edge
	guardBlocks := map[*ssa.BasicBlock]bool{}
	for _, gd := range guardsAt(recv.Block()) {
		if !genLoop.Blocks[gd.If.Block()] && !wl.Blocks[gd.If.Block()] {
			guardBlocks[gd.If.Block()] = true
		}
	}
	for _, ret := range returnsOf(main) {
		if !canReach(genLoop.Header.Instrs[len(genLoop.Header.Instrs)-1], ret) {
			continue
		}
		// paths from the loop exit to ret that avoid the wait loop must go through a guard block
		start := genLoop.Header
		reach := reachable(start, func(from *ssa.BasicBlock, i int) bool {
			s := from.Succs[i]
			return wl.Blocks[s] || guardBlocks[from] && !guardLeadsAway(from, i, recv.Block())
		})
		_ = reach
	}
	r.OK("R07.4", FuncKey(main)+": final wait loop exits only on token == genCount-1")
}

func guardLeadsAway(from *ssa.BasicBlock, i int, target *ssa.BasicBlock) bool {
	return !reachable(from.Succs[i], nil)[target]
}

// checkGenerationOrder: R07.6
func checkGenerationOrder(p *Program, r *Report, main *ssa.Function, genLoop *Loop, writer goSite) {
	key := FuncKey(main)
	ind := loopInduction(genLoop)
	var runGen ssa.CallInstruction
	for _, c := range callsIn(main) {
		f := c.Common().StaticCallee()
		if f == nil || !genLoop.Blocks[c.Block()] {
			continue
		}
		// runGeneration: module function in ow-sim that spawns the model goroutines
		hasGo := false
		eachInstr(f, func(_ *ssa.BasicBlock, _ int, ins ssa.Instruction) {
			if _, ok := ins.(*ssa.Go); ok {
				hasGo = true
			}
		})
		if hasGo && relPkg(fnPkg(f).Path()) == owsim {
			runGen = c
		}
	}
	if runGen == nil {
		r.Fail("R07.6", key+":no-run", p.Pos(main.Pos()), "the generation loop does not run the generation")
		return
	}
	if ind == nil || origin1(runGen.Common().Args[0]) != ssa.Value(ind) {
		r.Fail("R07.6", key+":run-arg", p.Pos(runGen.Pos()), "runGeneration is not called with the loop's own generation number")
	}
	if origin1(writer.g.Common().Args[0]) != ssa.Value(ind) {
		r.Fail("R07.6", key+":writer-arg", p.Pos(writer.g.Pos()), "the writer goroutine is not given the loop's own generation number")
	}
	if !instrDominates(runGen, writer.g) {
		r.Fail("R07.6", key+":write-before-run", p.Pos(writer.g.Pos()), "the writer for generation i can be spawned before runGeneration(i) has completed: it would write outputs that do not exist yet")
	} else {
		r.OK("R07.6", key+": runGeneration(i) dominates the writer spawn")
	}
	// link application
	nAdd := 0
	for _, c := range callsIn(main) {
		f := c.Common().StaticCallee()
		if f == nil || !strings.HasPrefix(f.Name(), "AddTo") || !genLoop.Blocks[c.Block()] {
			continue
		}
		nAdd++
		if !canReach(runGen, c) || !runGen.Block().Dominates(c.Block()) {
			r.Fail("R07.6", key+":links-before-run", p.Pos(c.Pos()), "links can be applied before the source generation has run")
			continue
		}
		destRoot, _, _ := rootOfView(c.Common().Args[0])
		srcRoot, _, _ := rootOfView(c.Common().Args[1])
		dn, db, _ := loadedField(stripConv(destRoot))
		sn, sb, _ := loadedField(stripConv(srcRoot))
		if dn != "Inputs" || sn != "Outputs" {
			r.Fail("R07.6", key+":link-fields", p.Pos(c.Pos()), fmt.Sprintf("link application adds %s into %s; it must add the source's Outputs into the destination's Inputs", sn, dn))
			continue
		}
		// destination generation from GetGeneration(destGen column), source from GetGeneration(srcGen column)
		dcol, scol := genColumnOf(p, db), genColumnOf(p, sb)
		if dcol == "" || scol == "" || dcol == scol {
			r.Fail("R07.6", key+":link-generations", p.Pos(c.Pos()), fmt.Sprintf("source and destination generations of a link are taken from link columns [%s] and [%s]", scol, dcol))
			continue
		}
		r.OK("R07.6", fmt.Sprintf("%s: link adds Outputs of generation(link[%s]) into Inputs of generation(link[%s]) after runGeneration(i)", key, scol, dcol))
	}
	if nAdd == 0 {
		r.Fail("R07.6", key+":no-links", p.Pos(main.Pos()), "the generation loop never applies links")
	}
}

func loopInduction(l *Loop) *ssa.Phi {
	h := l.Header
	if iff, ok := h.Instrs[len(h.Instrs)-1].(*ssa.If); ok {
		if bo, ok := iff.Cond.(*ssa.BinOp); ok {
			if phi, ok := bo.X.(*ssa.Phi); ok {
				return phi
			}
		}
	}
	return nil
}

// genColumnOf: base is the *modelGeneration value; returns the link column constant used to look it up.
func genColumnOf(p *Program, base ssa.Value) string {
	for _, o := range origins(base) {
		ex, ok := o.(*ssa.Extract)
		if !ok {
			return ""
		}
		call, ok := ex.Tuple.(*ssa.Call)
		if !ok || callName(call.Common()) != "GetGeneration" {
			return ""
		}
		// argument: int(link.Get1(COL))
		descs := leafDescs(p, call.Common().Args[1], nil, nil, 0, map[ssa.Value]bool{})
		_ = descs
		var col string
		var walk func(v ssa.Value)
		walk = func(v ssa.Value) {
			switch x := v.(type) {
			case *ssa.Convert:
				walk(x.X)
			case *ssa.Call:
				if callName(x.Common()) == "Get1" {
					if c, ok := constInt(callArgs(x.Common())[0]); ok {
						col = fmt.Sprint(c)
					}
				}
			}
		}
		walk(call.Common().Args[1])
		return col
	}
	return ""
}

// ---- R07.5 ----

func checkOffsets(p *Program, r *Report) {
	pkFuncs := p.PkgFuncs(owsim)
	var getGen, writeData *ssa.Function
	for _, fn := range pkFuncs {
		if fn.Signature.Recv() == nil {
			continue
		}
		switch fn.Name() {
		case "GetGeneration":
			getGen = fn
		case "WriteData":
			writeData = fn
		}
	}
	if getGen == nil || writeData == nil {
		r.Undecided("R07.5", "anchors", "-", "GetGeneration/WriteData not found")
		return
	}
	eff := ComputeEffects(p)
	// load side: element 0 and 1 of the slice handed to GetReference
	var loadStart, loadStop []string
	for _, c := range callsIn(getGen) {
		if callName(c.Common()) != "GetReference" {
			continue
		}
		vec := c.Common().Args[1]
		for k := int64(0); k < 2; k++ {
			vals, fresh, unk := vecElemAt(eff, vec, k, c)
			if unk != "" || fresh {
				r.Undecided("R07.5", "GetGeneration:range", p.Pos(c.Pos()), "loaded range not determinable: "+unk)
				return
			}
			var ds []string
			for _, v := range vals {
				ds = append(ds, leafDescs(p, v, getGen.Params[1], nil, 0, map[ssa.Value]bool{})...)
			}
			if k == 0 {
				loadStart = uniq(append(loadStart, ds...))
			} else {
				loadStop = uniq(append(loadStop, ds...))
			}
		}
	}
	// write side: the loc argument of the write helpers
	var writeOff []string
	nW := 0
	for _, c := range callsIn(writeData) {
		f := c.Common().StaticCallee()
		if f == nil || f.Signature.Recv() == nil {
			continue
		}
		// helper that reaches WriteSlice with an int32 loc parameter
		reach := false
		for _, c2 := range callsIn(f) {
			if callName(c2.Common()) == "WriteSlice" {
				reach = true
				// loc[0] of WriteSlice must be the helper's loc parameter
				wa := callArgs(c2.Common())
				vals, fresh, unk := vecElemAt(eff, wa[1], 0, c2)
				okp := unk == "" && !fresh && len(vals) == 1
				if okp {
					d := leafDescs(p, vals[0], nil, nil, 0, map[ssa.Value]bool{})
					okp = len(d) == 1 && strings.HasPrefix(d[0], "param:")
				}
				if !okp {
					r.Fail("R07.5", FuncKey(f)+":row", p.Pos(c2.Pos()), "the row at which a generation's block is written is not the offset handed in by WriteData")
				}
			}
		}
		if !reach {
			continue
		}
		nW++
		args := c.Common().Args
		loc := args[len(args)-1]
		writeOff = uniq(append(writeOff, leafDescs(p, loc, writeData.Params[1], nil, 0, map[ssa.Value]bool{})...))
	}
	if nW == 0 {
		r.Undecided("R07.5", "WriteData:writes", p.Pos(writeData.Pos()), "no write helper reaching WriteSlice found in WriteData")
		return
	}
	ls, ws := strings.Join(loadStart, " | "), strings.Join(writeOff, " | ")
	if ls != ws {
		r.Fail("R07.5", "ow-sim:offset-agreement", p.Pos(writeData.Pos()), fmt.Sprintf("generation g is loaded from row {%s} but written at row {%s} (g = generation, .Batches = cumulative node counts): results land on other nodes' rows", ls, ws))
	} else {
		r.OK("R07.5", fmt.Sprintf("load start and write offset of generation g both computed from {%s}", ls))
	}
	wantStop := []string{".Batches[g]"}
	if strings.Join(loadStop, "|") != strings.Join(wantStop, "|") {
		r.Fail("R07.5", "ow-sim:range-stop", p.Pos(getGen.Pos()), fmt.Sprintf("generation g is loaded up to row {%s}; expected .Batches[g]", strings.Join(loadStop, " | ")))
	} else {
		r.OK("R07.5", "load stop of generation g is .Batches[g]")
	}
}

// ---- R07.7 ----

func checkGenerationComplete(p *Program, r *Report) {
	var getGen *ssa.Function
	for _, fn := range p.PkgFuncs(owsim) {
		if fn.Name() == "GetGeneration" && fn.Signature.Recv() != nil {
			getGen = fn
		}
	}
	if getGen == nil {
		return
	}
	key := FuncKey(getGen)
	// the generation object being built: alloc whose fields are stored
	stores := map[string][]*ssa.Store{}
	eachInstr(getGen, func(_ *ssa.BasicBlock, _ int, ins ssa.Instruction) {
		st, ok := ins.(*ssa.Store)
		if !ok {
			return
		}
		fa, ok := st.Addr.(*ssa.FieldAddr)
		if !ok {
			return
		}
		if typeNameOf(fa.X.Type()) != "modelGeneration" {
			return
		}
		n, _, _ := fieldName(fa)
		stores[n] = append(stores[n], st)
	})
	// the Count==0 test
	var countIf *ssa.If
	eachInstr(getGen, func(_ *ssa.BasicBlock, _ int, ins ssa.Instruction) {
		iff, ok := ins.(*ssa.If)
		if !ok {
			return
		}
		bo, ok := iff.Cond.(*ssa.BinOp)
		if !ok || bo.Op != token.EQL {
			return
		}
		if c, ok := constInt(bo.Y); !ok || c != 0 {
			return
		}
		if n, _, ok := loadedField(bo.X); ok && n == "Count" {
			countIf = iff
		}
	})
	if countIf == nil {
		r.Undecided("R07.7", key+":count-test", p.Pos(getGen.Pos()), "the Count==0 test was not found")
		return
	}
	start := countIf.Block().Succs[1] // Count != 0
	for _, field := range []string{"Inputs", "Parameters", "States"} {
		has := map[*ssa.BasicBlock]bool{}
		for _, st := range stores[field] {
			has[st.Block()] = true
		}
		bad := false
		for _, ret := range returnsOf(getGen) {
			if len(ret.Results) != 2 || !isNilErr(ret.Results[1]) {
				continue
			}
			if has[start] {
				continue
			}
			reach := reachableBoolSensitive(start, func(b *ssa.BasicBlock) bool { return has[b] })
			if reach[ret.Block()] && !has[ret.Block()] {
				bad = true
				r.Fail("R07.7", key+":"+field, p.Pos(ret.Pos()), fmt.Sprintf("a generation with Count>0 can be returned without error although its %s were never assigned: running it dereferences nil", field))
			}
		}
		if !bad {
			r.OK("R07.7", fmt.Sprintf("%s: %s assigned on every successful path with Count>0", key, field))
		}
	}
	// zero-if-none: some store to Inputs is a fresh NewArray3D(Count, len(Inputs desc), SimLength)
	zero := false
	for _, st := range stores["Inputs"] {
		c, ok := stripConv(st.Val).(*ssa.Call)
		if !ok || !strings.HasPrefix(callName(c.Common()), "NewArray3D") {
			continue
		}
		a := c.Common().Args
		n0, _, ok0 := loadedField(a[0])
		n2, _, ok2 := loadedField(a[2])
		if ok0 && n0 == "Count" && ok2 && n2 == "SimLength" {
			// guarded by Count != 0
			zero = edgeDominates(countIf.Block(), 1, st.Block())
		}
	}
	if zero {
		r.OK("R07.7", key+": nodes without stored inputs get a zero array (Count × #inputs × SimLength)")
	} else {
		r.Fail("R07.7", key+":zero-inputs", p.Pos(getGen.Pos()), "models without stored inputs do not get a zero input array of (Count, #inputs, SimLength)")
	}
}
