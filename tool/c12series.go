package main

import (
	"fmt"
	"go/token"
	"sort"
	"strings"

	"golang.org/x/tools/go/ssa"
)

// seriesBalSpec: a kernel without a time loop that works on whole series. The budget is stated over the sums of the
// series as the code itself treats them (element for element, no timestep parameter): Σ out + stored' = Σ in + stored.
type seriesBalSpec struct {
	in, out []string
	state   string
	note    string
}

var seriesBalTable = map[string]seriesBalSpec{
	"StorageTrapAll": {in: []string{"inflowMass"}, out: []string{"trappedMass"}, state: "storedMass",
		note: "Σ trapped + stored' = Σ inflowMass + stored (everything that enters, and whatever was carried in, is reported as trapped exactly once)"},
}

// checkSeriesBudgets (R12.7): on every path through a loop-free kernel the sums of the mass series are followed
// symbolically — CopyFrom makes the sum of the destination the sum of the source, a Set of `old element + x` at a
// constant position adds x — and the budget must close identically. Paths taken only for an empty series are skipped.
func checkSeriesBudgets(p *Program, r *Report, byName map[string]*Model) {
	r.Rule("R12.7", "whole-series budget: in a mass kernel that has no time loop (StorageTrapAll), on every path entry → return that is possible for a non-empty series, with Σ of each mass output followed symbolically through whole-series copies (CopyFrom) and single-element updates (Set(i, Get(i) + x) adds x), Σ outputs + returned stored mass − Σ inputs − initial stored mass is the zero polynomial: what is carried in is reported exactly once")
	var names []string
	for n := range seriesBalTable {
		names = append(names, n)
	}
	sort.Strings(names)
	n := 0
	for _, name := range names {
		spec := seriesBalTable[name]
		m := byName[name]
		if m == nil || m.Kernel == nil {
			r.Undecided("R12.7", "anchor:"+name, "-", "model "+name+" or its kernel not found in the catalogue")
			continue
		}
		k := m.Kernel
		key := m.RelPkg + "." + m.Name
		idxOf := func(list []string, s string) int {
			for i, x := range list {
				if x == s {
					return i
				}
			}
			return -1
		}
		nIn, nSt, nPar := len(m.Inputs), len(m.States), len(m.Params)
		si := idxOf(m.States, spec.state)
		if si < 0 || !m.OutputsAsParams || nIn+nSt+nPar+len(m.Outputs) != len(k.Params) {
			r.Undecided("R12.7", key+":spec", m.SpecFile, "state or outputs of the whole-series budget not found in the OW-SPEC block")
			continue
		}
		if len(findLoops(k)) > 0 {
			r.Unsupported("R12.7", key+" now has a loop: the whole-series budget is stated for the loop-free form only")
			continue
		}
		inPrm := map[ssa.Value]int{}
		outPrm := map[ssa.Value]int{}
		for i := range m.Inputs {
			inPrm[k.Params[i]] = i
		}
		for i := range m.Outputs {
			outPrm[k.Params[nIn+nSt+nPar+i]] = i
		}
		massIn := map[int]bool{}
		massOut := map[int]bool{}
		okSpec := true
		for _, s := range spec.in {
			if i := idxOf(m.Inputs, s); i >= 0 {
				massIn[i] = true
			} else {
				okSpec = false
			}
		}
		for _, s := range spec.out {
			if i := idxOf(m.Outputs, s); i >= 0 {
				massOut[i] = true
			} else {
				okSpec = false
			}
		}
		if !okSpec {
			r.Undecided("R12.7", key+":spec", m.SpecFile, "a series named in the whole-series budget is not in the OW-SPEC block")
			continue
		}
		// entry → return paths
		var paths [][]*ssa.BasicBlock
		var cur []*ssa.BasicBlock
		var walk func(b *ssa.BasicBlock)
		walk = func(b *ssa.BasicBlock) {
			if len(paths) > 256 {
				return
			}
			cur = append(cur, b)
			defer func() { cur = cur[:len(cur)-1] }()
			if _, ok := b.Instrs[len(b.Instrs)-1].(*ssa.Return); ok {
				paths = append(paths, append([]*ssa.BasicBlock{}, cur...))
				return
			}
			for _, s := range b.Succs {
				walk(s)
			}
		}
		walk(k.Blocks[0])
		if len(paths) == 0 || len(paths) > 256 {
			r.Unsupported("R12.7", key+": too many paths through the kernel")
			continue
		}
		eff := nil2eff(p)
		for _, path := range paths {
			// a path taken only when a series is empty moves no mass
			empty := false
			for i := 0; i+1 < len(path); i++ {
				c, v, ok := edgeCond(path[i], path[i+1])
				if !ok {
					continue
				}
				bo, isB := c.(*ssa.BinOp)
				if !isB {
					continue
				}
				lenCall := func(x ssa.Value) bool {
					call, ok := origin1(x).(*ssa.Call)
					if !ok {
						return false
					}
					nm := callName(call.Common())
					return strings.HasPrefix(nm, "Len") && recvOf(call.Common()) != nil && isNDType(recvOf(call.Common()).Type())
				}
				cst, isC := constInt(bo.Y)
				if !isC || !lenCall(bo.X) {
					continue
				}
				switch {
				case bo.Op == token.EQL && cst == 0 && v, bo.Op == token.NEQ && cst == 0 && !v,
					bo.Op == token.LSS && cst == 1 && v, bo.Op == token.LEQ && cst == 0 && v,
					bo.Op == token.GTR && cst == 0 && !v, bo.Op == token.GEQ && cst == 1 && !v:
					empty = true
				}
			}
			if empty {
				continue
			}
			n++
			pc := &pathCtx{pos: map[*ssa.BasicBlock]int{}, path: path, stateOf: map[*ssa.Phi]int{}, kernel: k}
			pc.names = map[ssa.Value]string{}
			for i, b := range path {
				pc.pos[b] = i
			}
			for j := 0; j < nSt; j++ {
				pc.names[k.Params[nIn+j]] = fmt.Sprintf("S%d", j)
			}
			sum := map[int]poly{} // Σ of output oi
			unsupported := ""
			for _, b := range path {
				for _, ins := range b.Instrs {
					c, ok := ins.(ssa.CallInstruction)
					if !ok {
						continue
					}
					nm := callName(c.Common())
					rv := recvOf(c.Common())
					var oi int
					isOut := false
					if rv != nil {
						oi, isOut = outPrm[origin1(rv)]
					}
					switch {
					case isOut && nm == "CopyFrom":
						src := origin1(stripConv(callArgs(c.Common())[0]))
						if ii, ok := inPrm[src]; ok {
							sum[oi] = poly{fmt.Sprintf("SUMin%d", ii): 1}
						} else if oj, ok := outPrm[src]; ok {
							sum[oi] = polyAdd(poly{}, sum[oj], 1)
						} else {
							unsupported = "a series is copied from something that is neither an input nor an output"
						}
					case isOut && (nm == "Set" || nm == "Set1"):
						args := callArgs(c.Common())
						// the element written: Get at the same constant position stands for the old element
						pos, okp := constPosition(eff, args[0], c)
						if !okp {
							unsupported = "an element of an output is written at a position that is not a constant"
							break
						}
						for _, c2 := range callsIn(k) {
							g, isCall := c2.(*ssa.Call)
							if !isCall || callName(g.Common()) != "Get" && callName(g.Common()) != "Get1" {
								continue
							}
							if o2, isO := outPrm[origin1(recvOf(g.Common()))]; !isO || o2 != oi {
								continue
							}
							if p2, ok2 := constPosition(eff, callArgs(g.Common())[0], g); ok2 && p2 == pos {
								pc.names[g] = "ELEM"
							}
						}
						v := pc.ex(args[1], 0)
						sum[oi] = polyAdd(polyAdd(sum[oi], v, 1), poly{"ELEM": 1}, -1)
						for g, nm2 := range pc.names {
							if nm2 == "ELEM" {
								delete(pc.names, g)
							}
						}
					case isOut && (nm == "Get" || nm == "Get1" || strings.HasPrefix(nm, "Len") || nm == "Shape" || nm == "NDims"):
					default:
						// any other call handed an output may write it
						for _, a := range c.Common().Args {
							if _, isO := outPrm[origin1(stripConv(a))]; isO && massOut[outPrm[origin1(stripConv(a))]] {
								unsupported = "a mass output is handed to " + nm
							}
						}
						if isOut && massOut[oi] {
							unsupported = "a mass output is changed through " + nm
						}
					}
				}
			}
			if unsupported != "" {
				r.Unsupported("R12.7", key+": "+unsupported+" — the sums of the series are not followed through this form")
				continue
			}
			ret := path[len(path)-1].Instrs[len(path[len(path)-1].Instrs)-1].(*ssa.Return)
			d := poly{}
			for oi := range massOut {
				d = polyAdd(d, sum[oi], 1)
			}
			if si < len(ret.Results) {
				d = polyAdd(d, pc.ex(ret.Results[si], 0), 1)
			}
			for ii := range massIn {
				d = polyAdd(d, poly{fmt.Sprintf("SUMin%d", ii): 1}, -1)
			}
			d = polyAdd(d, poly{fmt.Sprintf("S%d", si): 1}, -1)
			pk := fmt.Sprintf("%s:series-budget:path[%s]", key, pathKey(path))
			if polyIsZero(d) {
				r.OK("R12.7", fmt.Sprintf("%s path[%s]: %s closes identically", key, pathKey(path), spec.note))
			} else {
				show := strings.NewReplacer("SUMin", "Σinput#", "S0", "initial "+spec.state).Replace(showPoly(d))
				r.Fail("R12.7", pk, p.Pos(ret.Pos()), fmt.Sprintf("%s (%s): over a whole run, Σ outputs + final %s − Σ inputs − initial %s is %s, not zero: mass carried in through the state is created or lost (counted twice when it is both reported and kept)", m.Name, spec.note, spec.state, spec.state, show))
			}
		}
	}
	r.Floor("R12.7", "paths through whole-series kernels", n, 1)
}

// constPosition: the constant time position an accessor argument denotes (a one-element index vector holding a
// constant, or a constant int for the 1-D accessors).
func constPosition(eff *Effects, a ssa.Value, at ssa.Instruction) (int64, bool) {
	if isIntVec(a.Type()) {
		o := origin1(a)
		if o == nil {
			return 0, false
		}
		vals, _, unk := vecElemAt(eff, o, 0, at)
		if unk != "" || len(vals) != 1 {
			return 0, false
		}
		a = vals[0]
	}
	return constInt(origin1OrSelf(a))
}
