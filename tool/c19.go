package main

// C19 (narrow): month-length table and leap predicate.

import (
	"fmt"
	"go/ast"
	"go/constant"
	"go/token"
	"go/types"
	"strings"

	"golang.org/x/tools/go/ssa"
)

func init() { register("C19", "other", checkC19) }

func gcd(a, b int64) int64 {
	for b != 0 {
		a, b = b, a%b
	}
	return a
}

// remTest: cond is (y % c) ==/!= 0 → (c, isEq, ok)
func remTest(cond ssa.Value, y ssa.Value) (int64, bool, bool) {
	bo, ok := cond.(*ssa.BinOp)
	if !ok || (bo.Op != token.EQL && bo.Op != token.NEQ) {
		return 0, false, false
	}
	z, ok := constInt(bo.Y)
	if !ok || z != 0 {
		return 0, false, false
	}
	rem, ok := bo.X.(*ssa.BinOp)
	if !ok || rem.X != y {
		return 0, false, false
	}
	c, ok := constInt(rem.Y)
	if !ok || c <= 0 {
		return 0, false, false
	}
	switch rem.Op {
	case token.REM:
		return c, bo.Op == token.EQL, true
	case token.AND:
		// y & (2^k - 1) == 0  ⇔  y ≡ 0 (mod 2^k), also for negative y in two's complement
		if (c+1)&c == 0 {
			return c + 1, bo.Op == token.EQL, true
		}
	}
	return 0, false, false
}

func checkC19(p *Program, r *Report) {
	r.Rule("R19.1", "month-length table: the array indexed by month-1 in the month-length function has the constant elements 31,28,31,30,31,30,31,31,30,31,30,31; the only other value the function returns is the constant 29, on the edge requiring month==2 and the leap predicate; the table is never written")
	r.Rule("R19.2", "leap predicate decided exactly over residues: the predicate branches only on comparisons of y%c with 0; its decision tree is evaluated for every residue class modulo lcm(c…) (a multiple of 400) and equals the Gregorian rule in each class — an abstract interpretation over the congruence domain, nothing is executed")
	r.Assumptions = append(r.Assumptions,
		"narrow claim: day/month/year roll-over order and day-of-year accumulation in the generator are integer arithmetic settled by enumeration, which this family does not do; they are NOT decided")
	pk := p.SSAPkg[modPath+"/models/functions"]
	if pk == nil {
		r.Undecided("R19.1", "pkg", "-", "models/functions not loaded")
		return
	}
	// anchors: the date kernel → the month-length function (returns int, 2 int params, indexes a global array) → leap predicate
	var dim, leap *ssa.Function
	var table *ssa.Global
	for _, fn := range p.PkgFuncs("models/functions") {
		eachInstr(fn, func(_ *ssa.BasicBlock, _ int, ins ssa.Instruction) {
			ia, ok := ins.(*ssa.IndexAddr)
			if !ok {
				return
			}
			if g, ok := ia.X.(*ssa.Global); ok && fn.Signature.Results().Len() == 1 {
				dim = fn
				table = g
			}
		})
	}
	if dim == nil {
		r.Undecided("R19.1", "anchor:month-length", "-", "no function indexing a package-level month table found in models/functions")
		return
	}
	for _, c := range callsIn(dim) {
		if f := c.Common().StaticCallee(); f != nil && InModule(f) && f.Signature.Results().Len() == 1 && len(f.Params) == 1 {
			leap = f
		}
	}
	checkCalendarRoles(p, r, dim, leap)
	// ---- table constants from the declaration
	want := []int64{31, 28, 31, 30, 31, 30, 31, 31, 30, 31, 30, 31}
	pkg := p.ByPath[modPath+"/models/functions"]
	var got []int64
	found := false
	for _, f := range pkg.Syntax {
		ast.Inspect(f, func(n ast.Node) bool {
			vs, ok := n.(*ast.ValueSpec)
			if !ok {
				return true
			}
			for i, nm := range vs.Names {
				if nm.Name != table.Name() || i >= len(vs.Values) {
					continue
				}
				cl, ok := vs.Values[i].(*ast.CompositeLit)
				if !ok {
					continue
				}
				found = true
				for _, e := range cl.Elts {
					tv := pkg.TypesInfo.Types[e]
					if tv.Value == nil {
						got = append(got, -1)
						continue
					}
					v, _ := constant.Int64Val(constant.ToInt(tv.Value))
					got = append(got, v)
				}
			}
			return true
		})
	}
	key := "models/functions." + table.Name()
	if !found {
		r.Undecided("R19.1", key, p.Pos(table.Pos()), "declaration of the month table is not a composite literal")
	} else if fmt.Sprint(got) != fmt.Sprint(want) {
		r.Fail("R19.1", key, p.Pos(table.Pos()), fmt.Sprintf("month-length table is %v, the Gregorian calendar has %v", got, want))
	} else {
		r.OK("R19.1", key+" = [31 28 31 30 31 30 31 31 30 31 30 31]")
	}
	// never written outside the initializer
	written := false
	for _, fn := range p.SrcFuncs() {
		if isInitFunc(fn) && fn.Synthetic != "" {
			continue
		}
		eachInstr(fn, func(_ *ssa.BasicBlock, _ int, ins ssa.Instruction) {
			if st, ok := ins.(*ssa.Store); ok && globalOf(st.Addr) == table {
				written = true
				r.Fail("R19.1", key+":written", p.Pos(st.Pos()), "the month-length table is modified at run time")
			}
		})
	}
	if !written {
		r.OK("R19.1", key+" is never written")
	}
	// ---- month-length function returns
	// the month parameter is the one the table is indexed with; the year parameter the one handed to the leap predicate
	month := dim.Params[0]
	var yearPrm *ssa.Parameter
	eachInstr(dim, func(_ *ssa.BasicBlock, _ int, ins ssa.Instruction) {
		if ia, ok := ins.(*ssa.IndexAddr); ok && ia.X == ssa.Value(table) {
			for _, prm := range dim.Params {
				if dependsOn(ia.Index, func(x ssa.Value) bool { return x == ssa.Value(prm) }, map[ssa.Value]bool{}) {
					month = prm
				}
			}
		}
	})
	for _, c := range callsIn(dim) {
		if c.Common().StaticCallee() == leap && leap != nil && len(c.Common().Args) == 1 {
			if prm, ok := origin1(c.Common().Args[0]).(*ssa.Parameter); ok {
				yearPrm = prm
			}
		}
	}
	okDim := true
	n29, nTab := 0, 0
	for _, ret := range returnsOf(dim) {
		for _, o := range origins(ret.Results[0]) {
			if o == nil {
				okDim = false
				continue
			}
			if c, ok := constInt(o); ok {
				if c != 29 {
					okDim = false
					r.Fail("R19.1", FuncKey(dim)+":constant", p.Pos(ret.Pos()), fmt.Sprintf("the month-length function returns the constant %d", c))
					continue
				}
				n29++
				// guards: month == 2 and leap(year)
				g2, gl := false, false
				for _, g := range guardsAt(ret.Block()) {
					if bo, ok := g.Cond.(*ssa.BinOp); ok && bo.X == ssa.Value(month) {
						if c2, ok := constInt(bo.Y); ok && c2 == 2 && (bo.Op == token.EQL && g.Val || bo.Op == token.NEQ && !g.Val) {
							g2 = true
						}
					}
					if c, ok := g.Cond.(*ssa.Call); ok && g.Val && c.Common().StaticCallee() == leap && leap != nil && yearPrm != nil && yearPrm != month && c.Common().Args[0] == ssa.Value(yearPrm) {
						gl = true
					}
				}
				if !g2 || !gl {
					okDim = false
					r.Fail("R19.1", FuncKey(dim)+":29", p.Pos(ret.Pos()), fmt.Sprintf("29 days are returned on a path that does not require month==2 (%v) and a leap year (%v)", g2, gl))
				}
				continue
			}
			// table lookup at month-1
			u, ok := o.(*ssa.UnOp)
			var ia *ssa.IndexAddr
			if ok && u.Op == token.MUL {
				ia, _ = u.X.(*ssa.IndexAddr)
			}
			good := false
			if ia != nil && ia.X == ssa.Value(table) {
				if bo, ok := ia.Index.(*ssa.BinOp); ok && bo.Op == token.SUB && bo.X == ssa.Value(month) {
					if c1, ok := constInt(bo.Y); ok && c1 == 1 {
						good = true
					}
				}
			}
			if good {
				nTab++
			} else {
				okDim = false
				r.Fail("R19.1", FuncKey(dim)+":lookup", p.Pos(ret.Pos()), "the month-length function returns something other than table[month-1] or 29")
			}
		}
	}
	if n29 == 0 || nTab == 0 {
		okDim = false
		r.Fail("R19.1", FuncKey(dim)+":shape", p.Pos(dim.Pos()), fmt.Sprintf("the month-length function must return table[month-1] and, for leap Februaries, 29 (29-returns: %d, table returns: %d)", n29, nTab))
	}
	// the table path must not be reachable with month==2 && leap: the 29-return dominates … (guaranteed by the guard structure:
	// the true edges of both guards lead only to the 29 return)
	if okDim {
		r.OK("R19.1", FuncKey(dim)+": returns table[month-1], or 29 exactly under month==2 && leap(year)")
	}

	// ---- R19.2
	if leap == nil {
		r.Fail("R19.2", "leap-predicate", p.Pos(dim.Pos()), "the month-length function does not consult a leap-year predicate")
		return
	}
	y := leap.Params[0]
	consts := map[int64]bool{}
	okShape := true
	eachInstr(leap, func(_ *ssa.BasicBlock, _ int, ins ssa.Instruction) {
		if v, ok := ins.(ssa.Value); ok {
			if c, _, ok := remTest(v, y); ok {
				consts[c] = true
			}
		}
	})
	lkey := FuncKey(leap)
	if !okShape || len(consts) == 0 {
		r.Undecided("R19.2", lkey+":shape", p.Pos(leap.Pos()), "the leap predicate branches on something other than y%c == 0 tests; its residue-class evaluation is not possible")
		return
	}
	L := int64(1)
	var cs []string
	for c := range consts {
		L = L / gcd(L, c) * c
		cs = append(cs, fmt.Sprint(c))
	}
	if L%400 != 0 {
		r.Fail("R19.2", lkey+":period", p.Pos(leap.Pos()), fmt.Sprintf("the leap predicate only tests y modulo {%s} (period %d): the Gregorian rule has period 400, so some century years are classified wrongly", strings.Join(cs, ","), L))
		return
	}
	if L > 1000000 {
		r.Undecided("R19.2", lkey+":period", p.Pos(leap.Pos()), "period too large to enumerate residue classes")
		return
	}
	wrong := []int64{}
	for res := int64(0); res < L; res++ {
		b := leap.Blocks[0]
		var prev *ssa.BasicBlock
		steps := 0
		var result *bool
		env := map[ssa.Value]bool{}
		var evalBool func(v ssa.Value, at *ssa.BasicBlock, from *ssa.BasicBlock, depth int) (bool, bool)
		evalBool = func(v ssa.Value, at *ssa.BasicBlock, from *ssa.BasicBlock, depth int) (bool, bool) {
			if depth > 20 {
				return false, false
			}
			if c, isEq, ok := remTest(v, y); ok {
				return (res%c == 0) == isEq, true
			}
			switch x := v.(type) {
			case *ssa.Const:
				if x.Value != nil && (x.Value.String() == "true" || x.Value.String() == "false") {
					return x.Value.String() == "true", true
				}
			case *ssa.UnOp:
				if x.Op == token.NOT {
					r1, ok := evalBool(x.X, at, from, depth+1)
					return !r1, ok
				}
			case *ssa.Phi:
				if v, ok := env[x]; ok {
					return v, true
				}
			}
			return false, false
		}
		enter := func(nb, from *ssa.BasicBlock) {
			// evaluate the phis of nb for the edge taken (simultaneously)
			tmp := map[ssa.Value]bool{}
			for _, ins := range nb.Instrs {
				phi, ok := ins.(*ssa.Phi)
				if !ok {
					break
				}
				for i, pr := range nb.Preds {
					if pr == from {
						if v, ok := evalBool(phi.Edges[i], nb, from, 0); ok {
							tmp[phi] = v
						}
					}
				}
			}
			for k, v := range tmp {
				env[k] = v
			}
		}
	walk:
		for steps < 1000 {
			steps++
			last := b.Instrs[len(b.Instrs)-1]
			switch x := last.(type) {
			case *ssa.If:
				t, ok := evalBool(x.Cond, b, prev, 0)
				if !ok {
					break walk
				}
				prev = b
				if t {
					b = b.Succs[0]
				} else {
					b = b.Succs[1]
				}
				enter(b, prev)
				continue
			case *ssa.Jump:
				prev = b
				b = b.Succs[0]
				enter(b, prev)
				continue
			case *ssa.Return:
				if v, ok := evalBool(x.Results[0], b, prev, 0); ok {
					result = &v
				}
			}
			break
		}
		if result == nil {
			r.Undecided("R19.2", lkey+":eval", p.Pos(leap.Pos()), "the leap predicate's result is not determined by residue tests along its paths")
			return
		}
		greg := (res%4 == 0 && res%100 != 0) || res%400 == 0
		if *result != greg {
			wrong = append(wrong, res)
		}
	}
	if len(wrong) > 0 {
		ex := wrong
		if len(ex) > 6 {
			ex = ex[:6]
		}
		r.Fail("R19.2", lkey+":residues", p.Pos(leap.Pos()), fmt.Sprintf("the leap predicate disagrees with the Gregorian rule for %d of %d residue classes modulo %d, e.g. years ≡ %v", len(wrong), L, L, ex))
	} else {
		r.OK("R19.2", fmt.Sprintf("%s: decision tree over y%%{%s} equals the Gregorian rule in all %d residue classes", lkey, strings.Join(cs, ","), L))
	}
}

// checkCalendarRoles (R19.3): day, month and year are not interchanged where the calendar helpers are called.
// The month-length function fixes the roles of its own parameters (the one that indexes the table is the month,
// the one handed to the leap predicate is the year); the roles of other helpers' parameters follow from how they
// pass them on; in the date kernel the three running variables are told apart by the output each is written to.
func checkCalendarRoles(p *Program, r *Report, dim, leap *ssa.Function) {
	r.Rule("R19.3", "calendar roles: at every call of the month-length function, the leap predicate or a helper built on them, the argument in the month position is (a version of) the variable the kernel reports as the month, the one in the year position the variable reported as the year, the one in the day position the variable reported as the date")
	roles := map[*ssa.Function][]string{}
	if leap != nil && len(leap.Params) == 1 {
		roles[leap] = []string{"year"}
	}
	dr := make([]string, len(dim.Params))
	eachInstr(dim, func(_ *ssa.BasicBlock, _ int, ins ssa.Instruction) {
		if ia, ok := ins.(*ssa.IndexAddr); ok {
			if _, isG := ia.X.(*ssa.Global); isG {
				for i, prm := range dim.Params {
					if dependsOn(ia.Index, func(x ssa.Value) bool { return x == ssa.Value(prm) }, map[ssa.Value]bool{}) {
						dr[i] = "month"
					}
				}
			}
		}
	})
	for _, c := range callsIn(dim) {
		if c.Common().StaticCallee() == leap && leap != nil {
			for i, prm := range dim.Params {
				if origin1(c.Common().Args[0]) == ssa.Value(prm) {
					dr[i] = "year"
				}
			}
		}
	}
	roles[dim] = dr
	// helpers: a parameter passed on (directly, or as the bound of a counting loop whose counter is passed on) at a
	// position of known role takes that role; a parameter only added to the result of month lengths is the day
	fns := p.PkgFuncs("models/functions")
	for changed := true; changed; {
		changed = false
		for _, fn := range fns {
			if roles[fn] != nil && fn == dim || fn == leap || fn.Blocks == nil {
				continue
			}
			cur := roles[fn]
			if cur == nil {
				cur = make([]string, len(fn.Params))
			}
			set := func(i int, role string) {
				if cur[i] == "" {
					cur[i] = role
					changed = true
				}
			}
			uses := false
			for _, c := range callsIn(fn) {
				g := c.Common().StaticCallee()
				gr := roles[g]
				if gr == nil {
					continue
				}
				uses = true
				for j, a := range c.Common().Args {
					if j >= len(gr) || gr[j] == "" {
						continue
					}
					for i, prm := range fn.Params {
						if origin1(a) == ssa.Value(prm) {
							set(i, gr[j])
						}
						// counter of `for x := …; x < prm; x++`
						if phi, ok := origin1(a).(*ssa.Phi); ok {
							for _, l := range findLoops(fn) {
								if l.Header == phi.Block() && loopInduction(l) == phi {
									if iff, ok := l.Header.Instrs[len(l.Header.Instrs)-1].(*ssa.If); ok {
										if bo, ok := iff.Cond.(*ssa.BinOp); ok && origin1(bo.Y) == ssa.Value(prm) {
											set(i, gr[j])
										}
									}
								}
							}
						}
					}
				}
			}
			if uses {
				// an int parameter with no role yet that is added into the returned sum of month lengths: the day
				nNoRole := 0
				for i, prm := range fn.Params {
					if b, ok := prm.Type().Underlying().(*types.Basic); ok && b.Info()&types.IsInteger != 0 && cur[i] == "" {
						nNoRole++
					}
				}
				// only when exactly one integer parameter is left without a role can it be named the day
				if fn.Signature.Results().Len() == 1 && nNoRole == 1 {
					for i, prm := range fn.Params {
						if cur[i] != "" {
							continue
						}
						if b, ok := prm.Type().Underlying().(*types.Basic); !ok || b.Info()&types.IsInteger == 0 {
							continue
						}
						for _, ret := range returnsOf(fn) {
							if dependsOn(ret.Results[0], func(x ssa.Value) bool { return x == ssa.Value(prm) }, map[ssa.Value]bool{}) {
								set(i, "day")
							}
						}
					}
				}
				roles[fn] = cur
			}
		}
	}
	// the date kernel: variables told apart by the output they are written to
	models, _ := p.Registry()
	var m *Model
	for _, x := range models {
		if x.Kernel == nil {
			continue
		}
		for _, c := range callsIn(x.Kernel) {
			if roles[c.Common().StaticCallee()] != nil && relPkg(fnPkg(x.Kernel).Path()) == "models/functions" {
				m = x
			}
		}
	}
	if m == nil {
		r.Undecided("R19.3", "anchor:date-kernel", "-", "no catalogued kernel in models/functions calls the calendar helpers")
		return
	}
	k := m.Kernel
	key := m.RelPkg + "." + k.Name()
	outRole := map[string]string{"date": "day", "day": "day", "month": "month", "year": "year"}
	webs := map[string]map[ssa.Value]bool{}
	fieldRole := map[types.Type]map[int]string{} // date kept in a struct: field → role, by the output the field is written to
	base := len(m.Inputs) + len(m.States) + len(m.Params)
	for _, c := range callsIn(k) {
		nm := callName(c.Common())
		if nm != "Set" && nm != "Set1" {
			continue
		}
		recv := origin1(recvOf(c.Common()))
		for oi, on := range m.Outputs {
			role := outRole[strings.ToLower(on)]
			if role == "" || base+oi >= len(k.Params) || recv != ssa.Value(k.Params[base+oi]) {
				continue
			}
			v := callArgs(c.Common())[1]
			for {
				if cv, ok := v.(*ssa.Convert); ok {
					v = cv.X
					continue
				}
				break
			}
			if T, k, ok := fieldOf(v); ok {
				if fieldRole[T] == nil {
					fieldRole[T] = map[int]string{}
				}
				fieldRole[T][k] = role
			}
			w := phiWeb(v)
			if webs[role] == nil {
				webs[role] = map[ssa.Value]bool{}
			}
			for x := range w {
				webs[role][x] = true
			}
		}
	}
	for _, role := range []string{"day", "month", "year"} {
		if len(webs[role]) == 0 {
			r.Undecided("R19.3", key+":web:"+role, p.Pos(k.Pos()), "the variable reported as the "+role+" was not found (no output named for it is written from an integer variable)")
			return
		}
	}
	webOf := func(v ssa.Value) string {
		for {
			for _, role := range []string{"day", "month", "year"} {
				if webs[role][v] || webs[role][origin1(v)] {
					return role
				}
			}
			if cv, ok := v.(*ssa.Convert); ok {
				v = cv.X
				continue
			}
			return ""
		}
	}
	n := 0
	// where the date lives in a struct, the helpers' own calls are judged by the field they pass
	if len(fieldRole) > 0 {
		for _, fn := range fns {
			if fn.Blocks == nil {
				continue
			}
			ordf := map[string]int{}
			for _, c := range callsIn(fn) {
				g := c.Common().StaticCallee()
				gr := roles[g]
				if gr == nil {
					continue
				}
				ordf[g.Name()]++
				for j, a := range c.Common().Args {
					if j >= len(gr) || gr[j] == "" {
						continue
					}
					v := a
					// a counting loop's counter stands for its bound (for mi := 1; mi < c.month; mi++)
					if phi, ok := origin1(v).(*ssa.Phi); ok {
						for _, l := range findLoops(fn) {
							if l.Header == phi.Block() && loopInduction(l) == phi {
								if iff, ok := l.Header.Instrs[len(l.Header.Instrs)-1].(*ssa.If); ok {
									if bo, ok := iff.Cond.(*ssa.BinOp); ok {
										v = bo.Y
									}
								}
							}
						}
					}
					T, fk, ok := fieldOf(v)
					if !ok || fieldRole[T] == nil {
						continue
					}
					n++
					okey := fmt.Sprintf("%s:%s#%d:%s", FuncKey(fn), g.Name(), ordf[g.Name()], gr[j])
					if got := fieldRole[T][fk]; got == gr[j] {
						r.OK("R19.3", fmt.Sprintf("%s: %s call %d receives the %s field in its %s position", FuncKey(fn), g.Name(), ordf[g.Name()], got, gr[j]))
					} else {
						if got == "" {
							got = "a field that is none of day/month/year"
						} else {
							got = "the " + got
						}
						r.Fail("R19.3", okey, p.Pos(c.Pos()), fmt.Sprintf("%s is called with %s where the %s belongs: the calendar is evaluated for the wrong %s", g.Name(), got, gr[j], gr[j]))
					}
				}
			}
		}
	}
	ord := map[string]int{}
	for _, c := range callsIn(k) {
		g := c.Common().StaticCallee()
		gr := roles[g]
		if gr == nil {
			continue
		}
		ord[g.Name()]++
		for j, a := range c.Common().Args {
			if j >= len(gr) || gr[j] == "" {
				continue
			}
			if T, _, ok := fieldOf(a); ok && fieldRole[T] != nil {
				continue // judged above
			}
			n++
			okey := fmt.Sprintf("%s:%s#%d:%s", key, g.Name(), ord[g.Name()], gr[j])
			got := webOf(a)
			switch {
			case got == gr[j]:
				r.OK("R19.3", fmt.Sprintf("%s: %s call %d receives the %s variable in its %s position", key, g.Name(), ord[g.Name()], got, gr[j]))
			case got == "":
				r.Fail("R19.3", okey, p.Pos(c.Pos()), fmt.Sprintf("%s is called with something that is not the kernel's %s variable in its %s position", g.Name(), gr[j], gr[j]))
			default:
				r.Fail("R19.3", okey, p.Pos(c.Pos()), fmt.Sprintf("%s is called with the %s where the %s belongs: the calendar is evaluated for the wrong %s", g.Name(), got, gr[j], gr[j]))
			}
		}
	}
	r.Floor("R19.3", "calendar arguments with a role", n, 2)
}

// fieldOf: v is (a conversion of) a read of field k of a struct of type T — a Field of a struct value, or a load
// through a FieldAddr.
func fieldOf(v ssa.Value) (types.Type, int, bool) {
	for {
		if cv, ok := v.(*ssa.Convert); ok {
			v = cv.X
			continue
		}
		break
	}
	switch x := v.(type) {
	case *ssa.Field:
		return x.X.Type(), x.Field, true
	case *ssa.UnOp:
		if fa, ok := x.X.(*ssa.FieldAddr); ok && x.Op == token.MUL {
			if pt, ok := fa.X.Type().Underlying().(*types.Pointer); ok {
				return pt.Elem(), fa.Field, true
			}
		}
	}
	return nil, 0, false
}
