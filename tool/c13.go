package main

// C13: reservoir storage — accepted sub-steps and only those are accounted (R13.1), final
// level/area are table values of the final volume (R13.2), spill only above the top of the curve (R13.3).

import (
	"fmt"
	"go/token"
	"strings"

	"golang.org/x/tools/go/ssa"
)

func init() { register("C13", "other", checkC13) }

// phiWeb: all values connected to v through phi operands/users (the SSA versions of one source variable),
// including the non-phi definitions that flow into those phis.
func phiWeb(v ssa.Value) map[ssa.Value]bool {
	web := map[ssa.Value]bool{}
	var walk func(x ssa.Value)
	walk = func(x ssa.Value) {
		if x == nil || web[x] {
			return
		}
		if _, isConst := x.(*ssa.Const); isConst {
			return
		}
		web[x] = true
		if _, isPrm := x.(*ssa.Parameter); isPrm {
			return // a parameter is a source shared by many variables, not a version of one
		}
		if phi, ok := x.(*ssa.Phi); ok {
			for _, e := range phi.Edges {
				walk(e)
			}
		}
		for _, ref := range refs(x) {
			if phi, ok := ref.(*ssa.Phi); ok {
				walk(phi)
			}
		}
	}
	walk(v)
	return web
}

// mulFactors: the multiplicative factors of a product expression.
func mulFactors(v ssa.Value, out *[]ssa.Value) {
	if bo, ok := v.(*ssa.BinOp); ok && bo.Op == token.MUL {
		mulFactors(bo.X, out)
		mulFactors(bo.Y, out)
		return
	}
	*out = append(*out, v)
}

// postDominates: every path from b to a Return passes through a (panics are not exits).
func postDominates(a, b *ssa.BasicBlock) bool {
	if a == b {
		return true
	}
	reach := reachable(b, func(from *ssa.BasicBlock, i int) bool { return from.Succs[i] == a })
	for blk := range reach {
		if blk == a {
			continue
		}
		if len(blk.Instrs) > 0 {
			if _, ok := blk.Instrs[len(blk.Instrs)-1].(*ssa.Return); ok {
				return false
			}
		}
	}
	return true
}

func controlEquivalent(a, b ssa.Instruction, loops []*Loop) bool {
	if innermostLoop(loops, a.Block()) != innermostLoop(loops, b.Block()) {
		return false
	}
	ab, bb := a.Block(), b.Block()
	if ab == bb {
		return true
	}
	if ab.Dominates(bb) && postDominates(bb, ab) {
		return true
	}
	if bb.Dominates(ab) && postDominates(ab, bb) {
		return true
	}
	return false
}

type substepLoop struct {
	loop *Loop
	sub  *ssa.BinOp // T - Δt
	dt   ssa.Value
}

// substepLoops: loops `for T > 0 { … T -= Δt }`.
func substepLoops(fn *ssa.Function) []substepLoop {
	var out []substepLoop
	for _, l := range findLoops(fn) {
		h := l.Header
		iff, ok := h.Instrs[len(h.Instrs)-1].(*ssa.If)
		if !ok {
			continue
		}
		bo, ok := iff.Cond.(*ssa.BinOp)
		if !ok || bo.Op != token.GTR {
			continue
		}
		phi, ok := bo.X.(*ssa.Phi)
		if !ok || phi.Block() != h {
			continue
		}
		if c, ok := bo.Y.(*ssa.Const); !ok || c.Value == nil || c.Value.String() != "0" {
			continue
		}
		for i, e := range phi.Edges {
			if !l.Blocks[h.Preds[i]] {
				continue
			}
			for _, o := range origins(e) {
				if sb, ok := o.(*ssa.BinOp); ok && sb.Op == token.SUB && sb.X == ssa.Value(phi) {
					out = append(out, substepLoop{loop: l, sub: sb, dt: sb.Y})
				}
			}
		}
	}
	return out
}

func checkC13(p *Program, r *Report) {
	r.Rule("R13.1", "accepted sub-steps, and only those, are accounted: with Δt the value subtracted from the remaining-time variable of the sub-step loop, every accumulation acc += (…×Δt) whose accumulator reaches an output or a returned state is control-equivalent with that subtraction (same loop, each dominates/post-dominates the other): once per accepted sub-step, never in the retry loop")
	r.Rule("R13.2", "final level and area are the capped table lookups (levels / areas against volumes) of the very value returned as volume")
	r.Rule("R13.3", "spill only above the top of the curve: every contribution to the outflow accumulator other than the release term is control-dependent on volume > volumes[last]")
	r.Assumptions = append(r.Assumptions,
		"decides the bookkeeping structure of the adaptive sub-stepping; the balance identity itself and the min/max release bounds are value properties and are NOT decided",
		"the sub-step loop is recognised as `for T > 0 { …; T -= Δt }`; versions of one source variable are related through their SSA phi web")
	models, _ := p.Registry()
	var m *Model
	for _, x := range models {
		if x.Name == "Storage" {
			m = x
		}
	}
	if m == nil || m.Kernel == nil {
		r.Undecided("R13.1", "anchor:Storage", "-", "Storage model / kernel not found")
		return
	}
	k := m.Kernel
	key := m.RelPkg + "." + k.Name()
	loops := findLoops(k)
	sls := substepLoops(k)
	if len(sls) == 0 {
		r.Undecided("R13.1", key+":substep-loop", p.Pos(k.Pos()), "no sub-step loop `for T > 0 { … T -= Δt }` found")
		return
	}
	// the bookkeeping of an accepted sub-step may be delegated to an object (`totals.add(avgOutflow, …, subtimestep)`
	// accumulating into its own fields, `totals.report(…)` writing the outputs): the rules below read accumulators
	// as SSA values of the kernel and do not follow such an object
	for _, sl := range sls {
		dtWeb := phiWeb(sl.dt)
		for b := range sl.loop.Blocks {
			for _, ins := range b.Instrs {
				c, ok := ins.(ssa.CallInstruction)
				if !ok || c.Common().IsInvoke() {
					continue
				}
				h := c.Common().StaticCallee()
				if h == nil || !InModule(h) || h.Blocks == nil || h.Signature.Recv() == nil || len(c.Common().Args) == 0 {
					continue
				}
				if a, isAlloc := stripConv(c.Common().Args[0]).(*ssa.Alloc); !isAlloc || a.Parent() != k {
					continue
				}
				takesDt := false
				for _, arg := range c.Common().Args[1:] {
					if dtWeb[arg] {
						takesDt = true
					}
				}
				accumulates := false
				eachInstr(h, func(_ *ssa.BasicBlock, _ int, hi ssa.Instruction) {
					st, ok := hi.(*ssa.Store)
					if !ok {
						return
					}
					fa, ok := st.Addr.(*ssa.FieldAddr)
					if !ok || origin1(fa.X) != ssa.Value(h.Params[0]) {
						return
					}
					if add, ok := st.Val.(*ssa.BinOp); ok && add.Op == token.ADD {
						for _, op := range []ssa.Value{add.X, add.Y} {
							if ld, ok := op.(*ssa.UnOp); ok && ld.Op == token.MUL {
								if f2, ok := ld.X.(*ssa.FieldAddr); ok && f2.Field == fa.Field && origin1(f2.X) == ssa.Value(h.Params[0]) {
									accumulates = true
								}
							}
						}
					}
				})
				if takesDt && accumulates {
					for _, rule := range []string{"R13.1", "R13.3", "R13.4", "R13.5", "R13.7"} {
						r.Unsupported(rule, fmt.Sprintf("%s: the accepted sub-step is booked by %s on a local object (accumulators are fields advanced by a method)", key, h.Name()))
					}
				}
			}
		}
	}
	nAcc := 0
	for _, sl := range sls {
		dtWeb := phiWeb(sl.dt)
		// accumulations: ADD whose one operand is in a phi web that contains the result (acc = acc + term)
		eachInstr(k, func(_ *ssa.BasicBlock, _ int, ins ssa.Instruction) {
			add, ok := ins.(*ssa.BinOp)
			if !ok || add.Op != token.ADD || !sl.loop.Blocks[add.Block()] {
				return
			}
			for _, pair := range [][2]ssa.Value{{add.X, add.Y}, {add.Y, add.X}} {
				acc, term := pair[0], pair[1]
				accWeb := phiWeb(acc)
				if !accWeb[add] {
					continue // not an accumulation into the same variable
				}
				var fs []ssa.Value
				mulFactors(term, &fs)
				hasDt := false
				for _, f := range fs {
					if dtWeb[f] {
						hasDt = true
					}
				}
				if !hasDt {
					continue
				}
				// accumulator must reach an output / state
				if !influences(add) {
					continue
				}
				nAcc++
				name := "acc"
				for v := range accWeb {
					if phi, ok := v.(*ssa.Phi); ok && phi.Comment != "" {
						name = phi.Comment
					}
				}
				okey := fmt.Sprintf("%s:accumulate:%s", key, name)
				if controlEquivalent(add, sl.sub, loops) {
					r.OK("R13.1", fmt.Sprintf("%s: `%s += … × Δt` executes exactly once per accepted sub-step", key, name))
				} else if il := innermostLoop(loops, add.Block()); il != nil && il.Header == sl.loop.Header {
					// conditional contribution within the accepted-step bookkeeping (e.g. spill): its pairing with the
					// volume update is judged by R13.3/R13.4
					r.OK("R13.1", fmt.Sprintf("%s: `%s += … × Δt` is a conditional contribution of the accepted step (paired by R13.3/R13.4)", key, name))
				} else {
					where := "on a different path than the accepted-step bookkeeping"
					if il := innermostLoop(loops, add.Block()); il == nil || il.Header != sl.loop.Header {
						where = "inside the trial/retry loop, i.e. once per rejected trial and never for the accepted one"
					}
					r.Fail("R13.1", okey, p.Pos(add.Pos()), fmt.Sprintf("`%s` accumulates a quantity × sub-step length %s: the reported total does not correspond to the sub-steps that advanced the volume", name, where))
				}
				return
			}
		})
	}
	r.Floor("R13.1", "Δt-weighted accumulators", nAcc, 2)
	checkReportedRates(p, r, k, key, sls)
	r.Rule("R13.4", "balance structure: expanded as symbolic polynomials over SSA values, every term of each reported total's increment (outflow, rainfall volume, evaporation volume) is a term of the accepted-step volume update with the same factor (hence the same units and the same area/sub-step), every other term of the volume update is a direct input × Δt, and spilled water is removed from the volume by the amount added to the outflow")
	for _, sl := range sls {
		checkBalanceTerms(p, r, m, k, key, sl, loops)
	}
	r.Floor("R13.4", "balance obligations", r.PerRule["R13.4"][0], 2)

	// ---- R13.2
	stateIdx := map[string]int{}
	for i, s := range m.States {
		stateIdx[s] = i
	}
	paramOf := func(name string) *ssa.Parameter {
		base := len(m.Inputs) + len(m.States)
		for i, ps := range m.Params {
			if ps.Name == name && base+i < len(k.Params) {
				return k.Params[base+i]
			}
		}
		return nil
	}
	resBase := 0
	if !m.OutputsAsParams {
		resBase = len(m.Outputs)
	}
	vi, okv := -1, false
	for i, sname := range m.States {
		if sname != "level" && sname != "area" && !okv {
			vi, okv = i, true
		}
	}
	for _, pair := range [][2]string{{"level", "levels"}, {"area", "areas"}} {
		si, oks := stateIdx[pair[0]]
		tbl := paramOf(pair[1])
		vols := paramOf("volumes")
		okey := fmt.Sprintf("%s:final-%s", key, pair[0])
		if !okv || !oks || tbl == nil || vols == nil {
			r.Undecided("R13.2", okey, p.Pos(k.Pos()), "spec names volume/"+pair[0]+"/"+pair[1]+"/volumes not found")
			continue
		}
		bad := ""
		nRet := 0
		for _, ret := range returnsOf(k) {
			if resBase+si >= len(ret.Results) {
				continue
			}
			// early configuration-error return: zero values for everything — skip returns whose volume is the zero value/initial
			volOrig := origins(ret.Results[resBase+vi])
			for _, o := range origins(ret.Results[resBase+si]) {
				if o == nil {
					continue
				}
				if c, ok := o.(*ssa.Const); ok && c.Value != nil {
					continue // zero value on the error path
				}
				nRet++
				call, ok := o.(*ssa.Call)
				if !ok {
					bad = "returned " + pair[0] + " is not the result of a table lookup"
					continue
				}
				args := call.Common().Args
				if len(args) < 2 {
					bad = "lookup arity"
					continue
				}
				// the lookup must reach fn.Piecewise against `volumes`
				if !lookupAgainst(p, call, vols) {
					bad = "returned " + pair[0] + " is not interpolated against the volumes table"
				}
				if origin1(args[len(args)-1]) != ssa.Value(tbl) {
					bad = fmt.Sprintf("returned %s is looked up in a different table than `%s`", pair[0], pair[1])
				}
				same := true
				ao := origins(args[len(args)-2])
				if len(ao) != len(volOrig) {
					same = false
				} else {
					for _, x := range ao {
						f := false
						for _, y := range volOrig {
							if x == y {
								f = true
							}
						}
						if !f {
							same = false
						}
					}
				}
				if !same {
					bad = fmt.Sprintf("returned %s is looked up for a different volume than the one returned as final volume", pair[0])
				}
			}
		}
		if bad != "" {
			r.Fail("R13.2", okey, p.Pos(k.Pos()), bad)
		} else if nRet == 0 {
			r.Fail("R13.2", okey, p.Pos(k.Pos()), "final "+pair[0]+" is never computed")
		} else {
			r.OK("R13.2", fmt.Sprintf("%s: final %s = cappedLookup(final volume, %s)", key, pair[0], pair[1]))
		}
	}

	// ---- R13.3
	vols := paramOf("volumes")
	nlva := paramOf("nLVA")
	if vols == nil {
		return
	}
	// an end of the volume curve: volumes.Get(idx) with idx[0] == 0 ("first") or nLVA-1 ("last")
	deref := func(v ssa.Value) ssa.Value {
		for i := 0; i < 4; i++ {
			if vs := resolveCapturedLoad(v); len(vs) == 1 && vs[0] != v {
				v = vs[0]
				continue
			}
			break
		}
		return v
	}
	indexEnd := func(a ssa.Value, at ssa.Instruction, subst map[ssa.Value]ssa.Value) string {
		var idxv ssa.Value = a
		if isIntVec(a.Type()) {
			a = origin1(deref(a))
			if src, ok := fieldSource(a, subst); ok {
				a = origin1(src)
			}
			if a == nil {
				return ""
			}
			if ai, ok := a.(ssa.Instruction); ok && ai.Parent() != at.Parent() {
				// a vector of the enclosing function read inside a closure: judged as the enclosing function left it
				// (any later write to it there makes the element unknown below, since every store is looked at)
				for _, ref := range refsDeep(a) {
					if st, isStore := ref.(*ssa.Store); isStore && st.Parent() != ai.Parent() {
						return ""
					}
				}
				blks := ai.Parent().Blocks
				last := blks[len(blks)-1]
				for _, b := range blks {
					if len(b.Instrs) > 0 {
						if _, isRet := b.Instrs[len(b.Instrs)-1].(*ssa.Return); isRet {
							last = b
						}
					}
				}
				at = last.Instrs[len(last.Instrs)-1]
			}
			vals, _, unk := vecElemAt(nil2eff(p), a, 0, at)
			if unk != "" || len(vals) != 1 {
				return ""
			}
			idxv = vals[0]
		}
		// `curveEnd := nLVA-1` kept in a variable (a cell when a closure captures it)
		if o1 := origin1(deref(idxv)); o1 != nil {
			idxv = o1
		}
		if c, ok := constInt(idxv); ok && c == 0 {
			return "first"
		}
		bo, ok := idxv.(*ssa.BinOp)
		if !ok || bo.Op != token.SUB {
			return ""
		}
		if cst, ok := constInt(bo.Y); !ok || cst != 1 {
			return ""
		}
		if nlva != nil && substOrigin(deref(bo.X), subst) != ssa.Value(nlva) {
			return ""
		}
		return "last"
	}
	var endS func(v ssa.Value, subst map[ssa.Value]ssa.Value, depth int) string
	endS = func(v ssa.Value, subst map[ssa.Value]ssa.Value, depth int) string {
		if depth > 4 {
			return ""
		}
		res := ""
		for _, o := range origins(deref(v)) {
			this := ""
			// a field of a curves object: what was stored there when the object was built
			if src, ok := fieldSource(o, subst); ok {
				this = endS(src, subst, depth+1)
			} else {
				c, ok := o.(*ssa.Call)
				if !ok || callName(c.Common()) != "Get" && callName(c.Common()) != "Get1" {
					return ""
				}
				if substOrigin(deref(recvOf(c.Common())), subst) != ssa.Value(vols) {
					return ""
				}
				this = indexEnd(callArgs(c.Common())[0], c, subst)
			}
			if this == "" || res != "" && res != this {
				return ""
			}
			res = this
		}
		return res
	}
	isTopS := func(v ssa.Value, subst map[ssa.Value]ssa.Value, depth int) bool {
		return endS(v, subst, depth) == "last"
	}
	isTop := func(v ssa.Value) bool { return isTopS(v, map[ssa.Value]ssa.Value{}, 0) }
	for _, sl := range sls {
		// the outflow accumulator: the accumulation whose term is Δt-weighted and control-equivalent (release term)
		eachInstr(k, func(_ *ssa.BasicBlock, _ int, ins ssa.Instruction) {
			add, ok := ins.(*ssa.BinOp)
			if !ok || add.Op != token.ADD || !sl.loop.Blocks[add.Block()] {
				return
			}
			for _, pair := range [][2]ssa.Value{{add.X, add.Y}, {add.Y, add.X}} {
				acc, term := pair[0], pair[1]
				accWeb := phiWeb(acc)
				if !accWeb[add] {
					continue
				}
				name := ""
				for v := range accWeb {
					if phi, ok := v.(*ssa.Phi); ok && phi.Comment != "" {
						name = phi.Comment
					}
				}
				if !strings.Contains(strings.ToLower(name), "outflow") {
					continue
				}
				var fs []ssa.Value
				mulFactors(term, &fs)
				dtWeb := phiWeb(sl.dt)
				isRelease := false
				for _, f := range fs {
					if dtWeb[f] {
						isRelease = true
					}
				}
				if isRelease && controlEquivalent(add, sl.sub, loops) {
					r.OK("R13.3", fmt.Sprintf("%s: release term of `%s` accounted per accepted sub-step", key, name))
					return
				}
				// any other contribution must be under volume > top
				guarded := false
				for _, g := range guardsAt(add.Block()) {
					bo, ok := g.Cond.(*ssa.BinOp)
					if !ok {
						continue
					}
					if bo.Op == token.GTR && g.Val && isTop(bo.Y) && isVolumeVar(bo.X) {
						guarded = true
					}
					if bo.Op == token.LSS && g.Val && isTop(bo.X) && isVolumeVar(bo.Y) {
						guarded = true
					}
					if bo.Op == token.LEQ && !g.Val && isTop(bo.Y) && isVolumeVar(bo.X) {
						guarded = true
					}
				}
				okey := fmt.Sprintf("%s:outflow-contribution", key)
				if guarded {
					r.OK("R13.3", fmt.Sprintf("%s: extra contribution to `%s` only under volume > volumes[nLVA-1]", key, name))
				} else {
					r.Fail("R13.3", okey, p.Pos(add.Pos()), fmt.Sprintf("a contribution to `%s` other than the release term is not conditional on the volume exceeding the top of the volume curve: water is spilled below full supply", name))
				}
				return
			}
		})
	}
	r.Floor("R13.3", "outflow contributions", r.PerRule["R13.3"][0], 1)

	// ---- R13.9
	r.Rule("R13.9", "a table lookup capped outside the volume curve holds the nearer end: in the kernel and its closures, a return of ys.Get(i) for a table parameter ys that is reached only when the looked-up volume is below volumes[0] has i = 0, and one reached only when it is above volumes[nLVA-1] has i = nLVA-1 — below the curve the storage has its smallest area and level and its outlets their smallest capacity, not the values at full supply")
	nCap := 0
	fnsCap := append([]*ssa.Function{k}, k.AnonFuncs...)
	// and the helpers and methods of the model's package the kernel reaches (`curves.cappedPiecewise(vol, ys)`): a
	// parameter that is the same object at every call (the curves object) stands for that object
	substCap := map[*ssa.Function]map[ssa.Value]ssa.Value{k: {}}
	for _, a := range k.AnonFuncs {
		substCap[a] = map[ssa.Value]ssa.Value{}
	}
	for i := 0; i < len(fnsCap) && len(fnsCap) < 64; i++ {
		for _, c := range callsIn(fnsCap[i]) {
			h := c.Common().StaticCallee()
			if h == nil || h.Blocks == nil || fnPkg(h) != fnPkg(k) || h == k || len(h.Params) != len(c.Common().Args) {
				continue
			}
			outer := substCap[fnsCap[i]]
			first := substCap[h] == nil
			if first {
				substCap[h] = map[ssa.Value]ssa.Value{}
				fnsCap = append(fnsCap, h)
			}
			for j, prm := range h.Params {
				a := stripConv(c.Common().Args[j])
				if o := origin1(a); o != nil {
					a = o
				}
				if s2, ok := outer[a]; ok {
					a = s2
				}
				if old, had := substCap[h][prm]; first {
					substCap[h][prm] = a
				} else if had && old != a {
					delete(substCap[h], prm)
				}
			}
		}
	}
	for _, f := range fnsCap {
		for _, ret := range returnsOf(f) {
			if len(ret.Results) != 1 {
				continue
			}
			c, ok := origin1(ret.Results[0]).(*ssa.Call)
			if !ok || callName(c.Common()) != "Get" && callName(c.Common()) != "Get1" {
				continue
			}
			rv, isPrm := origin1(recvOf(c.Common())).(*ssa.Parameter)
			if !isPrm || rv.Parent() != f || !isNDType(rv.Type()) {
				continue
			}
			sub := func() map[ssa.Value]ssa.Value {
				m2 := map[ssa.Value]ssa.Value{}
				for a, b := range substCap[f] {
					m2[a] = b
				}
				return m2
			}
			if _, bound := substCap[f][rv]; bound {
				continue // always the same table: not a lookup helper's table argument
			}
			got := indexEnd(callArgs(c.Common())[0], c, sub())
			want := ""
			for _, g := range guardsAt(ret.Block()) {
				bo, ok := g.Cond.(*ssa.BinOp)
				if !ok {
					continue
				}
				isArg := func(v ssa.Value) bool {
					prm, ok := origin1(v).(*ssa.Parameter)
					_, bound := substCap[f][prm]
					return ok && prm.Parent() == f && !bound
				}
				var other ssa.Value
				below := false
				switch {
				case isArg(bo.X) && (bo.Op == token.LSS && g.Val || bo.Op == token.GEQ && !g.Val):
					other, below = bo.Y, true
				case isArg(bo.Y) && (bo.Op == token.GTR && g.Val || bo.Op == token.LEQ && !g.Val):
					other, below = bo.X, true
				case isArg(bo.X) && (bo.Op == token.GTR && g.Val || bo.Op == token.LEQ && !g.Val):
					other = bo.Y
				case isArg(bo.Y) && (bo.Op == token.LSS && g.Val || bo.Op == token.GEQ && !g.Val):
					other = bo.X
				default:
					continue
				}
				switch e := endS(other, sub(), 0); {
				case below && e == "first":
					want = "first"
				case !below && e == "last":
					want = "last"
				}
			}
			if want == "" {
				continue
			}
			nCap++
			okey := fmt.Sprintf("%s:capped-%s:%s", key, want, rv.Name())
			side := map[string]string{"first": "below the bottom", "last": "above the top"}[want]
			if got == want {
				r.OK("R13.9", fmt.Sprintf("%s: %s of the volume curve the lookup of `%s` holds the %s entry", FuncKey(f), side, rv.Name(), want))
			} else {
				what := "an entry that is not the " + want + " one"
				if got != "" {
					what = "the " + got + " entry"
				}
				r.Fail("R13.9", okey, p.Pos(c.Pos()), fmt.Sprintf("%s of the volume curve the capped lookup of `%s` returns %s instead of the %s one: a storage drawn down below its table gets the area, level or outlet capacity of the other end of the curve", side, rv.Name(), what, want))
			}
		}
	}
	if nCap == 0 {
		// the lookups are capped some other way (the volume clamped into the curve's range before interpolating, …):
		// R13.2 still ties the final level and area to an interpolation against the volumes table
		r.Unsupported("R13.9", "no table lookup of "+key+" is capped by returns guarded on the ends of the volume curve: which entry is held outside the curve is not decided for this form")
	}
	r.Floor("R13.9", "capped ends of table lookups", nCap, 1)
	checkReleaseRuleOnEveryPath(p, r, m, k, key)
	// R13.6: a sub-step never outruns what is left of the timestep
	r.Rule("R13.6", "the sub-step is capped by the time remaining: the Δt subtracted from the remaining-time variable T of the sub-step loop depends on a math.Min(T, ·) evaluated earlier in the same iteration (a call that dominates the subtraction and has T itself as an argument) — a cap by anything else (the whole timestep) lets an accepted sub-step integrate past the end of the timestep while the totals are still divided by its nominal length")
	for i, sl := range sls {
		isMinOfT := func(v ssa.Value) bool {
			c, ok := v.(*ssa.Call)
			if !ok {
				return false
			}
			f := c.Common().StaticCallee()
			if f == nil || fnPkg(f) == nil || fnPkg(f).Path() != "math" || f.Name() != "Min" || !instrDominates(c, sl.sub) || !sl.loop.Blocks[c.Block()] {
				return false
			}
			for _, a := range c.Common().Args {
				if a == sl.sub.X || origin1(a) == sl.sub.X {
					return true // the remaining time of this very iteration (not its initial value, the whole timestep)
				}
			}
			return false
		}
		okey := fmt.Sprintf("%s:substep-cap#%d", key, i+1)
		if dependsOn(sl.dt, isMinOfT, map[ssa.Value]bool{}) {
			r.OK("R13.6", fmt.Sprintf("%s: the sub-step subtracted from the remaining time derives from math.Min(remaining time, ·) of the same iteration", key))
		} else {
			r.Fail("R13.6", okey, p.Pos(sl.sub.Pos()), "the sub-step subtracted from the remaining time is not capped by the remaining time (no math.Min with the remaining-time variable as an argument dominates the subtraction and feeds the sub-step): a sub-step accepted near the end of a timestep integrates inflow, release and net evaporation beyond the timestep, and the reported rates no longer balance the change in volume")
		}
	}
}

// checkReleaseRuleOnEveryPath (R13.5): whatever is written to the outflow series in a timestep derives from the
// release rule — a function that looks up both the minimum-release and the maximum-release curve. A timestep that
// reports an outflow computed without them (a constant on a shortcut path) cannot respect a minimum release above
// zero, nor spill.
func checkReleaseRuleOnEveryPath(p *Program, r *Report, m *Model, k *ssa.Function, key string) {
	r.Rule("R13.5", "the release rule is applied in every timestep: every value written to the outflow series inside the time loop depends on the result of a function that consults both the minimum-release and the maximum-release curve (data dependence through the accumulators) — no path through a timestep reports an outflow computed without them")
	paramByName := func(name string) *ssa.Parameter {
		base := len(m.Inputs) + len(m.States)
		for i, ps := range m.Params {
			if ps.Name == name && base+i < len(k.Params) {
				return k.Params[base+i]
			}
		}
		return nil
	}
	minR, maxR := paramByName("minRelease"), paramByName("maxRelease")
	var outPrm *ssa.Parameter
	for oi, o := range m.Outputs {
		if o == "outflow" {
			if idx := len(m.Inputs) + len(m.States) + len(m.Params) + oi; idx < len(k.Params) {
				outPrm = k.Params[idx]
			}
		}
	}
	if minR == nil || maxR == nil || outPrm == nil {
		r.Undecided("R13.5", key+":anchors", p.Pos(k.Pos()), "minRelease / maxRelease / outflow not found among the kernel's parameters")
		return
	}
	// functions (closures of the kernel, or module functions it calls) that consult a curve, directly or through
	// another such function
	isParam := func(v ssa.Value, prm *ssa.Parameter) bool {
		for _, o := range origins(v) {
			if o == ssa.Value(prm) {
				return true
			}
			if u, ok := o.(*ssa.UnOp); ok {
				for _, rv := range resolveCapturedLoad(u) {
					if origin1(rv) == ssa.Value(prm) {
						return true
					}
				}
			}
		}
		return false
	}
	var closures []*ssa.Function
	eachInstr(k, func(_ *ssa.BasicBlock, _ int, ins ssa.Instruction) {
		if mc, ok := ins.(*ssa.MakeClosure); ok {
			if f, ok := mc.Fn.(*ssa.Function); ok {
				closures = append(closures, f)
			}
		}
	})
	calleeOfCall := func(c ssa.CallInstruction) *ssa.Function {
		if f := c.Common().StaticCallee(); f != nil {
			return f
		}
		if mc := closureValueOfCaptured(c.Common().Value); mc != nil {
			f, _ := mc.Fn.(*ssa.Function)
			return f
		}
		return nil
	}
	consults := map[*ssa.Function][2]bool{}
	for changed := true; changed; {
		changed = false
		for _, f := range closures {
			cur := consults[f]
			for _, c := range callsIn(f) {
				args := append([]ssa.Value{}, c.Common().Args...)
				if c.Common().IsInvoke() {
					args = append(args, c.Common().Value)
				}
				for _, a := range args {
					if isParam(a, minR) {
						cur[0] = true
					}
					if isParam(a, maxR) {
						cur[1] = true
					}
				}
				if g := calleeOfCall(c); g != nil {
					if cg := consults[g]; cg[0] || cg[1] {
						cur[0] = cur[0] || cg[0]
						cur[1] = cur[1] || cg[1]
					}
				}
			}
			if cur != consults[f] {
				consults[f] = cur
				changed = true
			}
		}
	}
	isRelease := func(v ssa.Value) bool {
		c, ok := v.(*ssa.Call)
		if !ok {
			return false
		}
		g := calleeOfCall(c)
		if g == nil {
			return false
		}
		if cg := consults[g]; cg[0] && cg[1] {
			return true
		}
		// a module function or method handed the curves — as arguments, or inside a struct that bundles them
		if g.Blocks == nil || !InModule(g) || c.Common().IsInvoke() {
			return false
		}
		var got [2]bool
		for ai, a := range c.Common().Args {
			if ai >= len(g.Params) {
				break
			}
			if isParam(a, minR) {
				got[0] = true
			}
			if isParam(a, maxR) {
				got[1] = true
			}
			st := structOf(g.Params[ai].Type())
			if st == nil {
				continue
			}
			for fk := 0; fk < st.NumFields(); fk++ {
				for _, fv := range structFieldValues(a, fk, 0) {
					for ci, prm := range []*ssa.Parameter{minR, maxR} {
						if isParam(fv, prm) && usesField(g, ai, fk, 0) {
							got[ci] = true
						}
					}
				}
			}
		}
		return got[0] && got[1]
	}
	// R13.10: the release rule returns a value between the curves on every path
	checkReleaseWithinCurves(p, r, key, closures, func(c ssa.CallInstruction) [2]bool {
		var got [2]bool
		args := append([]ssa.Value{}, c.Common().Args...)
		if c.Common().IsInvoke() {
			args = append(args, c.Common().Value)
		}
		for _, a := range args {
			if isParam(a, minR) {
				got[0] = true
			}
			if isParam(a, maxR) {
				got[1] = true
			}
		}
		if g := calleeOfCall(c); g != nil {
			cg := consults[g]
			got[0] = got[0] || cg[0]
			got[1] = got[1] || cg[1]
		}
		return got
	})
	// R13.8: the demand the release rule is asked about is the timestep's demand
	r.Rule("R13.8", "the release rule is given the demand of the timestep: where an argument of a call of the release rule can be the value read from the demand input, it is that value on every feasible way in (a way guarded by a constant-false switch is not feasible) — a demand adjusted on the way makes the release differ from a demand that lies between the curves")
	{
		var demandPrm *ssa.Parameter
		for ii, nm := range m.Inputs {
			if nm == "demand" && ii < len(k.Params) {
				demandPrm = k.Params[ii]
			}
		}
		isDemandRead := func(v ssa.Value) bool {
			c, ok := v.(*ssa.Call)
			if !ok || demandPrm == nil {
				return false
			}
			nm := callName(c.Common())
			return (nm == "Get" || nm == "Get1") && recvOf(c.Common()) != nil && isParam(recvOf(c.Common()), demandPrm)
		}
		infeasible := func(b *ssa.BasicBlock) bool {
			for _, g := range guardsAt(b) {
				if c, ok := g.Cond.(*ssa.Const); ok && c.Value != nil && (c.Value.String() == "true") != g.Val {
					return true
				}
			}
			return false
		}
		var feasible func(v ssa.Value, seen map[ssa.Value]bool, out *[]ssa.Value)
		feasible = func(v ssa.Value, seen map[ssa.Value]bool, out *[]ssa.Value) {
			if seen[v] {
				return
			}
			seen[v] = true
			if ph, ok := v.(*ssa.Phi); ok {
				for i, e := range ph.Edges {
					if i < len(ph.Block().Preds) && infeasible(ph.Block().Preds[i]) {
						continue
					}
					feasible(e, seen, out)
				}
				return
			}
			if u, ok := v.(*ssa.UnOp); ok && u.Op == token.MUL {
				if vs := resolveCapturedLoad(u); len(vs) > 0 && !(len(vs) == 1 && vs[0] == v) {
					for _, x := range vs {
						feasible(x, seen, out)
					}
					return
				}
				if a, ok := u.X.(*ssa.Alloc); ok {
					for _, ref := range refs(a) {
						if st, ok := ref.(*ssa.Store); ok && st.Addr == ssa.Value(a) && !infeasible(st.Block()) {
							feasible(st.Val, seen, out)
						}
					}
					return
				}
			}
			*out = append(*out, v)
		}
		n8 := 0
		for _, fn := range append([]*ssa.Function{k}, closures...) {
			for _, c := range callsIn(fn) {
				cv, ok := c.(*ssa.Call)
				if !ok || !isRelease(cv) {
					continue
				}
				for ai, a := range c.Common().Args {
					var os []ssa.Value
					feasible(a, map[ssa.Value]bool{}, &os)
					hasRead, other := false, ssa.Value(nil)
					for _, o := range os {
						if isDemandRead(o) {
							hasRead = true
						} else {
							other = o
						}
					}
					if !hasRead {
						continue
					}
					n8++
					okey := fmt.Sprintf("%s:demand-argument#%d.%d", key, n8, ai)
					if other != nil {
						pos := c.Pos()
						if oi, ok := other.(ssa.Instruction); ok && oi.Pos().IsValid() {
							pos = oi.Pos()
						}
						r.Fail("R13.8", okey, p.Pos(pos), "the demand handed to the release rule is, on a feasible path, not the demand input of the timestep but a value computed from it: the release then differs from a demand that lies between the minimum and maximum release curves")
					} else {
						r.OK("R13.8", key+": the release rule is asked about the timestep's own demand on every feasible path")
					}
				}
			}
		}
		r.Analysed["R13.8 demand arguments of the release rule"] = n8
	}
	tl := timeLoops(k)
	n := 0
	for _, c := range callsIn(k) {
		nm := callName(c.Common())
		if nm != "Set" && nm != "Set1" || recvOf(c.Common()) == nil || origin1(recvOf(c.Common())) != ssa.Value(outPrm) {
			continue
		}
		in := false
		for _, l := range tl {
			if l.Blocks[c.Block()] {
				in = true
			}
		}
		if !in {
			continue
		}
		n++
		val := callArgs(c.Common())[1]
		if dependsOn(val, isRelease, map[ssa.Value]bool{}) {
			r.OK("R13.5", fmt.Sprintf("%s: the outflow written at %s derives from the release rule (minimum and maximum release curves)", key, p.Pos(c.Pos())))
		} else {
			r.Fail("R13.5", fmt.Sprintf("%s:outflow-write#%d", key, n), p.Pos(c.Pos()), "the outflow reported on this path through a timestep does not depend on the release rule (neither release curve is consulted for it): the minimum release, and the spill above full supply, are skipped for such a timestep")
		}
	}
	r.Floor("R13.5", "outflow writes in the time loop", n, 1)
}

var effCache = map[*Program]*Effects{}

func nil2eff(p *Program) *Effects {
	if effCache[p] == nil {
		effCache[p] = ComputeEffects(p)
	}
	return effCache[p]
}

func isVolumeVar(v ssa.Value) bool {
	for x := range phiWeb(v) {
		if phi, ok := x.(*ssa.Phi); ok && phi.Comment == "volume" {
			return true
		}
	}
	// a value computed from the volume variable in the same step (volume after the update)
	if bo, ok := v.(*ssa.BinOp); ok {
		return isVolumeVar(bo.X)
	}
	return false
}

// lookupAgainst: the call (possibly of a closure) reaches util/fn.Piecewise with `table` as its x-axis.
func lookupAgainst(p *Program, call *ssa.Call, xs *ssa.Parameter) bool {
	var callee *ssa.Function
	if f := call.Common().StaticCallee(); f != nil {
		callee = f
	} else {
		for _, o := range origins(call.Common().Value) {
			if mc, ok := o.(*ssa.MakeClosure); ok {
				callee, _ = mc.Fn.(*ssa.Function)
			}
		}
	}
	if callee == nil {
		cs := p.Callees(call)
		if len(cs) == 1 {
			callee = cs[0]
		}
	}
	if callee == nil || callee.Blocks == nil {
		return false
	}
	found := false
	for _, c := range callsIn(callee) {
		f := c.Common().StaticCallee()
		if f == nil || f.Name() != "Piecewise" {
			continue
		}
		a := c.Common().Args
		if len(a) != 3 {
			continue
		}
		// x-axis is the captured `volumes`
		for _, o := range origins(a[1]) {
			if u, ok := o.(*ssa.UnOp); ok && u.Op == token.MUL {
				if fv, ok := u.X.(*ssa.FreeVar); ok {
					b := bindingOf(callee, freeVarIndex(callee, fv))
					if al, ok := b.(*ssa.Alloc); ok {
						for _, ref := range refs(al) {
							if st, ok := ref.(*ssa.Store); ok && st.Val == ssa.Value(xs) {
								found = true
							}
						}
					}
				}
			}
			if o == ssa.Value(xs) {
				found = true
			}
			// a field of a struct parameter that was filled with the table where the struct was built (a literal in
			// the kernel, or a constructor function)
			{
				subst := map[ssa.Value]ssa.Value{}
				for i, prm := range callee.Params {
					if i < len(call.Common().Args) {
						subst[prm] = call.Common().Args[i]
					}
				}
				if src, ok := fieldSource(o, subst); ok && substOrigin(src, subst) == ssa.Value(xs) {
					found = true
				}
			}
			// a field of the receiver struct that the caller filled with the table
			if n, base, ok := loadedField(o); ok && len(callee.Params) > 0 && base == ssa.Value(callee.Params[0]) && len(call.Common().Args) > 0 {
				for _, ro := range origins(call.Common().Args[0]) {
					al, ok := ro.(*ssa.Alloc)
					if !ok {
						continue
					}
					for _, ref := range refs(al) {
						f2, ok := ref.(*ssa.FieldAddr)
						if !ok {
							continue
						}
						if n2, _, _ := fieldName(f2); n2 != n {
							continue
						}
						for _, r2 := range refs(f2) {
							if st, ok := r2.(*ssa.Store); ok && st.Addr == ssa.Value(f2) && origin1(st.Val) == ssa.Value(xs) {
								found = true
							}
						}
					}
				}
			}
		}
	}
	return found
}

// ---------- R13.4: symbolic polynomial comparison ----------

type poly map[string]float64

type polyCtx struct {
	ids  map[ssa.Value]int
	vals []ssa.Value
}

func (pc *polyCtx) sym(v ssa.Value) string {
	if pc.ids == nil {
		pc.ids = map[ssa.Value]int{}
	}
	id, ok := pc.ids[v]
	if !ok {
		id = len(pc.vals)
		pc.ids[v] = id
		pc.vals = append(pc.vals, v)
	}
	return fmt.Sprintf("s%03d", id)
}

func monoMul(a, b string) string {
	var parts []string
	if a != "" {
		parts = append(parts, strings.Split(a, "*")...)
	}
	if b != "" {
		parts = append(parts, strings.Split(b, "*")...)
	}
	// cancel x with 1/x
	cnt := map[string]int{}
	for _, p := range parts {
		if strings.HasPrefix(p, "/") {
			cnt[p[1:]]--
		} else {
			cnt[p]++
		}
	}
	var out []string
	for k, n := range cnt {
		for i := 0; i < n; i++ {
			out = append(out, k)
		}
		for i := 0; i < -n; i++ {
			out = append(out, "/"+k)
		}
	}
	sortStrings(out)
	return strings.Join(out, "*")
}

func sortStrings(s []string) {
	for i := 1; i < len(s); i++ {
		for j := i; j > 0 && s[j] < s[j-1]; j-- {
			s[j], s[j-1] = s[j-1], s[j]
		}
	}
}

func polyAdd(a, b poly, sign float64) poly {
	out := poly{}
	for k, v := range a {
		out[k] += v
	}
	for k, v := range b {
		out[k] += sign * v
	}
	return out
}

func polyMul(a, b poly) poly {
	out := poly{}
	for ka, va := range a {
		for kb, vb := range b {
			out[monoMul(ka, kb)] += va * vb
		}
	}
	return out
}

func (pc *polyCtx) expand(v ssa.Value, depth int) poly {
	if depth > 40 {
		return poly{pc.sym(v): 1}
	}
	switch x := v.(type) {
	case *ssa.Const:
		if x.Value != nil {
			f := x.Float64()
			return poly{"": f}
		}
	case *ssa.Convert:
		return pc.expand(x.X, depth+1)
	case *ssa.UnOp:
		if x.Op == token.SUB {
			return polyMul(pc.expand(x.X, depth+1), poly{"": -1})
		}
	case *ssa.BinOp:
		switch x.Op {
		case token.ADD:
			return polyAdd(pc.expand(x.X, depth+1), pc.expand(x.Y, depth+1), 1)
		case token.SUB:
			return polyAdd(pc.expand(x.X, depth+1), pc.expand(x.Y, depth+1), -1)
		case token.MUL:
			return polyMul(pc.expand(x.X, depth+1), pc.expand(x.Y, depth+1))
		case token.QUO:
			if c, ok := x.Y.(*ssa.Const); ok && c.Value != nil && c.Float64() != 0 {
				return polyMul(pc.expand(x.X, depth+1), poly{"": 1 / c.Float64()})
			}
			return polyMul(pc.expand(x.X, depth+1), poly{"/" + pc.sym(x.Y): 1})
		}
	}
	return poly{pc.sym(v): 1}
}

func relClose(a, b float64) bool {
	d := a - b
	if d < 0 {
		d = -d
	}
	m := a
	if m < 0 {
		m = -m
	}
	return d <= 1e-12*(1+m)
}

// checkBalanceTerms: R13.4 on the kernel k with sub-step loop sl.
func checkBalanceTerms(p *Program, r *Report, m *Model, k *ssa.Function, key string, sl substepLoop, loops []*Loop) {
	pc := &polyCtx{}
	type accum struct {
		name string
		add  *ssa.BinOp
		term ssa.Value
		sign float64
	}
	var volUpd *accum
	var reported []accum
	eachInstr(k, func(_ *ssa.BasicBlock, _ int, ins ssa.Instruction) {
		bo, ok := ins.(*ssa.BinOp)
		if !ok || (bo.Op != token.ADD) || !sl.loop.Blocks[bo.Block()] {
			return
		}
		for _, pair := range [][2]ssa.Value{{bo.X, bo.Y}, {bo.Y, bo.X}} {
			acc, term := pair[0], pair[1]
			web := phiWeb(acc)
			if !web[bo] {
				continue
			}
			if !controlEquivalent(bo, sl.sub, loops) {
				return
			}
			name := ""
			for v := range web {
				if phi, ok := v.(*ssa.Phi); ok && phi.Comment != "" {
					name = phi.Comment
				}
			}
			a := accum{name: name, add: bo, term: term, sign: 1}
			if isVolumeVar(acc) {
				if volUpd == nil {
					volUpd = &a
				}
			} else if influences(bo) {
				reported = append(reported, a)
			}
			return
		}
	})
	if volUpd == nil {
		r.Undecided("R13.4", key+":volume-update", p.Pos(k.Pos()), "no accepted-step update `volume = volume + (…)×Δt` found")
		return
	}
	dv := pc.expand(volUpd.term, 0)
	matched := map[string]bool{}
	for _, a := range reported {
		inc := pc.expand(a.term, 0)
		okey := fmt.Sprintf("%s:balance:%s", key, a.name)
		bad := ""
		for mono, c := range inc {
			dc, ok := dv[mono]
			if !ok {
				bad = fmt.Sprintf("its increment contains the term %s which is not a term of the volume update", pc.showMono(p, mono))
				continue
			}
			if !relClose(absf(dc), absf(c)) {
				bad = fmt.Sprintf("its increment has %s with factor %g but the volume update applies factor %g", pc.showMono(p, mono), c, dc)
				continue
			}
			matched[mono] = true
		}
		if bad != "" {
			r.Fail("R13.4", okey, p.Pos(a.add.Pos()), fmt.Sprintf("reported total `%s` does not account for what changed the volume: %s", a.name, bad))
		} else {
			r.OK("R13.4", fmt.Sprintf("%s: every term of `%s += …` is a term of the accepted volume update (same factors, same units)", key, a.name))
		}
	}
	// unreported terms of the volume update must be pure input reads × Δt
	nIn := len(m.Inputs)
	isInputRead := func(v ssa.Value) bool {
		c, ok := v.(*ssa.Call)
		if !ok {
			return false
		}
		n := callName(c.Common())
		if n != "Get" && n != "Get1" {
			return false
		}
		rv := origin1(recvOf(c.Common()))
		for i := 0; i < nIn && i < len(k.Params); i++ {
			if rv == ssa.Value(k.Params[i]) {
				return true
			}
		}
		return false
	}
	dtWeb := phiWeb(sl.dt)
	for mono := range dv {
		if matched[mono] || mono == "" {
			continue
		}
		pure := true
		for _, s := range strings.Split(mono, "*") {
			s = strings.TrimPrefix(s, "/")
			var id int
			fmt.Sscanf(s, "s%d", &id)
			v := pc.vals[id]
			if dtWeb[v] || isInputRead(v) {
				continue
			}
			pure = false
		}
		okey := fmt.Sprintf("%s:balance:unreported:%s", key, pc.showMono(p, mono))
		if pure {
			r.OK("R13.4", fmt.Sprintf("%s: volume-update term %s is a direct input × Δt (needs no report)", key, pc.showMono(p, mono)))
		} else {
			r.Fail("R13.4", okey, p.Pos(volUpd.add.Pos()), fmt.Sprintf("the volume update contains the term %s that no reported total (outflow, rainfall volume, evaporation volume) accounts for", pc.showMono(p, mono)))
		}
	}
	// spill: the extra outflow contribution is taken from the volume in the same block
	eachInstr(k, func(_ *ssa.BasicBlock, _ int, ins ssa.Instruction) {
		bo, ok := ins.(*ssa.BinOp)
		if !ok || bo.Op != token.ADD || !sl.loop.Blocks[bo.Block()] || controlEquivalent(bo, sl.sub, loops) {
			return
		}
		for _, pair := range [][2]ssa.Value{{bo.X, bo.Y}, {bo.Y, bo.X}} {
			acc, term := pair[0], pair[1]
			web := phiWeb(acc)
			if !web[bo] || !influences(bo) || isVolumeVar(acc) {
				continue
			}
			name := ""
			for v := range web {
				if phi, ok := v.(*ssa.Phi); ok && phi.Comment != "" {
					name = phi.Comment
				}
			}
			if !strings.Contains(strings.ToLower(name), "outflow") {
				continue
			}
			taken := false
			for _, i2 := range bo.Block().Instrs {
				if sb, ok := i2.(*ssa.BinOp); ok && sb.Op == token.SUB && sb.Y == term && isVolumeVar(sb.X) && phiWeb(sb.X)[sb] {
					taken = true
				}
			}
			// the spill may be worked out by a scalar helper that returns both the spilled volume and what remains:
			// `spilled, remaining := spillOverTop(volume, …)` with remaining = volume − spilled inside the helper
			if ex, isEx := term.(*ssa.Extract); isEx && !taken {
				if call, isCall := ex.Tuple.(*ssa.Call); isCall {
					if h := call.Common().StaticCallee(); h != nil && InModule(h) && h.Blocks != nil && len(h.Params) == len(call.Common().Args) {
						if rets := returnsOf(h); len(rets) == 1 && ex.Index < len(rets[0].Results) {
							rk := rets[0].Results[ex.Index]
							for j, rj := range rets[0].Results {
								sb, isSub := rj.(*ssa.BinOp)
								if !isSub || sb.Op != token.SUB || !(sb.Y == rk || sameValue(sb.Y, rk)) {
									continue
								}
								prm, isPrm := sb.X.(*ssa.Parameter)
								if !isPrm {
									continue
								}
								fromVolume := false
								for pi, q := range h.Params {
									if q == prm && isVolumeVar(call.Common().Args[pi]) {
										fromVolume = true
									}
								}
								// … and the kernel takes that result as its new volume
								for _, ref := range refs(call) {
									if e2, ok := ref.(*ssa.Extract); ok && e2.Index == j && fromVolume && isVolumeVar(e2) {
										taken = true
									}
								}
							}
						}
					}
				}
			}
			okey := key + ":balance:spill"
			if taken {
				r.OK("R13.4", key+": spilled volume added to the outflow is subtracted from the volume in the same step")
			} else {
				r.Fail("R13.4", okey, p.Pos(bo.Pos()), "water added to the outflow total as spill is not removed from the stored volume (or a different amount is)")
			}
			return
		}
	})
}

func absf(x float64) float64 {
	if x < 0 {
		return -x
	}
	return x
}

func (pc *polyCtx) showMono(p *Program, mono string) string {
	if mono == "" {
		return "1"
	}
	var out []string
	for _, s := range strings.Split(mono, "*") {
		inv := strings.HasPrefix(s, "/")
		s2 := strings.TrimPrefix(s, "/")
		var id int
		fmt.Sscanf(s2, "s%d", &id)
		v := pc.vals[id]
		d := v.Name()
		if phi, ok := v.(*ssa.Phi); ok && phi.Comment != "" {
			d = phi.Comment
		} else if c, ok := v.(*ssa.Call); ok {
			d = describeRecv(recvOf(c.Common())) + "." + callName(c.Common()) + "()"
			if recvOf(c.Common()) == nil {
				d = callName(c.Common()) + "()"
			}
		} else if prm, ok := v.(*ssa.Parameter); ok {
			d = prm.Name()
		}
		if inv {
			d = "1/" + d
		}
		out = append(out, d)
	}
	return strings.Join(out, "·")
}

// usesField: g loads field `field` of its struct parameter prm, or passes that parameter on to a module function
// that does.
func usesField(g *ssa.Function, prm, field, depth int) bool {
	if g == nil || g.Blocks == nil || depth > 4 {
		return false
	}
	found := false
	eachInstr(g, func(_ *ssa.BasicBlock, _ int, ins ssa.Instruction) {
		if found {
			return
		}
		if v, ok := ins.(ssa.Value); ok {
			if pi, fk, ok := fieldLoad(g, v); ok && pi == prm && fk == field {
				found = true
				return
			}
		}
		if c, ok := ins.(ssa.CallInstruction); ok {
			h := c.Common().StaticCallee()
			if h == nil || !InModule(h) {
				return
			}
			for ai, a := range c.Common().Args {
				if paramBase(g, a) == prm && usesField(h, ai, field, depth+1) {
					found = true
				}
			}
		}
	})
	return found
}

// checkReportedRates (R13.7): a total accumulated over the sub-steps of a timestep is reported as a rate by dividing
// it by the length of that timestep — the value the remaining-time variable of the sub-step loop starts from. A
// different divisor (a day's seconds for a model run at another timestep) breaks "change in volume = (in − out) × Δt
// + reported exchange" for every timestep whose length is not that constant.
func checkReportedRates(p *Program, r *Report, k *ssa.Function, key string, sls []substepLoop) {
	r.Rule("R13.7", "reported rates are totals over the timestep's own length: where a value written to an output series is a Δt-weighted accumulator of the sub-step loop divided by D, D is the value the loop's remaining-time variable is initialised with (the timestep length the sub-steps add up to)")
	n := 0
	for _, sl := range sls {
		// the timestep length: entry value of the remaining-time phi
		tphi, _ := sl.sub.X.(*ssa.Phi)
		if tphi == nil {
			continue
		}
		var tinit []ssa.Value
		for i, e := range tphi.Edges {
			if i < len(tphi.Block().Preds) && !sl.loop.Blocks[tphi.Block().Preds[i]] {
				tinit = append(tinit, origins(e)...)
			}
		}
		isStepLength := func(v ssa.Value) bool {
			for _, o := range origins(v) {
				ok := false
				for _, t := range tinit {
					if t != nil && o != nil && (o == t || sameValue(o, t)) {
						ok = true
					}
				}
				if !ok {
					return false
				}
			}
			return len(tinit) > 0
		}
		dtWeb := phiWeb(sl.dt)
		// accumulator webs
		accWebs := []map[ssa.Value]bool{}
		eachInstr(k, func(_ *ssa.BasicBlock, _ int, ins ssa.Instruction) {
			add, ok := ins.(*ssa.BinOp)
			if !ok || add.Op != token.ADD || !sl.loop.Blocks[add.Block()] {
				return
			}
			for _, pair := range [][2]ssa.Value{{add.X, add.Y}, {add.Y, add.X}} {
				w := phiWeb(pair[0])
				if !w[add] {
					continue
				}
				var fs []ssa.Value
				mulFactors(pair[1], &fs)
				for _, f := range fs {
					if dtWeb[f] {
						accWebs = append(accWebs, w)
						return
					}
				}
			}
		})
		isAcc := func(v ssa.Value) bool {
			any := false
			for _, w := range accWebs {
				if w[v] {
					any = true
				}
			}
			for _, o := range origins(v) {
				if _, isC := o.(*ssa.Const); isC || o == nil {
					continue
				}
				hit := false
				for _, w := range accWebs {
					if w[o] {
						hit = true
					}
				}
				if !hit {
					return false
				}
				any = true
			}
			return any
		}
		for _, c := range callsIn(k) {
			nm := callName(c.Common())
			if nm != "Set" && nm != "Set1" {
				continue
			}
			args := callArgs(c.Common())
			if len(args) != 2 || sl.loop.Blocks[c.Block()] {
				continue
			}
			for _, o := range origins(args[1]) {
				q, ok := o.(*ssa.BinOp)
				if !ok || q.Op != token.QUO || !isAcc(q.X) {
					continue
				}
				n++
				okey := fmt.Sprintf("%s:reported-rate#%d", key, n)
				if isStepLength(q.Y) {
					r.OK("R13.7", fmt.Sprintf("%s: an accumulated total is reported per second of the timestep's own length", key))
				} else {
					r.Fail("R13.7", okey, p.Pos(q.Pos()), "a total accumulated over the sub-steps of a timestep is turned into a reported rate by a divisor other than the timestep length the sub-steps add up to: for any other timestep length the change in volume no longer equals (inflow − outflow) × Δt plus the reported rainfall/evaporation exchange")
				}
			}
		}
	}
	r.Floor("R13.7", "accumulated totals reported as rates", n, 2)
}
