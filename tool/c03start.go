package main

import (
	"fmt"
	"strings"

	"golang.org/x/tools/go/ssa"
)

// checkCViewStart (R03.4): a C-backed array's Impl is the raw base pointer of the caller's buffer — it is never
// re-sliced, so the position of a view's first element lives in Start alone. A method that builds a new array header
// over its receiver's Impl (Reshape, a reshaping fast path, a transposing view …) must therefore give it a Start that
// derives from the receiver's Start; a constant (copied from the Go-backed sibling, where Impl is re-sliced and 0 is
// right) anchors the new view at the first element of the buffer instead of at the view's own.
func checkCViewStart(p *Program, r *Report) {
	r.Rule("R03.4", "a header over the same C memory starts where the receiver starts: in every method of a C-backed array type that stores, into one new header, an Impl that is the receiver's Impl and a Start, the Start stored depends on the receiver's Start (Impl is the raw base pointer of the caller's buffer and is never re-sliced, so a constant Start moves the view to the front of the buffer)")
	n := 0
	for _, fn := range p.SrcFuncs() {
		pk := fnPkg(fn)
		if pk == nil || !strings.HasSuffix(pk.Path(), "/data/cdata") || fn.Signature.Recv() == nil || len(fn.Params) == 0 {
			continue
		}
		recv := fn.Params[0]
		root := func(v ssa.Value) ssa.Value {
			for i := 0; i < 6; i++ {
				if fa, ok := v.(*ssa.FieldAddr); ok {
					v = fa.X
					continue
				}
				break
			}
			return v
		}
		fromRecvField := func(v ssa.Value, field string) bool {
			seen := map[ssa.Value]bool{}
			var walk func(v ssa.Value, d int) bool
			walk = func(v ssa.Value, d int) bool {
				if v == nil || seen[v] || d > 12 {
					return false
				}
				seen[v] = true
				if nm, base, ok := loadedField(v); ok && nm == field && root(base) == ssa.Value(recv) {
					return true
				}
				ins, ok := v.(ssa.Instruction)
				if !ok {
					return false
				}
				for _, op := range ins.Operands(nil) {
					if op != nil && *op != nil && walk(*op, d+1) {
						return true
					}
				}
				return false
			}
			return walk(v, 0)
		}
		type hdr struct {
			implFromRecv bool
			starts       []*ssa.Store
		}
		hdrs := map[ssa.Value]*hdr{}
		var order []ssa.Value
		eachInstr(fn, func(_ *ssa.BasicBlock, _ int, ins ssa.Instruction) {
			st, ok := ins.(*ssa.Store)
			if !ok {
				return
			}
			nm, _, ok := fieldName(st.Addr)
			if !ok || (nm != "Impl" && nm != "Start") {
				return
			}
			b := root(st.Addr)
			if b == ssa.Value(recv) {
				return
			}
			if _, isAlloc := b.(*ssa.Alloc); !isAlloc {
				return
			}
			h := hdrs[b]
			if h == nil {
				h = &hdr{}
				hdrs[b] = h
				order = append(order, b)
			}
			if nm == "Impl" && fromRecvField(st.Val, "Impl") {
				h.implFromRecv = true
			}
			if nm == "Start" {
				h.starts = append(h.starts, st)
			}
		})
		for _, b := range order {
			h := hdrs[b]
			if !h.implFromRecv {
				continue
			}
			for si, st := range h.starts {
				n++
				key := fmt.Sprintf("%s:header-start#%d", FuncKey(fn), si)
				if fromRecvField(st.Val, "Start") {
					r.OK("R03.4", key+": the new header over the receiver's memory starts from the receiver's Start")
				} else {
					r.Fail("R03.4", key, p.Pos(st.Pos()), fmt.Sprintf("a new header is given the receiver's Impl (the raw base pointer of the caller's buffer) but its Start is `%s`, which does not derive from the receiver's Start: for a receiver that is a view starting inside the buffer (a row cut with Slice), reads and writes through the new view land at the front of the buffer instead of in the view — the Go-backed sibling re-slices Impl, the C-backed one cannot", st.Val.String()))
				}
			}
		}
	}
	r.Analysed["R03.4 headers built over the receiver's C memory"] = n
	if n == 0 {
		// the headers are built by constructor helpers (or not at all): helpers are not followed by this rule, and a
		// count floor would report a refactoring; say so instead (R01.4 judges constructors at their callers)
		r.Unsupported("R03.4", "no method of a C-backed array type stores Impl and Start of a new header in-line; headers built through constructor helpers are not followed by this rule")
	}
}
