package main

// C10 (narrow): reported components add up to the reported total.

func init() { register("C10", "other", checkC10) }

func checkC10(p *Program, r *Report) {
	r.Assumptions = append(r.Assumptions,
		"narrow claim: only the clause 'reported components add up to the reported total (runoff = quick/surface flow + baseflow)' is decided, as a polynomial identity between the values written to the outputs in the same timestep; finiteness, non-negativity, store bounds and the cumulative water balance are value properties over all parameter vectors and series and are NOT decided")
	checkIdentityTable(p, r, "R10.1", identTableC10, 3, "component identity by normal form: in Simhyd, Surm and Sacramento the value written to the total-runoff output equals, as a polynomial over the SSA values of the same timestep, the sum of the values written to its component outputs (quick/surface flow + baseflow)")
}
