package main

// Effect summaries (bottom-up fixpoint over module functions): for every
// parameter / free variable of slice type or array (ND*) type, may the function
// write the slice's elements / the array's storage?
//
// Derivation of "the same storage": ND-view operations Slice / Reshape /
// MustReshape / ReshapeFast (name table over the data.ND* interfaces and their
// concrete implementations — that these share storage is what R01.2/R02.3 check),
// type assertions, conversions, phis, local cells, closure captures. `Unroll`
// yields a slice that MAY alias the storage.

import (
	"fmt"
	"go/token"
	"go/types"
	"strings"

	"golang.org/x/tools/go/ssa"
)

var viewMethods = map[string]bool{"Slice": true, "Reshape": true, "MustReshape": true, "ReshapeFast": true}

type mutWitness struct {
	site ssa.Instruction
	what string
}

type effSummary struct {
	fn *ssa.Function
	// index: 0..len(Params)-1 params, then free vars
	mut []*mutWitness
}

type Effects struct {
	p    *Program
	sums map[*ssa.Function]*effSummary
}

func isNDType(t types.Type) bool {
	// interface from package data named ND*, or pointer to struct embedding NdArray*Common / named nd*
	if n := namedOf(t); n != nil {
		name := n.Obj().Name()
		if n.Obj().Pkg() != nil && strings.HasSuffix(n.Obj().Pkg().Path(), "openwater-core/data") || n.Obj().Pkg() != nil && strings.HasSuffix(n.Obj().Pkg().Path(), "openwater-core/data/cdata") {
			if strings.HasPrefix(name, "ND") || strings.HasPrefix(name, "nd") {
				return true
			}
		}
		if n.Obj().Pkg() != nil && strings.HasSuffix(n.Obj().Pkg().Path(), "openwater-core/sim") && name == "Series" {
			return true
		}
	}
	return false
}

func isSliceType(t types.Type) bool {
	_, ok := t.Underlying().(*types.Slice)
	return ok
}

func trackable(t types.Type) bool {
	if isNDType(t) || isSliceType(t) {
		return true
	}
	// cell holding one of those
	if p, ok := t.Underlying().(*types.Pointer); ok {
		return isNDType(p.Elem()) || isSliceType(p.Elem()) || isNDType(t)
	}
	return false
}

func (e *Effects) slots(fn *ssa.Function) []ssa.Value {
	var out []ssa.Value
	for _, p := range fn.Params {
		out = append(out, p)
	}
	for _, f := range fn.FreeVars {
		out = append(out, f)
	}
	return out
}

// ComputeEffects runs the fixpoint.
func ComputeEffects(p *Program) *Effects {
	e := &Effects{p: p, sums: map[*ssa.Function]*effSummary{}}
	var fns []*ssa.Function
	for fn := range p.AllFuncs {
		if fn.Blocks != nil && InModule(fn) {
			fns = append(fns, fn)
		}
	}
	sortFuncs(fns)
	for _, fn := range fns {
		e.sums[fn] = &effSummary{fn: fn, mut: make([]*mutWitness, len(fn.Params)+len(fn.FreeVars))}
	}
	for iter := 0; iter < 50; iter++ {
		changed := false
		for _, fn := range fns {
			if e.analyse(fn) {
				changed = true
			}
		}
		if !changed {
			break
		}
	}
	return e
}

// stdlib packages whose functions never write through slice/array arguments we pass.
var pureStd = map[string]bool{"fmt": true, "math": true, "errors": true, "strconv": true, "strings": true, "reflect": true, "os": true, "time": true, "log": true, "encoding/json": true, "unsafe": true}

// derivedSet computes, for slot value root, the set of values in fn that may denote the same storage.
type derivation struct {
	vals   map[ssa.Value]bool // values that are (views of) the object / the slice itself
	cells  map[ssa.Value]bool // addresses of cells holding such a value
	unroll map[ssa.Value]bool // slices possibly aliasing the array storage (Unroll results, Impl loads)
}

func newDerivation() *derivation {
	return &derivation{vals: map[ssa.Value]bool{}, cells: map[ssa.Value]bool{}, unroll: map[ssa.Value]bool{}}
}

// propagate closes d under the derivation rules within fn.
func (d *derivation) propagate(fn *ssa.Function) {
	for changed := true; changed; {
		changed = false
		add := func(m map[ssa.Value]bool, v ssa.Value) {
			if v != nil && !m[v] {
				m[v] = true
				changed = true
			}
		}
		eachInstr(fn, func(_ *ssa.BasicBlock, _ int, ins ssa.Instruction) {
			switch x := ins.(type) {
			case *ssa.Store:
				if d.vals[x.Val] {
					if _, ok := x.Addr.(*ssa.Alloc); ok {
						add(d.cells, x.Addr)
					}
				}
				if d.unroll[x.Val] {
					if _, ok := x.Addr.(*ssa.Alloc); ok {
						add(d.cells, x.Addr) // cell of unrolled slice: loads handled below via unrollCells
						d.unrollCell(x.Addr)
					}
				}
			case *ssa.UnOp:
				if x.Op == token.MUL {
					if d.cells[x.X] {
						if d.isUnrollCell(x.X) {
							add(d.unroll, x)
						} else {
							add(d.vals, x)
						}
					}
					// load of Impl field of a derived concrete array
					if fa, ok := x.X.(*ssa.FieldAddr); ok && d.vals[fa.X] {
						if name, _, _ := fieldName(fa); name == "Impl" {
							add(d.unroll, x)
						}
					}
				}
			case *ssa.Phi:
				for _, ed := range x.Edges {
					if d.vals[ed] {
						add(d.vals, x)
					}
					if d.unroll[ed] {
						add(d.unroll, x)
					}
				}
			case *ssa.ChangeInterface:
				if d.vals[x.X] {
					add(d.vals, x)
				}
			case *ssa.MakeInterface:
				if d.vals[x.X] {
					add(d.vals, x)
				}
			case *ssa.ChangeType:
				if d.vals[x.X] {
					add(d.vals, x)
				}
				if d.unroll[x.X] {
					add(d.unroll, x)
				}
			case *ssa.TypeAssert:
				if d.vals[x.X] {
					add(d.vals, x)
				}
			case *ssa.Extract:
				if d.vals[x.Tuple] && x.Index == 0 {
					add(d.vals, x)
				}
			case *ssa.Slice:
				if d.vals[x.X] && isSliceType(x.Type()) {
					add(d.vals, x)
				}
				if d.unroll[x.X] {
					add(d.unroll, x)
				}
			case *ssa.FieldAddr:
				// &result.NdArrayTypeCommon of a derived struct pointer is still the object
				if d.vals[x.X] {
					if name, _, _ := fieldName(x); strings.HasSuffix(name, "Common") {
						add(d.vals, x)
					}
				}
			case *ssa.Call:
				c := x.Common()
				name := callName(c)
				recv := recvOf(c)
				if recv != nil && d.vals[recv] && isNDType(recv.Type()) {
					if viewMethods[name] {
						add(d.vals, x)
					}
					if name == "Unroll" {
						add(d.unroll, x)
					}
					if name == "Shape" {
						// Shape() hands out the array's own Dims vector: writing it re-shapes the shared array
						add(d.unroll, x)
					}
				}
			}
		})
	}
}

func (d *derivation) unrollCell(a ssa.Value) { d.unroll[cellMark{a}] = true }
func (d *derivation) isUnrollCell(a ssa.Value) bool {
	return d.unroll[cellMark{a}]
}

// cellMark is a marker key (never a real SSA value in the program).
type cellMark struct{ ssa.Value }

// analyse recomputes fn's summary; returns true if it changed.
func (e *Effects) analyse(fn *ssa.Function) bool {
	sum := e.sums[fn]
	changed := false
	slots := e.slots(fn)
	for k, slot := range slots {
		if sum.mut[k] != nil {
			continue
		}
		if !trackable(slot.Type()) {
			continue
		}
		d := newDerivation()
		if _, isFree := slot.(*ssa.FreeVar); isFree {
			// free variables are cells (pointers to the captured variable)
			if pt, ok := slot.Type().Underlying().(*types.Pointer); ok && (types.IsInterface(pt.Elem()) && isNDType(pt.Elem()) || isSliceType(pt.Elem())) {
				d.cells[slot] = true
			} else {
				d.vals[slot] = true
			}
		} else {
			d.vals[slot] = true
		}
		d.propagate(fn)
		if w := e.findMutation(fn, d); w != nil {
			sum.mut[k] = w
			changed = true
		}
	}
	return changed
}

// calleesOpen: static callee, or CHA callees for interface calls (open world), module functions only.
func (e *Effects) calleesOpen(site ssa.CallInstruction) (mod []*ssa.Function, external []*ssa.Function) {
	var cs []*ssa.Function
	if f := site.Common().StaticCallee(); f != nil {
		cs = []*ssa.Function{f}
	} else if site.Common().IsInvoke() {
		cs = e.p.CalleesCHA(site)
	} else {
		cs = e.p.Callees(site)
	}
	for _, c := range cs {
		if c.Blocks != nil && InModule(c) {
			mod = append(mod, c)
		} else {
			external = append(external, c)
		}
	}
	return
}

// findMutation looks for an instruction in fn that may write the storage denoted by d.
func (e *Effects) findMutation(fn *ssa.Function, d *derivation) *mutWitness {
	var w *mutWitness
	set := func(site ssa.Instruction, what string) {
		if w == nil {
			w = &mutWitness{site: site, what: what}
		}
	}
	isElemBase := func(v ssa.Value) bool {
		// a slice value of the tracked slice, or an alias of the array storage
		if d.unroll[v] {
			return true
		}
		if d.vals[v] && (isSliceType(v.Type())) {
			return true
		}
		return false
	}
	eachInstr(fn, func(_ *ssa.BasicBlock, _ int, ins ssa.Instruction) {
		if w != nil {
			return
		}
		switch x := ins.(type) {
		case *ssa.Store:
			if ia, ok := x.Addr.(*ssa.IndexAddr); ok && isElemBase(ia.X) {
				set(ins, "element store")
			}
			// a store into a field of the tracked object itself (stride/shape metadata, a scratch field), directly or
			// into an element of an array- or slice-valued field
			if fieldOfTracked(d, x.Addr, 0) {
				set(ins, "store into a field of the array object")
			}
		case *ssa.MakeClosure:
			cl, _ := x.Fn.(*ssa.Function)
			if cl == nil {
				return
			}
			cs := e.sums[cl]
			for j, b := range x.Bindings {
				if d.cells[b] || d.vals[b] || d.unroll[b] {
					if cs == nil {
						set(ins, "captured by unknown closure")
					} else if mw := cs.mut[len(cl.Params)+j]; mw != nil {
						set(ins, fmt.Sprintf("captured by %s which may write it (%s)", FuncKey(cl), mw.what))
					}
				}
			}
		case ssa.CallInstruction:
			c := x.Common()
			if b, ok := c.Value.(*ssa.Builtin); ok {
				switch b.Name() {
				case "copy":
					if len(c.Args) > 0 && isElemBase(c.Args[0]) {
						set(ins, "copy destination")
					}
				case "append":
					if len(c.Args) > 0 && isElemBase(c.Args[0]) {
						set(ins, "append (may write the backing array)")
					}
				}
				return
			}
			// which argument positions (callee param index incl. receiver) carry the object?
			var pos []int
			var args []ssa.Value
			if c.IsInvoke() {
				args = append([]ssa.Value{c.Value}, c.Args...)
			} else {
				args = c.Args
			}
			for i, a := range args {
				if d.vals[a] || d.unroll[a] {
					pos = append(pos, i)
				}
			}
			if len(pos) == 0 {
				return
			}
			mod, ext := e.calleesOpen(x)
			for _, cal := range mod {
				cs := e.sums[cal]
				if cs == nil {
					continue
				}
				for _, i := range pos {
					if i < len(cal.Params) && cs.mut[i] != nil {
						set(ins, fmt.Sprintf("passed to %s which may write it (%s)", FuncKey(cal), cs.mut[i].what))
					}
				}
			}
			for _, cal := range ext {
				pk := fnPkg(cal)
				if pk != nil && (pureStd[pk.Path()] || pk.Path() == hdf5Path) {
					continue
				}
				name := "<unknown>"
				if pk != nil {
					name = pk.Path() + "." + cal.Name()
				}
				set(ins, "passed to external function "+name+" (assumed to write)")
			}
			if len(mod) == 0 && len(ext) == 0 && !c.IsInvoke() {
				// dynamic call of a function value with unknown target
				set(ins, "passed to an unresolved function value")
			}
		}
	})
	return w
}

// fieldOfTracked: addr lies inside the tracked object: &obj.f, &obj.f[i], &(obj.f[:])[i], &obj.Common.f …
func fieldOfTracked(d *derivation, addr ssa.Value, depth int) bool {
	if depth > 6 {
		return false
	}
	switch a := addr.(type) {
	case *ssa.FieldAddr:
		if d.vals[a.X] {
			if _, isPtr := a.X.Type().Underlying().(*types.Pointer); isPtr {
				return true
			}
		}
		return fieldOfTracked(d, a.X, depth+1)
	case *ssa.IndexAddr:
		// element of an array field (address) or of a slice made from one
		switch b := a.X.(type) {
		case *ssa.FieldAddr:
			return fieldOfTracked(d, b, depth+1)
		case *ssa.Slice:
			return fieldOfTracked(d, b.X, depth+1)
		}
	}
	return false
}

// Mutates reports whether fn may write through parameter index k (receiver = 0 for methods).
func (e *Effects) Mutates(fn *ssa.Function, k int) *mutWitness {
	s := e.sums[fn]
	if s == nil || k >= len(s.mut) {
		return nil
	}
	return s.mut[k]
}

// MutatesFree: free variable j.
func (e *Effects) MutatesFree(fn *ssa.Function, j int) *mutWitness {
	s := e.sums[fn]
	if s == nil {
		return nil
	}
	return s.mut[len(fn.Params)+j]
}
