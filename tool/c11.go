package main

// C11 (narrow): Muskingum applies weights that sum to one to all water entering the reach.

import (
	"fmt"
	"strings"

	"golang.org/x/tools/go/ssa"
)

func init() { register("C11", "other", checkC11) }

// clearDenominator: every monomial of p carries exactly the same single inverse symbol "/sNNN"; returns the
// numerator polynomial and that symbol's id, or ok=false.
func clearDenominator(p poly) (poly, string, bool) {
	den := ""
	out := poly{}
	for mono, c := range p {
		if c == 0 {
			continue
		}
		var keep []string
		d := ""
		for _, s := range strings.Split(mono, "*") {
			if strings.HasPrefix(s, "/") {
				if d != "" {
					return nil, "", false
				}
				d = s[1:]
			} else if s != "" {
				keep = append(keep, s)
			}
		}
		if d == "" {
			return nil, "", false
		}
		if den == "" {
			den = d
		} else if den != d {
			return nil, "", false
		}
		sortStrings(keep)
		out[strings.Join(keep, "*")] += c
	}
	return out, den, den != ""
}

func substitute(p poly, m map[string]string) poly {
	out := poly{}
	for mono, c := range p {
		parts := []string{}
		zero := false
		if mono != "" {
			for _, s := range strings.Split(mono, "*") {
				inv := strings.HasPrefix(s, "/")
				k := strings.TrimPrefix(s, "/")
				if r, ok := m[k]; ok {
					if r == "0" {
						zero = true
						break
					}
					k = r
				}
				if inv {
					parts = append(parts, "/"+k)
				} else {
					parts = append(parts, k)
				}
			}
		}
		if zero {
			continue
		}
		out[monoMul(strings.Join(parts, "*"), "")] += c
	}
	return out
}

func checkC11(p *Program, r *Report) {
	r.Rule("R11.1", "a steady flow passes unchanged: in the Muskingum kernel the value written to the outflow, expanded to a polynomial, with current inflow, previous inflow and previous outflow all set to the same symbol Q and the lateral to 0, is identically Q after clearing the common denominator (the three weights sum to one)")
	r.Rule("R11.2", "all water entering the reach is weighted: the quantity carried as 'previous inflow' into the next step is the same polynomial (upstream + lateral) that the first weight multiplies in the current step")
	r.Assumptions = append(r.Assumptions,
		"narrow claim: only the Muskingum weight clauses are decided (by polynomial normal form, nothing executed); StorageRouting's per-step water balance, S–Q relation and non-negativity, and Lag's delay identity for arbitrary lags (including the lag > series-length branch) are value/index-arithmetic properties and are NOT decided")
	models, _ := p.Registry()
	var m *Model
	for _, x := range models {
		if x.Name == "Muskingum" {
			m = x
		}
	}
	if m == nil || m.Kernel == nil {
		r.Undecided("R11.1", "anchor:Muskingum", "-", "Muskingum model / kernel not found")
		return
	}
	k := m.Kernel
	key := m.RelPkg + "." + k.Name()
	loops := timeLoops(k)
	if len(loops) != 1 {
		r.Undecided("R11.1", key+":loop", p.Pos(k.Pos()), "expected exactly one time loop")
		return
	}
	l := loops[0]
	ind := loopInduction(l)
	eff := nil2eff(p)
	cc := &canonCtx{names: map[ssa.Value]string{}}
	nIn, nSt := len(m.Inputs), len(m.States)
	for i, ps := range m.Params {
		if idx := nIn + nSt + i; idx < len(k.Params) && len(ps.Dims) == 0 {
			cc.names[k.Params[idx]] = fmt.Sprintf("p%d", i)
		}
	}
	atIdx := func(call ssa.CallInstruction) bool {
		a := callArgs(call.Common())[0]
		if isIntVec(a.Type()) {
			vals, _, unk := vecElemAt(eff, origin1(a), 0, call)
			return unk == "" && len(vals) == 1 && origin1(vals[0]) == ssa.Value(ind)
		}
		return origin1(a) == ssa.Value(ind)
	}
	for _, c := range callsIn(k) {
		cv, ok := c.(*ssa.Call)
		if !ok {
			continue
		}
		nm := callName(c.Common())
		if nm != "Get" && nm != "Get1" {
			// the series may be bundled in a struct and read through a method: `inflow, lateral := series.read(i)`
			if ops, ok := bundledOps(c); ok {
				for _, op := range ops {
					if op.write || origin1(op.index) != ssa.Value(ind) {
						continue
					}
					for i := 0; i < nIn && i < len(k.Params); i++ {
						if origin1(op.series) == ssa.Value(k.Params[i]) {
							for _, ref := range refs(cv) {
								if ex, ok := ref.(*ssa.Extract); ok && ex.Index == op.result {
									cc.names[ex] = fmt.Sprintf("in%d", i)
								}
							}
							if cv.Common().Signature().Results().Len() == 1 {
								cc.names[cv] = fmt.Sprintf("in%d", i)
							}
						}
					}
				}
			}
			continue
		}
		for i := 0; i < nIn && i < len(k.Params); i++ {
			if origin1(recvOf(c.Common())) == ssa.Value(k.Params[i]) && atIdx(c) {
				cc.names[cv] = fmt.Sprintf("in%d", i)
			}
		}
	}
	// carried variables initialised from the state parameters "prevInflow"/"prevOutflow" (by state position)
	var phiIn, phiOut *ssa.Phi
	for _, ins := range l.Header.Instrs {
		phi, ok := ins.(*ssa.Phi)
		if !ok {
			break
		}
		for i, e := range phi.Edges {
			if l.Blocks[l.Header.Preds[i]] {
				continue
			}
			for si := range m.States {
				if nIn+si < len(k.Params) && e == ssa.Value(k.Params[nIn+si]) {
					switch strings.ToLower(m.States[si]) {
					case "previnflow":
						phiIn = phi
					case "prevoutflow":
						phiOut = phi
					}
				}
			}
		}
	}
	if phiIn == nil || phiOut == nil {
		r.Undecided("R11.1", key+":carried", p.Pos(k.Pos()), "carried previous inflow/outflow not found as loop-carried values initialised from the states")
		return
	}
	cc.names[phiIn] = "PI"
	cc.names[phiOut] = "PO"
	// the outflow write
	var outPoly poly
	var outPos ssa.Instruction
	outPrm := k.Params[nIn+nSt+len(m.Params)]
	for _, c := range callsIn(k) {
		nm := callName(c.Common())
		if (nm == "Set" || nm == "Set1") && origin1(recvOf(c.Common())) == ssa.Value(outPrm) && atIdx(c) {
			outPoly = cc.expand(callArgs(c.Common())[1], 0)
			outPos = c
		} else if ops, ok := bundledOps(c); ok {
			for _, op := range ops {
				if op.write && origin1(op.series) == ssa.Value(outPrm) && origin1(op.index) == ssa.Value(ind) {
					outPoly = cc.expand(op.value, 0)
					outPos = c
				}
			}
		}
	}
	if outPoly == nil {
		r.Undecided("R11.1", key+":outflow", p.Pos(k.Pos()), "outflow write not found")
		return
	}
	steady := substitute(outPoly, map[string]string{"in0": "Q", "PI": "Q", "PO": "Q", "in1": "0"})
	num, den, ok := clearDenominator(steady)
	okey := key + ":steady-flow"
	if !ok {
		// no common denominator: must be exactly Q
		if polyEqual(steady, poly{"Q": 1}) {
			r.OK("R11.1", key+": steady flow Q routes to Q")
		} else {
			r.Fail("R11.1", okey, p.Pos(outPos.Pos()), "with inflow = previous inflow = previous outflow = Q and no lateral the routed outflow is "+showPoly(steady)+", not Q: the weights do not sum to one")
		}
	} else {
		var id int
		fmt.Sscanf(den, "s%d", &id)
		denP, have := cc.denPoly[den]
		if !have {
			denP = cc.expand(cc.pc.vals[id], 0)
		}
		want := polyMul(poly{"Q": 1}, denP)
		if polyEqual(num, want) {
			r.OK("R11.1", key+": steady flow Q routes to Q (weights sum to one identically in k, x, Δt)")
		} else {
			r.Fail("R11.1", okey, p.Pos(outPos.Pos()), fmt.Sprintf("with inflow = previous inflow = previous outflow = Q and no lateral the routed outflow is (%s)/(%s), not Q: the weights do not sum to one", showPoly(num), showPoly(denP)))
		}
	}
	// R11.2: what multiplies weight 1 now is what is carried as previous inflow
	var carried ssa.Value
	for i, e := range phiIn.Edges {
		if l.Blocks[l.Header.Preds[i]] {
			carried = e
		}
	}
	cp := cc.expand(carried, 0)
	// total inflow of the current step = coefficient structure: substitute PI, PO -> 0 and divide out: the polynomial in (in0, in1)
	cur := substitute(outPoly, map[string]string{"PI": "0", "PO": "0"})
	// cur = a1 * (in0 + in1): ratio of the in1 and in0 coefficients must be 1, and the carried term must have the same ratio
	sumCoef := func(pl poly, sym string) float64 {
		t := 0.0
		for mono, c := range pl {
			for _, s := range strings.Split(mono, "*") {
				if s == sym {
					t += c
				}
			}
		}
		return t
	}
	// compare structurally: replace in1 by in0 in both; the current-step term must double-count exactly like the carried one
	curHasLat := sumCoef(cur, "in1") != 0 || hasSym(cur, "in1")
	carHasLat := hasSym(cp, "in1")
	k2 := key + ":lateral-carried"
	switch {
	case curHasLat && !carHasLat:
		r.Fail("R11.2", k2, p.Pos(phiIn.Pos()), fmt.Sprintf("the first weight multiplies upstream + lateral inflow, but the value carried as previous inflow is %s (no lateral): lateral water is weighted by the first coefficient only, so a steady lateral L adds less than L to the outflow and event volumes are not conserved", showPoly(cp)))
	case !curHasLat && carHasLat:
		r.Fail("R11.2", k2, p.Pos(phiIn.Pos()), "the carried previous inflow includes the lateral but the current-step term does not")
	default:
		// both include (or both exclude) the lateral with the same relative weight
		a := substitute(cp, map[string]string{"in1": "in0"})
		b := substitute(cp, map[string]string{"in1": "0"})
		ra := sumCoef(a, "in0")
		rb := sumCoef(b, "in0")
		if curHasLat && ra != 2*rb {
			r.Fail("R11.2", k2, p.Pos(phiIn.Pos()), "lateral and upstream inflow enter the carried term with different weights")
		} else {
			r.OK("R11.2", key+": carried previous inflow = "+showPoly(cp)+" (same quantity the first weight multiplies)")
		}
	}
}

func hasSym(pl poly, sym string) bool {
	for mono, c := range pl {
		if c == 0 {
			continue
		}
		for _, s := range strings.Split(mono, "*") {
			if strings.TrimPrefix(s, "/") == sym {
				return true
			}
		}
	}
	return false
}
