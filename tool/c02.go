package main

// C02: bulk operations equal the element-wise definition (structural clauses).

import (
	"fmt"
	"go/token"
	"go/types"
	"sort"
	"strings"

	"golang.org/x/tools/go/ssa"
)

func init() { register("C02", "other", checkC02) }

// objOf normalises a value denoting an array object: strips conversions and the address of the embedded Common.
func objOf(v ssa.Value) ssa.Value {
	for i := 0; i < 20; i++ {
		v = stripConv(v)
		if fa, ok := v.(*ssa.FieldAddr); ok {
			if name, base, _ := fieldName(fa); strings.HasSuffix(name, "Common") {
				v = base
				continue
			}
		}
		os := origins(v)
		if len(os) == 1 && os[0] != nil && os[0] != v {
			v = os[0]
			continue
		}
		return v
	}
	return v
}

func sameObj(a, b ssa.Value) bool {
	if a == nil || b == nil {
		return false
	}
	return objOf(a) == objOf(b)
}

// contiguousGuard: block b is dominated by Contiguous()==want on object obj.
func contiguousGuard(b *ssa.BasicBlock, obj ssa.Value, want bool) bool {
	for _, g := range guardsAt(b) {
		call, ok := g.Cond.(*ssa.Call)
		if !ok || g.Val != want {
			continue
		}
		if callName(call.Common()) != "Contiguous" {
			continue
		}
		if sameObj(recvOf(call.Common()), obj) {
			return true
		}
		// a local header filled by obj.SliceInto(&hdr, …) describes a view of obj's own storage
		if par := sliceIntoParent(recvOf(call.Common())); par != nil && sameObj(par, obj) {
			return true
		}
	}
	return false
}

// sliceIntoParent: r is (the address of) a local stride header that was filled by X.SliceInto(r, …); returns X.
func sliceIntoParent(r ssa.Value) ssa.Value {
	hdr := objOf(r)
	al, ok := hdr.(*ssa.Alloc)
	if !ok {
		return nil
	}
	for _, ref := range refs(al) {
		c, ok := ref.(*ssa.Call)
		if !ok {
			continue
		}
		f := c.Common().StaticCallee()
		if f == nil || f.Name() != "SliceInto" || len(c.Common().Args) < 2 {
			continue
		}
		if objOf(c.Common().Args[1]) == hdr {
			return objOf(c.Common().Args[0])
		}
	}
	return nil
}

// implOwner: for a value that is a (copy of a) load of x.Impl returns x.
func implOwner(v ssa.Value) ssa.Value {
	for _, o := range origins(v) {
		if u, ok := o.(*ssa.UnOp); ok && u.Op == token.MUL {
			if fa, ok := u.X.(*ssa.FieldAddr); ok {
				if name, base, _ := fieldName(fa); name == "Impl" {
					return base
				}
			}
		}
	}
	return nil
}

// concreteTypesOf: the concrete dynamic types an interface value may have, if determinable from its construction
// (MakeInterface, or a static callee whose returns are all determinable). nil = unknown (open world).
func concreteTypesOf(v ssa.Value, depth int) []types.Type {
	if depth > 4 {
		return nil
	}
	var out []types.Type
	for _, o := range origins(v) {
		if o == nil {
			return nil
		}
		switch x := o.(type) {
		case *ssa.Alloc:
			out = append(out, x.Type())
		case *ssa.Call:
			f := x.Common().StaticCallee()
			if f == nil || f.Blocks == nil {
				return nil
			}
			if x.Type() != nil {
				if _, ok := x.Type().(*types.Tuple); ok {
					return nil
				}
			}
			for _, ret := range returnsOf(f) {
				ts := concreteTypesOf(ret.Results[0], depth+1)
				if ts == nil {
					return nil
				}
				out = append(out, ts...)
			}
		default:
			if !types.IsInterface(o.Type()) {
				out = append(out, o.Type())
				continue
			}
			return nil
		}
	}
	return out
}

func isCBackedType(t types.Type) bool {
	n := namedOf(t)
	return n != nil && n.Obj().Pkg() != nil && strings.HasSuffix(n.Obj().Pkg().Path(), "/data/cdata")
}

// freshRootArray: x is the result of a data constructor (NewArray*/ArrayFromSlice*) with no Slice in between.
func freshRootArray(v ssa.Value) bool {
	for _, o := range origins(v) {
		if o == nil {
			return false
		}
		c, ok := stripConv(o).(*ssa.Call)
		if !ok {
			return false
		}
		n := callName(c.Common())
		if !(strings.HasPrefix(n, "NewArray") || strings.HasPrefix(n, "ArrayFromSlice") || strings.HasPrefix(n, "newArray") || strings.HasPrefix(n, "arrayFromSlice")) {
			return false
		}
	}
	return true
}

type unrollSite struct {
	fn    *ssa.Function
	call  *ssa.Call
	recv  ssa.Value
	write ssa.Instruction // a write-through use (nil if none)
	how   string
	esc   bool
	// helperGuard: the alias was handed out by a helper, and the helper returns it only under
	// Contiguous()==true on this very array
	helperGuard bool
	via         string // name of the helper, for reports
}

// aliasUses: starting from seed (a slice aliasing an array's storage), the first write through it in fn, whether it
// escapes, and the (return instruction, result index) pairs by which it is returned.
type aliasRet struct {
	ret *ssa.Return
	idx int
}

func aliasUses(fn *ssa.Function, seed ssa.Value) (write ssa.Instruction, how string, esc bool, rets []aliasRet) {
	al := map[ssa.Value]bool{seed: true}
	cells := map[ssa.Value]bool{}
	for changed := true; changed; {
		changed = false
		eachInstr(fn, func(_ *ssa.BasicBlock, _ int, i2 ssa.Instruction) {
			switch x := i2.(type) {
			case *ssa.Store:
				if al[x.Val] {
					if a, ok := x.Addr.(*ssa.Alloc); ok && !cells[a] {
						cells[a] = true
						changed = true
					}
				}
			case *ssa.UnOp:
				if x.Op == token.MUL && cells[x.X] && !al[x] {
					al[x] = true
					changed = true
				}
			case *ssa.Slice:
				if al[x.X] && !al[x] {
					al[x] = true
					changed = true
				}
			case *ssa.Phi:
				for _, e := range x.Edges {
					if al[e] && !al[x] {
						al[x] = true
						changed = true
					}
				}
			}
		})
	}
	eachInstr(fn, func(_ *ssa.BasicBlock, _ int, i2 ssa.Instruction) {
		switch x := i2.(type) {
		case *ssa.Store:
			if ia, ok := x.Addr.(*ssa.IndexAddr); ok && al[ia.X] && write == nil {
				write, how = i2, "element store"
			}
		case *ssa.Return:
			for ri, rv := range x.Results {
				if al[rv] {
					esc = true
					rets = append(rets, aliasRet{x, ri})
				}
			}
		case ssa.CallInstruction:
			c := x.Common()
			if b, ok := c.Value.(*ssa.Builtin); ok {
				if b.Name() == "copy" && len(c.Args) > 0 && al[c.Args[0]] && write == nil {
					write, how = i2, "copy destination"
				}
				return
			}
			for _, a := range c.Args {
				if cells[a] {
					// &impl passed to a function
					if name, ok := isHDF5Call(c); ok && strings.HasPrefix(name, "Read") {
						if write == nil {
							write, how = i2, "address passed to hdf5."+name
						}
					}
				}
				if al[a] {
					// passed on as a value: treated as escape (the callee's own obligations apply)
					if _, ok := isHDF5Call(c); !ok {
						esc = true
					}
				}
			}
		}
	})
	return
}

// unrollSites finds, for every Unroll() call in module code, whether its result is written through — in the
// function that calls Unroll, or in a caller of a helper that returns the unrolled slice of one of its parameters.
func unrollSites(p *Program) []unrollSite {
	var out []unrollSite
	type handed struct {
		h     *ssa.Function
		prm   int // parameter of h whose storage is handed out
		res   int // result index
		guard bool
	}
	var handedOut []handed
	for _, fn := range p.SrcFuncs() {
		eachInstr(fn, func(_ *ssa.BasicBlock, _ int, ins ssa.Instruction) {
			call, ok := ins.(*ssa.Call)
			if !ok || callName(call.Common()) != "Unroll" {
				return
			}
			recv := recvOf(call.Common())
			if recv == nil || !isNDType(recv.Type()) {
				return
			}
			s := unrollSite{fn: fn, call: call, recv: recv}
			var rets []aliasRet
			s.write, s.how, s.esc, rets = aliasUses(fn, call)
			out = append(out, s)
			// handed out by a non-method helper through a return: follow into the callers
			if prm, isPrm := origin1(recv).(*ssa.Parameter); isPrm && prm.Parent() == fn && fn.Signature.Recv() == nil {
				pi := -1
				for i, q := range fn.Params {
					if q == prm {
						pi = i
					}
				}
				byRes := map[int]bool{}
				guard := map[int]bool{}
				for _, ar := range rets {
					if _, seen := byRes[ar.idx]; !seen {
						guard[ar.idx] = true
					}
					byRes[ar.idx] = true
					if !contiguousGuard(ar.ret.Block(), recv, true) && !contiguousGuard(call.Block(), recv, true) {
						guard[ar.idx] = false
					}
				}
				for ri := range byRes {
					if pi >= 0 {
						handedOut = append(handedOut, handed{fn, pi, ri, guard[ri]})
					}
				}
			}
		})
	}
	for _, ho := range handedOut {
		for _, fn := range p.SrcFuncs() {
			for _, c := range callsIn(fn) {
				call, ok := c.(*ssa.Call)
				if !ok || c.Common().StaticCallee() != ho.h || ho.prm >= len(c.Common().Args) {
					continue
				}
				var seed ssa.Value
				if ho.h.Signature.Results().Len() == 1 {
					seed = call
				} else {
					for _, ref := range refs(call) {
						if ex, ok := ref.(*ssa.Extract); ok && ex.Index == ho.res {
							seed = ex
						}
					}
				}
				if seed == nil {
					continue
				}
				s := unrollSite{fn: fn, call: call, recv: c.Common().Args[ho.prm], helperGuard: ho.guard, via: ho.h.Name()}
				s.write, s.how, s.esc, _ = aliasUses(fn, seed)
				out = append(out, s)
			}
		}
	}
	return out
}

func checkC02(p *Program, r *Report) {
	checkBulkOps(p, r, "C02")
}

func checkBulkOps(p *Program, r *Report, prop string) {
	cOnly := prop == "C03"
	r.Rule("R02.1", "fast paths are guarded: (a) every Impl[a:b] is dominated by Contiguous()==true on the object whose storage is sliced, and (d) has an upper end (an open-ended Impl[a:] is tolerated only as the source of a copy into a bounded destination); (b) every write through x.Unroll() that relies on aliasing is dominated by x.Contiguous()==true or x is a fresh root array; (c) at such a site every concrete Unroll that may be the callee returns an alias of the storage when contiguous")
	r.Rule("R02.2", "the contiguity predicate consults what contiguity depends on: its result is control-dependent on comparisons reading Step, Dims and (OriginalDims or Offset)")
	r.Rule("R02.3", "aliasing clause: in every Go-backed Unroll the value returned under Contiguous()==true is a sub-slice of Impl (no allocation); Reshape's contiguous result takes that value as its Impl")
	r.Rule("R02.4", "error conditions: ReshapeFast fails exactly under !Contiguous() and otherwise returns Reshape's result; Reshape's success returns are on the equal edge of Product(newShape) vs Product(Shape()) and its error return on the unequal edge")
	r.Rule("R02.5", "in-place re-striding needs contiguity: a view given fresh strides (Offsets(newShape)) over the receiver's own Impl is constructed only under Contiguous()==true")
	r.Rule("R02.6", "index-space typing of Argmax: the returned index is an index of the parameter itself (a `range v[k:]` index is returned only after adding k)")
	r.Assumptions = append(r.Assumptions,
		"not decided: exactness of Contiguous (its arithmetic), Increment/Offsets/IDivMod/Product arithmetic, value equality of the fast and general paths")

	ats := arrayTypes(p)

	// ---- R02.1(a) + R02.3 + R02.4 + R02.5 per concrete type
	nT := 0
	for _, at := range ats {
		if cOnly != at.cBack {
			continue
		}
		nT++
		tname := at.rel + "." + at.named.Obj().Name()
		// (a) Impl[a:b]
		var names []string
		for n := range at.method {
			names = append(names, n)
		}
		sort.Strings(names)
		for _, n := range names {
			fn := at.own(n)
			if fn == nil {
				continue
			}
			k := 0
			eachInstr(fn, func(_ *ssa.BasicBlock, _ int, ins ssa.Instruction) {
				sl, ok := ins.(*ssa.Slice)
				if !ok || !isImplValue(sl.X) {
					return
				}
				k++
				owner := implOwner(sl.X)
				key := fmt.Sprintf("%s.%s:Impl[a:b]#%d", tname, n, k)
				// (d) the window ends with the view: `Impl[a:]` runs on to the end of the storage the view was cut from.
				// Harmless only as the source of a copy whose destination is itself bounded.
				if openEndedImplWindow(sl) {
					r.Fail("R02.1", key+":open-ended", p.Pos(sl.Pos()), openEndedMsg)
					return
				}
				if contiguousGuard(sl.Block(), owner, true) {
					r.OK("R02.1", fmt.Sprintf("%s.%s: Impl[a:b] under Contiguous()==true of the sliced object", tname, n))
				} else {
					r.Fail("R02.1", key, p.Pos(sl.Pos()), "range access to the backing store is not dominated by Contiguous()==true on the object whose storage is accessed: for a gapped or stepped view it addresses elements outside the view")
				}
			})
		}
		// R02.3 (Go back-end only)
		if !at.cBack {
			if un := at.own("Unroll"); un == nil {
				r.Undecided("R02.3", tname+":Unroll", "-", "no Unroll method")
			} else {
				aliasRet := false
				for _, ret := range returnsOf(un) {
					if !contiguousGuard(ret.Block(), un.Params[0], true) {
						continue
					}
					good := true
					for _, o := range origins(ret.Results[0]) {
						sl, ok := o.(*ssa.Slice)
						if !ok || !isImplValue(sl.X) || !sameObj(implOwner(sl.X), un.Params[0]) {
							// returning Impl itself is an alias too
							if o != nil && isImplValue(o) {
								continue
							}
							good = false
						}
					}
					if good {
						aliasRet = true
					} else {
						r.Fail("R02.3", tname+":Unroll:contiguous-return", p.Pos(ret.Pos()), "Unroll of a contiguous view returns a value that is not a sub-slice of the storage (writes through it are lost)")
					}
				}
				if aliasRet {
					r.OK("R02.3", tname+".Unroll: contiguous path returns Impl[s:e+1]")
				} else {
					r.Fail("R02.3", tname+":Unroll:no-alias-path", p.Pos(un.Pos()), "Unroll has no return under Contiguous()==true that aliases the storage: unrolling a contiguous view must not copy")
				}
			}
		}
		checkUnrollFresh(p, r, at, tname, "R02.3")
		// R02.4
		checkReshapeErrors(p, r, at, tname)
		// R02.5 + Reshape contiguous Impl
		checkRestride(p, r, at, tname)
	}
	r.Floor("R02.4", "concrete array types", nT, 9)
	r.Rule("R02.7", "row-major enumeration loops are complete: every loop advancing an index with Increment(idx, shape) counts from 0 to Product(shape) in steps of 1, increments on every iteration and starts from the zero index (Maximum, Minimum, ApplySlice, the whole-array helpers, both back-ends)")
	r.Rule("R02.8", "reductions start from an element: the running value of Maximum/Minimum is initialised from an element of the view, never from a constant")
	checkEnumerationLoops(p, r, cOnly)
	checkReductionInit(p, r, cOnly)
	checkFlatDecoding(p, r, cOnly)
	if !cOnly {
		checkHelpersAlwaysWrite(p, r)
	}
	if !cOnly {
		checkFlatPairing(p, r, cOnly)
	}

	// ---- R02.1(b,c): Unroll write-through sites
	nSites := 0
	for _, s := range unrollSites(p) {
		if s.write == nil {
			continue
		}
		inC := relPkg(fnPkg(s.fn).Path()) == "data/cdata"
		if cOnly && !inC {
			// for C03 we still need the open-world sites where a C-backed array may arrive
		}
		nSites++
		key := fmt.Sprintf("%s:Unroll-write:%s", FuncKey(s.fn), describeObj(s.recv))
		pos := p.Pos(s.write.Pos())
		fresh := freshRootArray(s.recv)
		guarded := s.helperGuard || contiguousGuard(s.write.Block(), s.recv, true) || contiguousGuard(s.call.Block(), s.recv, true)
		if !cOnly {
			if fresh || guarded {
				r.OK("R02.1", fmt.Sprintf("%s: write through %s.Unroll() (%s) %s", FuncKey(s.fn), describeObj(s.recv), s.how, map[bool]string{true: "on a fresh root array", false: "under Contiguous()==true"}[fresh]))
			} else if s.esc {
				// value also escapes: treated as a gather whose result is handed on
				r.OK("R02.1", fmt.Sprintf("%s: %s.Unroll() result is handed on (no aliasing obligation)", FuncKey(s.fn), describeObj(s.recv)))
			} else {
				r.Fail("R02.1", key, pos, fmt.Sprintf("write through %s.Unroll() (%s) relies on aliasing but is not dominated by %s.Contiguous()==true: on a non-contiguous view Unroll returns a copy and the write is lost", describeObj(s.recv), s.how, describeObj(s.recv)))
			}
		}
		// (c) which concrete Unrolls may be called here?
		cts := concreteTypesOf(s.recv, 0)
		mayBeC := false
		if cts == nil {
			// open world: any implementer of the interface, including C-backed arrays — unless the function is
			// unexported and all callers pass determinable types (not attempted)
			mayBeC = true
		} else {
			for _, t := range cts {
				if isCBackedType(t) {
					mayBeC = true
				}
			}
		}
		if fresh {
			mayBeC = false
		}
		if cOnly {
			if mayBeC {
				r.Fail("R02.1c", key, pos, fmt.Sprintf("the fast path writes through %s.Unroll(), but a C-backed array may arrive here and its Unroll always copies: the operation silently leaves a C-backed destination unchanged", describeObj(s.recv)))
			} else {
				r.OK("R02.1c", fmt.Sprintf("%s: Unroll write-through site cannot receive a C-backed array", FuncKey(s.fn)))
			}
		}
	}
	if !cOnly {
		r.Floor("R02.1", "Unroll write-through sites", nSites, 8)
	}

	if cOnly {
		return
	}
	// ---- R02.2
	nC := 0
	for _, fn := range p.PkgFuncs("data") {
		if fn.Name() != "Contiguous" || fn.Signature.Recv() == nil || !isCommonStruct(fn.Signature.Recv().Type()) {
			continue
		}
		nC++
		key := FuncKey(fn)
		used := map[string]bool{}
		eachInstr(fn, func(_ *ssa.BasicBlock, _ int, ins ssa.Instruction) {
			iff, ok := ins.(*ssa.If)
			if !ok {
				return
			}
			// fields read by the condition
			fieldsIn(iff.Cond, used, map[ssa.Value]bool{})
		})
		// the If must decide a `return false`
		canFalse := false
		for _, ret := range returnsOf(fn) {
			for _, o := range origins(ret.Results[0]) {
				if c, ok := o.(*ssa.Const); ok && c.Value != nil && c.Value.String() == "false" {
					canFalse = true
				}
			}
		}
		missing := []string{}
		if !used["Step"] {
			missing = append(missing, "Step")
		}
		if !used["Dims"] {
			missing = append(missing, "Dims")
		}
		if !used["OriginalDims"] && !used["Offset"] {
			missing = append(missing, "OriginalDims/Offset")
		}
		if len(missing) > 0 || !canFalse {
			r.Fail("R02.2", key, p.Pos(fn.Pos()), fmt.Sprintf("Contiguous() does not branch on %s (or can never return false): a stepped or gapped view would be reported contiguous and every fast path would address the wrong elements", strings.Join(missing, ", ")))
		} else {
			r.OK("R02.2", key+": branches on Step, Dims and OriginalDims/Offset")
		}
	}
	r.Floor("R02.2", "Contiguous implementations", nC, 9)
	checkContiguousIgnoresUnitAxes(p, r)
	checkContiguousCoversAllAxes(p, r)

	// ---- R02.2b: the fields the predicate reads are maintained with consistent units
	{
		ua := &unitAnalysis{p: p}
		for _, fn := range dataFuncs(p) {
			ua.analyseRoot(fn)
		}
		ord := map[string]int{}
		n := 0
		for _, s := range ua.sinks {
			if s.field != "Step" && s.field != "Offset" {
				continue
			}
			base := FuncKey(s.fn) + ":" + s.field + s.ctx
			ord[base]++
			n++
			if s.got.kind == 0 || (s.got.kind == 1 && s.got.eq(s.want)) {
				r.OK("R02.2", fmt.Sprintf("%s: %s keeps unit %s (read by Contiguous)", FuncKey(s.fn), s.what, s.want))
			} else {
				r.Fail("R02.2", fmt.Sprintf("%s#%d", base, ord[base]), p.Pos(s.pos), fmt.Sprintf("%s has unit %s instead of %s: Contiguous() reads this field, so a nested view can report itself contiguous although its elements are not adjacent (every fast path then touches the wrong cells)", s.what, s.got, s.want))
			}
		}
		r.Floor("R02.2", "Step/Offset stores", n, 18)
	}
	// ---- R02.6
	checkArgmax(p, r)
	checkArgmaxRunningBest(p, r)
}

func describeObj(v ssa.Value) string {
	o := objOf(v)
	if prm, ok := o.(*ssa.Parameter); ok {
		return prm.Name()
	}
	if c, ok := o.(*ssa.Call); ok {
		return callName(c.Common()) + "(…)"
	}
	return describeRecv(v)
}

// fieldsIn collects the names of Common fields the value is computed from (intraprocedural backward slice).
func fieldsIn(v ssa.Value, out map[string]bool, seen map[ssa.Value]bool) {
	if v == nil || seen[v] {
		return
	}
	seen[v] = true
	if fa, ok := v.(*ssa.FieldAddr); ok {
		if name, _, ok := fieldName(fa); ok && isCommonStruct(fa.X.Type()) {
			out[name] = true
		}
	}
	if a, ok := v.(*ssa.Alloc); ok {
		for _, ref := range refs(a) {
			if st, ok := ref.(*ssa.Store); ok && st.Addr == ssa.Value(a) {
				fieldsIn(st.Val, out, seen)
			}
		}
		return
	}
	ins, ok := v.(ssa.Instruction)
	if !ok {
		return
	}
	// the result of a helper of the module (`nd.breaksRun(i, run)`): what its conditions and results are computed from
	if c, ok := v.(*ssa.Call); ok {
		if h := c.Common().StaticCallee(); h != nil && h.Blocks != nil && InModule(h) && !seen[h] {
			seen[h] = true
			eachInstr(h, func(_ *ssa.BasicBlock, _ int, hi ssa.Instruction) {
				switch x := hi.(type) {
				case *ssa.If:
					fieldsIn(x.Cond, out, seen)
				case *ssa.Return:
					for _, rv := range x.Results {
						fieldsIn(rv, out, seen)
					}
				}
			})
		}
	}
	var ops [16]*ssa.Value
	for _, op := range ins.Operands(ops[:0]) {
		if op != nil && *op != nil {
			fieldsIn(*op, out, seen)
		}
	}
}

func isNilErr(v ssa.Value) bool {
	for _, o := range origins(v) {
		if o == nil {
			continue
		}
		if !isNilConst(o) {
			return false
		}
	}
	return true
}

func checkReshapeErrors(p *Program, r *Report, at *arrayType, tname string) {
	rf, rs := at.own("ReshapeFast"), at.own("Reshape")
	if rf == nil || rs == nil {
		r.Undecided("R02.4", tname+":Reshape", "-", "Reshape or ReshapeFast missing")
		return
	}
	// ReshapeFast
	okFast := true
	sawErr, sawDelegate := false, false
	// a ReshapeFast that builds the reshaped header itself under its contiguity guard instead of handing the work to
	// Reshape is a form this rule does not judge (the header is judged by R03.4 / R01.4): only the guard is required
	selfBuilt := false
	for _, ret := range returnsOf(rf) {
		if len(ret.Results) != 2 || !isNilErr(ret.Results[1]) {
			continue
		}
		deleg := false
		for _, o := range origins(ret.Results[0]) {
			if ex, ok := o.(*ssa.Extract); ok {
				if c, ok := ex.Tuple.(*ssa.Call); ok && c.Common().StaticCallee() == rs {
					deleg = true
				}
			}
		}
		if !deleg && contiguousGuard(ret.Block(), rf.Params[0], true) {
			selfBuilt = true
		}
	}
	if selfBuilt {
		r.Unsupported("R02.4", tname+":ReshapeFast: builds the reshaped view itself under Contiguous()==true instead of returning Reshape's result; its size test and header are not judged by this rule")
	}
	for _, ret := range returnsOf(rf) {
		if len(ret.Results) != 2 {
			continue
		}
		// delegate: results are extracts of a call to own Reshape
		deleg := false
		for _, o := range origins(ret.Results[0]) {
			if ex, ok := o.(*ssa.Extract); ok {
				if c, ok := ex.Tuple.(*ssa.Call); ok && c.Common().StaticCallee() == rs {
					deleg = true
					if !contiguousGuard(c.Block(), rf.Params[0], true) {
						okFast = false
						r.Fail("R02.4", tname+":ReshapeFast:unguarded-delegate", p.Pos(c.Pos()), "ReshapeFast reshapes a view that may be non-contiguous (the call to Reshape is not dominated by Contiguous()==true): it must fail exactly on non-contiguous views")
					}
				}
			}
		}
		if deleg {
			sawDelegate = true
			continue
		}
		if !isNilErr(ret.Results[1]) {
			sawErr = true
			if selfBuilt && contiguousGuard(ret.Block(), rf.Params[0], true) {
				continue // the self-built form's own size test
			}
			if !contiguousGuard(ret.Block(), rf.Params[0], false) {
				okFast = false
				r.Fail("R02.4", tname+":ReshapeFast:error-cond", p.Pos(ret.Pos()), "ReshapeFast returns its own error on a path not guarded by Contiguous()==false")
			}
		} else if selfBuilt && contiguousGuard(ret.Block(), rf.Params[0], true) {
			okFast = false // not judged
		} else {
			okFast = false
			r.Fail("R02.4", tname+":ReshapeFast:other-success", p.Pos(ret.Pos()), "ReshapeFast has a success return that is not Reshape's result")
		}
	}
	if !sawErr || (!sawDelegate && !selfBuilt) {
		okFast = false
		r.Fail("R02.4", tname+":ReshapeFast:shape", p.Pos(rf.Pos()), fmt.Sprintf("ReshapeFast must have an error return under !Contiguous() and delegate to Reshape otherwise (error return: %v, delegation: %v)", sawErr, sawDelegate))
	}
	if okFast {
		r.OK("R02.4", tname+".ReshapeFast: error iff !Contiguous(), else Reshape")
	}
	// Reshape: find the size comparison
	var cmp *ssa.BinOp
	eachInstr(rs, func(_ *ssa.BasicBlock, _ int, ins ssa.Instruction) {
		bo, ok := ins.(*ssa.BinOp)
		if !ok || (bo.Op != token.NEQ && bo.Op != token.EQL) {
			return
		}
		a, b := productOf(bo.X), productOf(bo.Y)
		if a == nil || b == nil {
			return
		}
		newShape := rs.Params[1]
		isNew := func(v ssa.Value) bool { return v == ssa.Value(newShape) }
		isOld := func(v ssa.Value) bool {
			// receiver.Shape() or receiver Dims
			if c, ok := v.(*ssa.Call); ok && callName(c.Common()) == "Shape" && sameObj(recvOf(c.Common()), rs.Params[0]) {
				return true
			}
			if name, base, ok := loadedField(v); ok && name == "Dims" && sameObj(base, rs.Params[0]) {
				return true
			}
			return false
		}
		if (isNew(a) && isOld(b)) || (isNew(b) && isOld(a)) {
			cmp = bo
		}
	})
	if cmp == nil {
		r.Fail("R02.4", tname+":Reshape:no-size-check", p.Pos(rs.Pos()), "Reshape does not compare Product(newShape) with Product(Shape()): it must fail exactly when element counts differ")
		return
	}
	okR := true
	for _, ret := range returnsOf(rs) {
		if len(ret.Results) != 2 {
			continue
		}
		eq, known := sizeGuard(ret.Block(), cmp)
		if isNilErr(ret.Results[1]) {
			if !known || !eq {
				okR = false
				r.Fail("R02.4", tname+":Reshape:success-unguarded", p.Pos(ret.Pos()), "Reshape succeeds on a path where the element counts are not known to be equal")
			}
		} else {
			if !known || eq {
				okR = false
				r.Fail("R02.4", tname+":Reshape:error-on-equal", p.Pos(ret.Pos()), "Reshape returns an error on a path where the element counts are equal (or unchecked)")
			}
		}
	}
	if okR {
		r.OK("R02.4", tname+".Reshape: success ⇔ Product(newShape)==Product(Shape())")
	}
}

func productOf(v ssa.Value) ssa.Value {
	for _, o := range origins(v) {
		c, ok := o.(*ssa.Call)
		if !ok || callName(c.Common()) != "Product" {
			return nil
		}
		return c.Common().Args[0]
	}
	return nil
}

// sizeGuard: the block is dominated by an edge of the comparison; returns (sizes equal?, known).
func sizeGuard(b *ssa.BasicBlock, cmp *ssa.BinOp) (bool, bool) {
	for _, g := range guardsAt(b) {
		if g.Cond == ssa.Value(cmp) {
			if cmp.Op == token.EQL {
				return g.Val, true
			}
			return !g.Val, true
		}
	}
	return false, false
}

// checkRestride: R02.5 and the Reshape half of R02.3.
func checkRestride(p *Program, r *Report, at *arrayType, tname string) {
	rs := at.own("Reshape")
	if rs == nil {
		return
	}
	recv := rs.Params[0]
	n := 0
	evs := commonFieldStores(rs)
	// the storage field belongs to the concrete struct, not to the common part
	eachInstr(rs, func(_ *ssa.BasicBlock, _ int, ins ssa.Instruction) {
		if s2, ok := ins.(*ssa.Store); ok {
			if fa2, ok := s2.Addr.(*ssa.FieldAddr); ok && !isCommonStruct(fa2.X.Type()) {
				if nm, b2, _ := fieldName(fa2); nm == "Impl" {
					evs = append(evs, fieldStoreEv{field: "Impl", base: b2, val: s2.Val, at: s2})
				}
			}
		}
	})
	for _, ev := range evs {
		if ev.field != "Offset" || ev.val == nil {
			continue
		}
		st, base := ev.at, ev.base
		// fresh strides?
		c, ok := ev.val.(*ssa.Call)
		if !ok || callName(c.Common()) != "Offsets" {
			continue
		}
		n++
		// the struct being built: base is &result.Common → result alloc
		res := objOf(base)
		// find the store to result.Impl reaching/dominating in the same region
		var implStore *fieldStoreEv
		for k := range evs {
			s2 := &evs[k]
			if s2.field == "Impl" && s2.val != nil && objOf(s2.base) == res {
				if s2.at.Block() == st.Block() || s2.at.Block().Dominates(st.Block()) || st.Block().Dominates(s2.at.Block()) {
					if s2.at.Block() == st.Block() {
						implStore = s2
					} else if implStore == nil {
						implStore = s2
					}
				}
			}
		}
		key := fmt.Sprintf("%s.Reshape:restride#%d", tname, n)
		if implStore == nil {
			r.Undecided("R02.5", key, p.Pos(st.Pos()), "view with fresh strides: store to its Impl not found")
			continue
		}
		// Impl value: receiver's own Impl, or receiver.Unroll()
		own := false
		viaUnroll := false
		for _, o := range origins(implStore.val) {
			if o == nil {
				continue
			}
			if isImplValue(o) && sameObj(implOwner(o), recv) {
				own = true
			}
			if c, ok := o.(*ssa.Call); ok && callName(c.Common()) == "Unroll" && sameObj(recvOf(c.Common()), recv) {
				viaUnroll = true
			}
		}
		switch {
		case viaUnroll && !own:
			r.OK("R02.5", fmt.Sprintf("%s.Reshape: fresh strides over Unroll() (row-major gather or alias)", tname))
			if !at.cBack {
				r.OK("R02.3", fmt.Sprintf("%s.Reshape: result.Impl = Unroll() (alias when contiguous)", tname))
			}
		case own:
			if contiguousGuard(st.Block(), recv, true) {
				r.OK("R02.5", fmt.Sprintf("%s.Reshape: in-place fresh strides only under Contiguous()==true", tname))
			} else {
				r.Fail("R02.5", key, p.Pos(st.Pos()), "a view with fresh row-major strides is laid over the receiver's own storage on a path where the receiver may be non-contiguous: the reshaped view then addresses elements outside the original view")
			}
		default:
			r.Undecided("R02.5", key, p.Pos(implStore.at.Pos()), "Impl of the reshaped view has an unrecognised origin")
		}
	}
	if n == 0 {
		// the dense result may be built by a constructor helper: f(receiver.Unroll(), newShape)
		found := false
		for _, ret := range returnsOf(rs) {
			for _, o := range origins(ret.Results[0]) {
				c, ok := o.(*ssa.Call)
				if !ok {
					continue
				}
				f := c.Common().StaticCallee()
				if f == nil || !InModule(f) {
					continue
				}
				for _, a := range c.Common().Args {
					for _, ao := range origins(a) {
						if uc, ok := ao.(*ssa.Call); ok && callName(uc.Common()) == "Unroll" && sameObj(recvOf(uc.Common()), recv) {
							found = true
							r.OK("R02.5", fmt.Sprintf("%s.Reshape: dense result built by %s over Unroll() (row-major gather or alias)", tname, f.Name()))
							if !at.cBack {
								r.OK("R02.3", fmt.Sprintf("%s.Reshape: result storage = Unroll() (alias when contiguous)", tname))
							}
						}
						if ao != nil && isImplValue(ao) && sameObj(implOwner(ao), recv) {
							found = true
							if contiguousGuard(c.Block(), recv, true) {
								r.OK("R02.5", fmt.Sprintf("%s.Reshape: constructor over own storage only under Contiguous()==true", tname))
							} else {
								r.Fail("R02.5", tname+".Reshape:restride#1", p.Pos(c.Pos()), "a view with fresh strides is laid over the receiver's own storage on a path where the receiver may be non-contiguous")
							}
						}
					}
				}
			}
		}
		if !found {
			r.Undecided("R02.5", tname+".Reshape:no-restride", p.Pos(rs.Pos()), "no construction with fresh strides found in Reshape")
		}
	}
}

// ---- R02.6 ----

func checkArgmax(p *Program, r *Report) {
	pk := p.SSAPkg[modPath+"/data"]
	fn := pk.Func("Argmax")
	if fn == nil {
		r.Undecided("R02.6", "data.Argmax", "-", "data.Argmax not found")
		return
	}
	prm := fn.Params[0]
	key := "data.Argmax:return"
	// Argmax may hand its vector to a helper of the package and return one of the helper's results
	// (`pos, _ := firstMaximum(vector); return pos`): the index space is then judged in the helper
	retIdx := 0
	for depth := 0; depth < 2; depth++ {
		var h *ssa.Function
		hi, hk := -1, -1
		okAll := true
		for _, ret := range returnsOf(fn) {
			var call *ssa.Call
			ri := 0
			switch x := origin1OrSelf(ret.Results[retIdx]).(type) {
			case *ssa.Extract:
				call, _ = x.Tuple.(*ssa.Call)
				ri = x.Index
			case *ssa.Call:
				call = x
			}
			if call == nil || call.Common().StaticCallee() == nil || !InModule(call.Common().StaticCallee()) || call.Common().StaticCallee().Blocks == nil {
				okAll = false
				break
			}
			k := -1
			for i, a := range call.Common().Args {
				if origin1OrSelf(a) == ssa.Value(prm) {
					k = i
				}
			}
			if k < 0 || (h != nil && (h != call.Common().StaticCallee() || hi != ri || hk != k)) {
				okAll = false
				break
			}
			h, hi, hk = call.Common().StaticCallee(), ri, k
		}
		if !okAll || h == nil || hk >= len(h.Params) {
			break
		}
		fn, prm, retIdx = h, h.Params[hk], hi
	}
	// index-space evidence: value i used as IndexAddr(X, i); X is prm (offset 0) or Slice(prm, Low=k)
	space := func(v ssa.Value) (off int64, known bool) {
		for _, ref := range refs(v) {
			ia, ok := ref.(*ssa.IndexAddr)
			if !ok || ia.Index != v {
				continue
			}
			x := ia.X
			if x == ssa.Value(prm) {
				return 0, true
			}
			if sl, ok := x.(*ssa.Slice); ok && sl.X == ssa.Value(prm) {
				if sl.Low == nil {
					return 0, true
				}
				if k, ok := constInt(sl.Low); ok {
					return k, true
				}
			}
		}
		return 0, false
	}
	// results: list of (offset, known) for every non-polymorphic origin of the returned value
	type res struct {
		off   int64
		known bool
		desc  string
	}
	var results []res
	var walk func(v ssa.Value, corr int64, seen map[ssa.Value]bool)
	walk = func(v ssa.Value, corr int64, seen map[ssa.Value]bool) {
		if v == nil || seen[v] {
			return
		}
		seen[v] = true
		if _, ok := v.(*ssa.Const); ok {
			return // polymorphic (index 0 / literal)
		}
		if off, known := space(v); known {
			results = append(results, res{off - corr, true, v.String()})
			return
		}
		switch x := v.(type) {
		case *ssa.Convert:
			walk(x.X, corr, seen)
		case *ssa.Phi:
			for _, e := range x.Edges {
				walk(e, corr, seen)
			}
		case *ssa.BinOp:
			if c, ok := constInt(x.Y); ok && x.Op == token.ADD {
				walk(x.X, corr+c, seen)
				return
			}
			if c, ok := constInt(x.Y); ok && x.Op == token.SUB {
				walk(x.X, corr-c, seen)
				return
			}
			results = append(results, res{0, false, v.String()})
		case *ssa.UnOp:
			if a, ok := x.X.(*ssa.Alloc); ok && x.Op == token.MUL && allocIsSimpleCell(a) {
				for _, sv := range reachingStores(a, x) {
					walk(sv, corr, seen)
				}
				return
			}
			results = append(results, res{0, false, v.String()})
		default:
			results = append(results, res{0, false, v.String()})
		}
	}
	bad := ""
	nRet := 0
	for _, ret := range returnsOf(fn) {
		nRet++
		if retIdx < len(ret.Results) {
			walk(ret.Results[retIdx], 0, map[ssa.Value]bool{})
		}
	}
	for _, rs := range results {
		if !rs.known {
			bad = "a returned value has no recognisable index space (" + rs.desc + ")"
		} else if rs.off != 0 {
			bad = fmt.Sprintf("a returned value is an index into vector[%d:] and is returned without adding %d: callers index the full vector with it", rs.off, rs.off)
		}
	}
	if bad != "" {
		r.Fail("R02.6", key, p.Pos(fn.Pos()), "Argmax: "+bad)
	} else if nRet == 0 {
		r.Undecided("R02.6", key, p.Pos(fn.Pos()), "no return value origins")
	} else {
		r.OK("R02.6", "data.Argmax: every returned value is an index of the parameter itself")
	}
}

// ---------- rules added after the second round of independent seeded changes ----------

// checkUnrollFresh (R02.3b): every value Unroll returns is either a sub-slice of the receiver's storage under
// Contiguous()==true or a slice allocated in the same activation — never a cached copy held in the view.
func checkUnrollFresh(p *Program, r *Report, at *arrayType, tname string, rule string) {
	un := at.own("Unroll")
	if un == nil {
		return
	}
	bad := ""
	// classify: what a value returned by Unroll (or by a helper it returns the result of) is
	var classify func(o ssa.Value, recv ssa.Value, depth int) string
	classify = func(o ssa.Value, recv ssa.Value, depth int) string {
		if o == nil {
			return "nil"
		}
		switch x := o.(type) {
		case *ssa.MakeSlice:
			return "fresh"
		case *ssa.Slice:
			if isImplValue(x.X) {
				return "storage"
			}
			if _, ok := x.X.(*ssa.Alloc); ok {
				return "fresh"
			}
			if _, ok := vecBaseDeep(x).(*ssa.MakeSlice); ok {
				return "fresh"
			}
		case *ssa.Alloc:
			return "fresh"
		case *ssa.Call:
			// a helper of the same receiver whose every result is storage or built in that call
			f := x.Common().StaticCallee()
			if f != nil && f.Blocks != nil && InModule(f) && depth < 3 {
				// the callee's own receiver is this view only when it is a method invoked on it; for any other
				// function only freshly built results can be judged (storage of an unknown object cannot)
				var calleeRecv ssa.Value
				if f.Signature.Recv() != nil && len(x.Common().Args) > 0 && origin1(x.Common().Args[0]) == recv {
					calleeRecv = f.Params[0]
				}
				kind := ""
				for _, ret := range returnsOf(f) {
					if len(ret.Results) != 1 {
						return "other"
					}
					for _, o2 := range origins(ret.Results[0]) {
						k := classify(o2, calleeRecv, depth+1)
						if calleeRecv == nil && k != "fresh" {
							return "other"
						}
						if k != "fresh" && k != "storage" {
							return k
						}
						if kind == "" || kind == k {
							kind = k
						} else {
							return "other" // a helper mixing both cannot be judged at the call site
						}
					}
				}
				if kind != "" {
					return kind
				}
			}
		}
		if isImplValue(o) {
			return "storage"
		}
		if n, _, ok := loadedField(o); ok {
			return "field:" + n
		}
		return "other"
	}
	for _, ret := range returnsOf(un) {
		gather := false
		for _, o := range origins(ret.Results[0]) {
			k := classify(o, un.Params[0], 0)
			switch {
			case k == "fresh":
				gather = true
			case k == "storage":
			case k == "nil":
				bad = "may return nil"
			case strings.HasPrefix(k, "field:"):
				bad = fmt.Sprintf("returns the contents of field %s, a copy kept in the view object: later writes through other views are not seen", k[6:])
			default:
				bad = "returns a value that is neither storage nor a slice built in this call: " + o.String()
			}
		}
		// a gathered copy may be returned only for non-contiguous views (Go back-end: contiguous views must alias)
		if !at.cBack && gather && !contiguousGuard(ret.Block(), un.Params[0], false) {
			bad = "can return a gathered copy on a path where the view may be contiguous (only Contiguous()==false justifies a copy): writes through the unrolled slice of a contiguous view are lost"
		}
	}
	// the struct holds no element data besides Impl
	st := at.named.Underlying().(*types.Struct)
	for i := 0; i < st.NumFields(); i++ {
		f := st.Field(i)
		if f.Name() == "Impl" || f.Embedded() {
			continue
		}
		if _, isSlice := f.Type().Underlying().(*types.Slice); isSlice {
			bad = fmt.Sprintf("the view struct has a second element buffer (field %s): a view must hold nothing but strides and the shared storage", f.Name())
		}
	}
	if bad != "" {
		r.Fail(rule, tname+":Unroll:fresh-or-alias", p.Pos(un.Pos()), "Unroll "+bad)
	} else {
		r.OK(rule, tname+".Unroll: result is storage (contiguous) or gathered in this call; the view holds no second element buffer")
	}
}

// startsAtZeroIndex: the index vector is the zero index when the enumeration starts: NewIndex(0), make([]int, n), a
// literal of zeros, a leading part of one of those — or a parameter of an enumeration helper that every caller in the
// module gives such a vector. Empty string = yes.
func startsAtZeroIndex(p *Program, v ssa.Value, depth int) string {
	if depth > 3 {
		return "the index vector is handed through too many helpers"
	}
	for _, o := range origins(v) {
		// a leading part idx[:k] of an index vector starts where the vector starts
		for {
			sl, isSl := o.(*ssa.Slice)
			if !isSl || sl.Low != nil {
				break
			}
			if os := origins(sl.X); len(os) == 1 && os[0] != nil {
				o = os[0]
			} else {
				break
			}
		}
		if _, isMake := o.(*ssa.MakeSlice); isMake {
			continue // make([]int, n) is the zero index
		}
		if al, isAl := vecBaseDeep(o).(*ssa.Alloc); isAl {
			// literal: all element stores must be the constant 0
			zero := true
			for _, ref := range refsDeep(al) {
				if st, ok := ref.(*ssa.Store); ok {
					if c0, ok := constInt(st.Val); !ok || c0 != 0 {
						zero = false
					}
				}
			}
			if zero {
				continue
			}
		}
		if prm, isPrm := o.(*ssa.Parameter); isPrm {
			fn := prm.Parent()
			pi := -1
			for i, fp := range fn.Params {
				if fp == prm {
					pi = i
				}
			}
			nCallers := 0
			for _, caller := range p.SrcFuncs() {
				for _, cc := range callsIn(caller) {
					if cc.Common().StaticCallee() != fn || pi >= len(cc.Common().Args) {
						continue
					}
					nCallers++
					if w := startsAtZeroIndex(p, cc.Common().Args[pi], depth+1); w != "" {
						return w + " (as called from " + caller.Name() + ")"
					}
				}
			}
			if nCallers == 0 {
				return "the index vector is a parameter and no caller in the module hands it a start"
			}
			continue
		}
		ic, ok := o.(*ssa.Call)
		if !ok || callName(ic.Common()) != "NewIndex" {
			return "the index vector does not start from NewIndex(0)"
		}
		if z, ok := constInt(callArgs(ic.Common())[0]); !ok || z != 0 {
			return "the index vector does not start at the zero index"
		}
	}
	return ""
}

// checkEnumerationLoops (R02.7): every loop that advances an index vector with Increment(idx, shape) visits
// all Product(shape) elements: counter from 0, step 1, bound Product(shape) of the same shape, Increment on
// every iteration, idx starting at the zero index.
func checkEnumerationLoops(p *Program, r *Report, cOnly bool) {
	n := 0
	for _, fn := range dataFuncs(p) {
		inC := relPkg(fnPkg(fn).Path()) == "data/cdata"
		if cOnly != inC {
			continue
		}
		loops := findLoops(fn)
		k := 0
		for _, c := range callsIn(fn) {
			f := c.Common().StaticCallee()
			if f == nil || f.Name() != "Increment" {
				continue
			}
			l := innermostLoop(loops, c.Block())
			if l == nil {
				// the step of an index walker (`func (w *walker) next() { Increment(w.loc, w.shape); w.pos++ }`): the
				// enumeration is judged on the walker type and at every loop that is driven by it
				n += checkIndexWalker(p, r, fn, c)
				continue
			}
			n++
			k++
			key := fmt.Sprintf("%s:enumeration#%d", FuncKey(fn), k)
			bound, why := loopBound(l)
			bad := ""
			if bound == nil {
				bad = "the element loop is not `for pos := 0; pos < size; pos++`: " + why
			} else {
				// bound = Product(shape) with the same shape as Increment's second argument
				okB := false
				for _, o := range origins(bound) {
					if pc, ok := o.(*ssa.Call); ok && callName(pc.Common()) == "Product" {
						if sameValue(pc.Common().Args[0], c.Common().Args[1]) {
							okB = true
						}
					}
				}
				if !okB {
					bad = "the loop bound is not Product(shape) of the shape the index is incremented over"
				}
			}
			if bad == "" {
				for _, pr := range l.Header.Preds {
					if l.Blocks[pr] && !c.Block().Dominates(pr) {
						bad = "Increment is skipped on some iterations"
					}
				}
			}
			if bad == "" {
				// idx starts as NewIndex(0)
				bad = startsAtZeroIndex(p, c.Common().Args[0], 0)
			}
			if bad != "" {
				r.Fail("R02.7", key, p.Pos(c.Pos()), "row-major enumeration is incomplete: "+bad+" (some element of the view is never visited or visited twice)")
			} else {
				r.OK("R02.7", fmt.Sprintf("%s: visits Product(shape) elements from the zero index, one Increment per iteration", FuncKey(fn)))
			}
		}
	}
	// the loops may live in a shared helper of package data: count them for both back-ends
	if n == 0 {
		for _, fn := range dataFuncs(p) {
			for _, c := range callsIn(fn) {
				if f := c.Common().StaticCallee(); f != nil && f.Name() == "Increment" && innermostLoop(findLoops(fn), c.Block()) != nil {
					n++
				}
			}
		}
	}
	r.Floor("R02.7", "enumeration loops", n, 1)
}

// checkReductionInit (R02.8): Maximum/Minimum start their running value from an element of the view.
func checkReductionInit(p *Program, r *Report, cOnly bool) {
	n := 0
	for _, fn := range dataFuncs(p) {
		if fn.Name() != "Maximum" && fn.Name() != "Minimum" {
			continue
		}
		inC := relPkg(fnPkg(fn).Path()) == "data/cdata"
		if cOnly != inC {
			continue
		}
		n++
		key := FuncKey(fn) + ":initial-value"
		bad := ""
		isElem := func(v ssa.Value) bool {
			switch x := v.(type) {
			case *ssa.Call:
				nm := callName(x.Common())
				return nm == "Get" || nm == "Get1"
			case *ssa.UnOp:
				_, ok := x.X.(*ssa.IndexAddr)
				return ok && x.Op == token.MUL
			}
			return false
		}
		for _, l := range findLoops(fn) {
			h := l.Header
			ind := loopInduction(l)
			for _, ins := range h.Instrs {
				phi, ok := ins.(*ssa.Phi)
				if !ok {
					break
				}
				if phi == ind || isInt(phi.Type()) && phi.Comment == "rangeindex" {
					continue
				}
				// a running result: reaches a return
				reaches := false
				for _, ret := range returnsOf(fn) {
					for _, o := range origins(ret.Results[0]) {
						if o == nil {
							continue
						}
						if phiWeb(phi)[o] {
							reaches = true
						}
					}
					if phiWeb(phi)[ret.Results[0]] {
						reaches = true
					}
				}
				if !reaches {
					continue
				}
				for i, e := range phi.Edges {
					if l.Blocks[h.Preds[i]] {
						continue
					}
					for _, o := range origins(e) {
						if o == nil || !isElem(o) {
							bad = "the running value starts from a constant/zero value, not from an element of the view (wrong for all-negative or all-positive data)"
						}
					}
				}
			}
		}
		if bad != "" {
			r.Fail("R02.8", key, p.Pos(fn.Pos()), fn.Name()+": "+bad)
		} else {
			r.OK("R02.8", FuncKey(fn)+": running value initialised from an element")
		}
	}
	r.Floor("R02.8", "Maximum/Minimum implementations", n, 16)
	_ = cOnly
}

// sameFieldOrValue: a and b are the same value, or loads of the same field path of the same object.
func sameFieldOrValue(a, b ssa.Value) bool {
	if sameValue(a, b) {
		return true
	}
	return sameAccessPath(origin1(a), origin1(b), 0)
}

func sameAccessPath(a, b ssa.Value, depth int) bool {
	if a == nil || b == nil || depth > 8 {
		return false
	}
	if a == b {
		return true
	}
	switch x := a.(type) {
	case *ssa.UnOp:
		y, ok := b.(*ssa.UnOp)
		return ok && x.Op == y.Op && sameAccessPath(x.X, y.X, depth+1)
	case *ssa.FieldAddr:
		y, ok := b.(*ssa.FieldAddr)
		return ok && x.Field == y.Field && sameAccessPath(x.X, y.X, depth+1)
	case *ssa.Field:
		y, ok := b.(*ssa.Field)
		return ok && x.Field == y.Field && sameAccessPath(x.X, y.X, depth+1)
	}
	oa, ob := origin1(a), origin1(b)
	if (oa != a || ob != b) && oa != nil && ob != nil {
		return oa == ob
	}
	return false
}

// checkFlatDecoding (R02.9): a row-major position within a view is decoded with the offsets of that view's own
// shape: every IDivMod(pos, offs, dims) has offs = Offsets(dims) of the very dims it reduces modulo. (Decoding with
// the stored strides of the parent array enumerates a narrower view wrongly.)
func checkFlatDecoding(p *Program, r *Report, cOnly bool) {
	r.Rule("R02.9", "flat positions are decoded in the view's own shape: every IDivMod(pos, offs, dims) takes offs from Offsets(dims) of the same dims (not from the array's stored strides, which describe the parent)")
	n := 0
	for _, fn := range dataFuncs(p) {
		inC := relPkg(fnPkg(fn).Path()) == "data/cdata"
		if cOnly != inC {
			continue
		}
		k := 0
		for _, c := range callsIn(fn) {
			f := c.Common().StaticCallee()
			if f == nil || f.Name() != "IDivMod" || len(c.Common().Args) != 3 {
				continue
			}
			n++
			k++
			key := fmt.Sprintf("%s:flat-decoding#%d", FuncKey(fn), k)
			offs, dims := c.Common().Args[1], c.Common().Args[2]
			bad := ""
			for _, o := range origins(offs) {
				oc, ok := o.(*ssa.Call)
				if !ok || callName(oc.Common()) != "Offsets" || len(callArgs(oc.Common())) != 1 {
					bad = "the divisors are not the result of Offsets(shape)"
					if n2, _, okf := loadedField(o); okf {
						bad = fmt.Sprintf("the divisors are the array's stored field %s (strides of the parent's shape), not Offsets of the view's own shape", n2)
					}
					break
				}
				if !sameFieldOrValue(callArgs(oc.Common())[0], dims) {
					bad = "the divisors are Offsets of a different shape than the one the position is reduced modulo"
				}
			}
			if bad != "" {
				r.Fail("R02.9", key, p.Pos(c.Pos()), "a row-major position is decoded with the wrong offsets: "+bad+" (a view narrower than its parent in a non-leading dimension is gathered with repeated and skipped elements)")
			} else {
				r.OK("R02.9", FuncKey(fn)+": IDivMod(pos, Offsets(dims), dims)")
			}
		}
	}
	// the decoding may live in a shared helper of package data used by both back-ends: it is judged under C02, and
	// counts here so that the C back-end's rule does not lose its anchor
	if n == 0 {
		for _, fn := range dataFuncs(p) {
			for _, c := range callsIn(fn) {
				if f := c.Common().StaticCallee(); f != nil && f.Name() == "IDivMod" {
					n++
				}
			}
		}
	}
	r.Floor("R02.9", "flat-position decodings", n, 1)
}

// checkHelpersAlwaysWrite (R02.10): a whole-array helper func(dest, source, …) of package data, which exists to
// write dest, writes it on every path: every return is reached only through a loop that writes dest (element store
// through dest.Unroll(), dest.Set…) or through a call that hands dest on to another such helper. A shortcut return
// ("nothing to do for this argument value") leaves dest unwritten, which is not what visiting every element gives.
func checkHelpersAlwaysWrite(p *Program, r *Report) {
	r.Rule("R02.10", "whole-array helpers write their destination on every path: in every function of package data whose first parameter is an array it may write (effect summary), no return is reachable from the entry without passing a loop that writes that array or a call that hands it to another writing helper")
	eff := nil2eff(p)
	n := 0
	for _, fn := range p.PkgFuncs("data") {
		if fn.Blocks == nil || fn.Signature.Recv() != nil || len(fn.Params) < 2 || fn.Parent() != nil {
			continue
		}
		dest := fn.Params[0]
		if !isNDType(dest.Type()) || !isNDType(fn.Params[1].Type()) || eff.Mutates(fn, 0) == nil {
			continue
		}
		n++
		key := FuncKey(fn) + ":always-writes"
		loops := findLoops(fn)
		W := map[*ssa.BasicBlock]bool{}
		mark := func(b *ssa.BasicBlock) {
			if l := innermostLoop(loops, b); l != nil {
				for l.Parent != nil {
					l = l.Parent
				}
				W[l.Header] = true
			} else {
				W[b] = true
			}
		}
		isDest := func(v ssa.Value) bool {
			if v == nil {
				return false
			}
			if origin1(v) == ssa.Value(dest) {
				return true
			}
			// the cell a captured parameter is spilled into
			if a, ok := v.(*ssa.Alloc); ok {
				if sv := singleStoreCell(a); sv != nil && origin1(sv) == ssa.Value(dest) {
					return true
				}
			}
			return false
		}
		eachInstr(fn, func(b *ssa.BasicBlock, _ int, ins ssa.Instruction) {
			switch x := ins.(type) {
			case *ssa.Store:
				if ia, ok := x.Addr.(*ssa.IndexAddr); ok {
					if isDest(unrolledArray(ia.X, 0)) {
						mark(b)
					}
				}
			case ssa.CallInstruction:
				c := x.Common()
				if c.IsInvoke() && isDest(c.Value) {
					nm := c.Method.Name()
					if strings.HasPrefix(nm, "Set") || strings.HasPrefix(nm, "Apply") || nm == "CopyFrom" {
						mark(b)
					}
					return
				}
				if f := c.StaticCallee(); f != nil {
					for j, a := range c.Args {
						if isDest(a) && eff.Mutates(f, j) != nil {
							mark(b)
						}
						// a visitor closure that captures dest and writes it, handed to an enumeration helper
						// that calls it (ForEachIndex(shape, func(idx){ dest.Set(idx, …) }))
						if mc, ok := a.(*ssa.MakeClosure); ok {
							cl, _ := mc.Fn.(*ssa.Function)
							if cl == nil || !callsItsParam(f, j) {
								continue
							}
							for bi, bnd := range mc.Bindings {
								if isDest(bnd) && eff.MutatesFree(cl, bi) != nil {
									mark(b)
								}
							}
						}
					}
				}
			}
		})
		reach := reachable(fn.Blocks[0], func(from *ssa.BasicBlock, i int) bool { return W[from.Succs[i]] })
		// a return taken only when there is nothing to visit (size/len == 0) writes nothing, like the loop would
		emptyGuarded := func(b *ssa.BasicBlock) bool {
			for _, g := range guardsAt(b) {
				bo, ok := g.Cond.(*ssa.BinOp)
				if !ok {
					continue
				}
				isCount := func(v ssa.Value) bool {
					c, ok := origin1(v).(*ssa.Call)
					if !ok {
						return false
					}
					nm := callName(c.Common())
					return nm == "Product" || nm == "len" || strings.HasPrefix(nm, "Len")
				}
				c0, isC := constInt(bo.Y)
				if !isC || !isCount(bo.X) {
					continue
				}
				switch {
				case bo.Op == token.EQL && c0 == 0 && g.Val, bo.Op == token.NEQ && c0 == 0 && !g.Val,
					bo.Op == token.LEQ && c0 == 0 && g.Val, bo.Op == token.GTR && c0 == 0 && !g.Val,
					bo.Op == token.LSS && c0 == 1 && g.Val, bo.Op == token.GEQ && c0 == 1 && !g.Val:
					return true
				}
			}
			return false
		}
		var bad *ssa.Return
		if !W[fn.Blocks[0]] {
			for _, ret := range returnsOf(fn) {
				if reach[ret.Block()] && !W[ret.Block()] && !emptyGuarded(ret.Block()) {
					bad = ret
				}
			}
		}
		if bad != nil {
			r.Fail("R02.10", key, p.Pos(bad.Pos()), fmt.Sprintf("%s can return without having written its destination: on that path dest keeps its old contents, while visiting the elements one by one would have stored source's (transformed) values", fn.Name()))
		} else {
			r.OK("R02.10", FuncKey(fn)+": every return is reached through a write of dest")
		}
	}
	r.Floor("R02.10", "whole-array helpers with a destination", n, 6)
}

// callsItsParam: f invokes its j-th parameter (a function value) inside a loop or directly.
func callsItsParam(f *ssa.Function, j int) bool {
	if f == nil || f.Blocks == nil || j >= len(f.Params) {
		return false
	}
	for _, c := range callsIn(f) {
		if c.Common().Value == ssa.Value(f.Params[j]) {
			return true
		}
	}
	return false
}

// unrolledArray: the array whose storage the slice v is the Unroll() of — directly, or as a result of a module
// helper that returns the Unroll() of one of its parameters (nil results on its other paths are ignored).
func unrolledArray(v ssa.Value, depth int) ssa.Value {
	if depth > 2 {
		return nil
	}
	o := origin1(v)
	switch x := o.(type) {
	case *ssa.Call:
		if callName(x.Common()) == "Unroll" {
			return recvOf(x.Common())
		}
		return unrollThroughHelper(x, 0, depth)
	case *ssa.Extract:
		if c, ok := x.Tuple.(*ssa.Call); ok {
			return unrollThroughHelper(c, x.Index, depth)
		}
	}
	return nil
}

func unrollThroughHelper(c *ssa.Call, res int, depth int) ssa.Value {
	h := c.Common().StaticCallee()
	if h == nil || h.Blocks == nil || !InModule(h) {
		return nil
	}
	var prm *ssa.Parameter
	for _, ret := range returnsOf(h) {
		if res >= len(ret.Results) {
			return nil
		}
		for _, o := range origins(ret.Results[res]) {
			if o == nil || isNilConst(o) {
				continue
			}
			a := unrolledArray(o, depth+1)
			if a == nil {
				return nil
			}
			p2, ok := origin1(a).(*ssa.Parameter)
			if !ok || p2.Parent() != h || prm != nil && prm != p2 {
				return nil
			}
			prm = p2
		}
	}
	if prm == nil {
		return nil
	}
	for i, q := range h.Params {
		if q == prm && i < len(c.Common().Args) {
			return c.Common().Args[i]
		}
	}
	return nil
}

const openEndedMsg = "the window cut from the backing store has no upper end (Impl[a:]): it runs on to the end of the storage the view was sliced from, so a bulk operation through it reaches the elements that follow the view — cells no element-by-element visit of the view would touch"

// openEndedImplWindow: sl cuts `Impl[a:]` without an upper end and is used for anything but the source of a copy into
// a bounded destination.
func openEndedImplWindow(sl *ssa.Slice) bool {
	if sl.High != nil {
		return false
	}
	n := 0
	for _, ref := range refs(sl) {
		if _, dbg := ref.(*ssa.DebugRef); dbg {
			continue
		}
		n++
		c, ok := ref.(ssa.CallInstruction)
		if !ok {
			return true
		}
		bi, ok := c.Common().Value.(*ssa.Builtin)
		if !ok || bi.Name() != "copy" || c.Common().Args[1] != ssa.Value(sl) {
			return true
		}
		if d, ok := c.Common().Args[0].(*ssa.Slice); ok && d.High == nil && isImplValue(d.X) {
			return true
		}
	}
	return n == 0
}

// checkFlatPairing (R02.11): a fast path that pairs the flat storage of two arrays position by position
// (`copy(a.Unroll(), b.Unroll())`, a block copy between windows of the two backing stores, or one loop indexing both unrolled slices with the same counter) visits the same
// pairs of elements as the element-by-element definition only when the two arrays have the same shape. The function
// has to establish that: a is cut to b's shape (`x.Slice(loc, b.Shape(), step)`), a guard compares the two shapes,
// or the function's own general path pairs a and b directly by one index vector (`a.Set(idx, f(b.Get(idx)))`), so
// that same shape is the contract of both paths alike.
func checkFlatPairing(p *Program, r *Report, cOnly bool) {
	r.Rule("R02.11", "flat pairings are shape-safe: where a fast path pairs the unrolled storage of two arrays position by position, the destination is a view cut to the source's shape, or a guard compares the two shapes, or the function's general path pairs the same two arrays by one index vector — otherwise rows of a narrower source spill into each other (the general path goes through a view of the destination, the fast path does not)")
	n := 0
	var unrollRecvD func(v ssa.Value, depth int) ssa.Value
	unrollRecvD = func(v ssa.Value, depth int) ssa.Value {
		for _, o := range origins(v) {
			if c, ok := o.(*ssa.Call); ok && callName(c.Common()) == "Unroll" && recvOf(c.Common()) != nil {
				return recvOf(c.Common())
			}
			// handed out by a helper of the package through one of its results
			// (`destSlice, sourceSlice, ok := unrolledPair(dest, source)`): the argument whose storage that result is
			var hc *ssa.Call
			ri := 0
			switch x := o.(type) {
			case *ssa.Extract:
				hc, _ = x.Tuple.(*ssa.Call)
				ri = x.Index
			case *ssa.Call:
				hc = x
			}
			if hc == nil || depth > 2 {
				continue
			}
			h := hc.Common().StaticCallee()
			if h == nil || h.Blocks == nil || !InModule(h) || h.Signature.Recv() != nil || len(h.Params) != len(hc.Common().Args) {
				continue
			}
			var owner ssa.Value
			consistent := true
			for _, ret := range returnsOf(h) {
				if ri >= len(ret.Results) {
					consistent = false
					break
				}
				if isNilConst(origin1OrSelf(ret.Results[ri])) {
					continue // the "not available" return
				}
				rv := unrollRecvD(ret.Results[ri], depth+1)
				prm, isPrm := origin1OrSelf(rv).(*ssa.Parameter)
				if rv == nil || !isPrm || prm.Parent() != h {
					consistent = false
					break
				}
				for i, q := range h.Params {
					if q == prm {
						if owner != nil && owner != hc.Common().Args[i] {
							consistent = false
						}
						owner = hc.Common().Args[i]
					}
				}
			}
			if consistent && owner != nil {
				return owner
			}
		}
		return nil
	}
	unrollRecv := func(v ssa.Value) ssa.Value { return unrollRecvD(v, 0) }
	// the flat storage a slice value stands for: x.Unroll(), or a window of x.Impl
	flatOwner := func(v ssa.Value) ssa.Value {
		if rb := unrollRecv(v); rb != nil {
			return rb
		}
		for _, o := range origins(v) {
			if sl, ok := o.(*ssa.Slice); ok && isImplValue(sl.X) {
				return implOwner(sl.X)
			}
		}
		return nil
	}
	type cand struct {
		fn    *ssa.Function
		write ssa.Instruction
		recv  ssa.Value
	}
	var cands []cand
	seenWrite := map[ssa.Instruction]bool{}
	for _, s := range unrollSites(p) {
		if s.write != nil && s.fn != nil && !seenWrite[s.write] {
			seenWrite[s.write] = true
			cands = append(cands, cand{s.fn, s.write, s.recv})
		}
	}
	// block copies between windows of two backing stores
	for _, fn := range dataFuncs(p) {
		for _, c := range callsIn(fn) {
			bi, ok := c.Common().Value.(*ssa.Builtin)
			if !ok || bi.Name() != "copy" || len(c.Common().Args) != 2 || seenWrite[c] {
				continue
			}
			if a := flatOwner(c.Common().Args[0]); a != nil && unrollRecv(c.Common().Args[0]) == nil {
				seenWrite[c] = true
				cands = append(cands, cand{fn, c, a})
			}
		}
	}
	for _, s := range cands {
		if s.fn == nil || fnPkg(s.fn) == nil {
			continue
		}
		rel := relPkg(fnPkg(s.fn).Path())
		if cOnly != (rel == "data/cdata") || !strings.HasPrefix(rel, "data") {
			continue
		}
		A := s.recv
		var B ssa.Value
		switch w := s.write.(type) {
		case ssa.CallInstruction:
			if bi, ok := w.Common().Value.(*ssa.Builtin); ok && bi.Name() == "copy" && len(w.Common().Args) == 2 {
				B = flatOwner(w.Common().Args[1])
				if B != nil && sameObj(B, A) {
					B = nil // a move within one array
				}
			}
		case *ssa.Store:
			ia, ok := w.Addr.(*ssa.IndexAddr)
			if !ok {
				break
			}
			// the value stored reads another unrolled slice at the same position
			seen := map[ssa.Value]bool{}
			var walk func(v ssa.Value, depth int)
			walk = func(v ssa.Value, depth int) {
				if v == nil || seen[v] || depth > 6 || B != nil {
					return
				}
				seen[v] = true
				switch x := v.(type) {
				case *ssa.UnOp:
					if x.Op == token.MUL {
						if ia2, ok := x.X.(*ssa.IndexAddr); ok && sameValue(ia2.Index, ia.Index) {
							if rb := unrollRecv(ia2.X); rb != nil && !sameObj(rb, A) {
								B = rb
								return
							}
						}
						return
					}
					walk(x.X, depth+1)
				case *ssa.BinOp:
					walk(x.X, depth+1)
					walk(x.Y, depth+1)
				case *ssa.Convert:
					walk(x.X, depth+1)
				case *ssa.Call:
					for _, a := range x.Common().Args {
						walk(a, depth+1)
					}
				case *ssa.Phi:
					for _, e := range x.Edges {
						walk(e, depth+1)
					}
				}
			}
			walk(w.Val, 0)
		}
		if B == nil {
			continue
		}
		n++
		key := fmt.Sprintf("%s:flat-pairing:%s<-%s", FuncKey(s.fn), describeObj(A), describeObj(B))
		shapeOf := func(v ssa.Value, arr ssa.Value) bool {
			for _, o := range origins(v) {
				if c, ok := o.(*ssa.Call); ok && callName(c.Common()) == "Shape" && recvOf(c.Common()) != nil && sameObj(recvOf(c.Common()), arr) {
					return true
				}
				if u, ok := o.(*ssa.UnOp); ok && u.Op == token.MUL {
					if fa, ok := u.X.(*ssa.FieldAddr); ok {
						if name, base, _ := fieldName(fa); name == "Dims" && sameObj(base, arr) {
							return true
						}
					}
				}
			}
			return false
		}
		why := ""
		// (1) the destination is a view cut to the source's shape
		for _, o := range origins(A) {
			if c, ok := stripConv(o).(*ssa.Call); ok && callName(c.Common()) == "Slice" && len(callArgs(c.Common())) == 3 && shapeOf(callArgs(c.Common())[1], B) {
				why = "the destination is a view cut to the source's shape"
			}
		}
		// (3) a guard compares the two shapes
		if why == "" {
			for _, g := range guardsAt(s.write.Block()) {
				c, ok := g.Cond.(*ssa.Call)
				if !ok || !g.Val {
					continue
				}
				hasA, hasB := false, false
				for _, a := range c.Common().Args {
					if shapeOf(a, A) {
						hasA = true
					}
					if shapeOf(a, B) {
						hasB = true
					}
				}
				if hasA && hasB {
					why = "a guard compares the two shapes (" + callName(c.Common()) + ")"
				}
			}
		}
		// (2) the general path pairs the same arrays by one index vector
		if why == "" {
			// … in the function itself, or in a visitor closure it hands to an enumeration helper
			outer := func(v ssa.Value) ssa.Value {
				for _, o := range origins(v) {
					if u, ok := o.(*ssa.UnOp); ok {
						if _, isFree := u.X.(*ssa.FreeVar); isFree {
							if vs := resolveCapturedLoad(u); len(vs) == 1 {
								return vs[0]
							}
						}
					}
				}
				return v
			}
			bodies := []*ssa.Function{s.fn}
			eachInstr(s.fn, func(_ *ssa.BasicBlock, _ int, ins ssa.Instruction) {
				if mc, ok := ins.(*ssa.MakeClosure); ok {
					if f, ok := mc.Fn.(*ssa.Function); ok {
						bodies = append(bodies, f)
					}
				}
			})
			for _, body := range bodies {
				for _, c := range callsIn(body) {
					if callName(c.Common()) != "Set" || recvOf(c.Common()) == nil || !sameObj(outer(recvOf(c.Common())), A) {
						continue
					}
					idx := callArgs(c.Common())[0]
					for _, c2 := range callsIn(body) {
						if callName(c2.Common()) == "Get" && recvOf(c2.Common()) != nil && sameObj(outer(recvOf(c2.Common())), B) && sameValue(callArgs(c2.Common())[0], idx) {
							why = "the general path of the function pairs the two arrays by one index vector (same shape is the contract of both paths)"
						}
					}
				}
			}
		}
		if why != "" {
			r.OK("R02.11", fmt.Sprintf("%s: %s.Unroll() paired with %s.Unroll(): %s", FuncKey(s.fn), describeObj(A), describeObj(B), why))
		} else {
			r.Fail("R02.11", key, p.Pos(s.write.Pos()), fmt.Sprintf("the fast path pairs the flat storage of %s and %s position by position, but nothing makes their shapes agree: the destination is not cut to the source's shape, no guard compares the shapes, and the general path does not pair them by one index vector. With a source narrower in a trailing axis its rows run into each other in the destination, where the element-by-element copy would fill the leading columns of each row", describeObj(A), describeObj(B)))
		}
	}
	r.Floor("R02.11", "flat pairings of two arrays", n, 8)
}

// checkContiguousIgnoresUnitAxes (R02.12): an axis of extent one has no neighbours, so neither its step nor its
// stride can separate elements: in Contiguous() every branch that reads Step[i] or Offset[i] is taken only for
// axes with Dims[i] > 1. A stride test applied to unit axes as well makes the predicate reject views whose
// elements are adjacent — ReshapeFast then fails on them and Unroll/Reshape copy instead of aliasing.
func checkContiguousIgnoresUnitAxes(p *Program, r *Report) {
	r.Rule("R02.12", "the contiguity predicate ignores axes of extent one: in Contiguous() every conditional that reads Step[i] or Offset[i] executes only under Dims[i] > 1 for the same i (an axis with a single position cannot separate elements, whatever its step) — otherwise contiguous views are reported non-contiguous: ReshapeFast rejects them and Unroll/Reshape return copies where the property demands an alias")
	n := 0
	for _, fn := range p.PkgFuncs("data") {
		if fn.Name() != "Contiguous" || fn.Signature.Recv() == nil || !isCommonStruct(fn.Signature.Recv().Type()) {
			continue
		}
		// element loads of a field: field name and index value
		elemOf := func(v ssa.Value) (string, ssa.Value) {
			ld, ok := v.(*ssa.UnOp)
			if !ok || ld.Op != token.MUL {
				return "", nil
			}
			ia, ok := ld.X.(*ssa.IndexAddr)
			if !ok {
				return "", nil
			}
			for _, o := range origins(ia.X) {
				if o == nil {
					continue
				}
				if nm, _, ok := loadedField(o); ok {
					return nm, ia.Index
				}
			}
			return "", nil
		}
		longAxis := func(g Guard) ssa.Value {
			bo, ok := g.Cond.(*ssa.BinOp)
			if !ok {
				return nil
			}
			x, y, op := bo.X, bo.Y, bo.Op
			if _, isC := constInt(x); isC {
				x, y = y, x
				switch op {
				case token.LSS:
					op = token.GTR
				case token.LEQ:
					op = token.GEQ
				case token.GTR:
					op = token.LSS
				case token.GEQ:
					op = token.LEQ
				}
			}
			c, isC := constInt(y)
			nm, idx := elemOf(x)
			if !isC || nm != "Dims" {
				return nil
			}
			holds := false
			switch {
			case op == token.GTR && c == 1, op == token.GEQ && c == 2, op == token.NEQ && c == 1:
				holds = g.Val
			case op == token.LEQ && c == 1, op == token.LSS && c == 2, op == token.EQL && c == 1:
				holds = !g.Val
			}
			if !holds {
				return nil
			}
			return idx
		}
		k := 0
		eachInstr(fn, func(b *ssa.BasicBlock, _ int, ins ssa.Instruction) {
			iff, ok := ins.(*ssa.If)
			if !ok {
				return
			}
			// stride fields read by this condition
			var reads []struct {
				field string
				idx   ssa.Value
			}
			dependsOn(iff.Cond, func(x ssa.Value) bool {
				if nm, idx := elemOf(x); nm == "Step" || nm == "Offset" || nm == "OffsetStep" {
					reads = append(reads, struct {
						field string
						idx   ssa.Value
					}{nm, idx})
				}
				// a helper method of the struct that is handed the axis and reads its stride there
				// (`nd.breaksRun(i, run)`): a read of that field at the argument, made where the helper is called
				if c, ok := x.(*ssa.Call); ok {
					if h := c.Common().StaticCallee(); h != nil && h.Blocks != nil && fnPkg(h) == fnPkg(fn) && h != fn && len(h.Params) == len(c.Common().Args) {
						eachInstr(h, func(_ *ssa.BasicBlock, _ int, hi ssa.Instruction) {
							ld, ok := hi.(*ssa.UnOp)
							if !ok {
								return
							}
							nm, idx := elemOf(ld)
							if nm != "Step" && nm != "Offset" && nm != "OffsetStep" {
								return
							}
							if prm, isP := origin1OrSelf(idx).(*ssa.Parameter); isP {
								for k2, q := range h.Params {
									if q == prm {
										reads = append(reads, struct {
											field string
											idx   ssa.Value
										}{nm, c.Common().Args[k2]})
									}
								}
							}
						})
					}
				}
				return false
			}, map[ssa.Value]bool{})
			for _, rd := range reads {
				k++
				n++
				key := fmt.Sprintf("%s:unit-axis#%d", FuncKey(fn), k)
				guarded := false
				for _, g := range guardsAt(b) {
					if idx := longAxis(g); idx != nil && (idx == rd.idx || sameValue(idx, rd.idx)) {
						guarded = true
					}
				}
				if guarded {
					r.OK("R02.12", fmt.Sprintf("%s: the test of %s[i] applies only to axes with Dims[i] > 1", FuncKey(fn), rd.field))
				} else {
					r.Fail("R02.12", key, p.Pos(iff.Cond.Pos()), fmt.Sprintf("Contiguous() tests %s[i] for axes of extent one as well: a view stepped along an axis with a single position has adjacent elements but is reported non-contiguous, so ReshapeFast fails on it and Unroll/Reshape return a copy instead of an alias of the storage", rd.field))
				}
			}
		})
	}
	r.Floor("R02.12", "stride tests in Contiguous implementations", n, 9)
}

// checkIndexWalker: `step` is a method that advances an index kept in its receiver with Increment(w.loc, w.shape)
// outside any loop. The enumeration is complete if (a) the step also advances a position counter field by one, on
// every path; (b) a predicate method of the type returns counter < size; (c) every construction of the type sets
// counter = 0, size = Product(shape) of the shape it stores, and the index to a zero vector; (d) every loop whose
// condition is the predicate calls the step on every iteration, on the same walker. Returns the obligations made.
func checkIndexWalker(p *Program, r *Report, step *ssa.Function, inc ssa.CallInstruction) int {
	key := FuncKey(step)
	if step.Signature.Recv() == nil || len(step.Params) == 0 {
		r.Fail("R02.7", key+":walker", p.Pos(inc.Pos()), "row-major enumeration is incomplete: Increment is called outside any element loop, in a function that is not a method of an index walker")
		return 1
	}
	recv := step.Params[0]
	fieldOfRecv := func(v ssa.Value) int {
		for _, o := range origins(v) {
			if ld, ok := o.(*ssa.UnOp); ok && ld.Op == token.MUL {
				if fa, ok := ld.X.(*ssa.FieldAddr); ok && origin1(fa.X) == ssa.Value(recv) {
					return fa.Field
				}
			}
		}
		return -1
	}
	locF, shapeF := fieldOfRecv(inc.Common().Args[0]), fieldOfRecv(inc.Common().Args[1])
	if locF < 0 || shapeF < 0 {
		r.Fail("R02.7", key+":walker", p.Pos(inc.Pos()), "row-major enumeration is incomplete: Increment outside a loop does not advance an index and shape kept in the method's receiver")
		return 1
	}
	n := 0
	rets := returnsOf(step)
	domAll := func(b *ssa.BasicBlock) bool {
		for _, ret := range rets {
			if !b.Dominates(ret.Block()) {
				return false
			}
		}
		return true
	}
	// (a) counter advanced by one on every path
	posF := -1
	eachInstr(step, func(b *ssa.BasicBlock, _ int, ins ssa.Instruction) {
		st, ok := ins.(*ssa.Store)
		if !ok {
			return
		}
		fa, ok := st.Addr.(*ssa.FieldAddr)
		if !ok || origin1(fa.X) != ssa.Value(recv) {
			return
		}
		add, ok := st.Val.(*ssa.BinOp)
		if !ok || add.Op != token.ADD {
			return
		}
		if c, isC := constInt(add.Y); !isC || c != 1 || fieldOfRecv(add.X) != fa.Field {
			return
		}
		if domAll(b) {
			posF = fa.Field
		}
	})
	n++
	if posF < 0 || !domAll(inc.Block()) {
		r.Fail("R02.7", key+":walker-step", p.Pos(inc.Pos()), "row-major enumeration is incomplete: the walker's step does not, on every path, both Increment the index and advance its position counter by one (some element of the view is never visited or visited twice)")
		return n
	}
	r.OK("R02.7", fmt.Sprintf("%s: the walker's step increments the index and advances the position by one on every path", key))
	// (b) the predicate
	wtype := recv.Type()
	var more *ssa.Function
	sizeF := -1
	for _, fn := range dataFuncs(p) {
		if fn.Signature.Recv() == nil || len(fn.Params) == 0 || !types.Identical(fn.Params[0].Type(), wtype) || fn == step {
			continue
		}
		rs := returnsOf(fn)
		if len(rs) != 1 || len(rs[0].Results) != 1 {
			continue
		}
		bo, ok := rs[0].Results[0].(*ssa.BinOp)
		if !ok || bo.Op != token.LSS {
			continue
		}
		fieldIn := func(v ssa.Value) int {
			for _, o := range origins(v) {
				if ld, ok := o.(*ssa.UnOp); ok && ld.Op == token.MUL {
					if fa, ok := ld.X.(*ssa.FieldAddr); ok && origin1(fa.X) == ssa.Value(fn.Params[0]) {
						return fa.Field
					}
				}
			}
			return -1
		}
		if fieldIn(bo.X) == posF && fieldIn(bo.Y) >= 0 {
			more, sizeF = fn, fieldIn(bo.Y)
		}
	}
	n++
	if more == nil {
		r.Fail("R02.7", key+":walker-predicate", p.Pos(step.Pos()), "row-major enumeration is incomplete: no method of the walker compares its position counter with its size (position < size)")
		return n
	}
	r.OK("R02.7", fmt.Sprintf("%s: %s() is position < size", key, more.Name()))
	// (c) constructions
	elemT := wtype
	if pt, ok := wtype.Underlying().(*types.Pointer); ok {
		elemT = pt.Elem()
	}
	nCtor := 0
	for _, fn := range dataFuncs(p) {
		eachInstr(fn, func(_ *ssa.BasicBlock, _ int, ins ssa.Instruction) {
			a, ok := ins.(*ssa.Alloc)
			if !ok || !types.Identical(a.Type().Underlying().(*types.Pointer).Elem(), elemT) {
				return
			}
			stored := map[int][]ssa.Value{}
			for _, ref := range refs(a) {
				if fa, ok := ref.(*ssa.FieldAddr); ok {
					for _, r2 := range refs(fa) {
						if st, ok := r2.(*ssa.Store); ok && st.Addr == ssa.Value(fa) {
							stored[fa.Field] = append(stored[fa.Field], st.Val)
						}
					}
				}
			}
			if len(stored) == 0 {
				return
			}
			nCtor++
			n++
			ckey := fmt.Sprintf("%s:walker-construction#%d", FuncKey(fn), nCtor)
			bad := ""
			if vs := stored[posF]; len(vs) > 0 {
				for _, v := range vs {
					if c, isC := constInt(v); !isC || c != 0 {
						bad = "the position counter does not start at 0"
					}
				}
			}
			if bad == "" {
				okSize := len(stored[sizeF]) > 0
				for _, v := range stored[sizeF] {
					good := false
					for _, o := range origins(v) {
						if pc, ok := o.(*ssa.Call); ok && callName(pc.Common()) == "Product" {
							for _, sh := range stored[shapeF] {
								if sameValue(pc.Common().Args[0], sh) {
									good = true
								}
							}
						}
					}
					if !good {
						okSize = false
					}
				}
				if !okSize {
					bad = "the size is not Product(shape) of the shape the index is incremented over"
				}
			}
			if bad == "" {
				if len(stored[locF]) == 0 {
					bad = "the index vector is not set"
				}
				for _, v := range stored[locF] {
					if w := startsAtZeroIndex(p, v, 0); w != "" {
						bad = w
					}
				}
			}
			if bad != "" {
				r.Fail("R02.7", ckey, p.Pos(a.Pos()), "row-major enumeration is incomplete: "+bad+" (some element of the view is never visited or visited twice)")
			} else {
				r.OK("R02.7", fmt.Sprintf("%s: a walker starts at position 0 of Product(shape) positions, from the zero index", FuncKey(fn)))
			}
		})
	}
	if nCtor == 0 {
		n++
		r.Undecided("R02.7", key+":walker-construction", p.Pos(step.Pos()), "no construction of the walker type found")
	}
	// (d) loops driven by the walker
	for _, fn := range dataFuncs(p) {
		k := 0
		for _, l := range findLoops(fn) {
			iff, ok := l.Header.Instrs[len(l.Header.Instrs)-1].(*ssa.If)
			if !ok {
				continue
			}
			mc, ok := iff.Cond.(*ssa.Call)
			if !ok || mc.Common().StaticCallee() != more || !l.Blocks[l.Header.Succs[0]] {
				continue
			}
			k++
			n++
			lkey := fmt.Sprintf("%s:enumeration#w%d", FuncKey(fn), k)
			wv := mc.Common().Args[0]
			stepped := false
			for b := range l.Blocks {
				for _, ins := range b.Instrs {
					c, ok := ins.(ssa.CallInstruction)
					if !ok || c.Common().StaticCallee() != step || !sameValue(c.Common().Args[0], wv) {
						continue
					}
					all := true
					for _, pr := range l.Header.Preds {
						if l.Blocks[pr] && !b.Dominates(pr) {
							all = false
						}
					}
					if all {
						stepped = true
					}
				}
			}
			if !stepped {
				r.Fail("R02.7", lkey, p.Pos(iff.Pos()), "row-major enumeration is incomplete: the walker's step is skipped on some iterations of the loop it drives (an element is visited twice, or the loop never ends)")
			} else {
				r.OK("R02.7", fmt.Sprintf("%s: visits Product(shape) elements from the zero index, one Increment per iteration", FuncKey(fn)))
			}
		}
	}
	return n
}

// checkContiguousCoversAllAxes (R02.13): the contiguity predicate looks at every axis. The loop in which Contiguous()
// tests Step[i] runs i over the whole range of axes — down from len−1 while i >= 0, up from 0 while i < len, or a
// range loop — or the axis it leaves out is tested by a conditional of its own. A scan that stops short of the
// outermost axis reports a view stepped along that axis (every stepped series) as contiguous.
func checkContiguousCoversAllAxes(p *Program, r *Report) {
	r.Rule("R02.13", "the contiguity predicate looks at every axis: the loop of Contiguous() whose conditionals read Step[i] runs i over all axes (from len−1 down while i >= 0, from 0 up while i < len, or a range loop), or the axis it leaves out has a Step test of its own — a scan that stops before the outermost axis reports every view stepped along it as contiguous, and each fast path then writes one consecutive run instead of the addressed elements")
	n := 0
	for _, fn := range p.PkgFuncs("data") {
		if fn.Name() != "Contiguous" || fn.Signature.Recv() == nil || !isCommonStruct(fn.Signature.Recv().Type()) {
			continue
		}
		key := FuncKey(fn) + ":all-axes"
		loops := findLoops(fn)
		stepIndex := func(iff *ssa.If) ssa.Value {
			var idx ssa.Value
			dependsOn(iff.Cond, func(x ssa.Value) bool {
				if ld, ok := x.(*ssa.UnOp); ok && ld.Op == token.MUL {
					if ia, ok := ld.X.(*ssa.IndexAddr); ok {
						for _, o := range origins(ia.X) {
							if o == nil {
								continue
							}
							if nm, _, ok := loadedField(o); ok && nm == "Step" {
								idx = ia.Index
							}
						}
					}
				}
				// the test may sit in a helper method of the struct that is handed the axis (`nd.breaksRun(i, run)`)
				if c, ok := x.(*ssa.Call); ok {
					if h := c.Common().StaticCallee(); h != nil && h.Blocks != nil && fnPkg(h) == fnPkg(fn) && len(h.Params) == len(c.Common().Args) {
						eachInstr(h, func(_ *ssa.BasicBlock, _ int, hi ssa.Instruction) {
							ia, ok := hi.(*ssa.IndexAddr)
							if !ok {
								return
							}
							for _, o := range origins(ia.X) {
								if o == nil {
									continue
								}
								if nm, _, ok := loadedField(o); ok && nm == "Step" {
									if prm, isP := origin1OrSelf(ia.Index).(*ssa.Parameter); isP {
										for k, q := range h.Params {
											if q == prm {
												idx = c.Common().Args[k]
											}
										}
									}
								}
							}
						})
					}
				}
				return false
			}, map[ssa.Value]bool{})
			return idx
		}
		isLen := func(v ssa.Value) bool {
			c, ok := origin1(v).(*ssa.Call)
			if !ok {
				return false
			}
			b, ok := c.Common().Value.(*ssa.Builtin)
			if !ok || b.Name() != "len" {
				return false
			}
			nm, _, okf := loadedField(origin1(c.Common().Args[0]))
			return okf && (nm == "Dims" || nm == "Step" || nm == "Offset" || nm == "OriginalDims" || nm == "OffsetStep")
		}
		var inLoop *Loop
		var inLoopIdx ssa.Value
		constAxes := map[int64]bool{}
		eachInstr(fn, func(b *ssa.BasicBlock, _ int, ins ssa.Instruction) {
			iff, ok := ins.(*ssa.If)
			if !ok {
				return
			}
			idx := stepIndex(iff)
			if idx == nil {
				return
			}
			if c, ok := constInt(origin1OrSelf(idx)); ok {
				constAxes[c] = true
				return
			}
			if l := innermostLoop(loops, b); l != nil && inLoop == nil {
				inLoop, inLoopIdx = l, idx
			}
		})
		if inLoop == nil {
			r.Unsupported("R02.13", FuncKey(fn)+" tests the strides outside any loop: the axes covered are not worked out for this form")
			continue
		}
		n++
		// the loop's counter and the range it runs over
		h := inLoop.Header
		iff, _ := h.Instrs[len(h.Instrs)-1].(*ssa.If)
		var cond *ssa.BinOp
		if iff != nil {
			cond, _ = iff.Cond.(*ssa.BinOp)
		}
		verdict, missing := "", ""
		if cond != nil && len(h.Succs) == 2 && inLoop.Blocks[h.Succs[0]] && !inLoop.Blocks[h.Succs[1]] {
			var phi *ssa.Phi
			var tested ssa.Value = cond.X
			if q, ok := cond.X.(*ssa.Phi); ok {
				phi = q
			} else if bo, ok := cond.X.(*ssa.BinOp); ok && bo.Op == token.ADD {
				// range loop: t = phi + 1; t < len
				if q, ok := bo.X.(*ssa.Phi); ok {
					if c, ok := constInt(bo.Y); ok && c == 1 {
						phi = q
					}
				}
			}
			if phi != nil && phi.Block() == h {
				var init, next ssa.Value
				for i, pr := range h.Preds {
					if inLoop.Blocks[pr] {
						next = phi.Edges[i]
					} else {
						init = phi.Edges[i]
					}
				}
				stepOf := func(v ssa.Value) int64 {
					bo, ok := v.(*ssa.BinOp)
					if !ok || bo.X != ssa.Value(phi) && !(tested != ssa.Value(phi) && v == tested) {
						return 0
					}
					c, ok := constInt(bo.Y)
					if !ok {
						return 0
					}
					if bo.Op == token.SUB {
						return -c
					}
					if bo.Op == token.ADD {
						return c
					}
					return 0
				}
				bound, isConstBound := constInt(cond.Y)
				switch st := stepOf(next); {
				case st == -1 && tested == ssa.Value(phi) && sameValue(inLoopIdx, phi):
					// from len−1 down
					okInit := false
					if bo, ok := origin1OrSelf(init).(*ssa.BinOp); ok && bo.Op == token.SUB && isLen(bo.X) {
						if c, ok := constInt(bo.Y); ok && c == 1 {
							okInit = true
						}
					}
					switch {
					case !okInit:
						verdict = "unknown"
					case isConstBound && (cond.Op == token.GEQ && bound == 0 || cond.Op == token.GTR && bound == -1):
						verdict = "all"
					case isConstBound && (cond.Op == token.GTR && bound == 0 || cond.Op == token.GEQ && bound == 1):
						verdict, missing = "short", "0"
					default:
						verdict = "unknown"
					}
				case st == 1:
					// from 0 (or −1 for the range idiom) up while < len
					i0, okc := constInt(origin1OrSelf(init))
					full := cond.Op == token.LSS && isLen(cond.Y)
					switch {
					case tested == ssa.Value(phi) && okc && i0 == 0 && full && sameValue(inLoopIdx, phi):
						verdict = "all"
					case tested != ssa.Value(phi) && okc && i0 == -1 && full && sameValue(inLoopIdx, tested):
						verdict = "all"
					case tested == ssa.Value(phi) && okc && i0 == 1 && full:
						verdict, missing = "short", "0"
					default:
						verdict = "unknown"
					}
				default:
					verdict = "unknown"
				}
			}
		}
		switch {
		case verdict == "all":
			r.OK("R02.13", FuncKey(fn)+": the stride tests run over every axis")
		case verdict == "short" && missing == "0" && constAxes[0]:
			r.OK("R02.13", FuncKey(fn)+": the stride tests run over the inner axes, and axis 0 has a Step test of its own")
		case verdict == "short":
			r.Fail("R02.13", key, p.Pos(fn.Pos()), "the loop in which Contiguous() tests the strides never reaches axis "+missing+" and no other conditional reads Step["+missing+"]: a view stepped along that axis (every stepped 1-D series, every `rows[::2]`) is reported contiguous, so Apply, ApplySlice, CopyFrom and Unroll take the block path and touch one consecutive run of storage instead of the addressed elements")
		default:
			n--
			r.Unsupported("R02.13", FuncKey(fn)+": the range of the loop that tests the strides is not of a recognised form (down from len−1 while >= 0, up from 0 while < len, range)")
		}
	}
	r.Floor("R02.13", "Contiguous implementations", n, 9)
}

// checkArgmaxRunningBest (R02.14): Argmax compares each entry with the best one so far. In the loop that updates the
// position it returns, the comparison that decides an update has on its other side the running maximum — a variable
// carried round the loop that is set to the entry on the very branch that updates the position — or the entry at the
// position held so far (vector[res]). Comparing with anything else (the previous entry, a fixed entry) gives the
// position of the last rise, not of the largest entry, for every vector that rises again after its peak.
func checkArgmaxRunningBest(p *Program, r *Report) {
	r.Rule("R02.14", "Argmax compares with the best so far: in data.Argmax (or the helper it hands its vector to) every update of the returned position is decided by a comparison of the current entry with a loop-carried variable that the same branch sets to that entry, or with the entry at the position held so far — not with the preceding entry or any other value")
	pk := p.SSAPkg[modPath+"/data"]
	fn := pk.Func("Argmax")
	if fn == nil {
		r.Undecided("R02.14", "data.Argmax", "-", "data.Argmax not found")
		return
	}
	// follow a delegation to a helper (as R02.6 does)
	prm := fn.Params[0]
	retIdx := 0
	for depth := 0; depth < 2; depth++ {
		rets := returnsOf(fn)
		if len(rets) != 1 || retIdx >= len(rets[0].Results) {
			break
		}
		var call *ssa.Call
		ri := 0
		switch x := origin1OrSelf(rets[0].Results[retIdx]).(type) {
		case *ssa.Extract:
			call, _ = x.Tuple.(*ssa.Call)
			ri = x.Index
		case *ssa.Call:
			call = x
		}
		if call == nil || call.Common().StaticCallee() == nil || call.Common().StaticCallee().Blocks == nil || !InModule(call.Common().StaticCallee()) {
			break
		}
		k := -1
		for i, a := range call.Common().Args {
			if origin1OrSelf(a) == ssa.Value(prm) {
				k = i
			}
		}
		h := call.Common().StaticCallee()
		if k < 0 || k >= len(h.Params) {
			break
		}
		fn, prm, retIdx = h, h.Params[k], ri
	}
	key := "data.Argmax:running-best"
	loops := findLoops(fn)
	n := 0
	bad := ""
	for _, ret := range returnsOf(fn) {
		if retIdx >= len(ret.Results) {
			continue
		}
		// the loop-header phis the returned value comes from (through join phis)
		var heads []*ssa.Phi
		seenPhi := map[ssa.Value]bool{}
		var find func(v ssa.Value, depth int)
		find = func(v ssa.Value, depth int) {
			ph, ok := v.(*ssa.Phi)
			if !ok || seenPhi[v] || depth > 6 {
				return
			}
			seenPhi[v] = true
			if l := innermostLoop(loops, ph.Block()); l != nil && ph.Block() == l.Header {
				heads = append(heads, ph)
				return
			}
			for _, e := range ph.Edges {
				find(e, depth+1)
			}
		}
		find(ret.Results[retIdx], 0)
		for _, res := range heads {
			l := innermostLoop(loops, res.Block())
			sameEntry := func(a, b ssa.Value) bool {
				if a == b || origin1OrSelf(a) == origin1OrSelf(b) {
					return true
				}
				// two reads of the same element (`vector[i] > best` … `best = vector[i]`): go/ssa does not share them
				la, ok1 := a.(*ssa.UnOp)
				lb, ok2 := b.(*ssa.UnOp)
				if ok1 && ok2 && la.Op == token.MUL && lb.Op == token.MUL {
					ia, ok3 := la.X.(*ssa.IndexAddr)
					ib, ok4 := lb.X.(*ssa.IndexAddr)
					return ok3 && ok4 && ia.X == ib.X && ia.Index == ib.Index
				}
				return false
			}
			carriesCur := func(m *ssa.Phi, cur ssa.Value) bool {
				// some way round the loop sets the carried variable to the current entry
				for i2, me := range m.Edges {
					if !l.Blocks[l.Header.Preds[i2]] {
						continue
					}
					if sameEntry(me, cur) {
						return true
					}
					if jp, ok := me.(*ssa.Phi); ok {
						for _, je := range jp.Edges {
							if sameEntry(je, cur) {
								return true
							}
						}
					}
				}
				return false
			}
			isBest := func(v, cur ssa.Value) bool {
				// (a) a carried variable set to the current entry when the position is updated
				if m, ok := v.(*ssa.Phi); ok && m.Block() == l.Header && carriesCur(m, cur) {
					return true
				}
				// (b) the entry at the position held so far
				if ld, ok := v.(*ssa.UnOp); ok && ld.Op == token.MUL {
					if ia, ok := ld.X.(*ssa.IndexAddr); ok {
						hit := false
						dependsOn(ia.Index, func(x ssa.Value) bool {
							if x == ssa.Value(res) {
								hit = true
							}
							return false
						}, map[ssa.Value]bool{})
						return hit
					}
				}
				return false
			}
			var update func(e ssa.Value, pred *ssa.BasicBlock, depth int)
			update = func(e ssa.Value, pred *ssa.BasicBlock, depth int) {
				if e == ssa.Value(res) || depth > 4 {
					return
				}
				if jp, ok := e.(*ssa.Phi); ok && l.Blocks[jp.Block()] && jp.Block() != l.Header {
					for k2, je := range jp.Edges {
						update(je, jp.Block().Preds[k2], depth+1)
					}
					return
				}
				var cmp *ssa.BinOp
				for _, g := range guardsAt(pred) {
					if bo, ok := g.Cond.(*ssa.BinOp); ok && l.Blocks[g.If.Block()] && g.If.Block() != l.Header {
						switch bo.Op {
						case token.GTR, token.GEQ, token.LSS, token.LEQ:
							cmp = bo
						}
					}
				}
				if cmp == nil {
					return
				}
				n++
				if !isBest(cmp.X, cmp.Y) && !isBest(cmp.Y, cmp.X) {
					bad = "the comparison that decides an update of the position compares the entry with something that is neither the running maximum (a variable the same branch sets to the entry) nor the entry at the position held so far"
				}
			}
			for i, e := range res.Edges {
				if l.Blocks[l.Header.Preds[i]] {
					update(e, l.Header.Preds[i], 0)
				}
			}
		}
	}
	switch {
	case bad != "":
		r.Fail("R02.14", key, p.Pos(fn.Pos()), "Argmax: "+bad+": for a vector that rises again after its peak ({9,2,3}) the position of the last rise is returned, not that of the largest entry")
	case n == 0:
		r.Unsupported("R02.14", "data.Argmax does not update its result in a loop under a comparison: the form is not followed")
	default:
		r.OK("R02.14", "data.Argmax: every update of the position compares the entry with the best so far")
	}
	_ = prm
}
