package main

import (
	"crypto/sha1"
	"encoding/json"
	"fmt"
	"os"
	"path/filepath"
	"sort"
	"strings"
	"time"
)

// Finding is one violated (or undecided) obligation.
type Finding struct {
	Property  string `json:"property"`
	Rule      string `json:"rule"`
	Key       string `json:"key"` // rule-instance key: function + construct, never a line number
	Pos       string `json:"pos"` // file:line (diagnostic only)
	Message   string `json:"message"`
	Undecided bool   `json:"undecided,omitempty"`
	Path      string `json:"path,omitempty"` // for path rules: entry → offending exit
}

// Report collects obligations per property.
type Report struct {
	Property    string
	Tier        string
	Start       time.Time
	Rules       []string
	RuleDoc     map[string]string
	Obligations int
	Discharged  int
	PerRule     map[string][2]int // obligations, discharged
	Findings    []Finding
	Samples     []string
	Exceptions  []string
	Assumptions []string
	Notes       []string
	Analysed    map[string]int // functions, call sites, ...
	seen        map[string]bool
	NotAnalysed []string
	unsupported map[string]bool
}

func NewReport(prop, tier string) *Report {
	return &Report{Property: prop, Tier: tier, Start: time.Now(), PerRule: map[string][2]int{},
		RuleDoc: map[string]string{}, Analysed: map[string]int{}, seen: map[string]bool{}}
}

func (r *Report) Rule(id, doc string) {
	if _, ok := r.RuleDoc[id]; !ok {
		r.Rules = append(r.Rules, id)
		r.RuleDoc[id] = doc
	}
}

// OK records a discharged obligation.
func (r *Report) OK(rule, desc string) {
	r.Obligations++
	r.Discharged++
	c := r.PerRule[rule]
	c[0]++
	c[1]++
	r.PerRule[rule] = c
	if os.Getenv("OWCHECK_VERBOSE") != "" {
		fmt.Println("OK", rule, desc)
	}
	if len(r.Samples) < 4000 {
		r.Samples = append(r.Samples, rule+" "+desc)
	}
}

// Fail records a violated obligation.
func (r *Report) Fail(rule, key, pos, msg string) {
	r.fail(Finding{Property: r.Property, Rule: rule, Key: key, Pos: pos, Message: msg})
}

// Undecided records an obligation the analysis could not decide (counts as failure).
func (r *Report) Undecided(rule, key, pos, msg string) {
	if r.unsupported[rule] {
		// the construct is in a form the rule was declared not to follow on this run: not a violation
		return
	}
	r.fail(Finding{Property: r.Property, Rule: rule, Key: key, Pos: pos, Message: "UNDECIDED: " + msg, Undecided: true})
}

func (r *Report) fail(f Finding) {
	id := f.Rule + "|" + f.Key
	if r.seen[id] {
		return
	}
	r.seen[id] = true
	r.Obligations++
	c := r.PerRule[f.Rule]
	c[0]++
	r.PerRule[f.Rule] = c
	r.Findings = append(r.Findings, f)
}

// Unsupported records that a rule could not look at a construct because the code is written in a form the rule
// positively recognises but does not follow (bookkeeping delegated to an object advanced by methods, a time loop
// handed to a visiting helper). It is reported on stdout and in the evidence ("not_analysed") and is not a
// violation: the form is far more often the result of a refactoring than of a defect, and an alarm on it would be an
// alarm on code that is not wrong. The rule's floor is waived for this run. Anything not positively recognised stays
// UNDECIDED and fails.
func (r *Report) Unsupported(rule, what string) {
	if r.unsupported == nil {
		r.unsupported = map[string]bool{}
	}
	if !r.unsupported[rule+"|"+what] {
		r.NotAnalysed = append(r.NotAnalysed, rule+": "+what)
		fmt.Printf("NOT-ANALYSED: property=%s %s %s\n", r.Property, rule, what)
	}
	r.unsupported[rule+"|"+what] = true
	r.unsupported[rule] = true
}

// Floor fails with anchor-lost if a rule matched fewer instances than confirmed by reading.
func (r *Report) Floor(rule string, what string, got, want int) {
	if got < want && r.unsupported[rule] {
		r.Analysed[rule+" "+what] = got
		return
	}
	if got < want {
		r.fail(Finding{Property: r.Property, Rule: rule, Key: "anchor-lost:" + what, Pos: "-",
			Message: fmt.Sprintf("UNDECIDED: anchor lost: %s matched %d instances, at least %d expected (rule would pass vacuously)", what, got, want), Undecided: true})
	}
	r.Analysed[rule+" "+what] = got
}

// ---- known findings ----

type KnownFinding struct {
	Property string `json:"property"`
	Rule     string `json:"rule"`
	Key      string `json:"key"`
	What     string `json:"what"`
	Status   string `json:"status"` // "known" or "fixed:<commit>"
}

func loadKnown(path string) ([]KnownFinding, error) {
	b, err := os.ReadFile(path)
	if err != nil {
		if os.IsNotExist(err) {
			return nil, nil
		}
		return nil, err
	}
	var k struct {
		Findings []KnownFinding `json:"findings"`
	}
	if err := json.Unmarshal(b, &k); err != nil {
		return nil, err
	}
	return k.Findings, nil
}

// Finish prints, writes evidence and replay files, returns exit code.
func (r *Report) Finish(verifDir string, level string, extraCoverage map[string]interface{}) int {
	known, err := loadKnown(filepath.Join(verifDir, "known-findings.json"))
	if err != nil {
		fmt.Printf("cannot read known-findings.json: %v\n", err)
	}
	isKnown := func(f Finding) *KnownFinding {
		for i := range known {
			k := &known[i]
			if k.Status == "known" && k.Property == f.Property && k.Rule == f.Rule && k.Key == f.Key {
				return k
			}
		}
		return nil
	}
	sort.SliceStable(r.Findings, func(i, j int) bool {
		a, b := r.Findings[i], r.Findings[j]
		if a.Rule != b.Rule {
			return a.Rule < b.Rule
		}
		return a.Key < b.Key
	})
	violations := 0
	knownCount := 0
	replayDir := filepath.Join(verifDir, "replay")
	var vioSamples []string
	for _, f := range r.Findings {
		if k := isKnown(f); k != nil && !f.Undecided {
			knownCount++
			fmt.Printf("KNOWN-FINDING: property=%s %s %s at %s: %s\n", f.Property, f.Rule, f.Key, f.Pos, k.What)
			continue
		}
		violations++
		os.MkdirAll(replayDir, 0o755)
		h := sha1.Sum([]byte(f.Rule + "|" + f.Key))
		path := filepath.Join(replayDir, fmt.Sprintf("%s-%s-%x.json", f.Property, strings.ReplaceAll(f.Rule, ".", "_"), h[:5]))
		b, _ := json.MarshalIndent(f, "", "  ")
		os.WriteFile(path, append(b, '\n'), 0o644)
		fmt.Printf("%s: %s [%s] %s\n", f.Pos, f.Rule, f.Key, f.Message)
		fmt.Printf("VIOLATION property=%s replay=%s\n", f.Property, path)
		vioSamples = append(vioSamples, fmt.Sprintf("%s %s at %s: %s", f.Rule, f.Key, f.Pos, f.Message))
	}

	// evidence
	seed := 0
	fmt.Sscanf(os.Getenv("VERIF_SEED"), "%d", &seed)
	expl := []string{}
	for _, id := range r.Rules {
		c := r.PerRule[id]
		expl = append(expl, fmt.Sprintf("%s (%d/%d): %s", id, c[1], c[0], r.RuleDoc[id]))
	}
	samples := r.Samples
	if len(samples) > 60 {
		// keep a spread: first 3 per rule
		per := map[string]int{}
		var s2 []string
		for _, s := range samples {
			rule := strings.SplitN(s, " ", 2)[0]
			if per[rule] < 4 {
				per[rule]++
				s2 = append(s2, s)
			}
		}
		samples = s2
	}
	if len(samples) == 0 {
		samples = []string{"(no obligation discharged)"}
	}
	perRule := map[string]interface{}{}
	for k, v := range r.PerRule {
		perRule[k] = map[string]int{"obligations": v[0], "discharged": v[1]}
	}
	cov := map[string]interface{}{
		"explanation":            "Static analysis of /repo's current sources (go/packages type-check, go/ssa, VTA call graph); nothing under test is executed. Rules: " + strings.Join(expl, " | "),
		"obligations":            r.Obligations,
		"discharged":             r.Discharged,
		"per_rule":               perRule,
		"samples":                samples,
		"analysed":               r.Analysed,
		"exceptions":             r.Exceptions,
		"notes":                  r.Notes,
		"not_analysed":           r.NotAnalysed,
		"known_findings_matched": knownCount,
		"checker_cmd":            fmt.Sprintf("/verif/bin/owcheck -repo /repo -prop %s -tier %s", r.Property, r.Tier),
		"trusted_base":           []string{"go/types", "go/ssa (x/tools v0.29.0)", "VTA call graph", "rule tables in /verif/tool"},
	}
	if len(vioSamples) > 0 {
		cov["violations_reported"] = vioSamples
	}
	for k, v := range extraCoverage {
		cov[k] = v
	}
	ev := map[string]interface{}{
		"property_id": r.Property,
		"tier":        r.Tier,
		"seed":        seed,
		"level":       level,
		"coverage":    cov,
		"assumptions": r.Assumptions,
		"wall_s":      time.Since(r.Start).Seconds(),
		"violations":  violations,
	}
	os.MkdirAll(filepath.Join(verifDir, "evidence"), 0o755)
	b, _ := json.MarshalIndent(ev, "", " ")
	if err := os.WriteFile(filepath.Join(verifDir, "evidence", r.Property+".json"), append(b, '\n'), 0o644); err != nil {
		fmt.Printf("cannot write evidence: %v\n", err)
		return 2
	}
	fmt.Printf("%s %s: %d obligations, %d discharged, %d known findings, %d violations (%.1fs)\n",
		r.Property, r.Tier, r.Obligations, r.Discharged, knownCount, violations, time.Since(r.Start).Seconds())
	if violations > 0 {
		return 1
	}
	return 0
}
