package main

// R16.4: identities of the generation models (and the demand partition), decided per path through one timestep.
// The values written to the outputs on a path are expanded to polynomials (phis resolved by the path, helper
// results opaque, scalar helpers inlined if needed) and every relation of the table must hold identically on every
// feasible path. Relations are written with the OW-SPEC names of the model's inputs, parameters and outputs.

import (
	"fmt"
	"go/token"
	"sort"
	"strconv"
	"strings"

	"golang.org/x/tools/go/ssa"
)

type pathRel struct {
	// alts: "lhs = rhs" alternatives; the relation holds on a path if one of them closes
	alts []string
	note string
}

var pathRelTable = map[string][]pathRel{
	"USLEFineSedimentGeneration": {
		{alts: []string{"totalFineLoad = quickLoadFine + slowLoadFine"}, note: "total fine load = quick + slow"},
		{alts: []string{"totalCoarseLoad = quickLoadCoarse + slowLoadCoarse"}, note: "total coarse load = quick + slow"},
		{alts: []string{"slowLoadFine = 0.001*baseflow*DWC"}, note: "dry-weather load is linear in flow and concentration (mg/L → kg/m³)"},
		{alts: []string{"quickLoadFine = 0.01*generatedLoadFine*usleHSDRFine"}, note: "delivered fine load = generated × delivery ratio"},
		{alts: []string{"quickLoadCoarse = 0.01*generatedLoadCoarse*usleHSDRCoarse"}, note: "delivered coarse load = generated × delivery ratio"},
		{alts: []string{"generatedLoadFine*KLSC = generatedLoadFine*KLSC_Fine + generatedLoadCoarse*KLSC_Fine",
			"100*generatedLoadFine = generatedLoadFine*avFines + generatedLoadCoarse*avFines"},
			note: "generated fine : (fine + coarse) is the model's fine fraction KLSC_Fine : KLSC (or avFines %)"},
	},
	"BankErosion": {
		{alts: []string{"100*bankErosionFine = bankErosionFine*soilPercentFine + bankErosionCoarse*soilPercentFine"}, note: "fine : (fine + coarse) is soilPercentFine %"},
	},
	"SednetParticulateNutrientGeneration": {
		{alts: []string{"totalLoad = quickflowConstituent + slowflowConstituent"}, note: "total = quick + slow"},
		{alts: []string{"quickflowConstituent = hillslopeContribution + gullyContribution"}, note: "quick load = hillslope + gully contribution"},
		{alts: []string{"slowflowConstituent = 0.001*slowflow*nutrientDWC"}, note: "dry-weather load is linear in flow and concentration (mg/L → kg/m³)"},
		{alts: []string{"hillslopeContribution = 0.01*fineSedModelFineSheetGeneratedKg*nutSurfSoilConc*Nutrient_Enrichment_Ratio*hillDeliveryRatio + 0.01*fineSedModelCoarseSheetGeneratedKg*nutSurfSoilConc*Nutrient_Enrichment_Ratio*hillDeliveryRatio"},
			note: "delivered hillslope nutrient = sheet erosion (fine + coarse) × soil concentration × enrichment × delivery ratio (%), on either branch of the enrichment flag"},
		{alts: []string{"gullyContribution = 0.01*fineSedModelFineGullyGeneratedKg*nutSubSoilConc*Nutrient_Enrichment_Ratio_Gully*gullyDeliveryRatio + 0.01*fineSedModelCoarseGullyGeneratedKg*nutSubSoilConc*Nutrient_Enrichment_Ratio_Gully*gullyDeliveryRatio"},
			note: "delivered gully nutrient = gully erosion (fine + coarse) × subsoil concentration × enrichment × delivery ratio (%), on either branch of the enrichment flag"},
	},
	"DynamicSednetGully": {
		{alts: []string{"fineLoad = 0.01*generatedFine*sdrFine"}, note: "delivered fine load = generated × delivery ratio"},
		{alts: []string{"coarseLoad = 0.01*generatedCoarse*sdrCoarse"}, note: "delivered coarse load = generated × delivery ratio"},
		{alts: []string{"generatedCoarse*GullyPercentFine + generatedFine*GullyPercentFine = 100*generatedFine", "generatedCoarse*GullyPercentFine*averageGullyActivityFactor + generatedFine*GullyPercentFine = 100*generatedFine"},
			note: "fine : coarse is the gully material's fine percentage : the rest, the fine side scaled by the gully activity factor in force (1 up to GullyEndYear, the average factor after)"},
	},
	"DynamicSednetGullyAlt": {
		{alts: []string{"fineLoad = 0.01*generatedFine*sdrFine"}, note: "delivered fine load = generated × delivery ratio"},
		{alts: []string{"coarseLoad = 0.01*generatedCoarse*sdrCoarse"}, note: "delivered coarse load = generated × delivery ratio"},
		{alts: []string{"generatedCoarse*GullyPercentFine + generatedFine*GullyPercentFine = 100*generatedFine", "generatedCoarse*GullyPercentFine*averageGullyActivityFactor + generatedFine*GullyPercentFine = 100*generatedFine"},
			note: "fine : coarse is the gully material's fine percentage : the rest, the fine side scaled by the gully activity factor in force (1 up to GullyEndYear, the average factor after)"},
	},
	"PartitionDemand": {
		{alts: []string{"outflow + extraction = input"}, note: "extraction and outflow sum to the input (decided for the case in which the clamp at zero does not bind)"},
	},
}

// loopFunction: the function holding the kernel's time loop — the kernel itself, or the function it hands all its
// parameters to, in order, in its only module call (the two gully kernels share one loop this way).
func loopFunction(k *ssa.Function) *ssa.Function {
	if len(timeLoops(k)) > 0 {
		return k
	}
	var cand *ssa.Function
	n := 0
	for _, c := range callsIn(k) {
		f := c.Common().StaticCallee()
		if f == nil || f.Blocks == nil || !InModule(f) {
			continue
		}
		n++
		args := c.Common().Args
		if len(args) < len(k.Params) || len(f.Params) != len(args) {
			continue
		}
		ok := true
		for i, prm := range k.Params {
			if args[i] != ssa.Value(prm) {
				ok = false
			}
		}
		if ok {
			cand = f
			for i := len(k.Params); i < len(args); i++ {
				a := args[i]
				for {
					if ct, ok := a.(*ssa.ChangeType); ok {
						a = ct.X
						continue
					}
					break
				}
				if fv, isFn := a.(*ssa.Function); isFn {
					fnValueBinding[f.Params[i]] = fv
				}
			}
		}
	}
	if n == 1 && cand != nil && len(timeLoops(cand)) > 0 {
		return cand
	}
	return k
}

// zeroDriver: when all the named driver inputs are zero at a timestep, the named outputs are zero.
type zeroDriver struct {
	drivers []string
	outs    []string
	note    string
}

var zeroDriverTable = map[string][]zeroDriver{
	"DynamicSednetGully":    {{drivers: []string{"quickflow"}, outs: []string{"fineLoad", "coarseLoad", "generatedFine", "generatedCoarse"}, note: "no gully load without runoff"}},
	"DynamicSednetGullyAlt": {{drivers: []string{"quickflow"}, outs: []string{"fineLoad", "coarseLoad", "generatedFine", "generatedCoarse"}, note: "no gully load without runoff"}},
	"USLEFineSedimentGeneration": {{drivers: []string{"quickflow"}, outs: []string{"quickLoadFine", "quickLoadCoarse", "generatedLoadFine", "generatedLoadCoarse"}, note: "no hillslope load without quickflow"},
		{drivers: []string{"baseflow"}, outs: []string{"slowLoadFine"}, note: "no dry-weather load without baseflow"}},
	"BankErosion": {{drivers: []string{"downstreamFlowVolume"}, outs: []string{"bankErosionFine", "bankErosionCoarse"}, note: "no bank erosion without flow"}},
	"SednetParticulateNutrientGeneration": {{drivers: []string{"fineSedModelFineSheetGeneratedKg", "fineSedModelCoarseSheetGeneratedKg", "fineSedModelFineGullyGeneratedKg", "fineSedModelCoarseGullyGeneratedKg"}, outs: []string{"quickflowConstituent", "hillslopeContribution", "gullyContribution"}, note: "no particulate load without sediment supply"},
		{drivers: []string{"slowflow"}, outs: []string{"slowflowConstituent"}, note: "no dry-weather load without slow flow"}},
}

func checkPathIdentities(p *Program, r *Report) {
	r.Rule("R16.4", "identities of the generation models and the demand partition, per path: on every feasible CFG path through one iteration of the time loop, with the values written to the outputs on that path expanded to polynomials (phis resolved by the path; an output not written keeps its zero), each relation of the table — totals equal the sum of their parts, delivered load = generated load × delivery ratio, generated fine : (fine + coarse) is the model's fine fraction, dry-weather loads are linear with the mg/L→kg/m³ factor, extraction + outflow = input — holds identically after clearing denominators")
	models, _ := p.Registry()
	eff := nil2eff(p)
	byName := map[string]*Model{}
	for _, m := range models {
		byName[m.Name] = m
	}
	var names []string
	for n := range pathRelTable {
		names = append(names, n)
	}
	sort.Strings(names)
	nModels, nPaths, nRel, nZero := 0, 0, 0, 0
	r.Rule("R16.5", "zero driver, zero load: on every feasible path through a timestep that is possible when the model's driver (flow, sediment supply) is zero — i.e. that takes no branch edge contradicted by driver = 0 — the polynomial written to each driven output vanishes identically once the driver is set to 0 (helpers, including an export function passed as a function value, are inlined path by path)")
	for _, name := range names {
		m := byName[name]
		if m == nil || m.Kernel == nil {
			r.Undecided("R16.4", "anchor:"+name, "-", "model "+name+" or its kernel not found in the catalogue")
			continue
		}
		nModels++
		key := m.RelPkg + "." + m.Name
		for prm := range fnValueBinding {
			delete(fnValueBinding, prm)
		}
		k := loopFunction(m.Kernel)
		loops := timeLoops(k)
		if len(loops) == 0 && handsTimestepToVisitor(p, k) {
			// the timestep is a closure handed to a visiting helper: the path engine walks the blocks of one loop of
			// the kernel itself and does not follow this form (R16.3 does, for the models it covers)
			r.Unsupported("R16.4", key+": the time loop lives in a visiting helper that is handed the timestep as a closure")
			r.Unsupported("R16.5", key+": the time loop lives in a visiting helper that is handed the timestep as a closure")
			continue
		}
		if len(loops) != 1 {
			r.Undecided("R16.4", key+":loop", p.Pos(k.Pos()), fmt.Sprintf("expected exactly one time loop, found %d", len(loops)))
			continue
		}
		l := loops[0]
		ind := loopInduction(l)
		nIn, nSt := len(m.Inputs), len(m.States)
		// relations → polynomials
		type relP struct {
			lhs, rhs []poly
			src      pathRel
		}
		var rels []relP
		bad := false
		for _, pr := range pathRelTable[name] {
			rp := relP{src: pr}
			for _, a := range pr.alts {
				sides := strings.Split(a, "=")
				lp, e1 := specPoly(m, sides[0])
				rpoly, e2 := specPoly(m, sides[1])
				if e1 != nil || e2 != nil {
					for _, e := range []error{e1, e2} {
						if e != nil {
							r.Undecided("R16.4", key+":spec", m.SpecFile, e.Error())
						}
					}
					bad = true
					continue
				}
				rp.lhs = append(rp.lhs, lp)
				rp.rhs = append(rp.rhs, rpoly)
			}
			rels = append(rels, rp)
		}
		if bad {
			continue
		}
		atIdxVal := func(a ssa.Value, at ssa.Instruction) bool {
			if ind == nil {
				return false
			}
			if isIntVec(a.Type()) {
				vals, _, unk := vecElemAt(eff, origin1(a), 0, at)
				return unk == "" && len(vals) == 1 && origin1(vals[0]) == ssa.Value(ind)
			}
			return origin1(a) == ssa.Value(ind)
		}
		outIdx := map[ssa.Value]int{}
		base := nIn + nSt + len(m.Params)
		for i := range m.Outputs {
			if base+i < len(k.Params) {
				outIdx[k.Params[base+i]] = i
			}
		}
		inIdx := map[ssa.Value]int{}
		for i := 0; i < nIn && i < len(k.Params); i++ {
			inIdx[k.Params[i]] = i
		}
		paths, why := loopPaths(l)
		if paths == nil {
			r.Undecided("R16.4", key+":paths", p.Pos(k.Pos()), why)
			continue
		}
		type outcome struct {
			feasible bool
			failed   []int // indices of relations that do not close
			resid    map[int]poly
			pc       *pathCtx
			// zero-driver rule: for driver set d, is the path consistent with all its drivers being 0, and which
			// outputs do not vanish then
			zeroBad map[int]map[int]poly
		}
		zds := zeroDriverTable[name]
		type zdIdx struct {
			drv  map[string]bool // canonical names in<k>
			outs []int
		}
		var zdi []zdIdx
		for _, zd := range zds {
			z := zdIdx{drv: map[string]bool{}}
			okz := true
			for _, dn := range zd.drivers {
				found := false
				for i, in := range m.Inputs {
					if in == dn {
						z.drv[fmt.Sprintf("in%d", i)] = true
						found = true
					}
				}
				okz = okz && found
			}
			for _, on := range zd.outs {
				found := false
				for i, o := range m.Outputs {
					if o == on {
						z.outs = append(z.outs, i)
						found = true
					}
				}
				okz = okz && found
			}
			if !okz {
				r.Undecided("R16.5", key+":spec", m.SpecFile, "a driver or output named in the zero-driver table is not in the OW-SPEC of "+m.Name)
			}
			zdi = append(zdi, z)
		}
		evaluate := func(path []*ssa.BasicBlock, frames map[*ssa.Call]*frame) outcome {
			pc := &pathCtx{pos: map[*ssa.BasicBlock]int{}, path: path, stateOf: map[*ssa.Phi]int{}, kernel: k, frames: frames}
			pc.inSeries, pc.atIdxArg = inIdx, atIdxVal
			pc.names = map[ssa.Value]string{}
			for i, b := range path {
				pc.pos[b] = i
			}
			for i, ps := range m.Params {
				if idx := nIn + nSt + i; idx < len(k.Params) && len(ps.Dims) == 0 {
					pc.names[k.Params[idx]] = fmt.Sprintf("p%d", i)
				}
			}
			for _, c := range callsIn(k) {
				cv, ok := c.(*ssa.Call)
				if !ok {
					continue
				}
				nm := callName(c.Common())
				if nm != "Get" && nm != "Get1" || len(callArgs(c.Common())) == 0 {
					continue
				}
				if i, ok := inIdx[origin1(recvOf(c.Common()))]; ok && atIdxVal(callArgs(c.Common())[0], c) {
					pc.names[cv] = fmt.Sprintf("in%d", i)
				}
			}
			oc := outcome{feasible: true, pc: pc, resid: map[int]poly{}, zeroBad: map[int]map[int]poly{}}
			condVal := map[condKey]bool{}
			zeroImpossible := map[int]bool{}
			edge := func(fr *frame, a, b *ssa.BasicBlock) {
				c, v, ok := edgeCond(a, b)
				if !ok {
					return
				}
				ck := condKey{c, fr}
				if old, seen := condVal[ck]; seen && old != v {
					oc.feasible = false
				}
				condVal[ck] = v
				pc.cur = fr
				if bv, known := pc.boolConst(c, 0); known && bv != v {
					oc.feasible = false
				}
				// is this edge possible when a driver set is zero?  cond: (poly that vanishes with the drivers) op const
				if bo, ok := c.(*ssa.BinOp); ok {
					for zi, z := range zdi {
						sub := map[string]string{}
						for d := range z.drv {
							sub[d] = "0"
						}
						var lhs ssa.Value
						var cst *ssa.Const
						flip := false
						if k2, ok := bo.Y.(*ssa.Const); ok {
							lhs, cst = bo.X, k2
						} else if k2, ok := bo.X.(*ssa.Const); ok {
							lhs, cst, flip = bo.Y, k2, true
						}
						if lhs == nil || cst == nil || cst.Value == nil {
							continue
						}
						lp := pc.ex(lhs, 0)
						if len(polySyms(lp, "in")) == 0 || !polyIsZero(substitute(lp, sub)) {
							continue // does not vanish with the drivers: says nothing
						}
						cv := cst.Float64()
						var truth bool
						op := bo.Op
						if flip {
							switch op {
							case token.LSS:
								op = token.GTR
							case token.GTR:
								op = token.LSS
							case token.LEQ:
								op = token.GEQ
							case token.GEQ:
								op = token.LEQ
							}
						}
						switch op {
						case token.EQL:
							truth = 0 == cv
						case token.NEQ:
							truth = 0 != cv
						case token.LSS:
							truth = 0 < cv
						case token.LEQ:
							truth = 0 <= cv
						case token.GTR:
							truth = 0 > cv
						case token.GEQ:
							truth = 0 >= cv
						default:
							continue
						}
						if truth != v {
							zeroImpossible[zi] = true
						}
					}
				}
				pc.cur = nil
			}
			for i := 0; i < len(path); i++ {
				nxt := l.Header
				if i+1 < len(path) {
					nxt = path[i+1]
				}
				edge(nil, path[i], nxt)
			}
			for _, fr := range frames {
				for i := 0; i+1 < len(fr.path); i++ {
					edge(fr, fr.path[i], fr.path[i+1])
				}
			}
			if !oc.feasible {
				return oc
			}
			// outputs written on the path (last write wins), directly or in a straight-line helper handed the output
			type wr struct {
				val ssa.Value
				fr  *frame
			}
			written := map[int]wr{}
			for _, b := range path {
				for _, ins := range b.Instrs {
					c, ok := ins.(ssa.CallInstruction)
					if !ok {
						continue
					}
					nm := callName(c.Common())
					if nm == "Set" || nm == "Set1" {
						if oi, ok := outIdx[origin1(recvOf(c.Common()))]; ok && atIdxVal(callArgs(c.Common())[0], c) {
							written[oi] = wr{val: callArgs(c.Common())[1]}
						}
						continue
					}
					call, isCall := c.(*ssa.Call)
					f := c.Common().StaticCallee()
					if !isCall || f == nil || f.Blocks == nil || len(f.Blocks) != 1 || !InModule(f) || f.Signature.Recv() != nil || len(f.Params) != len(c.Common().Args) {
						continue
					}
					argOf := map[ssa.Value]ssa.Value{}
					for i, prm := range f.Params {
						argOf[prm] = c.Common().Args[i]
					}
					var hfr *frame
					for _, c2 := range callsIn(f) {
						nm2 := callName(c2.Common())
						if nm2 != "Set" && nm2 != "Set1" {
							continue
						}
						rp, ok := origin1(recvOf(c2.Common())).(*ssa.Parameter)
						if !ok || argOf[rp] == nil {
							continue
						}
						oi, ok := outIdx[origin1(argOf[rp])]
						if !ok {
							continue
						}
						ip, ok := origin1(callArgs(c2.Common())[0]).(*ssa.Parameter)
						if !ok || argOf[ip] == nil || !atIdxVal(argOf[ip], c) {
							continue
						}
						if hfr == nil {
							hfr = &frame{call: call, fn: f, path: f.Blocks[:1], pos: map[*ssa.BasicBlock]int{f.Blocks[0]: 0}}
						}
						written[oi] = wr{val: callArgs(c2.Common())[1], fr: hfr}
					}
				}
			}
			outPoly := map[int]poly{}
			for oi, w := range written {
				pc.cur = w.fr
				outPoly[oi] = pc.ex(w.val, 0)
				pc.cur = nil
			}
			subst := func(pl poly) poly {
				res := poly{}
				for mono, c := range pl {
					term := poly{"": c}
					for _, s := range strings.Split(mono, "*") {
						if s == "" {
							continue
						}
						if strings.HasPrefix(s, "out") {
							i, _ := strconv.Atoi(s[3:])
							op, ok := outPoly[i]
							if !ok {
								term = poly{}
								break
							}
							term = polyMul(term, op)
						} else {
							term = polyMul(term, poly{s: 1})
						}
					}
					res = polyAdd(res, term, 1)
				}
				return res
			}
			for ri, rp := range rels {
				closed := false
				var first poly
				for ai := range rp.lhs {
					d := pc.clearDenominators(polyAdd(subst(rp.lhs[ai]), subst(rp.rhs[ai]), -1))
					if polyIsZero(d) {
						closed = true
						break
					}
					if first == nil {
						first = d
					}
				}
				if !closed {
					oc.failed = append(oc.failed, ri)
					oc.resid[ri] = first
				}
			}
			for zi, z := range zdi {
				if zeroImpossible[zi] {
					continue
				}
				sub := map[string]string{}
				for d := range z.drv {
					sub[d] = "0"
				}
				for _, oi := range z.outs {
					op, ok := outPoly[oi]
					if !ok {
						continue // not written: stays zero
					}
					d := pc.clearDenominators(substitute(op, sub))
					if !polyIsZero(d) {
						if oc.zeroBad[zi] == nil {
							oc.zeroBad[zi] = map[int]poly{}
						}
						oc.zeroBad[zi][oi] = d
					}
				}
			}
			return oc
		}
		relBad := map[int]string{}
		relSkip := map[int]string{}
		zeroMsg := map[string]string{}
		for _, path := range paths {
			oc := evaluate(path, nil)
			if !oc.feasible {
				continue
			}
			if len(oc.failed) > 0 || len(oc.zeroBad) > 0 {
				// retry with the scalar helpers on the path inlined along each of their paths
				var inl []*ssa.Call
				var inlPaths [][][]*ssa.BasicBlock
				for _, b := range path {
					for _, ins := range b.Instrs {
						if call, ok := ins.(*ssa.Call); ok {
							if fp := scalarHelperPaths(call); fp != nil {
								inl = append(inl, call)
								inlPaths = append(inlPaths, fp)
							}
						}
					}
				}
				combos := 1
				for _, fp := range inlPaths {
					combos *= len(fp)
				}
				if len(inl) > 0 && combos <= 4096 {
					choice := make([]int, len(inl))
					stillBad := map[int]poly{}
					stillZero := map[int]map[int]poly{}
					var badCtx, zeroCtx *pathCtx
					any := false
					for {
						frames := map[*ssa.Call]*frame{}
						for i, c := range inl {
							frames[c] = newFrame(c, inlPaths[i][choice[i]])
						}
						o2 := evaluate(path, frames)
						if o2.feasible {
							any = true
							for _, ri := range o2.failed {
								if _, seen := stillBad[ri]; !seen {
									stillBad[ri] = o2.resid[ri]
									badCtx = o2.pc
								}
							}
							for zi, mm := range o2.zeroBad {
								for oi, d := range mm {
									if stillZero[zi] == nil {
										stillZero[zi] = map[int]poly{}
									}
									if _, seen := stillZero[zi][oi]; !seen {
										stillZero[zi][oi] = d
										zeroCtx = o2.pc
									}
								}
							}
						}
						i := 0
						for ; i < len(choice); i++ {
							choice[i]++
							if choice[i] < len(inlPaths[i]) {
								break
							}
							choice[i] = 0
						}
						if i == len(choice) {
							break
						}
					}
					if !any {
						continue // no feasible combination: the path itself is infeasible
					}
					oc.failed = oc.failed[:0]
					for ri := range stillBad {
						oc.failed = append(oc.failed, ri)
						oc.resid[ri] = stillBad[ri]
					}
					sort.Ints(oc.failed)
					if badCtx != nil {
						oc.pc = badCtx
					}
					oc.zeroBad = stillZero
					if zeroCtx != nil && badCtx == nil {
						oc.pc = zeroCtx
					}
				}
			}
			nPaths++
			for zi, mm := range oc.zeroBad {
				for oi, d := range mm {
					zk := fmt.Sprintf("%d:%d", zi, oi)
					if _, seen := zeroMsg[zk]; !seen {
						zeroMsg[zk] = fmt.Sprintf("on the path through one timestep with branches [%s], which is possible when %s is zero, output `%s` is %s", describePath(p, path), strings.Join(zds[zi].drivers, ", "), m.Outputs[oi], oc.pc.show(p, m, d))
					}
				}
			}
			for _, ri := range oc.failed {
				// a residual that contains the result of a module helper the engine could not open (it takes a record of
				// its factors, an array, …) says nothing about the relation: counted as not analysed, not as a failure
				if h := unopenedHelperIn(oc.pc, oc.resid[ri]); h != "" {
					relSkip[ri] = h
					continue
				}
				if _, seen := relBad[ri]; !seen {
					relBad[ri] = fmt.Sprintf("on the path through one timestep with branches [%s]: left − right, cleared of denominators, is %s", describePath(p, path), oc.pc.show(p, m, oc.resid[ri]))
				}
			}
		}
		for ri, rp := range rels {
			nRel++
			rkey := fmt.Sprintf("%s:%s", key, strings.ReplaceAll(strings.TrimSpace(rp.src.alts[0]), " ", ""))
			if h, skip := relSkip[ri]; skip && relBad[ri] == "" {
				r.Unsupported("R16.4", fmt.Sprintf("%s: `%s` runs through the results of %s, which takes more than scalars and is not opened by the path engine", key, rp.src.alts[0], h))
				continue
			}
			if msg, bad := relBad[ri]; bad {
				r.Fail("R16.4", rkey, p.Pos(k.Pos()), fmt.Sprintf("%s (%s): `%s` does not hold %s", m.Name, rp.src.note, strings.Join(rp.src.alts, "  or  "), msg))
			} else {
				r.OK("R16.4", fmt.Sprintf("%s: %s holds on every feasible path through a timestep", key, strings.Join(rp.src.alts, " | ")))
			}
		}
		for zi, zd := range zds {
			for _, oi := range zdi[zi].outs {
				nZero++
				zkey := fmt.Sprintf("%s:zero-driver:%s→%s", key, strings.Join(zd.drivers, "+"), m.Outputs[oi])
				if msg, bad := zeroMsg[fmt.Sprintf("%d:%d", zi, oi)]; bad {
					r.Fail("R16.5", zkey, p.Pos(k.Pos()), fmt.Sprintf("%s (%s): %s — not identically zero", m.Name, zd.note, msg))
				} else {
					r.OK("R16.5", fmt.Sprintf("%s: `%s` vanishes on every path that is possible with %s = 0", key, m.Outputs[oi], strings.Join(zd.drivers, ", ")))
				}
			}
		}
	}
	r.Analysed["R16.4 models"] = nModels
	r.Analysed["R16.4 feasible paths through one timestep"] = nPaths
	r.Floor("R16.4", "models with per-path identities", nModels, 6)
	r.Floor("R16.4", "relations", nRel, 10)
	r.Floor("R16.5", "driven outputs", nZero, 10)
}

// handsTimestepToVisitor: k calls a module helper of the walkSeries shape with a function literal.
func handsTimestepToVisitor(p *Program, k *ssa.Function) bool {
	for _, c := range callsIn(k) {
		h := c.Common().StaticCallee()
		if h == nil || h.Blocks == nil || !InModule(h) || len(h.Params) != len(c.Common().Args) {
			continue
		}
		if fi, ok := walkHelperShape(p, h); ok && closureValueOf(c.Common().Args[fi]) != nil {
			return true
		}
	}
	return false
}

// unopenedHelperIn: the name of a module function whose result appears as an opaque symbol in d although it is
// not a scalar helper the engine can inline ("" if none).
func unopenedHelperIn(pc *pathCtx, d poly) string {
	if pc == nil {
		return ""
	}
	for mono, c := range d {
		if c == 0 {
			continue
		}
		for _, sy := range strings.Split(mono, "*") {
			sy = strings.TrimPrefix(sy, "/")
			var id int
			if n, err := fmt.Sscanf(sy, "s%d", &id); n != 1 || err != nil || id >= len(pc.syms) || fmt.Sprintf("s%03d", id) != sy {
				continue
			}
			var call *ssa.Call
			switch v := pc.syms[id].v.(type) {
			case *ssa.Extract:
				call, _ = v.Tuple.(*ssa.Call)
			case *ssa.Call:
				call = v
			}
			if call == nil {
				continue
			}
			if f := calleeOf(call); f != nil && f.Blocks != nil && InModule(f) && scalarHelperPaths(call) == nil {
				return f.Name()
			}
		}
	}
	return ""
}
