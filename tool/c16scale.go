package main

// Conversion-scale consistency (R16.6 for C16, R12.6 for C12) — a unit inference over the typed syntax tree of the
// model packages.
//
// Every float variable of a function gets an unknown scale. Multiplying by a named conversion constant of
// conv/units (or dividing by one) moves the scale by that constant; adding, subtracting, comparing, taking the
// minimum or maximum of, or assigning one quantity to another requires equal scales. The constraints are solved
// with a weighted union-find; a contradiction means that somewhere a quantity meets itself converted — kilograms
// compared with tonnes, a percentage applied twice in one arm of a conditional and once in the other. The analysis
// is flow-insensitive per variable (a Go variable is taken to hold one kind of quantity); a variable that is
// converted in place (`x = x * units.K`) is exempt at every use. Products and quotients add and subtract scales; every numeric
// literal is an unknown of its own (0.001 may be a conversion in disguise) and calls other than math.Min/Max/Abs yield
// nothing, so a contradiction can only come from named conversion constants: the linear system (solved exactly over
// the rationals) forces some product of them to equal 1.

import (
	"fmt"
	"go/ast"
	"go/token"
	"go/types"
	"math/big"
	"sort"
	"strings"
)

type scaleVec map[string]int

func (a scaleVec) add(b scaleVec, k int) scaleVec {
	out := scaleVec{}
	for d, e := range a {
		out[d] = e
	}
	for d, e := range b {
		out[d] += k * e
		if out[d] == 0 {
			delete(out, d)
		}
	}
	return out
}

func (a scaleVec) String() string {
	var ds []string
	for d := range a {
		ds = append(ds, d)
	}
	sort.Strings(ds)
	var parts []string
	for _, d := range ds {
		parts = append(parts, fmt.Sprintf("%s^%d", d, a[d]))
	}
	if len(parts) == 0 {
		return "1"
	}
	return strings.Join(parts, "·")
}

// unitConstDim: the dimension a conversion constant moves along, and the direction. `A_TO_B` and `B_TO_A` are
// the two directions of one dimension.
func unitConstDim(name string) (string, int) {
	if i := strings.Index(name, "_TO_"); i > 0 {
		a, b := name[:i], name[i+4:]
		if a < b {
			return a + "→" + b, 1
		}
		return b + "→" + a, -1
	}
	return name, 1
}

// a linear form over the unknown scales of a function's variables (and of each numeric literal), plus a known
// shift along the conversion dimensions
type scaleTerm struct {
	coef  map[int]*big.Rat
	off   scaleVec
	known bool
}

func konstTerm(off scaleVec) scaleTerm {
	return scaleTerm{coef: map[int]*big.Rat{}, off: off, known: true}
}

func (a scaleTerm) plus(b scaleTerm, k int64) scaleTerm {
	if !a.known || !b.known {
		return scaleTerm{}
	}
	out := scaleTerm{coef: map[int]*big.Rat{}, off: a.off.add(b.off, int(k)), known: true}
	for v, c := range a.coef {
		out.coef[v] = new(big.Rat).Set(c)
	}
	for v, c := range b.coef {
		t := new(big.Rat).Mul(c, big.NewRat(k, 1))
		if out.coef[v] == nil {
			out.coef[v] = t
		} else {
			out.coef[v].Add(out.coef[v], t)
		}
		if out.coef[v].Sign() == 0 {
			delete(out.coef, v)
		}
	}
	return out
}

type scaleRow struct {
	coef map[int]*big.Rat
	off  map[string]*big.Rat
}

type scaleCtx struct {
	info    *types.Info
	fset    *token.FileSet
	vars    map[types.Object]int
	names   []string
	exempt  map[types.Object]bool
	unitPkg func(obj types.Object) bool
	pivots  map[int]*scaleRow
	bad     []scaleConflict
}

type scaleConflict struct {
	pos  token.Pos
	what string
	diff string
	a, b string
}

func (c *scaleCtx) fresh(name string) int {
	c.names = append(c.names, name)
	return len(c.names) - 1
}

func (c *scaleCtx) varTerm(obj types.Object) scaleTerm {
	if c.exempt[obj] {
		return scaleTerm{}
	}
	id, ok := c.vars[obj]
	if !ok {
		id = c.fresh(obj.Name())
		c.vars[obj] = id
	}
	return scaleTerm{coef: map[int]*big.Rat{id: big.NewRat(1, 1)}, off: scaleVec{}, known: true}
}

// unify adds the equation a − b = 0 (Gaussian elimination over the rationals, one right-hand side per conversion
// dimension); an equation that reduces to 0 = non-zero is a contradiction.
func (c *scaleCtx) unify(a, b scaleTerm, pos token.Pos, what, an, bn string) {
	if !a.known || !b.known {
		return
	}
	d := a.plus(b, -1)
	row := &scaleRow{coef: map[int]*big.Rat{}, off: map[string]*big.Rat{}}
	for v, k := range d.coef {
		row.coef[v] = new(big.Rat).Set(k)
	}
	// Σ coef·x + off = 0  →  Σ coef·x = −off
	for dim, e := range d.off {
		row.off[dim] = big.NewRat(int64(-e), 1)
	}
	sub := func(r *scaleRow, p *scaleRow, k *big.Rat) {
		for v, pc := range p.coef {
			t := new(big.Rat).Mul(pc, k)
			if r.coef[v] == nil {
				r.coef[v] = new(big.Rat)
			}
			r.coef[v].Sub(r.coef[v], t)
			if r.coef[v].Sign() == 0 {
				delete(r.coef, v)
			}
		}
		for dim, po := range p.off {
			t := new(big.Rat).Mul(po, k)
			if r.off[dim] == nil {
				r.off[dim] = new(big.Rat)
			}
			r.off[dim].Sub(r.off[dim], t)
			if r.off[dim].Sign() == 0 {
				delete(r.off, dim)
			}
		}
	}
	for changed := true; changed; {
		changed = false
		for v, k := range row.coef {
			if p := c.pivots[v]; p != nil {
				sub(row, p, new(big.Rat).Set(k))
				changed = true
				break
			}
		}
	}
	if len(row.coef) == 0 {
		if len(row.off) != 0 {
			var ds []string
			for dim := range row.off {
				ds = append(ds, dim)
			}
			sort.Strings(ds)
			var parts []string
			for _, dim := range ds {
				parts = append(parts, fmt.Sprintf("(%s)^%s", dim, new(big.Rat).Abs(row.off[dim]).RatString()))
			}
			c.bad = append(c.bad, scaleConflict{pos, what, strings.Join(parts, "·"), an, bn})
		}
		return
	}
	// choose the smallest variable as pivot, normalise, eliminate it from the other rows
	pv := -1
	for v := range row.coef {
		if pv < 0 || v < pv {
			pv = v
		}
	}
	inv := new(big.Rat).Inv(row.coef[pv])
	for v := range row.coef {
		row.coef[v].Mul(row.coef[v], inv)
	}
	for dim := range row.off {
		row.off[dim].Mul(row.off[dim], inv)
	}
	for _, p := range c.pivots {
		if k := p.coef[pv]; k != nil {
			sub(p, row, new(big.Rat).Set(k))
		}
	}
	c.pivots[pv] = row
}

func isFloatType(t types.Type) bool {
	if t == nil {
		return false
	}
	b, ok := t.Underlying().(*types.Basic)
	return ok && b.Info()&(types.IsFloat|types.IsUntyped) != 0 && b.Info()&types.IsNumeric != 0
}

func (c *scaleCtx) constOf(e ast.Expr) (scaleVec, bool) {
	var id *ast.Ident
	switch x := e.(type) {
	case *ast.Ident:
		id = x
	case *ast.SelectorExpr:
		id = x.Sel
	case *ast.ParenExpr:
		return c.constOf(x.X)
	default:
		return nil, false
	}
	obj, ok := c.info.Uses[id].(*types.Const)
	if !ok || !c.unitPkg(obj) {
		return nil, false
	}
	d, k := unitConstDim(obj.Name())
	return scaleVec{d: k}, true
}

func (c *scaleCtx) text(e ast.Expr) string {
	s := types.ExprString(e)
	if len(s) > 60 {
		s = s[:57] + "…"
	}
	return s
}

func (c *scaleCtx) term(e ast.Expr) scaleTerm {
	switch x := e.(type) {
	case *ast.ParenExpr:
		return c.term(x.X)
	case *ast.BasicLit:
		// a number: its own unknown (0.001 may well be a conversion in disguise)
		id := c.fresh(x.Value)
		return scaleTerm{coef: map[int]*big.Rat{id: big.NewRat(1, 1)}, off: scaleVec{}, known: true}
	case *ast.Ident:
		if k, ok := c.constOf(x); ok {
			return konstTerm(k)
		}
		if obj, ok := c.info.Uses[x].(*types.Var); ok && isFloatType(obj.Type()) && !obj.IsField() && obj.Pkg() != nil && obj.Parent() != obj.Pkg().Scope() {
			return c.varTerm(obj)
		}
		return scaleTerm{}
	case *ast.SelectorExpr:
		if k, ok := c.constOf(x); ok {
			return konstTerm(k)
		}
		return scaleTerm{}
	case *ast.UnaryExpr:
		if x.Op == token.SUB || x.Op == token.ADD {
			return c.term(x.X)
		}
		return scaleTerm{}
	case *ast.BinaryExpr:
		l, r := c.term(x.X), c.term(x.Y)
		switch x.Op {
		case token.MUL:
			return l.plus(r, 1)
		case token.QUO:
			return l.plus(r, -1)
		case token.ADD, token.SUB:
			c.unify(l, r, x.OpPos, "the operands of `"+x.Op.String()+"`", c.text(x.X), c.text(x.Y))
			if l.known {
				return l
			}
			return r
		case token.LSS, token.GTR, token.LEQ, token.GEQ, token.EQL, token.NEQ:
			c.unify(l, r, x.OpPos, "the two sides of `"+x.Op.String()+"`", c.text(x.X), c.text(x.Y))
			return scaleTerm{}
		}
		return scaleTerm{}
	case *ast.CallExpr:
		// math.Min / math.Max / math.Abs keep the scale of their arguments; conversions float64(x) too
		if sel, ok := x.Fun.(*ast.SelectorExpr); ok {
			if pk, ok := sel.X.(*ast.Ident); ok {
				if pn, ok := c.info.Uses[pk].(*types.PkgName); ok && pn.Imported().Path() == "math" {
					switch sel.Sel.Name {
					case "Min", "Max":
						if len(x.Args) == 2 {
							a, b := c.term(x.Args[0]), c.term(x.Args[1])
							c.unify(a, b, x.Lparen, "the arguments of math."+sel.Sel.Name, c.text(x.Args[0]), c.text(x.Args[1]))
							if a.known {
								return a
							}
							return b
						}
					case "Abs":
						if len(x.Args) == 1 {
							return c.term(x.Args[0])
						}
					}
				}
			}
		}
		if tv, ok := c.info.Types[x.Fun]; ok && tv.IsType() && len(x.Args) == 1 {
			return c.term(x.Args[0])
		}
		for _, a := range x.Args {
			c.term(a) // constraints inside the arguments still count
		}
		return scaleTerm{}
	}
	return scaleTerm{}
}

func (c *scaleCtx) lhs(e ast.Expr) scaleTerm {
	id, ok := e.(*ast.Ident)
	if !ok || id.Name == "_" {
		return scaleTerm{}
	}
	obj := c.info.Defs[id]
	if obj == nil {
		obj = c.info.Uses[id]
	}
	v, ok := obj.(*types.Var)
	if !ok || !isFloatType(v.Type()) || v.Pkg() == nil || v.Parent() == v.Pkg().Scope() {
		return scaleTerm{}
	}
	return c.varTerm(v)
}

// mentions: expression e uses variable obj.
func mentions(info *types.Info, e ast.Expr, obj types.Object) bool {
	found := false
	ast.Inspect(e, func(n ast.Node) bool {
		if id, ok := n.(*ast.Ident); ok && info.Uses[id] == obj {
			found = true
		}
		return !found
	})
	return found
}

func (c *scaleCtx) function(fd *ast.FuncDecl) {
	if fd.Body == nil {
		return
	}
	// variables converted in place are exempt
	ast.Inspect(fd.Body, func(n ast.Node) bool {
		as, ok := n.(*ast.AssignStmt)
		if !ok || len(as.Lhs) != 1 || len(as.Rhs) != 1 {
			return true
		}
		id, ok := as.Lhs[0].(*ast.Ident)
		if !ok {
			return true
		}
		obj := c.info.Uses[id]
		if obj == nil {
			return true
		}
		hasUnitConst := false
		ast.Inspect(as.Rhs[0], func(m ast.Node) bool {
			if ex, ok := m.(ast.Expr); ok {
				if _, isK := c.constOf(ex); isK {
					hasUnitConst = true
				}
			}
			return true
		})
		switch as.Tok {
		case token.ASSIGN:
			if hasUnitConst && mentions(c.info, as.Rhs[0], obj) {
				c.exempt[obj] = true
			}
		case token.MUL_ASSIGN, token.QUO_ASSIGN:
			if hasUnitConst {
				c.exempt[obj] = true
			}
		}
		return true
	})
	var visit func(n ast.Node) bool
	funcLits := func(e ast.Node) {
		ast.Inspect(e, func(m ast.Node) bool {
			if fl, ok := m.(*ast.FuncLit); ok {
				ast.Inspect(fl.Body, visit)
				return false
			}
			return true
		})
	}
	visit = func(n ast.Node) bool {
		switch x := n.(type) {
		case *ast.AssignStmt:
			for _, rhs := range x.Rhs {
				funcLits(rhs)
			}
			if len(x.Lhs) == len(x.Rhs) {
				for i := range x.Lhs {
					r := c.term(x.Rhs[i])
					switch x.Tok {
					case token.ASSIGN, token.DEFINE, token.ADD_ASSIGN, token.SUB_ASSIGN:
						c.unify(c.lhs(x.Lhs[i]), r, x.TokPos, "the assignment to "+exprName(x.Lhs[i]), c.text(x.Lhs[i]), c.text(x.Rhs[i]))
					}
				}
			} else {
				for _, r := range x.Rhs {
					c.term(r)
				}
			}
			return false
		case *ast.ValueSpec:
			for _, v := range x.Values {
				funcLits(v)
			}
			if len(x.Names) == len(x.Values) {
				for i := range x.Names {
					c.unify(c.lhs(x.Names[i]), c.term(x.Values[i]), x.Names[i].Pos(), "the declaration of `"+x.Names[i].Name+"`", x.Names[i].Name, c.text(x.Values[i]))
				}
			}
			return false
		case *ast.ReturnStmt:
			// named results: `return a, b` assigns to them
			if fd.Type.Results != nil {
				var names []*ast.Ident
				for _, f := range fd.Type.Results.List {
					names = append(names, f.Names...)
				}
				if len(names) == len(x.Results) {
					for i := range names {
						c.unify(c.lhs(names[i]), c.term(x.Results[i]), x.Return, "the value returned as `"+names[i].Name+"`", names[i].Name, c.text(x.Results[i]))
					}
					return false
				}
			}
			for _, e := range x.Results {
				funcLits(e)
				c.term(e)
			}
			return false
		case *ast.IfStmt:
			if x.Init != nil {
				ast.Inspect(x.Init, func(ast.Node) bool { return true })
			}
			c.term(x.Cond)
			return true
		case *ast.ForStmt:
			if x.Cond != nil {
				c.term(x.Cond)
			}
			return true
		case *ast.ExprStmt:
			funcLits(x.X)
			c.term(x.X)
			return false
		case *ast.FuncLit:
			return true // closures share the enclosing function's variables
		}
		return true
	}
	ast.Inspect(fd.Body, visit)
}

func exprName(e ast.Expr) string {
	if id, ok := e.(*ast.Ident); ok {
		return "`" + id.Name + "`"
	}
	return "the left-hand side"
}

// checkConversionScales runs the inference over every function of the model packages whose relative path has one of
// the prefixes.
func checkConversionScales(p *Program, r *Report, rule string, prefixes []string) {
	r.Rule(rule, "conversion scales are consistent: with every float variable of a function given an unknown scale, multiplication or division by a named conversion constant of conv/units shifting it, and +, −, comparison, math.Min/Max and assignment requiring equal scales, the constraints of each function of the model packages have a solution — no quantity meets itself converted (kilograms compared with tonnes, a percentage applied twice on one branch and once on the other)")
	nF, nC := 0, 0
	for _, pk := range p.Pkgs {
		rel := relPkg(pk.PkgPath)
		match := false
		for _, pre := range prefixes {
			if strings.HasPrefix(rel, pre) {
				match = true
			}
		}
		if !match || pk.TypesInfo == nil {
			continue
		}
		for _, file := range pk.Syntax {
			fname := p.Fset.Position(file.Pos()).Filename
			if strings.HasSuffix(fname, "_test.go") {
				continue
			}
			for _, d := range file.Decls {
				fd, ok := d.(*ast.FuncDecl)
				if !ok || fd.Body == nil {
					continue
				}
				c := &scaleCtx{info: pk.TypesInfo, fset: p.Fset, vars: map[types.Object]int{}, exempt: map[types.Object]bool{}, pivots: map[int]*scaleRow{},
					unitPkg: func(obj types.Object) bool {
						return obj.Pkg() != nil && strings.HasSuffix(obj.Pkg().Path(), "/conv/units")
					}}
				c.function(fd)
				nF++
				nC += len(c.vars)
				key := rel + "." + fd.Name.Name
				if len(c.bad) == 0 {
					r.OK(rule, fmt.Sprintf("%s: %d scaled variables, constraints consistent", key, len(c.vars)))
					continue
				}
				seen := map[string]bool{}
				for _, b := range c.bad {
					k := fmt.Sprintf("%s:scale:%s~%s", key, b.a, b.b)
					if seen[k] {
						continue
					}
					seen[k] = true
					r.Fail(rule, k, p.Pos(b.pos), fmt.Sprintf("in %s, %s require `%s` and `%s` to be on one scale, but by the conversion constants applied in the function they differ by the factor %s: a quantity meets itself converted (e.g. kilograms against tonnes, or a percentage factor applied once on one path and twice on another)", fd.Name.Name, b.what, b.a, b.b, b.diff))
				}
			}
		}
	}
	r.Analysed[rule+" functions"] = nF
	r.Analysed[rule+" scaled variables"] = nC
	r.Floor(rule, "functions of the model packages", nF, 20)
}
