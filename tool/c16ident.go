package main

// R16.3: algebraic identities of the partition / conversion / concentration models, decided by symbolic
// polynomial normal forms of the values written to the outputs (nothing is executed).
//
// Canonical symbols: in<k> = read of input series k at the loop's own time index, p<k> = scalar parameter k.
// Every other non-polynomial subexpression is an opaque symbol (e.g. a Piecewise lookup result).

import (
	"fmt"
	"go/token"
	"go/types"
	"sort"
	"strings"

	"golang.org/x/tools/go/ssa"
)

type identSpec struct {
	// outs: for each output index the expected polynomial alternatives (any write site must equal one of them),
	// written as sums of monomials "c*sym*sym*/sym"; "outA+outB" style relations go in rel.
	outs map[int][]string
	rel  []string // e.g. "out0+out1=in0"
	note string
}

var identTable = map[string]identSpec{
	"FixedPartition":                    {rel: []string{"out0+out1=in0"}, note: "the two outputs sum to the input"},
	"VariablePartition":                 {rel: []string{"out0+out1=in0"}, note: "the two outputs sum to the input"},
	"RatingCurvePartition":              {rel: []string{"out0+out1=in0"}, note: "the two outputs sum to the input"},
	"ApplyScalingFactor":                {outs: map[int][]string{0: {"1*in0*p0"}}, note: "output = input × scale"},
	"DeliveryRatio":                     {outs: map[int][]string{0: {"1*in0*p0"}}, note: "delivered load = generated load × delivery ratio"},
	"DepthToRate":                       {outs: map[int][]string{0: {"0.001*in0*p1*/p0"}}, note: "rate = depth[mm] × 1e-3 × area / Δt"},
	"Sum":                               {outs: map[int][]string{0: {"1*in0+1*in1"}}, note: "output = i1 + i2"},
	"Gate":                              {outs: map[int][]string{0: {"1*in1", "0"}}, note: "output is the input or zero (mask)"},
	"PassLoadIfFlow":                    {outs: map[int][]string{0: {"1*in1*p0", "0"}}, note: "output is load × scaling factor or zero"},
	"FixedConcentration":                {outs: map[int][]string{0: {"0.001*in0*p0"}}, note: "load = flow × concentration × (mg/L→kg/m³)"},
	"EmcDwc":                            {outs: map[int][]string{0: {"0.001*in0*p0"}, 1: {"0.001*in1*p1"}}, rel: []string{"out0+out1=out2"}, note: "quick = flow×EMC×1e-3, slow = flow×DWC×1e-3, total = quick + slow"},
	"SednetDissolvedNutrientGeneration": {outs: map[int][]string{0: {"0.001*in0*p0"}, 1: {"0.001*in1*p1"}}, rel: []string{"out0+out1=out2"}, note: "quick/slow loads linear in flow and concentration with mg/L→kg/m³; total = quick + slow"},
}

func parsePoly(s string) poly {
	out := poly{}
	s = strings.ReplaceAll(s, " ", "")
	if s == "0" {
		return out
	}
	for _, term := range strings.Split(s, "+") {
		parts := strings.Split(term, "*")
		coef := 1.0
		var syms []string
		for _, p := range parts {
			var f float64
			if _, err := fmt.Sscanf(p, "%g", &f); err == nil && !strings.HasPrefix(p, "in") && !strings.HasPrefix(p, "p") && !strings.HasPrefix(p, "/") && !strings.HasPrefix(p, "out") {
				coef *= f
				continue
			}
			syms = append(syms, p)
		}
		sort.Strings(syms)
		out[strings.Join(syms, "*")] += coef
	}
	return out
}

func polyEqual(a, b poly) bool {
	keys := map[string]bool{}
	for k := range a {
		keys[k] = true
	}
	for k := range b {
		keys[k] = true
	}
	for k := range keys {
		if !relClose(a[k], b[k]) {
			return false
		}
	}
	return true
}

func showPoly(p poly) string {
	var ks []string
	for k, v := range p {
		if v != 0 {
			ks = append(ks, k)
		}
	}
	sort.Strings(ks)
	if len(ks) == 0 {
		return "0"
	}
	var parts []string
	for _, k := range ks {
		if k == "" {
			parts = append(parts, fmt.Sprintf("%g", p[k]))
		} else {
			parts = append(parts, fmt.Sprintf("%g·%s", p[k], strings.ReplaceAll(k, "*", "·")))
		}
	}
	return strings.Join(parts, " + ")
}

// canonPoly expands v with canonical symbols for input reads and scalar parameters of kernel k.
type canonCtx struct {
	pc    polyCtx
	names map[ssa.Value]string
	// while expanding a value of a helper called from the kernel: the helper's parameters stand for the call's
	// arguments, and opaque symbols of helper-local values are kept apart per call site
	subst map[ssa.Value]ssa.Value
	scope string
	// while expanding the result of a scalar helper inlined into the expression (a helper with one return statement:
	// `part, remainder := splitAmount(x, f)`, `runoff, quick, base := state.step(rain, pet)`): its parameters stand
	// for the polynomials of the call's arguments, and its local opaque values are kept apart per call
	bound map[ssa.Value]poly
	inl   string
	// struct-typed parameters of an inlined helper (`func (qs quickSlow) times(other quickSlow) quickSlow`): the field
	// of the argument, evaluated in the caller's context
	boundStruct map[ssa.Value]func(field int, depth int) (poly, bool)
	// series parameters of an inlined helper that stand for a kernel input, and index parameters that stand for the
	// time loop's own index: a read `series.Get(idx)` inside the helper is then the kernel's input at this timestep
	boundIn  map[ssa.Value]int
	boundIdx map[ssa.Value]bool
	inIdx    map[ssa.Value]int
	atIndex  func(a ssa.Value, at ssa.Instruction) bool
	// the polynomial of every several-term divisor, as expanded where it divides (inside an inlined helper its terms
	// are the call's arguments), by its inverse symbol
	denPoly map[string]poly
}

func (cc *canonCtx) osym(v ssa.Value) string {
	s := cc.pc.sym(v)
	if cc.scope != "" && cc.subst != nil {
		s += "@" + cc.scope
	}
	if cc.inl != "" {
		s += "@" + cc.inl
	}
	return s
}

// withCallee evaluates body in the context of a module helper with a single return statement called at `call`: the
// helper's numeric parameters stand for the polynomials of the arguments, struct parameters for the argument's
// fields, series and index parameters for the kernel's input and time index where the arguments are those.
func (cc *canonCtx) withCallee(call *ssa.Call, depth int, body func(f *ssa.Function, ret *ssa.Return) (poly, bool)) (poly, bool) {
	return cc.withCalleeAt(call, depth, nil, body)
}

// withCalleeAt: as withCallee, for one chosen return statement of a helper that has several.
func (cc *canonCtx) withCalleeAt(call *ssa.Call, depth int, at *ssa.Return, body func(f *ssa.Function, ret *ssa.Return) (poly, bool)) (poly, bool) {
	f := call.Common().StaticCallee()
	if f == nil || f.Blocks == nil || !InModule(f) || call.Common().IsInvoke() || depth > 30 || strings.Count(cc.inl, "/") > 3 {
		return nil, false
	}
	if pk := fnPkg(f); pk == nil || !strings.HasPrefix(relPkg(pk.Path()), "models") {
		return nil, false
	}
	rets := returnsOf(f)
	if at != nil {
		rets = []*ssa.Return{at}
	}
	if len(rets) != 1 || len(f.Params) != len(call.Common().Args) {
		return nil, false
	}
	type snap struct {
		bound       map[ssa.Value]poly
		boundStruct map[ssa.Value]func(int, int) (poly, bool)
		boundIn     map[ssa.Value]int
		boundIdx    map[ssa.Value]bool
		inl, scope  string
		subst       map[ssa.Value]ssa.Value
	}
	take := func() snap {
		return snap{cc.bound, cc.boundStruct, cc.boundIn, cc.boundIdx, cc.inl, cc.scope, cc.subst}
	}
	put := func(c snap) {
		cc.bound, cc.boundStruct, cc.boundIn, cc.boundIdx, cc.inl, cc.scope, cc.subst = c.bound, c.boundStruct, c.boundIn, c.boundIdx, c.inl, c.scope, c.subst
	}
	caller := take()
	// arguments in the caller's context
	args := map[ssa.Value]poly{}
	structs := map[ssa.Value]func(int, int) (poly, bool){}
	ins := map[ssa.Value]int{}
	idxs := map[ssa.Value]bool{}
	for i, prm := range f.Params {
		arg := call.Common().Args[i]
		t := prm.Type().Underlying()
		if pt, ok := t.(*types.Pointer); ok {
			t = pt.Elem().Underlying()
		}
		switch tt := t.(type) {
		case *types.Basic:
			if tt.Info()&types.IsInteger != 0 && cc.isTimeIndex(arg, call) {
				idxs[prm] = true
			}
			if tt.Info()&types.IsNumeric != 0 {
				args[prm] = cc.expand(arg, depth+1)
			}
		case *types.Struct:
			arg := arg
			structs[prm] = func(field int, d int) (poly, bool) {
				cur := take()
				put(caller)
				r, ok := cc.fieldOf(arg, field, d+1)
				put(cur)
				return r, ok
			}
		case *types.Slice:
			if cc.isTimeIndex(arg, call) {
				idxs[prm] = true
			}
		default:
			if k, ok := cc.inputSeries(arg); ok {
				ins[prm] = k
			}
		}
	}
	cc.bound, cc.boundStruct, cc.boundIn, cc.boundIdx, cc.subst, cc.scope = args, structs, ins, idxs, nil, ""
	cc.inl = caller.inl + "/" + fmt.Sprintf("%s#%d", f.Name(), instrIndex(call)*1000+call.Block().Index)
	r, ok := body(f, rets[0])
	put(caller)
	return r, ok
}

// inputSeries: v is kernel input k (directly, or as a series parameter of the helper being inlined).
func (cc *canonCtx) inputSeries(v ssa.Value) (int, bool) {
	o := origin1(v)
	if o == nil {
		return 0, false
	}
	if cc.inl != "" {
		k, ok := cc.boundIn[o]
		return k, ok
	}
	if cc.subst != nil {
		return 0, false
	}
	k, ok := cc.inIdx[o]
	return k, ok
}

// isTimeIndex: v (an int or a one-element index vector) holds the time loop's own index at `at`.
func (cc *canonCtx) isTimeIndex(v ssa.Value, at ssa.Instruction) bool {
	if cc.inl != "" {
		o := origin1(v)
		return o != nil && cc.boundIdx[o]
	}
	if cc.subst != nil || cc.atIndex == nil {
		return false
	}
	return cc.atIndex(v, at)
}

// inlineResult: the k-th result of a call of a module function with a single return statement, expanded in the
// caller's terms. ok=false when the callee does not qualify.
func (cc *canonCtx) inlineResult(call *ssa.Call, k int, depth int) (poly, bool) {
	return cc.withCallee(call, depth, func(f *ssa.Function, ret *ssa.Return) (poly, bool) {
		if k >= len(ret.Results) {
			return nil, false
		}
		if b, ok := ret.Results[k].Type().Underlying().(*types.Basic); !ok || b.Info()&types.IsFloat == 0 {
			return nil, false
		}
		return cc.expand(ret.Results[k], depth+1), true
	})
}

// fieldOf: field `field` of the struct value sv (or of the struct sv points to), as a polynomial in the current
// context: a struct parameter of the helper being inlined, the result of a helper that returns a struct, a local
// struct assigned once (composite literal, spilled value receiver).
func (cc *canonCtx) fieldOf(sv ssa.Value, field int, depth int) (poly, bool) {
	if depth > 30 {
		return nil, false
	}
	switch x := sv.(type) {
	case *ssa.Parameter:
		if fn := cc.boundStruct[x]; fn != nil {
			return fn(field, depth)
		}
	case *ssa.Call:
		if x.Common().Signature().Results().Len() != 1 {
			return nil, false
		}
		return cc.withCallee(x, depth, func(f *ssa.Function, ret *ssa.Return) (poly, bool) {
			return cc.fieldOf(ret.Results[0], field, depth+1)
		})
	case *ssa.Extract:
		if call, ok := x.Tuple.(*ssa.Call); ok {
			return cc.withCallee(call, depth, func(f *ssa.Function, ret *ssa.Return) (poly, bool) {
				if x.Index >= len(ret.Results) {
					return nil, false
				}
				return cc.fieldOf(ret.Results[x.Index], field, depth+1)
			})
		}
	case *ssa.UnOp:
		if a, ok := x.X.(*ssa.Alloc); ok && x.Op == token.MUL {
			return cc.fieldOfAlloc(a, field, depth)
		}
	case *ssa.Alloc:
		return cc.fieldOfAlloc(x, field, depth)
	}
	return nil, false
}

// fieldOfAlloc: the one value a field of a local struct is given (by a field store or by a store of the whole
// struct); false when it is assigned more than once or the struct is handed to a callee.
func (cc *canonCtx) fieldOfAlloc(a *ssa.Alloc, field int, depth int) (poly, bool) {
	var vals, whole []ssa.Value
	for _, ref := range refs(a) {
		switch x := ref.(type) {
		case *ssa.FieldAddr:
			if x.Field != field {
				continue
			}
			for _, r2 := range refs(x) {
				switch y := r2.(type) {
				case *ssa.Store:
					if y.Addr == ssa.Value(x) {
						vals = append(vals, y.Val)
					}
				case *ssa.UnOp:
				default:
					return nil, false
				}
			}
		case *ssa.Store:
			if x.Addr == ssa.Value(a) {
				whole = append(whole, x.Val)
			} else {
				return nil, false
			}
		case *ssa.UnOp, *ssa.DebugRef:
		default:
			return nil, false
		}
	}
	switch {
	case len(vals) == 1 && len(whole) == 0:
		return cc.expand(vals[0], depth+1), true
	case len(vals) == 0 && len(whole) == 1:
		return cc.fieldOf(whole[0], field, depth+1)
	}
	return nil, false
}

func (cc *canonCtx) expand(v ssa.Value, depth int) poly {
	if n, ok := cc.names[v]; ok {
		return poly{n: 1}
	}
	if cc.bound != nil {
		if p, ok := cc.bound[v]; ok {
			return p
		}
	}
	if cc.subst != nil {
		if a, ok := cc.subst[v]; ok {
			save := cc.subst
			cc.subst = nil
			r := cc.expand(a, depth+1)
			cc.subst = save
			return r
		}
	}
	if depth > 40 {
		return poly{cc.osym(v): 1}
	}
	switch x := v.(type) {
	case *ssa.Const:
		if x.Value != nil {
			return poly{"": x.Float64()}
		}
	case *ssa.Convert:
		return cc.expand(x.X, depth+1)
	case *ssa.Extract:
		if call, ok := x.Tuple.(*ssa.Call); ok {
			if p, ok := cc.inlineResult(call, x.Index, depth); ok {
				return p
			}
		}
	case *ssa.Call:
		// inside an inlined helper: a read of a kernel input at the time loop's index
		if cc.inl != "" {
			if nm := callName(x.Common()); nm == "Get" || nm == "Get1" {
				if rv := recvOf(x.Common()); rv != nil {
					if k, ok := cc.inputSeries(rv); ok && cc.isTimeIndex(callArgs(x.Common())[0], x) {
						return poly{fmt.Sprintf("in%d", k): 1}
					}
				}
			}
		}
		if x.Common().Signature().Results().Len() == 1 {
			if p, ok := cc.inlineResult(x, 0, depth); ok {
				return p
			}
		}
	case *ssa.Field:
		if p, ok := cc.fieldOf(x.X, x.Field, depth+1); ok {
			return p
		}
	case *ssa.UnOp:
		if x.Op == token.MUL {
			if fa, ok := x.X.(*ssa.FieldAddr); ok {
				switch b := fa.X.(type) {
				case *ssa.Alloc:
					if p, ok := cc.fieldOfAlloc(b, fa.Field, depth+1); ok {
						return p
					}
				case *ssa.Parameter:
					// a field read through a pointer parameter of the helper being inlined, which the helper never assigns
					if fn := cc.boundStruct[b]; fn != nil && !storesField(b, fa.Field) {
						if p, ok := fn(fa.Field, depth+1); ok {
							return p
						}
					}
				}
			}
			// a variable of the enclosing function captured by a closure (`scale` inside the mapping function)
			if _, isFree := x.X.(*ssa.FreeVar); isFree {
				if vs := resolveCapturedLoad(x); len(vs) == 1 && vs[0] != ssa.Value(x) {
					return cc.expand(vs[0], depth+1)
				}
			}
		}
		if x.Op.String() == "-" {
			return polyMul(cc.expand(x.X, depth+1), poly{"": -1})
		}
	case *ssa.BinOp:
		switch x.Op.String() {
		case "+":
			return polyAdd(cc.expand(x.X, depth+1), cc.expand(x.Y, depth+1), 1)
		case "-":
			return polyAdd(cc.expand(x.X, depth+1), cc.expand(x.Y, depth+1), -1)
		case "*":
			return polyMul(cc.expand(x.X, depth+1), cc.expand(x.Y, depth+1))
		case "/":
			if c, ok := x.Y.(*ssa.Const); ok && c.Value != nil && c.Float64() != 0 {
				return polyMul(cc.expand(x.X, depth+1), poly{"": 1 / c.Float64()})
			}
			den := cc.expand(x.Y, depth+1)
			// single-monomial denominators invert exactly
			if len(den) == 1 {
				for k, c := range den {
					inv := []string{}
					if k != "" {
						for _, s := range strings.Split(k, "*") {
							if strings.HasPrefix(s, "/") {
								inv = append(inv, s[1:])
							} else {
								inv = append(inv, "/"+s)
							}
						}
					}
					sort.Strings(inv)
					return polyMul(cc.expand(x.X, depth+1), poly{strings.Join(inv, "*"): 1 / c})
				}
			}
			ds := cc.osym(x.Y)
			if cc.denPoly == nil {
				cc.denPoly = map[string]poly{}
			}
			cc.denPoly[ds] = den
			return polyMul(cc.expand(x.X, depth+1), poly{"/" + ds: 1})
		}
	}
	return poly{cc.osym(v): 1}
}

// writeSite: one write of an output at the loop's time index, in the kernel or in a straight-line helper the kernel
// hands the output to.
type writeSite struct {
	oi    int
	val   ssa.Value
	at    ssa.CallInstruction // the instruction in the kernel (the Set itself or the helper call)
	subst map[ssa.Value]ssa.Value
	scope string
}

func (cc *canonCtx) expandSite(w writeSite) poly {
	cc.subst, cc.scope = w.subst, w.scope
	r := cc.expand(w.val, 0)
	cc.subst, cc.scope = nil, ""
	return r
}

func checkIdentities(p *Program, r *Report) {
	checkIdentityTable(p, r, "R16.3", identTable, 12, "")
}

const identDoc = "algebraic identities by normal form: the value written to each output of the partition / scaling / conversion / concentration kernels is expanded to a polynomial over the canonical symbols in<k> (input k at the loop's time index) and p<k> (parameter k); partitions sum to their input, linear maps are the stated monomial with the exact unit factor, totals equal the sum of their parts, masks write the input or zero — on every write site"

// identTableC10: reported components add up to the reported total.
var identTableC10 = map[string]identSpec{
	"Simhyd":     {rel: []string{"out1+out2=out0"}, note: "runoff = quickflow + baseflow"},
	"Surm":       {rel: []string{"out1+out2=out0"}, note: "runoff = quickflow + baseflow"},
	"Sacramento": {rel: []string{"out3+out4=out1"}, note: "runoff = surface runoff + baseflow"},
}

func checkIdentityTable(p *Program, r *Report, rule string, table map[string]identSpec, floor int, doc string) {
	if doc == "" {
		doc = identDoc
	}
	r.Rule(rule, doc)
	models, _ := p.Registry()
	eff := nil2eff(p)
	n := 0
	for _, m := range models {
		spec, ok := table[m.Name]
		if !ok || m.Kernel == nil {
			continue
		}
		n++
		k := m.Kernel
		key := m.RelPkg + "." + m.Name
		cc := &canonCtx{names: map[ssa.Value]string{}}
		nIn, nSt := len(m.Inputs), len(m.States)
		for i, ps := range m.Params {
			idx := nIn + nSt + i
			if idx < len(k.Params) && len(ps.Dims) == 0 {
				cc.names[k.Params[idx]] = fmt.Sprintf("p%d", i)
			}
		}
		inIdx := map[ssa.Value]int{}
		for i := 0; i < nIn && i < len(k.Params); i++ {
			inIdx[k.Params[i]] = i
		}
		outIdx := map[ssa.Value]int{}
		if m.OutputsAsParams {
			base := nIn + nSt + len(m.Params)
			for i := range m.Outputs {
				if base+i < len(k.Params) {
					outIdx[k.Params[base+i]] = i
				}
			}
		}
		loops := timeLoops(k)
		var ind *ssa.Phi
		if len(loops) == 1 {
			ind = loopInduction(loops[0])
		}
		// the time loop may live in a visiting helper (`walkSeries(n, func(idx []int) { … })`): the timestep is then
		// the closure's body and its parameter the time index
		body := k
		var bodyIdx *ssa.Parameter
		var walkCall ssa.CallInstruction
		if len(loops) == 0 {
			for _, c := range callsIn(k) {
				h := c.Common().StaticCallee()
				if h == nil || h.Blocks == nil || !InModule(h) || len(h.Params) != len(c.Common().Args) {
					continue
				}
				fi, ok := walkHelperShape(p, h)
				if !ok {
					continue
				}
				if mc := closureValueOf(c.Common().Args[fi]); mc != nil {
					if fn, _ := mc.Fn.(*ssa.Function); fn != nil && len(fn.Params) == 1 && len(findLoops(fn)) == 0 {
						body, bodyIdx, walkCall = fn, fn.Params[0], c
					}
				}
			}
		}
		// kv: a value of the closure in the kernel's terms (captured variables are the kernel's own)
		kv := func(v ssa.Value) ssa.Value {
			if v == nil {
				return nil
			}
			if u, ok := v.(*ssa.UnOp); ok && u.Op == token.MUL {
				if _, isFree := u.X.(*ssa.FreeVar); isFree {
					if vs := resolveCapturedLoad(u); len(vs) == 1 {
						return origin1(vs[0])
					}
				}
			}
			return origin1(v)
		}
		atLoopIndexVal := func(a ssa.Value, at ssa.Instruction) bool {
			if bodyIdx != nil {
				return origin1(a) == ssa.Value(bodyIdx)
			}
			if ind == nil {
				return false
			}
			if isIntVec(a.Type()) {
				vals, _, unk := vecElemAt(eff, origin1(a), 0, at)
				return unk == "" && len(vals) == 1 && origin1(vals[0]) == ssa.Value(ind)
			}
			return origin1(a) == ssa.Value(ind)
		}
		atLoopIndex := func(call ssa.CallInstruction) bool {
			return atLoopIndexVal(callArgs(call.Common())[0], call)
		}
		cc.inIdx, cc.atIndex = inIdx, atLoopIndexVal
		// canonical names for input reads
		for _, c := range callsIn(body) {
			cv, ok := c.(*ssa.Call)
			if !ok {
				continue
			}
			nm := callName(c.Common())
			if nm != "Get" && nm != "Get1" {
				continue
			}
			if i, ok := inIdx[kv(recvOf(c.Common()))]; ok && atLoopIndex(c) {
				cc.names[cv] = fmt.Sprintf("in%d", i)
			}
		}
		// write sites
		var sites []writeSite
		for ci, c := range callsIn(body) {
			nm := callName(c.Common())
			if nm == "Set" || nm == "Set1" {
				if oi, ok := outIdx[kv(recvOf(c.Common()))]; ok && atLoopIndex(c) {
					sites = append(sites, writeSite{oi: oi, val: callArgs(c.Common())[1], at: c})
				}
				continue
			}
			// a straight-line helper of the module that is handed an output
			f := c.Common().StaticCallee()
			if f == nil || f.Blocks == nil || len(f.Blocks) != 1 || !InModule(f) || f.Signature.Recv() != nil || len(f.Params) != len(c.Common().Args) {
				continue
			}
			subst := map[ssa.Value]ssa.Value{}
			handsOut := false
			for i, prm := range f.Params {
				subst[prm] = c.Common().Args[i]
				if _, ok := outIdx[origin1(c.Common().Args[i])]; ok {
					handsOut = true
				}
			}
			if !handsOut {
				continue
			}
			for _, c2 := range callsIn(f) {
				nm2 := callName(c2.Common())
				if nm2 != "Set" && nm2 != "Set1" {
					continue
				}
				rp, ok := origin1(recvOf(c2.Common())).(*ssa.Parameter)
				if !ok || subst[rp] == nil {
					continue
				}
				oi, ok := outIdx[origin1(subst[rp])]
				if !ok {
					continue
				}
				ip, ok := origin1(callArgs(c2.Common())[0]).(*ssa.Parameter)
				if !ok || subst[ip] == nil || !atLoopIndexVal(subst[ip], c) {
					continue
				}
				sites = append(sites, writeSite{oi: oi, val: callArgs(c2.Common())[1], at: c, subst: subst, scope: fmt.Sprintf("c%d", ci)})
			}
		}
		mappedBy := map[int]*ssa.Function{}
		// a series mapped by a helper: `mapSeries(in, out, func(v float64) float64 { … })` — the helper holds the time
		// loop and stores f(in[i]) at out[i]; the value written is the closure's result with its parameter standing for
		// the input at the loop's index
		for _, c := range callsIn(k) {
			h := c.Common().StaticCallee()
			if h == nil || h.Blocks == nil || !InModule(h) || len(h.Params) != len(c.Common().Args) {
				continue
			}
			a, b, f, ok := mapHelperShape(p, h)
			if !ok {
				continue
			}
			ii, okIn := inIdx[origin1(c.Common().Args[a])]
			oi, okOut := outIdx[origin1(c.Common().Args[b])]
			mc := closureValueOf(c.Common().Args[f])
			if !okIn || !okOut || mc == nil {
				continue
			}
			body, _ := mc.Fn.(*ssa.Function)
			if body == nil || len(body.Params) != 1 {
				continue
			}
			rets := returnsOf(body)
			if len(rets) != 1 || len(rets[0].Results) != 1 {
				continue
			}
			cc.names[body.Params[0]] = fmt.Sprintf("in%d", ii)
			sites = append(sites, writeSite{oi: oi, val: rets[0].Results[0], at: c})
			mappedBy[oi] = h
		}
		writes := map[int][]poly{}
		var wpos = map[int]ssa.Instruction{}
		siteAlts := map[int][]altVal{} // per output: every value a write site can store, with the driver test on its way
		for _, w := range sites {
			for _, av := range cc.siteAlternatives(w) {
				writes[w.oi] = append(writes[w.oi], av.p)
				siteAlts[w.oi] = append(siteAlts[w.oi], av)
			}
			wpos[w.oi] = w.at
		}
		if len(writes) == 0 && len(findLoops(k)) == 0 && len(k.AnonFuncs) == 0 {
			// a kernel without any loop that hands its outputs to whole-array operations of package data
			// (`out.CopyFrom(a); data.AddToFloat64Array(out, b)`): element-wise identities are not followed through those
			whole := false
			for _, c := range callsIn(k) {
				f := c.Common().StaticCallee()
				inData := f != nil && fnPkg(f) != nil && relPkg(fnPkg(f).Path()) == "data"
				if rv := recvOf(c.Common()); rv != nil && c.Common().IsInvoke() && isNDType(rv.Type()) {
					if _, isOut := outIdx[origin1(rv)]; isOut && callName(c.Common()) == "CopyFrom" {
						whole = true
					}
				}
				for _, a := range c.Common().Args {
					if _, isOut := outIdx[origin1(stripConv(a))]; isOut && inData {
						whole = true
					}
				}
			}
			if whole {
				r.Unsupported(rule, key+" computes its outputs with whole-series operations (no time loop): the element-wise identity is not followed through them")
				continue
			}
		}
		if len(writes) == 0 {
			r.Undecided(rule, key+":writes", p.Pos(k.Pos()), "no output writes at the loop's time index recognised")
			continue
		}
		// every iteration writes every output the identities speak about (a skipped write leaves the zero
		// value in place and breaks the identity for that timestep)
		if len(loops) == 0 && bodyIdx != nil {
			// the timestep is the visiting closure's body: every way through it writes every specified output
			var ois []int
			for oi := range writes {
				ois = append(ois, oi)
			}
			sort.Ints(ois)
			for _, oi := range ois {
				hasW := map[*ssa.BasicBlock]bool{}
				for _, w := range sites {
					if w.oi == oi {
						hasW[w.at.Block()] = true
					}
				}
				skipped := false
				if !hasW[body.Blocks[0]] {
					reach := reachable(body.Blocks[0], func(from *ssa.BasicBlock, i int) bool { return hasW[from.Succs[i]] })
					for _, ret := range returnsOf(body) {
						if reach[ret.Block()] && !hasW[ret.Block()] {
							skipped = true
						}
					}
				}
				okey := fmt.Sprintf("%s:out%d:every-step", key, oi)
				if skipped {
					r.Fail(rule, okey, p.Pos(body.Pos()), fmt.Sprintf("%s (%s): some path through a timestep does not write output `%s`: it keeps its zero value for that step and the identity fails there", m.Name, spec.note, m.Outputs[oi]))
				} else {
					r.OK(rule, fmt.Sprintf("%s: output `%s` is written on every path through a timestep", key, m.Outputs[oi]))
				}
			}
		}
		_ = walkCall
		if len(loops) == 0 && bodyIdx == nil {
			// the time loop lives in a mapping helper, whose single store lies on every path round its loop (mapHelperShape)
			var ois []int
			for oi := range mappedBy {
				ois = append(ois, oi)
			}
			sort.Ints(ois)
			for _, oi := range ois {
				if _, also := writes[oi]; also {
					r.OK(rule, fmt.Sprintf("%s: output `%s` is written on every path through a timestep", key, m.Outputs[oi]))
				}
			}
		}
		if len(loops) == 1 {
			l := loops[0]
			var latches []*ssa.BasicBlock
			for _, pr := range l.Header.Preds {
				if l.Blocks[pr] {
					latches = append(latches, pr)
				}
			}
			for oi := range writes {
				hasW := map[*ssa.BasicBlock]bool{}
				for _, w := range sites {
					if w.oi == oi {
						hasW[w.at.Block()] = true
					}
				}
				// body entry: successor of the header inside the loop
				skipped := false
				for _, s0 := range l.Header.Succs {
					if !l.Blocks[s0] {
						continue
					}
					if hasW[s0] {
						continue
					}
					reach := reachable(s0, func(from *ssa.BasicBlock, i int) bool {
						nb := from.Succs[i]
						return hasW[nb] || !l.Blocks[nb] || nb == l.Header
					})
					for _, la := range latches {
						if reach[la] && !hasW[la] {
							skipped = true
						}
					}
				}
				okey := fmt.Sprintf("%s:out%d:every-step", key, oi)
				if skipped {
					r.Fail(rule, okey, p.Pos(k.Pos()), fmt.Sprintf("%s (%s): some path through a timestep does not write output `%s`: it keeps its zero value for that step and the identity fails there", m.Name, spec.note, m.Outputs[oi]))
				} else {
					r.OK(rule, fmt.Sprintf("%s: output `%s` is written on every path through a timestep", key, m.Outputs[oi]))
				}
			}
		}
		// early returns: a return taken before the time loop leaves the zero-initialised outputs in place, which is the
		// identity's value only where its right-hand side vanishes — under `scale == 0`, not under `scale <= 0`
		if len(spec.outs) > 0 {
			checkEarlyReturns(p, r, rule, key, m, k, cc, spec, loops)
		}
		// per-output expectations
		for oi, alts := range spec.outs {
			ws := writes[oi]
			okey := fmt.Sprintf("%s:out%d", key, oi)
			if len(ws) == 0 {
				r.Fail(rule, okey, p.Pos(k.Pos()), fmt.Sprintf("output %d (%s) is never written", oi, m.Outputs[oi]))
				continue
			}
			bad := ""
			covered := map[int]bool{}
			for _, w := range ws {
				match := false
				for ai, a := range alts {
					if polyEqual(w, parsePoly(a)) {
						match = true
						covered[ai] = true
					}
				}
				if !match {
					bad = fmt.Sprintf("writes %s, expected %s", showPoly(w), strings.Join(alts, " or "))
				}
			}
			// masks: the non-zero case is written exactly when the driver (input 0) is positive
			if bad == "" && len(alts) == 2 && alts[1] == "0" {
				for _, av := range siteAlts[oi] {
					nonZero := !polyEqual(av.p, poly{})
					if !av.found || av.pos != nonZero {
						bad = "the value is passed through on the wrong side of the driver test (input 0 > threshold): the mask is inverted or unconditional"
					}
				}
			}
			if bad == "" && len(covered) != len(alts) {
				bad = fmt.Sprintf("not every expected case is written (expected %s)", strings.Join(alts, " and "))
			}
			if bad != "" {
				r.Fail(rule, okey, p.Pos(wpos[oi].Pos()), fmt.Sprintf("%s (%s): output `%s` %s", m.Name, spec.note, m.Outputs[oi], bad))
			} else {
				r.OK(rule, fmt.Sprintf("%s: %s = %s", key, m.Outputs[oi], strings.Join(alts, " | ")))
			}
		}
		// relations between outputs
		for _, rel := range spec.rel {
			sides := strings.Split(rel, "=")
			okey := fmt.Sprintf("%s:%s", key, rel)
			eval := func(s string) (poly, bool) {
				out := poly{}
				for _, t := range strings.Split(s, "+") {
					t = strings.TrimSpace(t)
					if strings.HasPrefix(t, "out") {
						var i int
						fmt.Sscanf(t, "out%d", &i)
						ws := writes[i]
						if len(ws) != 1 {
							return nil, false
						}
						out = polyAdd(out, ws[0], 1)
					} else {
						out = polyAdd(out, parsePoly(t), 1)
					}
				}
				return out, true
			}
			l, ok1 := eval(sides[0])
			rr, ok2 := eval(sides[1])
			if !ok1 || !ok2 {
				r.Undecided(rule, okey, p.Pos(k.Pos()), "an output of the relation is written at several sites or not at all")
				continue
			}
			if polyEqual(l, rr) {
				r.OK(rule, fmt.Sprintf("%s: %s holds identically (%s)", key, rel, showPoly(l)))
			} else {
				r.Fail(rule, okey, p.Pos(k.Pos()), fmt.Sprintf("%s (%s): %s does not hold identically: left side is %s, right side is %s", m.Name, spec.note, rel, showPoly(l), showPoly(rr)))
			}
		}
	}
	r.Floor(rule, "models with identities", n, floor)
}

// mapHelperShape: h(in, out ND, f func(float64) float64) with one counting loop over the length of `in` whose body is
// out.Set(idx, f(in.Get(idx))) at the loop's own index: positions of in, out and f among h's parameters.
func mapHelperShape(p *Program, h *ssa.Function) (a, b, f int, ok bool) {
	loops := timeLoops(h)
	if len(loops) != 1 {
		return 0, 0, 0, false
	}
	ind := loopInduction(loops[0])
	if ind == nil {
		return 0, 0, 0, false
	}
	eff := nil2eff(p)
	atInd := func(v ssa.Value, at ssa.Instruction) bool {
		if isIntVec(v.Type()) {
			vals, _, unk := vecElemAt(eff, origin1(v), 0, at)
			return unk == "" && len(vals) == 1 && origin1(vals[0]) == ssa.Value(ind)
		}
		return origin1(v) == ssa.Value(ind)
	}
	pidx := func(v ssa.Value) int {
		o := origin1(v)
		for i, prm := range h.Params {
			if o == ssa.Value(prm) {
				return i
			}
		}
		return -1
	}
	n := 0
	for _, c := range callsIn(h) {
		nm := callName(c.Common())
		if nm != "Set" && nm != "Set1" {
			continue
		}
		n++
		recv := recvOf(c.Common())
		args := callArgs(c.Common())
		if recv == nil || len(args) != 2 || !atInd(args[0], c) {
			return 0, 0, 0, false
		}
		fc, isCall := args[1].(*ssa.Call)
		if !isCall || fc.Common().IsInvoke() || len(fc.Common().Args) != 1 {
			return 0, 0, 0, false
		}
		gc, isGet := fc.Common().Args[0].(*ssa.Call)
		if !isGet || (callName(gc.Common()) != "Get" && callName(gc.Common()) != "Get1") || recvOf(gc.Common()) == nil || !atInd(callArgs(gc.Common())[0], gc) {
			return 0, 0, 0, false
		}
		a, b, f = pidx(recvOf(gc.Common())), pidx(recv), pidx(fc.Common().Value)
		// every iteration stores: the store lies on every path round the loop
		for _, pr := range loops[0].Header.Preds {
			if loops[0].Blocks[pr] && !c.Block().Dominates(pr) {
				return 0, 0, 0, false
			}
		}
	}
	if n != 1 || a < 0 || b < 0 || f < 0 {
		return 0, 0, 0, false
	}
	return a, b, f, true
}

// storesField: the function assigns field `field` through its pointer parameter prm.
func storesField(prm *ssa.Parameter, field int) bool {
	for _, ref := range refs(prm) {
		if fa, ok := ref.(*ssa.FieldAddr); ok && fa.Field == field {
			for _, r2 := range refs(fa) {
				if st, ok := r2.(*ssa.Store); ok && st.Addr == ssa.Value(fa) {
					return true
				}
			}
		}
	}
	return false
}

// checkEarlyReturns: every return of the kernel that is not reached through the time loop (or through the call of
// the mapping helper that holds it) is judged path by path: the equalities `parameter == 0` that hold on the way
// must make one allowed value of every specified output vanish.
func checkEarlyReturns(p *Program, r *Report, rule, key string, m *Model, k *ssa.Function, cc *canonCtx, spec identSpec, loops []*Loop) {
	// where the timesteps happen: the loop header, or the block calling the mapping helper
	var work *ssa.BasicBlock
	if len(loops) == 1 {
		work = loops[0].Header
	} else {
		for _, c := range callsIn(k) {
			if h := c.Common().StaticCallee(); h != nil && h.Blocks != nil && InModule(h) && len(h.Params) == len(c.Common().Args) {
				if _, _, _, ok := mapHelperShape(p, h); ok {
					work = c.Block()
				}
			}
		}
	}
	if work == nil {
		return
	}
	zeroParam := func(g Guard) (string, bool, bool) { // symbol, isEqualityWithZero, judged
		bo, ok := g.Cond.(*ssa.BinOp)
		if !ok {
			return "", false, false
		}
		x, y := bo.X, bo.Y
		if _, isC := x.(*ssa.Const); isC {
			x, y = y, x
		}
		c, isC := y.(*ssa.Const)
		name, named := cc.names[x]
		if !named {
			if o := origin1(x); o != nil {
				name, named = cc.names[o]
			}
		}
		if !isC || !named || !strings.HasPrefix(name, "p") || c.Value == nil {
			return "", false, false
		}
		zero := c.Float64() == 0
		eq := bo.Op == token.EQL && g.Val || bo.Op == token.NEQ && !g.Val
		return name, eq && zero, true
	}
	n := 0
	for _, ret := range returnsOf(k) {
		rb := ret.Block()
		if rb == work || work.Dominates(rb) {
			continue
		}
		// the ways into the return: one per predecessor (a disjunction `a == 0 || b == 0` arrives by two edges)
		type way struct{ guards []Guard }
		var ways []way
		if len(rb.Preds) <= 1 {
			ways = append(ways, way{guardsAt(rb)})
		} else {
			for _, pr := range rb.Preds {
				gs := guardsAt(pr)
				if iff, ok := pr.Instrs[len(pr.Instrs)-1].(*ssa.If); ok && pr.Succs[0] != pr.Succs[1] {
					c, v := normCond(iff.Cond, pr.Succs[0] == rb)
					gs = append(gs, Guard{Cond: c, Val: v, If: iff})
				}
				ways = append(ways, way{gs})
			}
		}
		for wi, w := range ways {
			zero := map[string]bool{}
			open := ""
			vacuous := false
			for _, g := range w.guards {
				// no timesteps at all: nothing to compare
				if dependsOn(g.Cond, func(x ssa.Value) bool {
					c, ok := x.(*ssa.Call)
					if !ok {
						return false
					}
					nm := callName(c.Common())
					return nm == "Len1" || nm == "Len" || nm == "Len2" || nm == "Len3"
				}, map[ssa.Value]bool{}) {
					vacuous = true
				}
				name, eqZero, judged := zeroParam(g)
				if !judged {
					continue
				}
				if eqZero {
					zero[name] = true
				} else if bo, ok := g.Cond.(*ssa.BinOp); ok {
					open = fmt.Sprintf("%s %s …", name, bo.Op)
				}
			}
			if vacuous {
				continue
			}
			n++
			okey := fmt.Sprintf("%s:early-return#%d.%d", key, n, wi)
			var bad []string
			var ois []int
			for oi := range spec.outs {
				ois = append(ois, oi)
			}
			sort.Ints(ois)
			for _, oi := range ois {
				vanishes := false
				for _, alt := range spec.outs[oi] {
					pl := parsePoly(alt)
					rest := 0
					for mono, c := range pl {
						if c == 0 {
							continue
						}
						dead := false
						for _, sym := range strings.Split(mono, "*") {
							if zero[sym] {
								dead = true
							}
						}
						if !dead && mono != "" || mono == "" && c != 0 {
							rest++
						}
					}
					if rest == 0 {
						vanishes = true
					}
				}
				if !vanishes && oi < len(m.Outputs) {
					bad = append(bad, m.Outputs[oi])
				}
			}
			if len(bad) > 0 {
				why := "no condition on the way makes the expected value zero"
				if open != "" {
					why = "the way in is guarded by `" + open + "`, a range of parameter values over which the expected value is not zero"
				}
				r.Fail(rule, okey, p.Pos(ret.Pos()), fmt.Sprintf("%s (%s): a return before the time loop leaves output %s at its initial zero, but %s: the identity fails for every timestep of such a run", m.Name, spec.note, strings.Join(bad, ", "), why))
			} else {
				r.OK(rule, fmt.Sprintf("%s: a return before the time loop is taken only where the specified outputs are identically zero", key))
			}
		}
	}
}

// altVal: one value a write site can store, and the test of the driver (input 0 > threshold) on the way to it.
type altVal struct {
	p          poly
	found, pos bool
}

// driverTest: among the guards, a test `x > c` whose x is input 0 at this timestep.
func (cc *canonCtx) driverTest(gs []Guard) (found, pos bool) {
	for _, g := range gs {
		bo, ok := g.Cond.(*ssa.BinOp)
		if !ok || bo.Op.String() != ">" {
			continue
		}
		if cc.names[bo.X] == "in0" || polyEqual(cc.expand(bo.X, 0), poly{"in0": 1}) {
			found, pos = true, g.Val
		}
	}
	return
}

// siteAlternatives: the values a write site can store — one per way into the merge if the value written is a phi
// of the kernel, one per return statement if it is the result of a scalar helper with several returns
// (`func passedLoad(f, l, k float64) float64 { if f > eps { return l * k }; return 0 }`), else the value itself.
func (cc *canonCtx) siteAlternatives(w writeSite) []altVal {
	if w.subst != nil {
		return []altVal{cc.siteAlt(w, w.at.Block())}
	}
	v := w.val
	if cv, ok := v.(*ssa.Convert); ok {
		v = cv.X
	}
	switch x := v.(type) {
	case *ssa.Phi:
		var out []altVal
		for i, e := range x.Edges {
			if i >= len(x.Block().Preds) {
				continue
			}
			pr := x.Block().Preds[i]
			gs := guardsAt(pr)
			if iff, ok := pr.Instrs[len(pr.Instrs)-1].(*ssa.If); ok && pr.Succs[0] != pr.Succs[1] {
				c, val := normCond(iff.Cond, pr.Succs[0] == x.Block())
				gs = append(gs, Guard{Cond: c, Val: val, If: iff})
			}
			av := altVal{p: cc.expand(e, 0)}
			av.found, av.pos = cc.driverTest(gs)
			out = append(out, av)
		}
		if len(out) > 0 {
			return out
		}
	case *ssa.Call:
		f := x.Common().StaticCallee()
		if f != nil && f.Blocks != nil && InModule(f) && len(returnsOf(f)) > 1 && len(findLoops(f)) == 0 && x.Common().Signature().Results().Len() == 1 {
			var out []altVal
			okAll := true
			for _, ret := range returnsOf(f) {
				ret := ret
				var av altVal
				_, ok := cc.withCalleeAt(x, 0, ret, func(_ *ssa.Function, rr *ssa.Return) (poly, bool) {
					if b, isB := rr.Results[0].Type().Underlying().(*types.Basic); !isB || b.Info()&types.IsFloat == 0 {
						return nil, false
					}
					av.p = cc.expand(rr.Results[0], 1)
					av.found, av.pos = cc.driverTest(guardsAt(rr.Block()))
					return av.p, true
				})
				if !ok {
					okAll = false
					break
				}
				out = append(out, av)
			}
			if okAll && len(out) > 0 {
				return out
			}
		}
	}
	return []altVal{cc.siteAlt(w, w.at.Block())}
}

func (cc *canonCtx) siteAlt(w writeSite, b *ssa.BasicBlock) altVal {
	av := altVal{p: cc.expandSite(w)}
	av.found, av.pos = cc.driverTest(guardsAt(b))
	return av
}

// walkHelperShape: h(…, n int, …, step func(idx []int)) with one counting loop `for i := 0; i < n; i++` whose body
// stores i into element 0 of a one-element vector of its own and calls step with that vector on every iteration:
// the position of step among h's parameters.
func walkHelperShape(p *Program, h *ssa.Function) (int, bool) {
	loops := findLoops(h)
	if len(loops) != 1 {
		return 0, false
	}
	l := loops[0]
	ind, lo, _, ok := countingLoop(l)
	if !ok {
		return 0, false
	}
	if c, isC := constInt(lo); !isC || c != 0 {
		return 0, false
	}
	eff := nil2eff(p)
	fi := -1
	for _, c := range callsIn(h) {
		prm, isPrm := c.Common().Value.(*ssa.Parameter)
		if !isPrm || c.Common().IsInvoke() || !l.Blocks[c.Block()] || len(c.Common().Args) != 1 {
			continue
		}
		a := c.Common().Args[0]
		atInd := false
		if isIntVec(a.Type()) {
			vals, _, unk := vecElemAt(eff, origin1OrSelf(a), 0, c)
			atInd = unk == "" && len(vals) == 1 && origin1OrSelf(vals[0]) == ssa.Value(ind)
		} else {
			atInd = origin1OrSelf(a) == ssa.Value(ind)
		}
		if !atInd {
			return 0, false
		}
		for _, pr := range l.Header.Preds {
			if l.Blocks[pr] && !c.Block().Dominates(pr) {
				return 0, false
			}
		}
		for i, q := range h.Params {
			if q == prm {
				fi = i
			}
		}
	}
	return fi, fi >= 0
}
