package main

// R09.3: the record constructor the generated Description() methods go through hands the spec's values on unchanged.
// R09.2 compares the *arguments* each generated wrapper passes to sim.DescribeParameter with the OW-SPEC block; the
// description only lists the spec's defaults and ranges if DescribeParameter then stores those arguments, and nothing
// computed from them, in the fields of the record it returns.

import (
	"fmt"
	"go/token"
	"go/types"
	"sort"
	"strings"

	"golang.org/x/tools/go/ssa"
)

func checkDescribeParameter(p *Program, r *Report) {
	r.Rule("R09.3", "the description constructor is a plain record: each field of the ParameterDescription returned by sim.DescribeParameter (Name, Default, Description, Range[0], Range[1], Units, Dimensions) is, on every path, the corresponding argument itself (through local copies, composite literals and helper constructors of the module), never a value computed from it — so the defaults, ranges and dimensions the generated wrappers pass (R09.2: equal to the spec) are the ones Description() lists")
	pk := p.SSAPkg[modPath+"/sim"]
	if pk == nil {
		r.Undecided("R09.3", "sim", "-", "package sim not loaded")
		return
	}
	fn := pk.Func("DescribeParameter")
	if fn == nil || len(fn.Blocks) == 0 {
		r.Undecided("R09.3", "sim.DescribeParameter", "-", "function not found")
		return
	}
	// the expected source of each field, by the order of DescribeParameter's own parameters (the generator's
	// template passes name, default, description, range, units, dimensions in this order; R09.2 reads the same order)
	want := map[string]string{"Name": "arg0", "Default": "arg1", "Description": "arg2", "Range[0]": "arg3[0]", "Range[1]": "arg3[1]", "Units": "arg4", "Dimensions": "arg5"}
	if len(fn.Params) != 6 {
		r.Undecided("R09.3", "sim.DescribeParameter:arity", p.Pos(fn.Pos()), fmt.Sprintf("DescribeParameter has %d parameters, 6 expected", len(fn.Params)))
		return
	}
	got := resultFieldSources(fn, 0)
	var fields []string
	for f := range want {
		fields = append(fields, f)
	}
	sort.Strings(fields)
	for _, f := range fields {
		key := "sim.DescribeParameter:" + f
		srcs := got[f]
		if len(srcs) == 0 {
			r.Fail("R09.3", key, p.Pos(fn.Pos()), fmt.Sprintf("field %s of the returned description is never assigned: Description() would list the zero value instead of the spec's", f))
			continue
		}
		bad := ""
		for _, s := range srcs {
			if s.what != want[f] {
				bad = s.what
				pos := fn.Pos()
				if s.pos.IsValid() {
					pos = s.pos
				}
				msg := fmt.Sprintf("field %s of the description returned by DescribeParameter is %s, not the argument the generated wrappers pass for it (%s): Description() then lists something else than the OW-SPEC block declares", f, describeSrc(bad), want[f])
				if strings.HasPrefix(bad, "?") {
					r.Undecided("R09.3", key, p.Pos(pos), msg)
				} else {
					r.Fail("R09.3", key, p.Pos(pos), msg)
				}
				break
			}
		}
		if bad == "" {
			r.OK("R09.3", fmt.Sprintf("sim.DescribeParameter: %s = %s on every path", f, want[f]))
		}
	}
}

func describeSrc(s string) string {
	switch {
	case strings.HasPrefix(s, "computed"):
		return "a computed value (" + s + ")"
	case strings.HasPrefix(s, "const"):
		return "the constant " + strings.TrimPrefix(s, "const ")
	case strings.HasPrefix(s, "arg"):
		return "argument " + strings.TrimPrefix(s, "arg")
	}
	return "a value of unrecognised origin (" + s + ")"
}

type fieldSrc struct {
	what string // "arg<k>", "arg<k>[<c>]", "const <c>", "computed <op>", "?…"
	pos  token.Pos
}

// scalarSources: what a scalar/slice/string value is, in terms of fn's parameters.
func scalarSources(v ssa.Value, depth int) []fieldSrc {
	var out []fieldSrc
	for _, o := range origins(v) {
		if o == nil {
			out = append(out, fieldSrc{"?phi", v.Pos()})
			continue
		}
		o = stripConv(o)
		switch x := o.(type) {
		case *ssa.Parameter:
			k := -1
			for i, q := range x.Parent().Params {
				if q == x {
					k = i
				}
			}
			out = append(out, fieldSrc{fmt.Sprintf("arg%d", k), x.Pos()})
		case *ssa.Const:
			out = append(out, fieldSrc{"const " + x.Value.String(), v.Pos()})
		case *ssa.UnOp:
			if x.Op == token.MUL {
				if ia, ok := x.X.(*ssa.IndexAddr); ok {
					if c, isC := constInt(ia.Index); isC {
						for _, b := range scalarSources(ia.X, depth) {
							if strings.HasPrefix(b.what, "arg") && !strings.Contains(b.what, "[") {
								out = append(out, fieldSrc{fmt.Sprintf("%s[%d]", b.what, c), x.Pos()})
							} else {
								out = append(out, fieldSrc{"?element of " + b.what, x.Pos()})
							}
						}
						continue
					}
				}
				out = append(out, fieldSrc{"?load", x.Pos()})
			} else {
				out = append(out, fieldSrc{"computed " + x.Op.String(), x.Pos()})
			}
		case *ssa.BinOp:
			out = append(out, fieldSrc{"computed " + x.Op.String(), x.Pos()})
		case *ssa.Call:
			// a defensive copy lists the same values: append([]T(nil), src...) / append([]T{}, src...)
			if bi, ok := x.Common().Value.(*ssa.Builtin); ok && bi.Name() == "append" && len(x.Common().Args) == 2 {
				empty := false
				switch b := vecBase(x.Common().Args[0]).(type) {
				case *ssa.Const:
					empty = b.IsNil()
				case *ssa.Alloc:
					if at, ok := b.Type().Underlying().(*types.Pointer).Elem().Underlying().(*types.Array); ok && at.Len() == 0 {
						empty = true
					}
				case *ssa.MakeSlice:
					if c, isC := constInt(b.Len); isC && c == 0 {
						empty = true
					}
				}
				if empty {
					out = append(out, scalarSources(x.Common().Args[1], depth)...)
					continue
				}
			}
			name := callName(x.Common())
			if f := x.Common().StaticCallee(); f != nil && fnPkg(f) != nil {
				name = fnPkg(f).Name() + "." + f.Name()
			}
			out = append(out, fieldSrc{"computed " + name + "(…)", x.Pos()})
		case *ssa.Extract:
			// one of several results of a module helper (`lower, upper := rangeBounds(paramRange)`): what the helper
			// returns there, with its parameters read as the arguments of this call
			if call, ok := x.Tuple.(*ssa.Call); ok && depth < 3 {
				if hs, ok := helperResultSources(call, x.Index, depth); ok {
					out = append(out, hs...)
					continue
				}
			}
			out = append(out, fieldSrc{fmt.Sprintf("?%T", o), v.Pos()})
		case *ssa.Slice:
			// a[:] of a local literal or a re-slice: the value is no longer the argument itself
			if x.Low == nil && x.High == nil {
				out = append(out, scalarSources(x.X, depth)...)
			} else {
				out = append(out, fieldSrc{"computed slice", x.Pos()})
			}
		default:
			out = append(out, fieldSrc{fmt.Sprintf("?%T", o), v.Pos()})
		}
	}
	return out
}

// resultFieldSources: for a function returning a ParameterDescription-like struct, the sources of each leaf field
// ("Name", "Range[0]", …) of result #0, in terms of the function's own arguments.
func resultFieldSources(fn *ssa.Function, depth int) map[string][]fieldSrc {
	out := map[string][]fieldSrc{}
	add := func(f string, s ...fieldSrc) { out[f] = append(out[f], s...) }
	if depth > 3 {
		return out
	}
	var structSources func(v ssa.Value, prefix string)
	var storedInto func(addr ssa.Value, prefix string, t types.Type)
	// every store into the object at addr (flow-insensitively: every assignment any path makes)
	storedInto = func(addr ssa.Value, prefix string, t types.Type) {
		for _, ref := range refs(addr) {
			switch x := ref.(type) {
			case *ssa.Store:
				if x.Addr != addr {
					continue
				}
				switch t.Underlying().(type) {
				case *types.Struct, *types.Array:
					structSources(x.Val, prefix)
				default:
					add(prefix, scalarSources(x.Val, depth)...)
				}
			case *ssa.FieldAddr:
				st := t.Underlying().(*types.Struct)
				name := st.Field(x.Field).Name()
				if prefix != "" {
					name = prefix + "." + name
				}
				storedInto(x, name, st.Field(x.Field).Type())
			case *ssa.IndexAddr:
				at, ok := t.Underlying().(*types.Array)
				if !ok {
					continue
				}
				if c, isC := constInt(x.Index); isC {
					storedInto(x, fmt.Sprintf("%s[%d]", prefix, c), at.Elem())
				} else {
					add(prefix+"[?]", fieldSrc{"?store at a computed index", x.Pos()})
				}
			}
		}
	}
	structSources = func(v ssa.Value, prefix string) {
		for _, o := range origins(v) {
			if o == nil {
				add(prefix, fieldSrc{"?phi of records", v.Pos()})
				continue
			}
			switch x := o.(type) {
			case *ssa.UnOp:
				if a, ok := x.X.(*ssa.Alloc); ok && x.Op == token.MUL {
					storedInto(a, prefix, a.Type().Underlying().(*types.Pointer).Elem())
					continue
				}
				add(prefix, fieldSrc{"?record loaded from elsewhere", x.Pos()})
			case *ssa.Call:
				f := x.Common().StaticCallee()
				if f == nil || !InModule(f) || len(f.Blocks) == 0 || x.Common().IsInvoke() {
					add(prefix, fieldSrc{"?record returned by " + callName(x.Common()), x.Pos()})
					continue
				}
				sub := resultFieldSources(f, depth+1)
				for fld, srcs := range sub {
					name := fld
					if prefix != "" {
						name = prefix + "." + fld
					}
					for _, s := range srcs {
						if strings.HasPrefix(s.what, "arg") {
							// the helper's argument, in the caller's terms
							var k, c int
							hasIdx := false
							if n, _ := fmt.Sscanf(s.what, "arg%d[%d]", &k, &c); n == 2 {
								hasIdx = true
							} else {
								fmt.Sscanf(s.what, "arg%d", &k)
							}
							if k < len(x.Common().Args) {
								for _, as := range scalarSources(x.Common().Args[k], depth) {
									if hasIdx {
										if strings.HasPrefix(as.what, "arg") && !strings.Contains(as.what, "[") {
											as.what = fmt.Sprintf("%s[%d]", as.what, c)
										} else {
											as.what = "?element of " + as.what
										}
									}
									add(name, as)
								}
								continue
							}
						}
						add(name, s)
					}
				}
			case *ssa.Const:
				add(prefix, fieldSrc{"const zero record", v.Pos()})
			default:
				add(prefix, fieldSrc{fmt.Sprintf("?%T", o), v.Pos()})
			}
		}
	}
	for _, ret := range returnsOf(fn) {
		if len(ret.Results) == 0 {
			continue
		}
		structSources(ret.Results[0], "")
	}
	return out
}

// helperResultSources: the sources of result ri of a call of a module helper, in the caller's terms.
func helperResultSources(call *ssa.Call, ri int, depth int) ([]fieldSrc, bool) {
	h := call.Common().StaticCallee()
	if h == nil || h.Blocks == nil || !InModule(h) || call.Common().IsInvoke() || len(h.Params) != len(call.Common().Args) {
		return nil, false
	}
	var out []fieldSrc
	for _, ret := range returnsOf(h) {
		if ri >= len(ret.Results) {
			return nil, false
		}
		for _, cs := range scalarSources(ret.Results[ri], depth+1) {
			if !strings.HasPrefix(cs.what, "arg") {
				out = append(out, cs)
				continue
			}
			var k int
			suffix := ""
			if i := strings.Index(cs.what, "["); i >= 0 {
				suffix = cs.what[i:]
				fmt.Sscanf(cs.what[:i], "arg%d", &k)
			} else {
				fmt.Sscanf(cs.what, "arg%d", &k)
			}
			if k < 0 || k >= len(call.Common().Args) {
				return nil, false
			}
			for _, as := range scalarSources(call.Common().Args[k], depth+1) {
				switch {
				case suffix == "":
					out = append(out, as)
				case strings.HasPrefix(as.what, "arg") && !strings.Contains(as.what, "["):
					out = append(out, fieldSrc{as.what + suffix, as.pos})
				default:
					out = append(out, fieldSrc{"?element of " + as.what, as.pos})
				}
			}
		}
	}
	return out, len(out) > 0
}
