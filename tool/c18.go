package main

// C18 (narrow): FindRoot returns f at the returned point; Piecewise never returns a number outside the table.

import (
	"fmt"
	"go/token"
	"go/types"
	"sort"
	"strings"

	"golang.org/x/tools/go/ssa"
)

func init() { register("C18", "other", checkC18) }

// rhoCtx decides ρ(a,b) ⇔ b was produced by calling the function parameter fnParam on a (greatest fixpoint over phis).
type rhoCtx struct {
	fnParam ssa.Value
	memo    map[[2]ssa.Value]bool
	inProg  map[[2]ssa.Value]bool
	why     string
}

func (rc *rhoCtx) rho(a, b ssa.Value) bool {
	k := [2]ssa.Value{a, b}
	if v, ok := rc.memo[k]; ok {
		return v
	}
	if rc.inProg[k] {
		return true // coinductive hypothesis
	}
	rc.inProg[k] = true
	res := rc.rho1(a, b)
	delete(rc.inProg, k)
	rc.memo[k] = res
	return res
}

func (rc *rhoCtx) rho1(a, b ssa.Value) bool {
	// base: b = fn(a)
	if c, ok := b.(*ssa.Call); ok && !c.Common().IsInvoke() && c.Common().Value == rc.fnParam && len(c.Common().Args) == 1 {
		if c.Common().Args[0] == a {
			return true
		}
		rc.why = fmt.Sprintf("%s is f(%s), not f(%s)", b.Name(), c.Common().Args[0].Name(), a.Name())
		return false
	}
	pb, okb := b.(*ssa.Phi)
	pa, oka := a.(*ssa.Phi)
	switch {
	case okb && oka && pa.Block() == pb.Block():
		for i := range pb.Edges {
			if !rc.rho(pa.Edges[i], pb.Edges[i]) {
				return false
			}
		}
		return true
	case okb && (!oka || pa.Block() != pb.Block()):
		// a does not change at this join: it must pair with every incoming value
		for i := range pb.Edges {
			if !rc.rho(a, pb.Edges[i]) {
				return false
			}
		}
		return true
	case oka && !okb:
		for i := range pa.Edges {
			if !rc.rho(pa.Edges[i], b) {
				return false
			}
		}
		return true
	}
	if rc.why == "" {
		rc.why = fmt.Sprintf("%s is not an evaluation of the function at %s", describeVal(b), describeVal(a))
	}
	return false
}

func describeVal(v ssa.Value) string {
	if phi, ok := v.(*ssa.Phi); ok && phi.Comment != "" {
		return phi.Comment
	}
	if prm, ok := v.(*ssa.Parameter); ok {
		return prm.Name()
	}
	return v.Name()
}

func checkC18(p *Program, r *Report) {
	r.Rule("R18.1", "returned value is f at the returned point: with ρ(a,b) ⇔ b = fn(a) extended over phi pairs (greatest fixpoint), every `return x, delta` of FindRoot satisfies ρ(x, delta), and so does every bracket pair (minX,minDelta), (maxX,maxDelta), (…TrialX,…TrialDelta) carried around the iteration")
	r.Rule("R18.2", "Piecewise: error, never a number, outside the table: the value return is on the false edges of i<0 and j<0; brackets returns a non-negative pair only from inside the scan loop on the true edge of xs[j] >= x after both end comparisons failed; every other return yields (-1,-1)")
	r.Assumptions = append(r.Assumptions,
		"narrow claim: bracketing invariants, convergence and 'never evaluated outside the interval' need relational numeric invariants over products and quotients and are NOT decided; that Piecewise returns the linear interpolant of the two entries its bracket search hands back is decided as a polynomial identity (R18.5), which entries the search hands back only structurally (R18.2)")
	checkPiecewiseInterpolant(p, r)
	pk := p.SSAPkg[modPath+"/util/fn"]
	if pk == nil {
		r.Undecided("R18.1", "pkg", "-", "util/fn not loaded")
		return
	}
	fr := pk.Func("FindRoot")
	if fr == nil {
		r.Undecided("R18.1", "FindRoot", "-", "FindRoot not found")
	} else {
		rc := &rhoCtx{fnParam: fr.Params[0], memo: map[[2]ssa.Value]bool{}, inProg: map[[2]ssa.Value]bool{}}
		n := 0
		for i, ret := range returnsOf(fr) {
			if len(ret.Results) != 2 {
				continue
			}
			n++
			rc.why = ""
			key := fmt.Sprintf("util/fn.FindRoot:return#%d", i+1)
			if rc.rho(ret.Results[0], ret.Results[1]) {
				r.OK("R18.1", key+": returned delta is f(returned x)")
			} else {
				r.Fail("R18.1", key, p.Pos(ret.Pos()), "FindRoot can return a point together with a function value that was not computed at that point: "+rc.why)
			}
		}
		// bracket pairs by variable names
		pairs := 0
		eachInstr(fr, func(b *ssa.BasicBlock, _ int, ins ssa.Instruction) {
			px, ok := ins.(*ssa.Phi)
			if !ok || !strings.HasSuffix(px.Comment, "X") {
				return
			}
			want := strings.TrimSuffix(px.Comment, "X") + "Delta"
			for _, i2 := range b.Instrs {
				pd, ok := i2.(*ssa.Phi)
				if !ok {
					break
				}
				if pd.Comment != want {
					continue
				}
				pairs++
				rc.why = ""
				key := fmt.Sprintf("util/fn.FindRoot:pair:%s/%s", px.Comment, pd.Comment)
				if rc.rho(px, pd) {
					r.OK("R18.1", fmt.Sprintf("util/fn.FindRoot: %s = f(%s) at every join", pd.Comment, px.Comment))
				} else {
					r.Fail("R18.1", key, p.Pos(px.Pos()), fmt.Sprintf("the pair (%s, %s) can get out of step: %s", px.Comment, pd.Comment, rc.why))
				}
				return
			}
		})
		checkBracketGuards(p, r, fr)
		r.Floor("R18.1", "return statements", n, 1)
		r.Floor("R18.1", "bracket pairs", pairs, 1)
	}
	checkPiecewise(p, r, pk)
}

func checkPiecewise(p *Program, r *Report, pk *ssa.Package) {
	pw := pk.Func("Piecewise")
	br := pk.Func("brackets")
	if pw == nil {
		r.Undecided("R18.2", "Piecewise", "-", "Piecewise not found")
		return
	}
	// the call whose two int results decide
	var bcall *ssa.Call
	for _, c := range callsIn(pw) {
		if cc, ok := c.(*ssa.Call); ok && cc.Common().StaticCallee() != nil && InModule(cc.Common().StaticCallee()) && twoIntResults(cc.Common().StaticCallee()) {
			bcall = cc
			br = cc.Common().StaticCallee()
		}
	}
	if bcall == nil || br == nil {
		r.Undecided("R18.2", "util/fn.Piecewise:brackets", p.Pos(pw.Pos()), "bracket search call not found")
		return
	}
	var ei, ej ssa.Value
	for _, ref := range refs(bcall) {
		if ex, ok := ref.(*ssa.Extract); ok {
			if ex.Index == 0 {
				ei = ex
			} else {
				ej = ex
			}
		}
	}
	nonNeg := func(b *ssa.BasicBlock, v ssa.Value) bool {
		for _, g := range guardsAt(b) {
			bo, ok := g.Cond.(*ssa.BinOp)
			if !ok || bo.X != v {
				continue
			}
			c, ok := constInt(bo.Y)
			if !ok || c != 0 {
				continue
			}
			if bo.Op == token.LSS && !g.Val || bo.Op == token.GEQ && g.Val {
				return true
			}
		}
		return false
	}
	_ = nonNeg
	okPW := true
	nVal := 0
	for _, ret := range returnsOf(pw) {
		if len(ret.Results) != 2 {
			continue
		}
		if isNilErr(ret.Results[1]) {
			nVal++
			// brackets is all-or-nothing (checked below), so one index known >= 0 suffices
			if ei == nil || ej == nil || !everyPathEstablishesNonNeg(pw, ret.Block(), ei, ej) {
				okPW = false
				r.Fail("R18.2", "util/fn.Piecewise:value-return", p.Pos(ret.Pos()), "Piecewise returns a number (nil error) on a path where the bracket indices are not both known to be >= 0: out-of-table or NaN arguments would yield a number")
			}
		}
	}
	if okPW && nVal > 0 {
		r.OK("R18.2", "util/fn.Piecewise: value returned only when the bracket search succeeded (index >= 0)")
	}
	// brackets
	x := br.Params[0]
	xs := br.Params[1]
	loops := findLoops(br)
	getAt := func(v ssa.Value) (ssa.Value, bool) { // v == xs.Get(idx) → idx[0], directly or through a reading helper
		tbl, pos, ok := tableRead(p, v, 0)
		if !ok || tbl != ssa.Value(xs) {
			return nil, false
		}
		return pos, true
	}
	okBr := true
	nPos := 0
	for k, ret := range returnsOf(br) {
		key := fmt.Sprintf("util/fn.brackets:return#%d", k+1)
		allNeg := true
		for _, rv := range ret.Results {
			for _, o := range origins(rv) {
				c, ok := constInt(o)
				if o == nil || !ok || c != -1 {
					allNeg = false
				}
			}
		}
		if allNeg {
			r.OK("R18.2", key+": yields (-1,-1)")
			continue
		}
		nPos++
		// must be in the scan loop, guarded by xs[j] >= x, x<xs[0] false, x>xs[n-1] false
		inLoop := innermostLoop(loops, ret.Block()) != nil
		for _, g := range guardsAt(ret.Block()) {
			if innermostLoop(loops, g.If.Block()) != nil {
				inLoop = true // the deciding branch is evaluated inside the scan loop (the return block itself leaves the loop)
			}
		}
		var gHit, gLow, gHigh bool
		for _, g := range guardsAt(ret.Block()) {
			bo, ok := g.Cond.(*ssa.BinOp)
			if !ok {
				continue
			}
			// value at j >= x
			if idx, ok := getAt(bo.X); ok && bo.Y == ssa.Value(x) {
				_, isC := constInt(idx)
				switch {
				case bo.Op == token.GEQ && g.Val && !isC:
					gHit = true
				case bo.Op == token.LSS && !g.Val && !isC:
					gHit = true
				}
			}
			if idx, ok := getAt(bo.Y); ok && bo.X == ssa.Value(x) {
				c0, isC := constInt(idx)
				switch {
				case bo.Op == token.LSS && !g.Val && isC && c0 == 0:
					gLow = true
				case bo.Op == token.GTR && !g.Val && !isC:
					gHigh = true
				case bo.Op == token.LEQ && g.Val && !isC:
					gHit = true
				}
			}
		}
		if inLoop && gHit && gLow && gHigh {
			r.OK("R18.2", key+": non-negative bracket only in the scan loop under xs[j] >= x, after x < xs[0] and x > xs[n-1] failed")
		} else {
			okBr = false
			r.Fail("R18.2", key, p.Pos(ret.Pos()), fmt.Sprintf("brackets can return a usable index pair without establishing that the argument lies inside the table (in scan loop: %v, xs[j]>=x: %v, not below first knot: %v, not above last knot: %v): an outside or NaN argument would be interpolated", inLoop, gHit, gLow, gHigh))
		}
	}
	_ = okBr
	if nPos == 0 {
		r.Fail("R18.2", "util/fn.brackets:no-hit", p.Pos(br.Pos()), "brackets never returns a usable pair")
	}
}

// everyPathEstablishesNonNeg: every path from the entry to block b traverses an edge on which one of the
// values is known to be >= 0 (false edge of v<0 / true edge of v>=0).
func everyPathEstablishesNonNeg(fn *ssa.Function, b *ssa.BasicBlock, vals ...ssa.Value) bool {
	isGood := func(from *ssa.BasicBlock, i int) bool {
		if len(from.Instrs) == 0 {
			return false
		}
		iff, ok := from.Instrs[len(from.Instrs)-1].(*ssa.If)
		if !ok {
			return false
		}
		cond, want := normCond(iff.Cond, i == 0)
		bo, ok := cond.(*ssa.BinOp)
		if !ok {
			return false
		}
		match := false
		for _, v := range vals {
			if bo.X == v {
				match = true
			}
		}
		if !match {
			return false
		}
		c, ok := constInt(bo.Y)
		if !ok || c != 0 {
			return false
		}
		return bo.Op == token.LSS && !want || bo.Op == token.GEQ && want
	}
	reach := reachable(fn.Blocks[0], isGood)
	return !reach[b]
}

// checkBracketGuards (R18.3): sibling agreement of the two bracket updates. A trial point replaces an end of the
// running bracket only under comparisons of the trial with the *running* bracket ends (the variables that are
// themselves updated by trials) — not with the bracket the iteration started from.
func checkBracketGuards(p *Program, r *Report, fr *ssa.Function) {
	r.Rule("R18.3", "the tightest bracket is kept: each update `end = trial` of the running bracket is guarded only by comparisons of the trial with the running bracket ends themselves (both siblings use the same pair), never with the iteration's starting bracket")
	loops := findLoops(fr)
	// bracket variables: phis that receive a trial value (an element of the trial list) on some edge
	isTrial := func(v ssa.Value) bool {
		for _, o := range origins(v) {
			u, ok := o.(*ssa.UnOp)
			if !ok || u.Op != token.MUL {
				return false
			}
			if _, ok := u.X.(*ssa.IndexAddr); !ok {
				return false
			}
		}
		return true
	}
	names := map[string]bool{}
	type upd struct {
		phi  *ssa.Phi
		pred *ssa.BasicBlock
		val  ssa.Value
	}
	var upds []upd
	eachInstr(fr, func(b *ssa.BasicBlock, _ int, ins ssa.Instruction) {
		phi, ok := ins.(*ssa.Phi)
		if !ok || phi.Comment == "" || !strings.HasSuffix(phi.Comment, "X") {
			return
		}
		for i, e := range phi.Edges {
			if _, isPhi := e.(*ssa.Phi); isPhi {
				continue
			}
			if isTrial(e) {
				names[phi.Comment] = true
				upds = append(upds, upd{phi, b.Preds[i], e})
			}
		}
	})
	n := 0
	for _, u := range upds {
		l := innermostLoop(loops, u.pred)
		if l == nil {
			continue
		}
		// x = trial accepted as result is not a bracket update: only variables compared against
		nG := 0
		bad := ""
		for _, g := range guardsAt(u.pred) {
			if !l.Blocks[g.If.Block()] {
				continue
			}
			bo, ok := g.Cond.(*ssa.BinOp)
			if !ok {
				continue
			}
			var other ssa.Value
			if bo.X == u.val {
				other = bo.Y
			} else if bo.Y == u.val {
				other = bo.X
			} else {
				continue
			}
			ph, ok := other.(*ssa.Phi)
			if !ok {
				continue
			}
			nG++
			if !names[ph.Comment] {
				bad = fmt.Sprintf("the update of %s is guarded by a comparison with %s, which is not one of the running bracket ends %v", u.phi.Comment, ph.Comment, keysOf(names))
			}
		}
		if nG == 0 {
			continue
		}
		n++
		key := "util/fn.FindRoot:bracket-update:" + u.phi.Comment
		if bad != "" {
			r.Fail("R18.3", key, p.Pos(u.phi.Pos()), bad+": a later, looser trial can overwrite a tighter bound, so the bracket is no longer guaranteed to shrink")
		} else {
			r.OK("R18.3", fmt.Sprintf("util/fn.FindRoot: %s = trial only under comparisons with the running bracket ends", u.phi.Comment))
		}
	}
	r.Floor("R18.3", "guarded bracket updates", n, 1)
	checkCandidateGuards(p, r, fr)
}

func keysOf(m map[string]bool) []string {
	var out []string
	for k := range m {
		out = append(out, k)
	}
	sort.Strings(out)
	return out
}

// checkCandidateGuards (R18.4): where a computed candidate is admitted to the list of trial points only under
// comparisons with other values (the Newton step "if it lies inside the bracket"), every such comparison holds on
// its TRUE edge. An ordered comparison is false for not-a-number, so `x > lo && x < hi` keeps a NaN step out, while
// the negated form `!(x <= lo || x >= hi)` lets it in: the function is then evaluated at NaN — outside the interval.
func checkCandidateGuards(p *Program, r *Report, fr *ssa.Function) {
	r.Rule("R18.4", "admission tests reject not-a-number: in FindRoot, a value appended to the trial points inside a block guarded by ordered comparisons (<, <=, >, >=) of that very value is guarded by their true edges only — a false edge of an ordered comparison also holds for NaN, and a NaN trial is an evaluation outside the interval")
	n := 0
	// FindRoot itself and the helpers of its package it calls (`trialPoints(fn_dx, x, …) []float64`)
	var sites []ssa.CallInstruction
	sites = append(sites, callsIn(fr)...)
	for _, c := range callsIn(fr) {
		if h := c.Common().StaticCallee(); h != nil && h.Blocks != nil && fnPkg(h) == fnPkg(fr) && h != fr {
			sites = append(sites, callsIn(h)...)
		}
	}
	for _, c := range sites {
		bi, ok := c.Common().Value.(*ssa.Builtin)
		if !ok || bi.Name() != "append" || len(c.Common().Args) != 2 {
			continue
		}
		// the appended elements: stores into the variadic literal
		var elems []ssa.Value
		for _, ref := range refsDeep(vecBase(c.Common().Args[1])) {
			ia, ok := ref.(*ssa.IndexAddr)
			if !ok {
				continue
			}
			for _, r2 := range refs(ia) {
				if st, ok := r2.(*ssa.Store); ok && st.Addr == ssa.Value(ia) {
					if b, isB := st.Val.Type().Underlying().(*types.Basic); isB && b.Info()&types.IsFloat != 0 {
						elems = append(elems, st.Val)
					}
				}
			}
		}
		for _, v := range elems {
			judged, bad := false, ""
			// a condition kept in a boolean (`outside := a || b; if !outside`) is a phi of the comparisons: the ways it
			// can take the required value, each with the guards of the edge it arrives by
			var gs []Guard
			var open func(g Guard, depth int)
			open = func(g Guard, depth int) {
				ph, isPhi := g.Cond.(*ssa.Phi)
				if !isPhi || depth > 3 {
					gs = append(gs, g)
					return
				}
				for i, e := range ph.Edges {
					if i >= len(ph.Block().Preds) {
						continue
					}
					if k, isC := e.(*ssa.Const); isC {
						if k.Value != nil && (k.Value.String() == "true") != g.Val {
							continue // this way in gives the other value
						}
						for _, pg := range guardsAt(ph.Block().Preds[i]) {
							open(pg, depth+1)
						}
						if iff, ok := ph.Block().Preds[i].Instrs[len(ph.Block().Preds[i].Instrs)-1].(*ssa.If); ok {
							pr := ph.Block().Preds[i]
							if pr.Succs[0] != pr.Succs[1] {
								cnd, val := normCond(iff.Cond, pr.Succs[0] == ph.Block())
								open(Guard{Cond: cnd, Val: val, If: iff}, depth+1)
							}
						}
						continue
					}
					cnd, val := normCond(e, g.Val)
					open(Guard{Cond: cnd, Val: val}, depth+1)
					for _, pg := range guardsAt(ph.Block().Preds[i]) {
						open(pg, depth+1)
					}
				}
			}
			for _, g := range guardsAt(c.Block()) {
				open(g, 0)
			}
			for _, g := range gs {
				bo, ok := g.Cond.(*ssa.BinOp)
				if !ok {
					continue
				}
				switch bo.Op {
				case token.LSS, token.LEQ, token.GTR, token.GEQ:
				default:
					continue
				}
				if !(sameValue(bo.X, v) || sameValue(bo.Y, v)) {
					continue
				}
				judged = true
				if !g.Val {
					bad = fmt.Sprintf("the candidate is admitted on the false edge of `%s` at %s", bo.Op, p.Pos(bo.Pos()))
				}
			}
			if !judged {
				continue
			}
			n++
			key := fmt.Sprintf("util/fn.FindRoot:candidate#%d", n)
			if bad != "" {
				r.Fail("R18.4", key, p.Pos(c.Pos()), bad+": an ordered comparison is false for not-a-number, so a NaN step (a derivative that is NaN, 0/0) passes this test, is evaluated — outside the interval — and can be returned as the root")
			} else {
				r.OK("R18.4", "util/fn.FindRoot: a guarded candidate is admitted only on true edges of its comparisons (NaN is kept out)")
			}
		}
	}
	r.Analysed["R18.4 guarded candidates"] = n
}
