package main

import (
	"fmt"
	"go/token"
	"go/types"

	"golang.org/x/tools/go/ssa"
)

// checkParameterAssembly (R17.14): a named parameter lands in the slot of the parameter it names. In the functions that
// assemble the run (Initialise and what it hands the work to), every store into the vector of parameter values that
// ends up in ApplyParameters has an index tied to the model description: the very index that selects the described
// parameter (`desc.Parameters[i]`), or the result of a map lookup whose presence flag guards the store. A position
// obtained from an unchecked map lookup is 0 for a name the model does not have: the value lands in the first slot.
func checkParameterAssembly(p *Program, r *Report, initFns []*ssa.Function) {
	r.Rule("R17.14", "parameter assembly: every store into the vector of parameter values handed to ApplyParameters is at the index that selects the described parameter (desc.Parameters[i], same index value) and stores that parameter's default or the result of a lookup under that parameter's name — or is at a position taken from a map with the two-result lookup and guarded by its presence flag; an unchecked lookup puts the value of an unknown name into slot 0")
	n := 0
	// bound: parameters of a helper that builds the vector, as the argument the caller passes
	bound := map[ssa.Value]ssa.Value{}
	isParamsList := func(v ssa.Value) bool {
		o := origin1(v)
		for i := 0; i < 3; i++ {
			a, ok := bound[o]
			if !ok {
				break
			}
			o = origin1(a)
		}
		nm, _, ok := loadedField(o)
		return ok && nm == "Parameters"
	}
	// describedField: v is field `f` of desc.Parameters[idx] (through a local copy of the element)
	var describedField func(v ssa.Value, depth int) (string, ssa.Value, bool)
	describedField = func(v ssa.Value, depth int) (string, ssa.Value, bool) {
		if depth > 4 {
			return "", nil, false
		}
		var base ssa.Value
		var fld int
		switch x := v.(type) {
		case *ssa.UnOp:
			fa, ok := x.X.(*ssa.FieldAddr)
			if !ok || x.Op != token.MUL {
				return "", nil, false
			}
			base, fld = fa.X, fa.Field
		case *ssa.Field:
			base, fld = x.X, x.Field
		default:
			return "", nil, false
		}
		name := func(t types.Type) string {
			if pt, ok := t.Underlying().(*types.Pointer); ok {
				t = pt.Elem()
			}
			if st, ok := t.Underlying().(*types.Struct); ok && fld < st.NumFields() {
				return st.Field(fld).Name()
			}
			return ""
		}
		fname := name(base.Type())
		for i := 0; i < 4; i++ {
			switch b := base.(type) {
			case *ssa.Alloc:
				sv := singleWholeStore(b)
				if sv == nil {
					return "", nil, false
				}
				base = sv
			case *ssa.UnOp:
				if b.Op != token.MUL {
					return "", nil, false
				}
				base = b.X
			case *ssa.IndexAddr:
				if isParamsList(b.X) {
					return fname, b.Index, true
				}
				return "", nil, false
			default:
				return "", nil, false
			}
		}
		return "", nil, false
	}
	sameIdx := func(a, b ssa.Value) bool { return a == b || origin1(a) == origin1(b) }
	for _, fn := range initFns {
		for _, c := range callsIn(fn) {
			if callName(c.Common()) != "ApplyParameters" || !c.Common().IsInvoke() || len(c.Common().Args) != 1 {
				continue
			}
			var vecs []ssa.Value
			switch a := origin1(c.Common().Args[0]).(type) {
			case *ssa.Call:
				for _, x := range a.Common().Args {
					if sl, ok := x.Type().Underlying().(*types.Slice); ok {
						if bt, ok := sl.Elem().Underlying().(*types.Basic); ok && bt.Kind() == types.Float64 {
							vecs = append(vecs, origin1(x))
						}
					}
				}
			}
			if len(vecs) == 0 {
				r.Unsupported("R17.14", "the parameter array handed to ApplyParameters in "+FuncKey(fn)+" is not built from a vector of values by a helper call: slots are not followed for this form")
				continue
			}
			for _, vec := range vecs {
				// the vector is built by a helper of the module (`params, warnings := m.parameterVector(desc.Parameters, …)`):
				// judged inside the helper, its parameters standing for the arguments of this call
				fn := fn
				for depth := 0; depth < 3; depth++ {
					var hc *ssa.Call
					ri := 0
					switch y := vec.(type) {
					case *ssa.Extract:
						hc, _ = y.Tuple.(*ssa.Call)
						ri = y.Index
					case *ssa.Call:
						hc = y
					}
					if hc == nil {
						break
					}
					h := hc.Common().StaticCallee()
					if h == nil || h.Blocks == nil || !InModule(h) || len(h.Params) != len(hc.Common().Args) {
						break
					}
					rets := returnsOf(h)
					if len(rets) != 1 || ri >= len(rets[0].Results) {
						break
					}
					for i, prm := range h.Params {
						bound[prm] = hc.Common().Args[i]
					}
					vec = origin1(rets[0].Results[ri])
					fn = h
				}
				if _, ok := vec.(*ssa.MakeSlice); !ok {
					r.Unsupported("R17.14", "the vector of parameter values in "+FuncKey(fn)+" is not a slice made here")
					continue
				}
				for _, ref := range refs(vec) {
					switch x := ref.(type) {
					case *ssa.IndexAddr:
						for _, r2 := range refs(x) {
							st, ok := r2.(*ssa.Store)
							if !ok || st.Addr != ssa.Value(x) {
								continue
							}
							n++
							key := fmt.Sprintf("%s:param-slot#%d", FuncKey(fn), n)
							idx := x.Index
							// (a) the index selects the described parameter
							tied := false
							eachInstr(fn, func(_ *ssa.BasicBlock, _ int, ins ssa.Instruction) {
								if ia, ok := ins.(*ssa.IndexAddr); ok && isParamsList(ia.X) && sameIdx(ia.Index, idx) {
									tied = true
								}
							})
							if tied {
								bad := ""
								for _, o := range origins(st.Val) {
									if o == nil {
										continue
									}
									if f, i2, ok := describedField(o, 0); ok {
										if f == "Default" && sameIdx(i2, idx) {
											continue
										}
										bad = "a field of the description other than this parameter's Default"
										continue
									}
									var call *ssa.Call
									switch y := o.(type) {
									case *ssa.Extract:
										call, _ = y.Tuple.(*ssa.Call)
									case *ssa.Call:
										call = y
									}
									named := false
									if call != nil {
										for _, a := range call.Common().Args {
											if f, i2, ok := describedField(origin1(a), 0); ok && f == "Name" && sameIdx(i2, idx) {
												named = true
											}
										}
									}
									if !named {
										bad = "a value that is not looked up under this parameter's own name"
									}
								}
								if bad == "" {
									r.OK("R17.14", fmt.Sprintf("%s: slot i of the parameter vector holds the default of, or the value found under the name of, desc.Parameters[i]", FuncKey(fn)))
								} else {
									r.Fail("R17.14", key, p.Pos(st.Pos()), "slot i of the parameter vector receives "+bad+": the model runs with another parameter's value")
								}
								continue
							}
							// (b) a checked map lookup
							checked := false
							if ex, ok := origin1(idx).(*ssa.Extract); ok && ex.Index == 0 {
								if lk, ok := ex.Tuple.(*ssa.Lookup); ok && lk.CommaOk {
									for _, g := range guardsAt(st.Block()) {
										if ge, ok := g.Cond.(*ssa.Extract); ok && ge.Tuple == ssa.Value(lk) && ge.Index == 1 && g.Val {
											checked = true
										}
									}
								}
							}
							if checked {
								r.OK("R17.14", fmt.Sprintf("%s: slot taken from a map lookup and written only when the name is present", FuncKey(fn)))
								continue
							}
							why := "its index is not the one that selects the described parameter"
							if lk, ok := origin1(idx).(*ssa.Lookup); ok && !lk.CommaOk {
								why = "its index is the result of a map lookup whose presence flag is not tested: for a name the model does not have the lookup yields 0, so the value of an unknown parameter overwrites the model's first parameter (and panics for a model without parameters)"
							}
							r.Fail("R17.14", key, p.Pos(st.Pos()), "a value is written into the parameter vector at a slot that is not tied to the parameter it was supplied for: "+why)
						}
					case *ssa.Slice:
						r.Unsupported("R17.14", "the vector of parameter values in "+FuncKey(fn)+" is re-sliced before it is filled")
					}
				}
			}
		}
	}
	r.Floor("R17.14", "stores into the parameter vector", n, 1)
}
