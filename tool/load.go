package main

// Loader: parses and type-checks every package of /repo (go/packages), lowers
// it to go/ssa and builds the VTA call graph. Nothing of /repo is executed.

import (
	"fmt"
	"go/token"
	"go/types"
	"os"
	"sort"
	"strings"

	"golang.org/x/tools/go/callgraph"
	"golang.org/x/tools/go/callgraph/cha"
	"golang.org/x/tools/go/callgraph/vta"
	"golang.org/x/tools/go/packages"
	"golang.org/x/tools/go/ssa"
	"golang.org/x/tools/go/ssa/ssautil"
)

const modPath = "github.com/flowmatters/openwater-core"

// Program is the resolved program every rule works on.
type Program struct {
	Repo     string
	Fset     *token.FileSet
	Pkgs     []*packages.Package // module packages only, sorted by path
	ByPath   map[string]*packages.Package
	SSA      *ssa.Program
	SSAPkg   map[string]*ssa.Package
	AllFuncs map[*ssa.Function]bool
	cg       *callgraph.Graph
	chaG     *callgraph.Graph
	External []string // packages treated as declaration-only (type errors of their own)
	Dropped  []string // module packages that do not build in this configuration
}

type loadConfig struct {
	Env       []string // extra environment (GOOS=..., CGO_ENABLED=0)
	NoSSA     bool
	AllowDrop bool // alternative build configurations: module packages that do not build there are dropped, not fatal
}

func baseEnv() []string {
	env := []string{}
	for _, e := range os.Environ() {
		if strings.HasPrefix(e, "GOWORK=") || strings.HasPrefix(e, "GOFLAGS=") ||
			strings.HasPrefix(e, "GOPROXY=") || strings.HasPrefix(e, "GOSUMDB=") ||
			strings.HasPrefix(e, "GOTOOLCHAIN=") {
			continue
		}
		env = append(env, e)
	}
	env = append(env, "GOWORK=off", "GOFLAGS=-mod=mod", "GOPROXY=off", "GOSUMDB=off", "GOTOOLCHAIN=local")
	return env
}

// Load loads ./... of repo. A package whose *own* error list is non-empty and
// that is outside the module (gonum hdf5: hdf5.h is missing) is external: its
// declarations are used, its bodies are not. An error inside the module fails.
func Load(repo string, lc loadConfig) (*Program, error) {
	cfg := &packages.Config{
		Mode:  packages.LoadAllSyntax,
		Dir:   repo,
		Env:   append(baseEnv(), lc.Env...),
		Tests: false,
	}
	pkgs, err := packages.Load(cfg, "./...")
	if err != nil {
		return nil, fmt.Errorf("go/packages: %v", err)
	}
	if len(pkgs) == 0 {
		return nil, fmt.Errorf("no packages loaded from %s", repo)
	}
	p := &Program{Repo: repo, ByPath: map[string]*packages.Package{}, SSAPkg: map[string]*ssa.Package{}}
	p.Fset = pkgs[0].Fset

	// Collect all packages (deps included).
	all := map[string]*packages.Package{}
	var visit func(*packages.Package)
	visit = func(pk *packages.Package) {
		if all[pk.PkgPath] != nil {
			return
		}
		all[pk.PkgPath] = pk
		for _, imp := range pk.Imports {
			visit(imp)
		}
	}
	for _, pk := range pkgs {
		visit(pk)
	}
	var errs []string
	external := map[string]bool{}
	dropped := map[string]bool{}
	for path, pk := range all {
		inModule := path == modPath || strings.HasPrefix(path, modPath+"/")
		if len(pk.Errors) > 0 {
			if inModule {
				if lc.AllowDrop {
					dropped[path] = true
					continue
				}
				for _, e := range pk.Errors {
					errs = append(errs, e.Error())
				}
			} else {
				external[path] = true
			}
		}
		if inModule {
			p.Pkgs = append(p.Pkgs, pk)
			p.ByPath[path] = pk
		}
	}
	if len(errs) > 0 {
		sort.Strings(errs)
		if len(errs) > 10 {
			errs = errs[:10]
		}
		return nil, fmt.Errorf("type errors in module packages:\n  %s", strings.Join(errs, "\n  "))
	}
	sort.Slice(p.Pkgs, func(i, j int) bool { return p.Pkgs[i].PkgPath < p.Pkgs[j].PkgPath })
	for e := range external {
		p.External = append(p.External, e)
	}
	if lc.AllowDrop {
		// hdf5 has no buildable files without cgo: treat a dependency that is not loadable as dropped too
		for path, pk := range all {
			inModule := path == modPath || strings.HasPrefix(path, modPath+"/")
			if !inModule && (pk.Types == nil || len(pk.GoFiles) == 0 && len(pk.Errors) > 0) {
				dropped[path] = true
			}
		}
		for changed := true; changed; {
			changed = false
			for path, pk := range all {
				if dropped[path] {
					continue
				}
				for ip := range pk.Imports {
					if dropped[ip] {
						dropped[path] = true
						changed = true
					}
				}
			}
		}
		var keep []*packages.Package
		for _, pk := range p.Pkgs {
			if !dropped[pk.PkgPath] {
				keep = append(keep, pk)
			} else {
				delete(p.ByPath, pk.PkgPath)
			}
		}
		p.Pkgs = keep
	}
	for d := range dropped {
		if d == modPath || strings.HasPrefix(d, modPath+"/") {
			p.Dropped = append(p.Dropped, relPkg(d))
		}
		delete(all, d)
		delete(external, d)
	}
	sort.Strings(p.Dropped)
	sort.Strings(p.External)
	if lc.NoSSA {
		return p, nil
	}

	prog := ssa.NewProgram(p.Fset, ssa.InstantiateGenerics)
	// create in dependency order is not required by go/ssa; create all.
	paths := make([]string, 0, len(all))
	for path := range all {
		paths = append(paths, path)
	}
	sort.Strings(paths)
	for _, path := range paths {
		pk := all[path]
		if pk.Types == nil {
			continue
		}
		if external[path] || pk.TypesInfo == nil || len(pk.Syntax) == 0 {
			p.SSAPkg[path] = prog.CreatePackage(pk.Types, nil, nil, true)
		} else {
			p.SSAPkg[path] = prog.CreatePackage(pk.Types, pk.Syntax, pk.TypesInfo, true)
		}
	}
	prog.Build()
	p.SSA = prog
	p.AllFuncs = ssautil.AllFunctions(prog)
	return p, nil
}

// CallGraph returns the VTA call graph (built lazily).
func (p *Program) CallGraph() *callgraph.Graph {
	if p.cg == nil {
		p.cg = vta.CallGraph(p.AllFuncs, p.CHA())
	}
	return p.cg
}

// CHA returns the class-hierarchy call graph (built lazily).
func (p *Program) CHA() *callgraph.Graph {
	if p.chaG == nil {
		p.chaG = cha.CallGraph(p.SSA)
	}
	return p.chaG
}

// Pos renders a position relative to the repo root.
func (p *Program) Pos(pos token.Pos) string {
	if !pos.IsValid() {
		return "-"
	}
	ps := p.Fset.Position(pos)
	f := ps.Filename
	if strings.HasPrefix(f, p.Repo+"/") {
		f = f[len(p.Repo)+1:]
	}
	return fmt.Sprintf("%s:%d", f, ps.Line)
}

// InModule reports whether fn belongs to a package of the module.
func InModule(fn *ssa.Function) bool {
	pk := fnPkg(fn)
	if pk == nil {
		return false
	}
	path := pk.Path()
	return path == modPath || strings.HasPrefix(path, modPath+"/")
}

func fnPkg(fn *ssa.Function) *types.Package {
	if fn == nil {
		return nil
	}
	if fn.Pkg != nil {
		return fn.Pkg.Pkg
	}
	if fn.Object() != nil {
		return fn.Object().Pkg()
	}
	if fn.Parent() != nil {
		return fnPkg(fn.Parent())
	}
	if o := fn.Origin(); o != nil && o != fn {
		return fnPkg(o)
	}
	return nil
}

// relPkg returns the package path relative to the module ("data", "models/rr").
func relPkg(path string) string {
	if path == modPath {
		return "."
	}
	return strings.TrimPrefix(path, modPath+"/")
}

// FuncKey is a position-independent name: "<relpkg>.(Recv).Name" or closure "X$1".
func FuncKey(fn *ssa.Function) string {
	if fn == nil {
		return "<nil>"
	}
	pk := fnPkg(fn)
	prefix := ""
	if pk != nil {
		prefix = relPkg(pk.Path()) + "."
	}
	if fn.Parent() != nil {
		// closure: parentKey$N
		return FuncKey(fn.Parent()) + strings.TrimPrefix(fn.Name(), fn.Parent().Name())
	}
	if recv := fn.Signature.Recv(); recv != nil {
		t := recv.Type()
		ptr := ""
		if pt, ok := t.(*types.Pointer); ok {
			t = pt.Elem()
			ptr = "*"
		}
		name := t.String()
		if n, ok := t.(*types.Named); ok {
			name = n.Obj().Name()
		}
		return fmt.Sprintf("%s(%s%s).%s", prefix, ptr, name, fn.Name())
	}
	return prefix + fn.Name()
}

// SrcFuncs returns all functions (incl. closures) with bodies in module packages, sorted by key.
func (p *Program) SrcFuncs() []*ssa.Function {
	var out []*ssa.Function
	for fn := range p.AllFuncs {
		if fn.Blocks == nil || fn.Synthetic != "" && !strings.HasPrefix(fn.Synthetic, "package initializer") {
			continue
		}
		if !InModule(fn) {
			continue
		}
		out = append(out, fn)
	}
	sort.Slice(out, func(i, j int) bool {
		a, b := FuncKey(out[i]), FuncKey(out[j])
		if a != b {
			return a < b
		}
		return out[i].Pos() < out[j].Pos()
	})
	return out
}

// PkgFuncs returns source functions of one module package (relative path).
func (p *Program) PkgFuncs(rel string) []*ssa.Function {
	var out []*ssa.Function
	for _, fn := range p.SrcFuncs() {
		if pk := fnPkg(fn); pk != nil && relPkg(pk.Path()) == rel {
			out = append(out, fn)
		}
	}
	return out
}

// FindFunc finds a function by key.
func (p *Program) FindFunc(key string) *ssa.Function {
	for _, fn := range p.SrcFuncs() {
		if FuncKey(fn) == key {
			return fn
		}
	}
	return nil
}
