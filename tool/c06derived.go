package main

import (
	"fmt"
	"go/types"
	"sort"
	"strings"

	"golang.org/x/tools/go/ssa"
)

// checkDerivedCarried (R06.12): a quantity that is carried round the time loop besides the states, and that starts
// from the state arguments, must be re-derivable from the states wherever the run is cut: what it holds at the end
// of a timestep is its initialising expression applied to what the states hold there. Per path through one timestep,
// with W0 = f(state arguments) the start value, W' the value carried to the next timestep and S' the states carried
// there, f(S') − W' is the zero polynomial (denominators cleared). A `wetness := store/smax` refreshed in the middle
// of the timestep, before evaporation and recharge are taken out of the store, fails: a later call starts from
// store/smax of the final store, the uninterrupted run goes on with the mid-step one.
func checkDerivedCarried(p *Program, r *Report, models []*Model) {
	r.Rule("R06.12", "derived carried quantities can be re-derived at a cut: a float variable carried round a kernel's time loop that is not a state, starts from an expression f of the state arguments and is read before it is rewritten, holds at the end of every timestep f applied to the states as they are carried on — per path through a timestep, f(S') − W' is the zero polynomial (helper results opaque, denominators cleared)")
	n := 0
	for _, m := range models {
		k := m.Kernel
		if k == nil || len(m.States) == 0 {
			continue
		}
		key := m.RelPkg + "." + k.Name()
		nIn := len(m.Inputs)
		stateIdx := map[ssa.Value]int{}
		for j := range m.States {
			if nIn+j < len(k.Params) {
				if b, ok := k.Params[nIn+j].Type().Underlying().(*types.Basic); ok && b.Info()&types.IsFloat != 0 {
					stateIdx[k.Params[nIn+j]] = j
				}
			}
		}
		if len(stateIdx) == 0 {
			continue
		}
		for _, l := range timeLoops(k) {
			h := l.Header
			statePhi := map[int]*ssa.Phi{}
			var derived []*ssa.Phi
			for _, ins := range h.Instrs {
				phi, ok := ins.(*ssa.Phi)
				if !ok {
					break
				}
				if b, ok := phi.Type().Underlying().(*types.Basic); !ok || b.Info()&types.IsFloat == 0 {
					continue
				}
				var init ssa.Value
				for i, e := range phi.Edges {
					if i < len(h.Preds) && !l.Blocks[h.Preds[i]] {
						init = e
					}
				}
				if init == nil {
					continue
				}
				if j, isState := stateIdx[init]; isState {
					statePhi[j] = phi
					continue
				}
				if _, isC := init.(*ssa.Const); isC {
					continue
				}
				// a state whose argument is converted before the loop (a negative initial store read as a proportion) is
				// still the state: its running value is what the kernel returns at a state position
				isReturned := false
				web := phiWeb(phi)
				for _, ret := range returnsOf(k) {
					for _, rv := range ret.Results {
						if web[rv] {
							isReturned = true
						}
						for _, o := range origins(rv) {
							if o != nil && web[o] {
								isReturned = true
							}
						}
					}
				}
				if isReturned {
					continue
				}
				if _, isP := init.(*ssa.Parameter); isP {
					continue
				}
				fromState := false
				dependsOn(init, func(x ssa.Value) bool {
					if _, ok := stateIdx[x]; ok {
						fromState = true
					}
					return false
				}, map[ssa.Value]bool{})
				if fromState {
					derived = append(derived, phi)
				}
			}
			if len(derived) == 0 {
				continue
			}
			paths, why := loopPaths(l)
			for _, d := range derived {
				name := d.Comment
				if name == "" {
					name = d.Name()
				}
				okey := fmt.Sprintf("%s:derived-carried:%s", key, name)
				// is it read in the loop at all (other than by its own update)?
				read := false
				for _, ref := range refs(d) {
					if ref.Block() != nil && l.Blocks[ref.Block()] {
						read = true
					}
				}
				if !read {
					continue
				}
				if paths == nil {
					r.Unsupported("R06.12", okey+": "+why)
					continue
				}
				n++
				var init ssa.Value
				for i, e := range d.Edges {
					if i < len(h.Preds) && !l.Blocks[h.Preds[i]] {
						init = e
					}
				}
				bad, unsupported := "", ""
				for _, path := range paths {
					pc := &pathCtx{pos: map[*ssa.BasicBlock]int{}, path: path, stateOf: map[*ssa.Phi]int{}, kernel: k}
					pc.names = map[ssa.Value]string{}
					for i, b := range path {
						pc.pos[b] = i
					}
					for prm, j := range stateIdx {
						pc.names[prm] = fmt.Sprintf("S%d", j)
					}
					for j, ph := range statePhi {
						pc.stateOf[ph] = j
					}
					for i, ps := range m.Params {
						if idx := nIn + len(m.States) + i; idx < len(k.Params) && len(ps.Dims) == 0 {
							pc.names[k.Params[idx]] = fmt.Sprintf("p%d", i)
						}
					}
					last := path[len(path)-1]
					back := func(ph *ssa.Phi) ssa.Value {
						for i, pr := range h.Preds {
							if pr == last {
								return ph.Edges[i]
							}
						}
						return nil
					}
					wv := back(d)
					if wv == nil {
						unsupported = "the value carried on is not found on a path"
						break
					}
					wNext := pc.ex(wv, 0)
					pInit := pc.ex(init, 0)
					sub := map[string]poly{}
					for j, ph := range statePhi {
						if sv := back(ph); sv != nil {
							sub[fmt.Sprintf("S%d", j)] = pc.ex(sv, 0)
						}
					}
					want, ok := substPoly(pInit, sub)
					if !ok {
						unsupported = "the start value divides by a state: not followed"
						break
					}
					for sy := range polySymsAll(pInit) {
						if strings.HasPrefix(sy, "S") {
							if _, have := sub[sy]; !have {
								unsupported = "the start value depends on a state that is not carried as a plain variable of the loop"
							}
						}
					}
					if unsupported != "" {
						break
					}
					res := pc.clearDenominators(polyAdd(want, wNext, -1))
					if !polyIsZero(res) && bad == "" {
						bad = fmt.Sprintf("on the path with branches [%s]", describePath(p, path))
					}
				}
				switch {
				case unsupported != "":
					n--
					r.Unsupported("R06.12", okey+": "+unsupported)
				case bad != "":
					r.Fail("R06.12", okey, p.Pos(d.Pos()), fmt.Sprintf("`%s` is carried from one timestep to the next besides the states and starts from the state arguments, but %s what it holds at the end of the timestep is not its starting expression applied to the states carried on: a later call re-derives it from the final states, the uninterrupted run goes on with the value it had when it was last refreshed — outputs after a cut differ", name, bad))
				default:
					r.OK("R06.12", fmt.Sprintf("%s: carried `%s` is at the end of every timestep what it would be re-derived as from the states", key, name))
				}
			}
		}
	}
	r.Analysed["R06.12 derived carried quantities"] = n
}

// substPoly replaces symbols by polynomials; ok=false if a replaced symbol occurs inverted.
func substPoly(p poly, sub map[string]poly) (poly, bool) {
	out := poly{}
	var monos []string
	for m := range p {
		monos = append(monos, m)
	}
	sort.Strings(monos)
	for _, mono := range monos {
		c := p[mono]
		if c == 0 {
			continue
		}
		term := poly{"": c}
		if mono != "" {
			for _, sy := range strings.Split(mono, "*") {
				if strings.HasPrefix(sy, "/") {
					if _, hit := sub[sy[1:]]; hit {
						return nil, false
					}
				}
				if rep, hit := sub[sy]; hit {
					term = polyMul(term, rep)
				} else {
					term = polyMul(term, poly{sy: 1})
				}
			}
		}
		out = polyAdd(out, term, 1)
	}
	return out, true
}

func polySymsAll(p poly) map[string]bool {
	out := map[string]bool{}
	for mono, c := range p {
		if c == 0 || mono == "" {
			continue
		}
		for _, sy := range strings.Split(mono, "*") {
			out[strings.TrimPrefix(sy, "/")] = true
		}
	}
	return out
}
