package main

// C03: C-backed arrays and the C entry point. Sibling agreement: the rule sets of C01/C02 are
// evaluated on the cdata types; plus R03.1 (raw memory) and R03.2 (call protocol).

import (
	"fmt"
	"go/types"
	"sort"
	"strings"

	"golang.org/x/tools/go/ssa"
)

func init() { register("C03", "other", checkC03) }

func checkC03(p *Program, r *Report) {
	checkCViewStart(p, r)
	r.Rule("R02.1c", "sibling agreement on aliasing: a fast path that writes through x.Unroll() must not be reachable with a C-backed x, whose Unroll always copies")
	r.Rule("R03.1", "raw memory: unsafe.Pointer conversions occur only in the C-array constructors (New<T>CArray, make<T>CArrayForTest) and the cgo entry point; *[1<<30]T stores are addressed only through Index(loc) (R01.3 on the C types)")
	r.Rule("R03.2", "call protocol of the entry points: ApplyParameters dominates InitialiseStates and Run; the FindDimensions→InitialiseDimensions handshake precedes ApplyParameters; the states given to Run are InitialiseStates' result exactly on the initStates edge and the caller's buffer otherwise; results are copied back to the caller's buffer after Run under initStates")
	r.Assumptions = append(r.Assumptions,
		"the C01/C02 rule sets (R01.1–3, R02.1, R02.4, R02.5) are evaluated on the nine C-backed types; documented differences: C Unroll never aliases, C Apply/ApplySlice have no fast path",
		"not decided: equality of results between back-ends (value property); bounds of the caller's buffer (no length information exists in *[1<<30]T)")
	checkArrayAlgebra(p, r, "C03")
	checkBulkOps(p, r, "C03")
	checkUnsafe(p, r)
	checkProtocol(p, r, []string{"libopenwater"}, "R03.2", true)
	checkBufferExtents(p, r)
}

// checkBufferExtents (R03.3): the C entry point receives every caller buffer together with its own extents (the
// integer parameters that follow the pointer in the signature). Each wrapping of a buffer as an array uses exactly
// those extents, in order: an output buffer shaped with the run's length instead of its own series length packs the
// rows at the wrong offsets of the caller's memory, although every write stays inside it.
func checkBufferExtents(p *Program, r *Report) {
	r.Rule("R03.3", "each caller buffer is wrapped with its own extents: in the C entry points, the shape handed to the C-array constructor for a pointer parameter P consists, element by element, of (conversions of) the integer parameters that follow P in the signature, in that order — directly or through a module helper that is passed them")
	pk := p.SSAPkg[modPath+"/libopenwater"]
	if pk == nil {
		r.Undecided("R03.3", "libopenwater", "-", "package not loaded")
		return
	}
	n := 0
	eff := nil2eff(p)
	isCInt := func(t types.Type) bool {
		b, ok := t.Underlying().(*types.Basic)
		return ok && b.Info()&types.IsInteger != 0
	}
	for _, fn := range p.PkgFuncs("libopenwater") {
		if fn.Parent() != nil || len(fn.Blocks) == 0 {
			continue
		}
		// pointer parameters and the extents that follow them
		extents := map[*ssa.Parameter][]*ssa.Parameter{}
		for i, prm := range fn.Params {
			pt, ok := prm.Type().Underlying().(*types.Pointer)
			if !ok {
				continue
			}
			if b, ok := pt.Elem().Underlying().(*types.Basic); !ok || b.Info()&types.IsFloat == 0 {
				continue
			}
			for j := i + 1; j < len(fn.Params) && isCInt(fn.Params[j].Type()); j++ {
				extents[prm] = append(extents[prm], fn.Params[j])
			}
		}
		if len(extents) == 0 {
			continue
		}
		paramOf := func(v ssa.Value) *ssa.Parameter {
			for d := 0; d < 6 && v != nil; d++ {
				switch x := v.(type) {
				case *ssa.Parameter:
					return x
				case *ssa.Convert:
					v = x.X
				case *ssa.ChangeType:
					v = x.X
				default:
					if o := origin1(v); o != nil && o != v {
						v = o
					} else {
						return nil
					}
				}
			}
			return nil
		}
		// wrap sites: constructor calls in fn, or in a helper of the package called from fn
		type site struct {
			ctor  ssa.CallInstruction
			bind  map[*ssa.Parameter]ssa.Value // helper parameter → argument in fn
			where ssa.CallInstruction
		}
		var sites []site
		scan := func(f *ssa.Function, bind map[*ssa.Parameter]ssa.Value, where ssa.CallInstruction) {
			for _, c := range callsIn(f) {
				callee := c.Common().StaticCallee()
				if callee == nil || !strings.HasSuffix(callee.Name(), "CArray") || fnPkg(callee) == nil || relPkg(fnPkg(callee).Path()) != "data/cdata" || len(c.Common().Args) != 2 {
					continue
				}
				w := where
				if w == nil {
					w = c
				}
				sites = append(sites, site{c, bind, w})
			}
		}
		scan(fn, nil, nil)
		for _, c := range callsIn(fn) {
			h := c.Common().StaticCallee()
			if h == nil || h == fn || fnPkg(h) != fnPkg(fn) || len(h.Blocks) == 0 || len(h.Params) != len(c.Common().Args) {
				continue
			}
			bind := map[*ssa.Parameter]ssa.Value{}
			for i, q := range h.Params {
				bind[q] = c.Common().Args[i]
			}
			scan(h, bind, c)
		}
		resolve := func(v ssa.Value, bind map[*ssa.Parameter]ssa.Value) *ssa.Parameter {
			prm := paramOf(v)
			if prm == nil {
				return nil
			}
			if bind != nil {
				if a, ok := bind[prm]; ok {
					return paramOf(a)
				}
			}
			return prm
		}
		k := 0
		for _, st := range sites {
			buf := resolve(st.ctor.Common().Args[0], st.bind)
			want, isBuf := extents[buf]
			if buf == nil || !isBuf {
				continue
			}
			k++
			n++
			key := fmt.Sprintf("%s:wrap:%s#%d", FuncKey(fn), buf.Name(), k)
			bad := ""
			for d, wp := range want {
				vals, _, unk := vecElemAt(eff, st.ctor.Common().Args[1], int64(d), st.ctor)
				if unk != "" || len(vals) != 1 {
					bad = fmt.Sprintf("extent %d of the shape is undetermined", d)
					break
				}
				if got := resolve(vals[0], st.bind); got != wp {
					name := "a computed value"
					if got != nil {
						name = "`" + got.Name() + "`"
					}
					bad = fmt.Sprintf("extent %d of the array laid over `%s` is %s, not the buffer's own `%s`", d, buf.Name(), name, wp.Name())
					break
				}
			}
			if bad != "" {
				r.Fail("R03.3", key, p.Pos(st.where.Pos()), bad+": rows of the caller's buffer are then addressed with another buffer's stride — results land at the wrong offsets (still inside the buffer, so nothing crashes)")
			} else {
				r.OK("R03.3", fmt.Sprintf("%s: `%s` wrapped with the %d extents that follow it in the signature", FuncKey(fn), buf.Name(), len(want)))
			}
		}
	}
	r.Floor("R03.3", "wrapped caller buffers", n, 4)
}

func isUnsafePointer(t types.Type) bool {
	b, ok := t.Underlying().(*types.Basic)
	return ok && b.Kind() == types.UnsafePointer
}

func checkUnsafe(p *Program, r *Report) {
	n := 0
	for _, fn := range p.SrcFuncs() {
		rel := relPkg(fnPkg(fn).Path())
		k := 0
		eachInstr(fn, func(_ *ssa.BasicBlock, _ int, ins ssa.Instruction) {
			cv, ok := ins.(*ssa.Convert)
			if !ok {
				return
			}
			if !isUnsafePointer(cv.Type()) && !isUnsafePointer(cv.X.Type()) {
				return
			}
			// scope: the array packages and the C ABI, or any conversion producing a raw array pointer
			rawArr := false
			if pt, ok := cv.Type().Underlying().(*types.Pointer); ok {
				_, rawArr = pt.Elem().Underlying().(*types.Array)
			}
			if !(rel == "data" || rel == "data/cdata" || rel == "libopenwater" || rawArr) {
				return
			}
			n++
			k++
			name := fn.Name()
			okSite := false
			switch {
			case rel == "data/cdata" && (strings.HasPrefix(name, "New") && strings.HasSuffix(name, "CArray") || strings.HasPrefix(name, "make") && strings.HasSuffix(name, "CArrayForTest")):
				okSite = true
			case rel == "libopenwater" || strings.HasPrefix(rel, "cmd/"):
				// pointer hand-over at the C ABI: only *to* unsafe.Pointer, as constructor argument
				if isUnsafePointer(cv.Type()) {
					okSite = ptrOnlyToCtor(cv, 0)
				}
				if strings.HasPrefix(name, "_Cfunc_") || strings.HasPrefix(name, "_cgo") || fn.Synthetic != "" {
					okSite = true
				}
			}
			key := fmt.Sprintf("%s:unsafe#%d", FuncKey(fn), k)
			if okSite {
				r.OK("R03.1", fmt.Sprintf("%s: unsafe.Pointer conversion at a constructor/ABI boundary", FuncKey(fn)))
			} else {
				r.Fail("R03.1", key, p.Pos(cv.Pos()), "unsafe.Pointer conversion outside the C-array constructors: raw caller memory becomes reachable without the Index algebra")
			}
		})
	}
	r.Floor("R03.1", "unsafe.Pointer conversions", n, 9)
}

// ---- protocol order ----

func isModelIface(t types.Type) bool {
	n := namedOf(t)
	return n != nil && n.Obj().Name() == "TimeSteppingModel" && n.Obj().Pkg() != nil && strings.HasSuffix(n.Obj().Pkg().Path(), "/sim")
}

type modelCalls struct {
	model ssa.Value
	calls map[string][]*ssa.Call
}

// modelCallsIn groups invoke-calls on TimeSteppingModel values by model object.
func modelCallsIn(fn *ssa.Function) []*modelCalls {
	var out []*modelCalls
	find := func(m ssa.Value) *modelCalls {
		for _, mc := range out {
			if sameModel(mc.model, m) {
				return mc
			}
		}
		mc := &modelCalls{model: m, calls: map[string][]*ssa.Call{}}
		out = append(out, mc)
		return mc
	}
	eachInstr(fn, func(_ *ssa.BasicBlock, _ int, ins ssa.Instruction) {
		c, ok := ins.(*ssa.Call)
		if !ok || !c.Common().IsInvoke() || !isModelIface(c.Common().Value.Type()) {
			return
		}
		mc := find(c.Common().Value)
		n := c.Common().Method.Name()
		mc.calls[n] = append(mc.calls[n], c)
	})
	return out
}

// sameModel: same SSA object, or loads of the same field of the same base.
func sameModel(a, b ssa.Value) bool {
	if sameObj(a, b) {
		return true
	}
	na, ba, oka := loadedField(objOf(a))
	nb, bb, okb := loadedField(objOf(b))
	if oka && okb && na == nb && sameObj(ba, bb) {
		return true
	}
	return false
}

// checkProtocol applies the order rule to every function of the given packages that calls ApplyParameters.
// withStates: also check the initStates / copy-back clauses (C entry point).
func checkProtocol(p *Program, r *Report, pkgs []string, rule string, cEntry bool) {
	n := 0
	for _, rel := range pkgs {
		for _, fn := range p.PkgFuncs(rel) {
			mcs := modelCallsIn(fn)
			// a helper of the same package that is handed the model performs its calls on the caller's behalf:
			// those it makes on every path count at the position of the call to the helper
			proxy := map[*ssa.Call]bool{}
			for _, c := range callsIn(fn) {
				call, ok := c.(*ssa.Call)
				h := c.Common().StaticCallee()
				if !ok || h == nil || h.Blocks == nil || fnPkg(h) != fnPkg(fn) || h == fn {
					continue
				}
				for ai, a := range c.Common().Args {
					if !isModelIface(a.Type()) || ai >= len(h.Params) {
						continue
					}
					var target *modelCalls
					for _, mc := range mcs {
						if sameModel(mc.model, a) {
							target = mc
						}
					}
					if target == nil {
						target = &modelCalls{model: a, calls: map[string][]*ssa.Call{}}
						mcs = append(mcs, target)
					}
					for _, hm := range modelCallsIn(h) {
						if origin1(hm.model) != ssa.Value(h.Params[ai]) {
							continue
						}
						for name, cs := range hm.calls {
							for _, c2 := range cs {
								always := true
								for _, ret := range returnsOf(h) {
									if !c2.Block().Dominates(ret.Block()) {
										always = false
									}
								}
								if always {
									target.calls[name] = append(target.calls[name], call)
									proxy[call] = true
								}
							}
						}
					}
				}
			}
			for _, mc := range mcs {
				aps := mc.calls["ApplyParameters"]
				if len(aps) == 0 {
					continue
				}
				n++
				key := FuncKey(fn)
				for _, ap := range aps {
					for _, name := range []string{"InitialiseStates", "Run"} {
						for _, c := range mc.calls[name] {
							if !instrDominates(ap, c) {
								r.Fail(rule, key+":order:"+name, p.Pos(c.Pos()), fmt.Sprintf("%s is not dominated by ApplyParameters: the model would run/initialise with unset parameter views", name))
							} else {
								r.OK(rule, fmt.Sprintf("%s: ApplyParameters dominates %s", key, name))
							}
						}
					}
					// handshake
					if proxy[ap] {
						continue // performed (and judged) inside the helper
					}
					why := handshake(p, fn, mc, ap)
					if why == "" {
						r.OK(rule, key+": FindDimensions→InitialiseDimensions precedes ApplyParameters")
					} else {
						r.Fail(rule, key+":dimension-handshake", p.Pos(ap.Pos()), "ApplyParameters without the FindDimensions→InitialiseDimensions handshake its sibling entry points perform: "+why+" (a model with table parameters then decodes them with extent 0)")
					}
				}
				if cEntry && len(mc.calls["Run"]) > 0 {
					checkCEntryStates(p, r, fn, mc, rule)
				}
			}
		}
	}
	r.Floor(rule, "callers of ApplyParameters in "+strings.Join(pkgs, ","), n, 1)
}

// handshake: an InitialiseDimensions call on the same model whose argument is the FindDimensions result on the
// array given to ApplyParameters, that can reach ApplyParameters and is not reachable from it. If the model is
// loaded from a struct field, the functions storing that field must perform InitialiseDimensions on the stored value.
func handshake(p *Program, fn *ssa.Function, mc *modelCalls, ap *ssa.Call) string {
	ids := mc.calls["InitialiseDimensions"]
	if len(ids) > 0 {
		for _, id := range ids {
			if !canReach(id, ap) {
				continue
			}
			if canReach(ap, id) {
				return "InitialiseDimensions can run after ApplyParameters"
			}
			// argument derives from FindDimensions on the same model
			fd := false
			for _, o := range origins(id.Common().Args[0]) {
				if c, ok := o.(*ssa.Call); ok && c.Common().IsInvoke() && c.Common().Method.Name() == "FindDimensions" && sameModel(c.Common().Value, mc.model) {
					if sameObj(c.Common().Args[0], ap.Common().Args[0]) {
						fd = true
					} else {
						return "FindDimensions is evaluated on a different parameter array than ApplyParameters receives"
					}
				}
			}
			if !fd {
				return "InitialiseDimensions' argument is not the FindDimensions result of this model"
			}
			return ""
		}
		return "InitialiseDimensions is not on a path to ApplyParameters"
	}
	// model loaded from a field: look at the stores of that field
	name, base, ok := loadedField(objOf(mc.model))
	if !ok {
		return "no InitialiseDimensions call on this model"
	}
	_ = base
	found := 0
	bad := ""
	for _, f2 := range p.SrcFuncs() {
		eachInstr(f2, func(_ *ssa.BasicBlock, _ int, ins ssa.Instruction) {
			st, ok := ins.(*ssa.Store)
			if !ok {
				return
			}
			fa, ok := st.Addr.(*ssa.FieldAddr)
			if !ok {
				return
			}
			if nm, _, _ := fieldName(fa); nm != name || !isModelIface(st.Val.Type()) {
				return
			}
			found++
			// an InitialiseDimensions call on the stored value (or on a load of the same field) in f2
			okc := false
			for _, m2 := range modelCallsIn(f2) {
				if len(m2.calls["InitialiseDimensions"]) == 0 {
					continue
				}
				if sameModel(m2.model, st.Val) {
					okc = true
				}
				if n2, _, ok := loadedField(objOf(m2.model)); ok && n2 == name {
					okc = true
				}
			}
			if !okc {
				bad = fmt.Sprintf("field %s is assigned a model in %s without InitialiseDimensions", name, FuncKey(f2))
			}
		})
	}
	if found == 0 {
		return "model comes from field " + name + " which is never assigned"
	}
	return bad
}

func checkCEntryStates(p *Program, r *Report, fn *ssa.Function, mc *modelCalls, rule string) {
	key := FuncKey(fn)
	runs := mc.calls["Run"]
	if len(runs) == 0 || len(runs) > 4 {
		r.Undecided(rule, key+":run-count", p.Pos(fn.Pos()), fmt.Sprintf("%d Run calls", len(runs)))
		return
	}
	// no path runs the model twice
	for _, a := range runs {
		for _, b := range runs {
			if a != b && canReach(a, b) {
				r.Fail(rule, key+":run-twice", p.Pos(b.Pos()), "a path through the entry point calls Run twice")
				return
			}
		}
	}
	var initFlag, statesPtr *ssa.Parameter
	for _, prm := range fn.Params {
		if prm.Name() == "initStates" {
			initFlag = prm
		}
		if prm.Name() == "states" {
			statesPtr = prm
		}
	}
	if initFlag == nil || statesPtr == nil {
		// identify by type: the only bool parameter, the third *C.double — fall back to undecided
		r.Undecided(rule, key+":params", p.Pos(fn.Pos()), "entry point parameters initStates/states not found")
		return
	}
	guardOf := func(b *ssa.BasicBlock) (bool, bool) {
		for _, g := range guardsAt(b) {
			if g.Cond == ssa.Value(initFlag) {
				return g.Val, true
			}
		}
		return false, false
	}
	isCArrayCtor := func(c *ssa.Call) bool {
		cn := callName(c.Common())
		return strings.HasPrefix(cn, "New") && strings.HasSuffix(cn, "CArray") && len(c.Common().Args) > 0
	}
	// wrapParam: f is a helper all of whose results wrap (New…CArray) a pointer derived from its j-th parameter
	wrapParam := func(f *ssa.Function) int {
		if f == nil || f.Blocks == nil || !InModule(f) {
			return -1
		}
		j := -1
		for _, ret := range returnsOf(f) {
			if len(ret.Results) != 1 {
				return -1
			}
			for _, o := range origins(ret.Results[0]) {
				c, ok := stripConv(o).(*ssa.Call)
				if !ok || !isCArrayCtor(c) {
					return -1
				}
				hit := -1
				for i, prm := range f.Params {
					if dependsOn(c.Common().Args[0], func(x ssa.Value) bool { return x == ssa.Value(prm) }, map[ssa.Value]bool{}) {
						hit = i
					}
				}
				if hit < 0 || j >= 0 && j != hit {
					return -1
				}
				j = hit
			}
		}
		return j
	}
	fromStatesBuf := func(v ssa.Value) bool {
		c, ok := stripConv(v).(*ssa.Call)
		if !ok {
			return false
		}
		ptr := ssa.Value(nil)
		if isCArrayCtor(c) {
			ptr = c.Common().Args[0]
		} else if j := wrapParam(c.Common().StaticCallee()); j >= 0 && j < len(c.Common().Args) {
			ptr = c.Common().Args[j]
		}
		if ptr == nil {
			return false
		}
		return dependsOn(ptr, func(x ssa.Value) bool { return x == ssa.Value(statesPtr) }, map[ssa.Value]bool{})
	}
	// states argument of each Run
	okStates := true
	nInit, nBuf := 0, 0
	var initRun *ssa.Call
	for _, run := range runs {
		nInitBefore := nInit
		sArg := run.Common().Args[1]
		var walk func(v ssa.Value, seen map[ssa.Value]bool)
		walk = func(v ssa.Value, seen map[ssa.Value]bool) {
			if seen[v] {
				return
			}
			seen[v] = true
			v2 := stripConv(v)
			switch x := v2.(type) {
			case *ssa.Phi:
				for _, e := range x.Edges {
					walk(e, seen)
				}
			case *ssa.Call:
				if x.Common().IsInvoke() && x.Common().Method.Name() == "InitialiseStates" && sameModel(x.Common().Value, mc.model) {
					nInit++
					val, known := guardOf(x.Block())
					if !known {
						val, known = guardOf(run.Block())
					}
					if !known || !val {
						okStates = false
						r.Fail(rule, key+":states:init-unguarded", p.Pos(x.Pos()), "InitialiseStates result reaches Run on a path not guarded by initStates==true")
					}
					return
				}
				if fromStatesBuf(x) {
					nBuf++
					val, known := guardOf(x.Block())
					if !known {
						val, known = guardOf(run.Block())
					}
					if !known || val {
						okStates = false
						r.Fail(rule, key+":states:buffer-unguarded", p.Pos(x.Pos()), "the caller's states buffer reaches Run on a path not guarded by initStates==false")
					}
					return
				}
				okStates = false
				r.Fail(rule, key+":states:origin", p.Pos(x.Pos()), "states passed to Run have an unexpected origin: "+callName(x.Common()))
			default:
				for _, o := range origins(v2) {
					if o != nil && o != v2 {
						walk(o, seen)
						continue
					}
					if o == nil {
						okStates = false
						r.Fail(rule, key+":states:nil", p.Pos(run.Pos()), "states passed to Run may be nil")
					}
				}
			}
		}
		walk(sArg, map[ssa.Value]bool{})
		if nInit > nInitBefore {
			initRun = run
		}
	}
	run := runs[0]
	if initRun != nil {
		run = initRun
	}
	sArg := run.Common().Args[1]
	if nInit == 0 || nBuf == 0 {
		okStates = false
		r.Fail(rule, key+":states:branches", p.Pos(run.Pos()), fmt.Sprintf("Run must receive InitialiseStates' result when initStates and the caller's buffer otherwise (found init:%d buffer:%d)", nInit, nBuf))
	}
	if okStates {
		r.OK(rule, key+": Run receives InitialiseStates() iff initStates, else the caller's states buffer")
	}
	// the library initialises as many state rows as the caller's states buffer has cells: the argument of
	// InitialiseStates derives from the very parameter that is the first extent of the wrapped states buffer
	{
		eff := nil2eff(p)
		paramDeps := func(v ssa.Value) map[*ssa.Parameter]bool {
			out := map[*ssa.Parameter]bool{}
			for _, prm := range fn.Params {
				pp := prm
				if dependsOn(v, func(x ssa.Value) bool { return x == ssa.Value(pp) }, map[ssa.Value]bool{}) {
					out[pp] = true
				}
			}
			return out
		}
		// first extent of a C-array constructor's shape argument, as a value in the function that calls it
		var firstExtent func(c *ssa.Call, depth int) ssa.Value
		firstExtent = func(c *ssa.Call, depth int) ssa.Value {
			if isCArrayCtor(c) && len(c.Common().Args) >= 2 {
				vals, _, unk := vecElemAt(eff, origin1(c.Common().Args[1]), 0, c)
				if unk == "" && len(vals) == 1 {
					return vals[0]
				}
				return nil
			}
			f := c.Common().StaticCallee()
			if depth > 2 || wrapParam(f) < 0 {
				return nil
			}
			for _, ret := range returnsOf(f) {
				for _, o := range origins(ret.Results[0]) {
					if ic, ok := stripConv(o).(*ssa.Call); ok {
						if v := firstExtent(ic, depth+1); v != nil {
							for i, prm := range f.Params {
								pp := prm
								if dependsOn(v, func(x ssa.Value) bool { return x == ssa.Value(pp) }, map[ssa.Value]bool{}) && i < len(c.Common().Args) {
									return c.Common().Args[i]
								}
							}
						}
					}
				}
			}
			return nil
		}
		var bufCount map[*ssa.Parameter]bool
		eachInstr(fn, func(_ *ssa.BasicBlock, _ int, ins ssa.Instruction) {
			if c, ok := ins.(*ssa.Call); ok && fromStatesBuf(c) {
				if v := firstExtent(c, 0); v != nil {
					if bufCount == nil {
						bufCount = map[*ssa.Parameter]bool{}
					}
					for prm := range paramDeps(v) {
						bufCount[prm] = true
					}
				}
			}
		})
		for _, ic := range mc.calls["InitialiseStates"] {
			ckey := key + ":states:init-count"
			if len(ic.Common().Args) != 1 || bufCount == nil {
				r.Undecided(rule, ckey, p.Pos(ic.Pos()), "cell count of the caller's states buffer or of InitialiseStates not determined")
				continue
			}
			deps := paramDeps(ic.Common().Args[0])
			same := len(deps) > 0
			for prm := range deps {
				if !bufCount[prm] {
					same = false
				}
			}
			if same {
				r.OK(rule, key+": InitialiseStates is given the cell count of the caller's states buffer")
			} else {
				var names []string
				for prm := range deps {
					names = append(names, prm.Name())
				}
				sort.Strings(names)
				r.Fail(rule, ckey, p.Pos(ic.Pos()), fmt.Sprintf("the library initialises states for a count taken from `%s`, not from the parameter that gives the caller's states buffer its number of cells: Run simulates (and copies back) a different number of cells than the buffers hold", strings.Join(names, ", ")))
			}
		}
	}
	// copy-back
	okCopy := false
	eachInstr(fn, func(_ *ssa.BasicBlock, _ int, ins ssa.Instruction) {
		c, ok := ins.(*ssa.Call)
		if !ok || callName(c.Common()) != "CopyFrom" {
			return
		}
		recv := recvOf(c.Common())
		if !fromStatesBuf(origin1(recv)) {
			return
		}
		// source is the array given to Run
		if !sameObj(c.Common().Args[0], sArg) && stripConv(c.Common().Args[0]) != stripConv(sArg) {
			r.Fail(rule, key+":copyback:source", p.Pos(c.Pos()), "copy-back into the caller's states buffer does not copy the states array that Run updated")
			return
		}
		if !instrDominates(run, c) {
			r.Fail(rule, key+":copyback:before-run", p.Pos(c.Pos()), "states are copied back to the caller before Run has updated them")
			return
		}
		if val, known := guardOf(c.Block()); !known || !val {
			r.Fail(rule, key+":copyback:unguarded", p.Pos(c.Pos()), "copy-back is not restricted to initStates==true")
			return
		}
		okCopy = true
	})
	if okCopy {
		r.OK(rule, key+": final states copied back to the caller's buffer after Run when initStates")
	} else {
		r.Fail(rule, key+":copyback:missing", p.Pos(run.Pos()), "when the library initialises the states itself, the final states never reach the caller's buffer")
	}
}

// ptrOnlyToCtor: every use of the raw pointer v hands it to a C-array constructor (or a cgo stub), directly or
// through a module helper whose own parameter is used in that way only.
func ptrOnlyToCtor(v ssa.Value, depth int) bool {
	if depth > 3 {
		return false
	}
	for _, ref := range refs(v) {
		if _, isDbg := ref.(*ssa.DebugRef); isDbg {
			continue
		}
		c, ok := ref.(*ssa.Call)
		if !ok {
			return false
		}
		cn := callName(c.Common())
		if strings.HasPrefix(cn, "New") && strings.HasSuffix(cn, "CArray") || strings.HasPrefix(cn, "_Cfunc_") || strings.HasPrefix(cn, "_cgo") {
			continue
		}
		f := c.Common().StaticCallee()
		if f == nil || f.Blocks == nil || !InModule(f) {
			return false
		}
		for i, a := range c.Common().Args {
			if a == v {
				if i >= len(f.Params) || !ptrOnlyToCtor(f.Params[i], depth+1) {
					return false
				}
			}
		}
	}
	return true
}
