package main

// C14: purity and causality.

import (
	"fmt"
	"go/token"
	"go/types"
	"sort"
	"strings"

	"golang.org/x/tools/go/ssa"
)

func init() { register("C14", "other", checkC14) }

// causalExceptions: symbol-wide, with reason.
var causalExceptions = map[string]string{
	"models/routing.lag": "reads inflow at i-lagSteps in a loop starting at lagSteps (the past, for the non-negative lags the model is defined for); its second-phase loops only refill the STATE buffer after all outputs are written",
}

var ambientFuncs = map[string]bool{
	"time.Now": true, "time.Since": true, "os.Getenv": true, "os.LookupEnv": true, "os.Environ": true, "os.Hostname": true, "os.Getpid": true,
	"os.ReadFile": true, "os.Open": true, "io/ioutil.ReadFile": true,
}

func moduleReach(p *Program, roots []*ssa.Function) map[*ssa.Function]bool {
	cg := p.CallGraph()
	seen := map[*ssa.Function]bool{}
	var work []*ssa.Function
	for _, r := range roots {
		if r != nil && !seen[r] {
			seen[r] = true
			work = append(work, r)
		}
	}
	for len(work) > 0 {
		f := work[len(work)-1]
		work = work[:len(work)-1]
		n := cg.Nodes[f]
		if n == nil {
			continue
		}
		for _, e := range n.Out {
			c := e.Callee.Func
			if seen[c] {
				continue
			}
			seen[c] = true
			if InModule(c) {
				work = append(work, c)
			}
		}
		// closures defined in f
		for _, af := range f.AnonFuncs {
			if !seen[af] {
				seen[af] = true
				work = append(work, af)
			}
		}
	}
	return seen
}

func globalOf(addr ssa.Value) *ssa.Global {
	return globalOfSeen(addr, map[ssa.Value]bool{}, 0)
}

// globalOfSeen: the package-level variable an address (or a slice / pointer value) leads into; cycles of phis
// (a pointer advanced around a loop) and recursive helper functions are cut by the visited set and a depth bound.
func globalOfSeen(addr ssa.Value, seen map[ssa.Value]bool, depth int) *ssa.Global {
	if depth > 12 {
		return nil
	}
	for i := 0; i < 10; i++ {
		if addr == nil || seen[addr] {
			return nil
		}
		seen[addr] = true
		switch x := addr.(type) {
		case *ssa.Global:
			return x
		case *ssa.IndexAddr:
			addr = x.X
		case *ssa.FieldAddr:
			addr = x.X
		case *ssa.UnOp:
			if x.Op == token.MUL {
				addr = x.X
				continue
			}
			return nil
		case *ssa.Slice:
			addr = x.X // a slice of a global array aliases it
		case *ssa.ChangeType:
			addr = x.X
		case *ssa.Phi:
			for _, e := range x.Edges {
				if g := globalOfSeen(e, seen, depth+1); g != nil {
					return g
				}
			}
			return nil
		case *ssa.Call:
			// a module function returning (a slice of) a global: follow its returns
			f := x.Common().StaticCallee()
			if f == nil || !InModule(f) || f.Blocks == nil {
				return nil
			}
			for _, ret := range returnsOf(f) {
				for _, rv := range ret.Results {
					for _, o := range origins(rv) {
						if o != nil && o != addr {
							if g := globalOfSeen(o, seen, depth+1); g != nil {
								return g
							}
						}
					}
				}
			}
			return nil
		default:
			return nil
		}
	}
	return nil
}

func isInitFunc(fn *ssa.Function) bool {
	for fn.Parent() != nil {
		fn = fn.Parent()
	}
	return fn.Name() == "init" || strings.HasPrefix(fn.Name(), "init#")
}

// globalAddrArgs: the package-level variables whose address (or the address of a part of them) the call hands to
// its callee — `atomic.AddInt32(&counter, 1)`, `fill(&table[0])`. Whatever receives such a pointer may write through
// it; the loads of sync/atomic are the one exception (they count as reads).
func globalAddrArgs(c ssa.CallInstruction) (written, read []*ssa.Global) {
	for _, a := range c.Common().Args {
		if _, isPtr := a.Type().Underlying().(*types.Pointer); !isPtr {
			continue
		}
		switch stripConv(a).(type) {
		case *ssa.Global, *ssa.FieldAddr, *ssa.IndexAddr:
		default:
			continue
		}
		g := globalOf(stripConv(a))
		if g == nil || !InModuleGlobal(g) {
			continue
		}
		if f := c.Common().StaticCallee(); f != nil && fnPkg(f) != nil {
			if fnPkg(f).Path() == "sync/atomic" && strings.HasPrefix(f.Name(), "Load") {
				read = append(read, g)
				continue
			}
			if fnPkg(f).Path() == "sync" {
				continue // a package-level mutex / wait group is a synchronisation object, not shared data
			}
		}
		written = append(written, g)
	}
	return
}

func checkC14(p *Program, r *Report) {
	r.Rule("R14.1", "no package-level state: no function reachable from any wrapper method (Run, ApplyParameters, InitialiseStates, FindDimensions, InitialiseDimensions) writes a package-level variable, or reads one that is written anywhere outside package initialisation")
	r.Rule("R14.2", "model objects hold only parameter views: fields of model structs are stored only by ApplyParameters / InitialiseDimensions; Run and everything it reaches never store to the receiver")
	r.Rule("R14.3", "no ambient inputs: no reachable call of time.Now, math/rand, os.Getenv, file reads; no iteration over a map")
	r.Rule("R14.4", "causal index discipline: inside a kernel's time loop every read of an input series and every write of an output series uses the loop's own induction variable as time index (directly, or through the one-element index vector assigned at the top of the iteration); outside the loop inputs are read only at constant index 0; whole-series CopyFrom is index-preserving")
	r.Assumptions = append(r.Assumptions,
		"bit-identity as such is a value property; decided here are its structural necessary conditions (no shared mutable state, no ambient inputs, forward-only time indexing)",
		"stdlib internals (fmt, math) are not inspected for global state")
	models, problems := p.Registry()
	for _, pr := range problems {
		r.Undecided("R14.1", "registry:"+pr, "-", pr)
	}
	var roots, runRoots []*ssa.Function
	modelTypes := map[string]bool{}
	nM := 0
	for _, m := range models {
		if m.Run == nil {
			continue
		}
		nM++
		modelTypes[m.RelPkg+"."+m.Name] = true
		for _, f := range m.Methods {
			roots = append(roots, f)
		}
		runRoots = append(runRoots, m.Run, m.Methods["InitialiseStates"])
	}
	r.Floor("R14.1", "models", nM, 41)
	reach := moduleReach(p, roots)

	// globals written outside init, module-wide
	writtenOutsideInit := map[*ssa.Global][]ssa.Instruction{}
	for _, fn := range p.SrcFuncs() {
		if isInitFunc(fn) {
			continue
		}
		eachInstr(fn, func(_ *ssa.BasicBlock, _ int, ins ssa.Instruction) {
			switch x := ins.(type) {
			case *ssa.Store:
				if g := globalOf(x.Addr); g != nil {
					writtenOutsideInit[g] = append(writtenOutsideInit[g], ins)
				}
			case *ssa.MapUpdate:
				if g := globalOf(x.Map); g != nil {
					writtenOutsideInit[g] = append(writtenOutsideInit[g], ins)
				}
			case ssa.CallInstruction:
				ws, _ := globalAddrArgs(x)
				for _, g := range ws {
					writtenOutsideInit[g] = append(writtenOutsideInit[g], ins)
				}
			}
		})
	}
	var fns []*ssa.Function
	for fn := range reach {
		if InModule(fn) && fn.Blocks != nil && !isInitFunc(fn) {
			fns = append(fns, fn)
		}
	}
	sortFuncs(fns)
	r.Analysed["R14 functions reachable from wrapper methods"] = len(fns)
	readGlobals := map[string]bool{}
	for _, fn := range fns {
		bad := false
		eachInstr(fn, func(_ *ssa.BasicBlock, _ int, ins ssa.Instruction) {
			switch x := ins.(type) {
			case *ssa.Store:
				if g := globalOf(x.Addr); g != nil {
					bad = true
					r.Fail("R14.1", fmt.Sprintf("%s:writes:%s", FuncKey(fn), g.Name()), p.Pos(x.Pos()), fmt.Sprintf("package-level variable %s is written during a model run: results depend on the history of previous runs (and concurrent cells race on it)", g.Name()))
				}
			case *ssa.MapUpdate:
				if g := globalOf(x.Map); g != nil {
					bad = true
					r.Fail("R14.1", fmt.Sprintf("%s:writes:%s", FuncKey(fn), g.Name()), p.Pos(x.Pos()), fmt.Sprintf("package-level map %s is updated during a model run", g.Name()))
				}
			case *ssa.UnOp:
				if x.Op == token.MUL {
					if g := globalOf(x.X); g != nil && InModuleGlobal(g) {
						readGlobals[g.Pkg.Pkg.Name()+"."+g.Name()] = true
						if ws := writtenOutsideInit[g]; len(ws) > 0 {
							bad = true
							r.Fail("R14.1", fmt.Sprintf("%s:reads:%s", FuncKey(fn), g.Name()), p.Pos(x.Pos()), fmt.Sprintf("package-level variable %s is read during a model run and written outside package initialisation (at %s)", g.Name(), p.Pos(ws[0].Pos())))
						}
					}
				}
			case ssa.CallInstruction:
				ws, rs := globalAddrArgs(x)
				for _, g := range ws {
					bad = true
					r.Fail("R14.1", fmt.Sprintf("%s:writes:%s", FuncKey(fn), g.Name()), p.Pos(x.Pos()), fmt.Sprintf("the address of package-level variable %s is handed to %s during a model run, which may write through it: results depend on the history of previous runs (and concurrent cells share it)", g.Name(), callName(x.Common())))
				}
				for _, g := range rs {
					if wsites := writtenOutsideInit[g]; len(wsites) > 0 {
						bad = true
						r.Fail("R14.1", fmt.Sprintf("%s:reads:%s", FuncKey(fn), g.Name()), p.Pos(x.Pos()), fmt.Sprintf("package-level variable %s is read during a model run and written outside package initialisation (at %s)", g.Name(), p.Pos(wsites[0].Pos())))
					}
				}
				for _, cal := range p.Callees(x) {
					pk := fnPkg(cal)
					if pk == nil {
						continue
					}
					name := pk.Path() + "." + cal.Name()
					if ambientFuncs[name] || pk.Path() == "math/rand" || pk.Path() == "crypto/rand" {
						bad = true
						r.Fail("R14.3", fmt.Sprintf("%s:ambient:%s", FuncKey(fn), name), p.Pos(x.Pos()), fmt.Sprintf("%s is called during a model run: the result is not a function of parameters, states and inputs", name))
					}
				}
			case *ssa.Range:
				if _, ok := x.X.Type().Underlying().(*types.Map); ok {
					bad = true
					r.Fail("R14.3", fmt.Sprintf("%s:map-range", FuncKey(fn)), p.Pos(x.Pos()), "iteration over a map during a model run: the order is randomised by the runtime")
				}
			}
		})
		if !bad {
			r.OK("R14.1", FuncKey(fn)+": no package-level writes, no mutable globals read, no ambient calls")
		}
	}
	var rg []string
	for g := range readGlobals {
		rg = append(rg, g)
	}
	sort.Strings(rg)
	r.Notes = append(r.Notes, "package-level variables read during runs (all init-only): "+strings.Join(rg, ", "))

	// ---- R14.2: stores to fields of model structs
	nFieldStores := 0
	for _, fn := range p.SrcFuncs() {
		eachInstr(fn, func(_ *ssa.BasicBlock, _ int, ins ssa.Instruction) {
			st, ok := ins.(*ssa.Store)
			if !ok {
				return
			}
			fa, ok := st.Addr.(*ssa.FieldAddr)
			if !ok {
				return
			}
			n := namedOf(fa.X.Type())
			if n == nil || n.Obj().Pkg() == nil {
				return
			}
			tkey := relPkg(n.Obj().Pkg().Path()) + "." + n.Obj().Name()
			if !modelTypes[tkey] {
				return
			}
			nFieldStores++
			fname, _, _ := fieldName(fa)
			top := fn
			for top.Parent() != nil {
				top = top.Parent()
			}
			okFn := (top.Name() == "ApplyParameters" || top.Name() == "InitialiseDimensions") && top.Signature.Recv() != nil && fn.Parent() == nil
			key := fmt.Sprintf("%s:field-store:%s.%s", FuncKey(fn), n.Obj().Name(), fname)
			if okFn {
				r.OK("R14.2", fmt.Sprintf("%s stores %s.%s (parameter view / dimension)", FuncKey(fn), n.Obj().Name(), fname))
			} else {
				r.Fail("R14.2", key, p.Pos(st.Pos()), fmt.Sprintf("field %s of model %s is assigned outside ApplyParameters/InitialiseDimensions: information survives in the model object between runs (and cell goroutines share the object)", fname, n.Obj().Name()))
			}
		})
	}
	r.Floor("R14.2", "stores to model struct fields", nFieldStores, 20)

	// ---- R14.4
	nK := 0
	done := map[*ssa.Function]bool{}
	for _, m := range models {
		if m.Kernel == nil || done[m.Kernel] {
			continue
		}
		done[m.Kernel] = true
		nK++
		nIn := len(m.Inputs)
		series := map[ssa.Value]string{}
		for i := 0; i < nIn && i < len(m.Kernel.Params); i++ {
			series[m.Kernel.Params[i]] = "input"
		}
		if m.OutputsAsParams {
			base := nIn + len(m.States) + len(m.Params)
			for i := range m.Outputs {
				if base+i < len(m.Kernel.Params) {
					series[m.Kernel.Params[base+i]] = "output"
				}
			}
		}
		checkCausal(p, r, m.Kernel, m.RelPkg+"."+m.Kernel.Name(), series, 0)
	}
	r.Floor("R14.4", "kernels", nK, 20)

	// ---- R14.5: nothing survives in the arguments either: Run does not modify its inputs (values or shape)
	r.Rule("R14.5", "no information survives in the arguments: Run never writes its inputs array, neither elements nor the shape vector handed out by Shape() (effect summaries, R04.1)")
	eff := nil2eff(p)
	for _, m := range models {
		if m.Run == nil || !m.Vector {
			continue
		}
		key := m.RelPkg + "." + m.Name
		if mw := eff.Mutates(m.Run, 1); mw != nil {
			r.Fail("R14.5", key+":inputs", p.Pos(mw.site.Pos()), fmt.Sprintf("Run may write its inputs argument (%s): a later run given the same array sees different inputs although the caller changed nothing", mw.what))
		} else {
			r.OK("R14.5", key+": inputs argument never written")
		}
	}
	checkParametersAlwaysApplied(p, r, models)
	{
		models, _ := p.Registry()
		checkRunLengthIndependence(p, r, models, "R14.6", false)
		// a kernel that grows a slice aliasing the shared arrays writes into the rows of other cells: what a cell
		// returns then depends on the other cells of the run and on the schedule (R04.6 seen from C14)
		sub := NewReport("C04", r.Tier)
		checkNoAppendOnShared(p, sub, models)
		r.Rule("R14.7", "a cell's result is a function of that cell alone: no kernel or helper appends to (a reslice of) a slice parameter or an Unroll() result — such a slice aliases the shared state/input storage with capacity reaching into the next cell's row, so the appended values land in, and are read back from, another cell's states (R04.6)")
		for _, f := range sub.Findings {
			r.Fail("R14.7", f.Key, f.Pos, f.Message)
		}
		if len(sub.Findings) == 0 {
			r.OK("R14.7", fmt.Sprintf("%d kernel functions: no append on aliased buffers", sub.PerRule["R04.6"][1]))
		}
	}
}

func InModuleGlobal(g *ssa.Global) bool {
	if g.Pkg == nil || g.Pkg.Pkg == nil {
		return false
	}
	path := g.Pkg.Pkg.Path()
	return path == modPath || strings.HasPrefix(path, modPath+"/")
}

// checkCausal: series maps ND parameters of fn to "input"/"output".
func checkCausal(p *Program, r *Report, fn *ssa.Function, key string, series map[ssa.Value]string, depth int) {
	if why, ok := causalExceptions[key]; ok {
		r.OK("R14.4", key+": excepted: "+why)
		r.Exceptions = append(r.Exceptions, key+": "+why)
		return
	}
	eff := nil2eff(p)
	loops := findLoops(fn)
	tl := map[*Loop]bool{}
	for _, l := range timeLoops(fn) {
		tl[l] = true
	}
	roleOf := func(v ssa.Value) string {
		if v == nil {
			return ""
		}
		root, _, _ := rootOfView(v)
		o := origin1(stripConv(root))
		return series[o]
	}
	outermost := func(b *ssa.BasicBlock) *Loop {
		l := innermostLoop(loops, b)
		for l != nil && l.Parent != nil {
			l = l.Parent
		}
		return l
	}
	nAcc := 0
	bad := false
	eachInstr(fn, func(b *ssa.BasicBlock, _ int, ins ssa.Instruction) {
		c, ok := ins.(ssa.CallInstruction)
		if !ok {
			return
		}
		cc := c.Common()
		name := callName(cc)
		recv := recvOf(cc)
		role := ""
		if recv != nil && isNDType(recv.Type()) {
			role = roleOf(recv)
		}
		// the element-wise whole-array operations of package data (dest[i] = g(dest[i], source[i]) for every i: R02.11
		// decides the pairing) preserve the time index like CopyFrom does
		if f := cc.StaticCallee(); f != nil && fnPkg(f) != nil && relPkg(fnPkg(f).Path()) == "data" && f.Signature.Recv() == nil &&
			(strings.HasPrefix(f.Name(), "AddTo") || strings.HasPrefix(f.Name(), "Scale") || strings.HasPrefix(f.Name(), "ApplyFunc1")) && strings.HasSuffix(f.Name(), "Array") {
			return
		}
		// delegation: series passed to a module function → analyse callee with mapped roles
		if f := cc.StaticCallee(); f != nil && InModule(f) && f.Blocks != nil && depth < 3 && !isNDMethod(f) {
			sub := map[ssa.Value]string{}
			for i, a := range cc.Args {
				if i < len(f.Params) && isNDType(a.Type()) {
					if ro := roleOf(a); ro != "" {
						sub[f.Params[i]] = ro
					}
				}
			}
			if len(sub) > 0 {
				// a helper called from inside the time loop with whole series would be a look-ahead risk: it is analysed itself
				checkCausal(p, r, f, key+"→"+f.Name(), sub, depth+1)
			}
			return
		}
		if role == "" {
			return
		}
		isRead := name == "Get" || name == "Get1"
		isWrite := name == "Set" || name == "Set1"
		if !isRead && !isWrite {
			switch name {
			case "Len1", "Len", "Shape", "NDims", "NewIndex", "Len2", "Len3", "Contiguous":
				return
			case "CopyFrom":
				return // whole-series, index preserving
			case "Slice", "Reshape", "MustReshape", "ReshapeFast":
				return
			}
			if role == "input" && (name == "Unroll" || name == "Maximum" || name == "Minimum") {
				bad = true
				r.Fail("R14.4", fmt.Sprintf("%s:%s:whole-series", key, name), p.Pos(ins.Pos()), fmt.Sprintf("%s() reads the whole input series at once: outputs may depend on future inputs", name))
			}
			return
		}
		if role == "output" && isRead {
			return // reading back own outputs at any index is not an input dependence
		}
		if role == "input" && isWrite {
			return // reported by C04
		}
		nAcc++
		// the time index value(s)
		var idxVals []ssa.Value
		a := callArgs(cc)[0]
		if isIntVec(a.Type()) {
			vals, fresh, unk := vecElemAt(eff, origin1(a), 0, ins)
			if unk != "" {
				bad = true
				r.Undecided("R14.4", fmt.Sprintf("%s:%s:index", key, name), p.Pos(ins.Pos()), "time index of a series access undetermined: "+unk)
				return
			}
			idxVals = vals
			if fresh {
				idxVals = append(idxVals, freshInit(origin1(a)))
			}
		} else {
			idxVals = []ssa.Value{a}
		}
		ol := outermost(b)
		what := map[bool]string{true: "read of input", false: "write of output"}[isRead]
		for _, iv := range idxVals {
			if iv == nil {
				continue
			}
			okIdx := false
			why := ""
			if ol != nil && tl[ol] {
				ind := loopInduction(ol)
				switch {
				case origin1(iv) == ssa.Value(ind):
					okIdx = true
				default:
					if c0, isC := constInt(iv); isC && c0 == 0 && isRead {
						okIdx = true // t=0 is never in the future
					} else if bo, isBo := iv.(*ssa.BinOp); isBo && bo.Op == token.SUB && origin1(bo.X) == ssa.Value(ind) {
						if cst, isC := constInt(bo.Y); isC && cst >= 0 && isRead {
							okIdx = true // the past
						} else {
							why = "index is (t - x) with x of unknown sign"
						}
					} else if bo, isBo := iv.(*ssa.BinOp); isBo && bo.Op == token.ADD && origin1(bo.X) == ssa.Value(ind) {
						why = "index is t + something: a look-ahead"
					} else {
						why = "index is not the loop's time variable"
					}
				}
			} else if ol == nil {
				if c0, isC := constInt(iv); isC && c0 == 0 {
					okIdx = true
				} else {
					why = "series accessed outside the time loop at an index other than 0"
				}
			} else {
				// inside a loop that is not recognised as a time loop over the series
				ind := loopInduction(ol)
				if ind != nil && origin1(iv) == ssa.Value(ind) {
					if _, w := loopBound(ol); w == "" || true {
						okIdx = true
					}
				} else {
					why = "series accessed inside a loop that does not run over time, at a varying index"
				}
			}
			if !okIdx {
				bad = true
				r.Fail("R14.4", fmt.Sprintf("%s:%s:%s", key, describeRecv(recv), name), p.Pos(ins.Pos()), fmt.Sprintf("%s `%s` breaks forward-only time indexing: %s — outputs up to t may depend on inputs after t", what, describeRecv(recv), why))
			}
		}
	})
	// the time loops must step forward by one
	for _, l := range timeLoops(fn) {
		if _, why := loopBound(l); why != "" {
			bad = true
			r.Undecided("R14.4", key+":loop", p.Pos(l.Header.Instrs[0].Pos()), "time loop shape: "+why)
		}
	}
	if !bad {
		r.OK("R14.4", fmt.Sprintf("%s: %d series accesses at the loop's own time index (or index 0 outside)", key, nAcc))
	}
}

func isNDMethod(f *ssa.Function) bool {
	return f.Signature.Recv() != nil && isNDType(f.Signature.Recv().Type())
}

// globalWritesFrom: package-level variables written by module functions reachable from the given roots.
type globalWrite struct {
	fn   *ssa.Function
	g    *ssa.Global
	site ssa.Instruction
}

func globalWritesFrom(p *Program, roots []*ssa.Function) []globalWrite {
	var out []globalWrite
	reach := moduleReach(p, roots)
	var fns []*ssa.Function
	for fn := range reach {
		if InModule(fn) && fn.Blocks != nil && !isInitFunc(fn) {
			fns = append(fns, fn)
		}
	}
	sortFuncs(fns)
	for _, fn := range fns {
		eachInstr(fn, func(_ *ssa.BasicBlock, _ int, ins ssa.Instruction) {
			switch x := ins.(type) {
			case *ssa.Store:
				if g := globalOf(x.Addr); g != nil {
					out = append(out, globalWrite{fn, g, ins})
				}
			case *ssa.MapUpdate:
				if g := globalOf(x.Map); g != nil {
					out = append(out, globalWrite{fn, g, ins})
				}
			case ssa.CallInstruction:
				ws, _ := globalAddrArgs(x)
				for _, g := range ws {
					out = append(out, globalWrite{fn, g, ins})
				}
			}
		})
	}
	return out
}

// checkParametersAlwaysApplied (R14.8): what a model object computes with is what it was last given. Every normal
// return of ApplyParameters is dominated by an assignment of each parameter field: a path that returns early (the
// object "already has" parameters of that layout) leaves views of the previous parameter array in place, and the
// next Run depends on the object's history instead of on the parameters it was handed.
func checkParametersAlwaysApplied(p *Program, r *Report, models []*Model) {
	r.Rule("R14.8", "parameters are applied on every path: in each wrapper's ApplyParameters every parameter field of the model is assigned (directly, or by a helper handed the receiver) in a block that dominates every normal return; an early return that skips the assignments lets the parameter views of an earlier call survive in the object")
	n := 0
	for _, m := range models {
		ap := m.Methods["ApplyParameters"]
		if ap == nil || len(ap.Blocks) == 0 || len(m.Params) == 0 {
			continue
		}
		n++
		key := m.RelPkg + "." + m.Name
		recv := ap.Params[0]
		rets := returnsOf(ap)
		// blocks assigning each field of the receiver
		assigned := map[string][]*ssa.BasicBlock{}
		eachInstr(ap, func(b *ssa.BasicBlock, _ int, ins ssa.Instruction) {
			switch x := ins.(type) {
			case *ssa.Store:
				if fa, ok := x.Addr.(*ssa.FieldAddr); ok && origin1(fa.X) == ssa.Value(recv) {
					name, _, _ := fieldName(fa)
					assigned[name] = append(assigned[name], b)
				}
			case ssa.CallInstruction:
				// a helper method of the model that assigns fields of its own receiver on every path
				f := x.Common().StaticCallee()
				if f == nil || len(f.Blocks) == 0 || !InModule(f) || len(x.Common().Args) == 0 || origin1(x.Common().Args[0]) != ssa.Value(recv) || f == ap {
					return
				}
				hrets := returnsOf(f)
				eachInstr(f, func(hb *ssa.BasicBlock, _ int, hi ssa.Instruction) {
					st, ok := hi.(*ssa.Store)
					if !ok {
						return
					}
					fa, ok := st.Addr.(*ssa.FieldAddr)
					if !ok || len(f.Params) == 0 || origin1(fa.X) != ssa.Value(f.Params[0]) {
						return
					}
					for _, hr := range hrets {
						if !hb.Dominates(hr.Block()) {
							return
						}
					}
					name, _, _ := fieldName(fa)
					assigned[name] = append(assigned[name], b)
				})
			}
		})
		var missing []string
		for _, ps := range m.Params {
			ok := false
			for _, b := range assigned[ps.Name] {
				all := true
				for _, ret := range rets {
					if !b.Dominates(ret.Block()) {
						all = false
					}
				}
				if all {
					ok = true
				}
			}
			if !ok {
				missing = append(missing, ps.Name)
			}
		}
		if len(missing) > 0 {
			r.Fail("R14.8", key+":apply", p.Pos(ap.Pos()), fmt.Sprintf("ApplyParameters of %s can return without assigning %s: on that path the model keeps the parameter views of an earlier call, so what Run computes depends on the history of the object, not only on the parameters it was given", m.Name, strings.Join(missing, ", ")))
		} else {
			r.OK("R14.8", fmt.Sprintf("%s: every parameter field (%d) is assigned on every path through ApplyParameters", key, len(m.Params)))
		}
	}
	r.Floor("R14.8", "wrappers with parameters", n, 17)
}
