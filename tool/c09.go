package main

// C09: generated code is what the generators produce (translation validation):
// R09.1 regenerate in a scratch copy and byte-compare; R09.2 catalogue and Description vs spec.

import (
	"bytes"
	"fmt"
	"go/ast"
	"go/constant"
	"go/types"
	"math"
	"os"
	"os/exec"
	"path/filepath"
	"sort"
	"strings"
)

func init() { register("C09", "translation_validation", checkC09) }

var verifDir = "/verif"

func isGeneratedName(base string) bool {
	return strings.HasPrefix(base, "gen-") && strings.HasSuffix(base, ".go") || strings.HasPrefix(base, "generated_") && strings.HasSuffix(base, ".go")
}

func listGenerated(root string) []string {
	var out []string
	filepath.Walk(root, func(path string, info os.FileInfo, err error) error {
		if err != nil {
			return nil
		}
		if info.IsDir() && info.Name() == ".git" {
			return filepath.SkipDir
		}
		if !info.IsDir() && isGeneratedName(info.Name()) {
			rel, _ := filepath.Rel(root, path)
			out = append(out, rel)
		}
		return nil
	})
	sort.Strings(out)
	return out
}

func copyTree(src, dst string) error {
	return filepath.Walk(src, func(path string, info os.FileInfo, err error) error {
		if err != nil {
			return err
		}
		rel, _ := filepath.Rel(src, path)
		if info.IsDir() {
			if info.Name() == ".git" {
				return filepath.SkipDir
			}
			return os.MkdirAll(filepath.Join(dst, rel), 0o755)
		}
		if !info.Mode().IsRegular() {
			return nil
		}
		b, err := os.ReadFile(path)
		if err != nil {
			return err
		}
		return os.WriteFile(filepath.Join(dst, rel), b, 0o644)
	})
}

func checkC09(p *Program, r *Report) {
	r.Rule("R09.1", "regenerate and compare: in a scratch copy of the working tree all gen-*.go / generated_*.go files are deleted, the project's own generators are rebuilt and re-run (genny for the 6 go:generate directives, ow-specgen for every file with an OW-SPEC block) and every output is byte-compared with /repo; a generated file nobody produced, or a produced file missing from /repo, fails")
	r.Rule("R09.2", "catalogue and description: every OW-SPEC model has exactly one sim.Catalog[\"<Name>\"] registration whose factory returns *<Name>; Description() lists parameters (name, default, range, dimensions), inputs, outputs and states in spec order")
	r.Assumptions = append(r.Assumptions,
		"the generators (genny from the module cache, ow-specgen from /repo/pre) are the oracle: this is the one place repository code is executed, and it is generator code, not code under test",
		"ow-specgen orders Dimensions by ranging over a map: with two or more dimension names in one model its output would be order-dependent; all specs have at most one today and the rule fails if one gets two")

	checkDescribeParameter(p, r)
	checkCatalogLinked(p, r)

	// ---- R09.1
	tmp, err := os.MkdirTemp("", "owregen")
	if err != nil {
		r.Undecided("R09.1", "scratch", "-", err.Error())
		return
	}
	defer os.RemoveAll(tmp)
	if err := copyTree(p.Repo, tmp); err != nil {
		r.Undecided("R09.1", "scratch-copy", "-", err.Error())
		return
	}
	inRepo := listGenerated(p.Repo)
	for _, f := range inRepo {
		os.Remove(filepath.Join(tmp, f))
	}
	regen := filepath.Join(verifDir, "regen.sh")
	if exe, err := os.Executable(); err == nil {
		cand := filepath.Join(filepath.Dir(filepath.Dir(exe)), "regen.sh")
		if _, err := os.Stat(cand); err == nil {
			regen = cand
		}
	}
	cmd := exec.Command(regen, tmp)
	cmd.Env = baseEnv()
	out, err := cmd.CombinedOutput()
	if err != nil {
		msg := string(out)
		if len(msg) > 600 {
			msg = msg[len(msg)-600:]
		}
		r.Undecided("R09.1", "regenerate", "-", "generators failed: "+err.Error()+": "+msg)
		return
	}
	produced := listGenerated(tmp)
	prodSet := map[string]bool{}
	for _, f := range produced {
		prodSet[f] = true
	}
	repoSet := map[string]bool{}
	for _, f := range inRepo {
		repoSet[f] = true
	}
	programs, disagreements := 0, 0
	var samples []string
	for _, f := range inRepo {
		programs++
		if !prodSet[f] {
			disagreements++
			r.Fail("R09.1", "orphan:"+f, f+":1", "generated file is not produced by any generator run on the current templates/specs (stale or hand-written)")
			continue
		}
		a, _ := os.ReadFile(filepath.Join(p.Repo, f))
		b, _ := os.ReadFile(filepath.Join(tmp, f))
		if !bytes.Equal(a, b) {
			disagreements++
			line := firstDiffLine(a, b)
			r.Fail("R09.1", "differs:"+f, fmt.Sprintf("%s:%d", f, line), fmt.Sprintf("checked-in generated file differs from the generator's output on the current template/spec (first difference at line %d): hand edit, or template/spec changed without regenerating", line))
		} else {
			r.OK("R09.1", fmt.Sprintf("%s identical to generator output (%d bytes)", f, len(a)))
			if len(samples) < 8 {
				samples = append(samples, fmt.Sprintf("%s: %d bytes identical", f, len(a)))
			}
		}
	}
	for _, f := range produced {
		if !repoSet[f] {
			programs++
			disagreements++
			r.Fail("R09.1", "missing:"+f, f+":1", "the generators produce this file but it is not checked in (spec added without regenerating)")
		}
	}
	r.Floor("R09.1", "generated files", programs, 47)
	extraCoverage["C09"] = map[string]interface{}{
		"programs":              programs,
		"disagreements_checked": disagreements,
	}

	// ---- R09.2
	models, problems := p.Registry()
	for _, pr := range problems {
		r.Undecided("R09.2", "registry:"+pr, "-", pr)
	}
	entries := p.CatalogEntries()
	byKey := map[string][]CatalogEntry{}
	for _, e := range entries {
		byKey[e.Key] = append(byKey[e.Key], e)
	}
	specNames := map[string]bool{}
	n := 0
	for _, m := range models {
		if !m.HasImpl {
			continue
		}
		n++
		specNames[m.Name] = true
		key := m.RelPkg + "." + m.Name
		es := byKey[m.Name]
		switch {
		case len(es) == 0:
			r.Fail("R09.2", key+":catalog", m.SpecFile+":1", fmt.Sprintf("model %s is declared by an OW-SPEC block but never registered in sim.Catalog under its name", m.Name))
		case len(es) > 1:
			r.Fail("R09.2", key+":catalog", es[1].Pos, fmt.Sprintf("model %s is registered %d times", m.Name, len(es)))
		default:
			e := es[0]
			okb := false
			if e.Build != nil {
				for _, ret := range returnsOf(e.Build) {
					for _, o := range origins(ret.Results[0]) {
						if o != nil && typeNameOf(stripConv(o).Type()) == m.Name && fnPkg(e.Build) != nil && relPkg(fnPkg(e.Build).Path()) == m.RelPkg {
							okb = true
						}
					}
				}
			}
			if !okb {
				r.Fail("R09.2", key+":factory", e.Pos, fmt.Sprintf("sim.Catalog[%q] is not a factory returning *%s of package %s", m.Name, m.Name, m.RelPkg))
			} else {
				r.OK("R09.2", fmt.Sprintf("sim.Catalog[%q] = factory of *%s.%s", m.Name, m.RelPkg, m.Name))
			}
		}
		if len(m.Dimensions) > 1 {
			r.Fail("R09.2", key+":dimension-order", m.SpecFile+":1", "model declares two or more dimension names: ow-specgen orders them by map iteration, so its output is not deterministic")
		}
		checkDescription(p, r, m, key)
	}
	for _, e := range entries {
		if !specNames[e.Key] {
			r.Fail("R09.2", "catalog-extra:"+e.Key, e.Pos, fmt.Sprintf("sim.Catalog[%q] is registered but no OW-SPEC block declares a model of that name", e.Key))
		}
	}
	r.Floor("R09.2", "OW-SPEC models", n, 41)
	if len(samples) > 0 {
		r.Samples = append(samples, r.Samples...)
	}
}

func firstDiffLine(a, b []byte) int {
	la, lb := bytes.Split(a, []byte("\n")), bytes.Split(b, []byte("\n"))
	for i := 0; i < len(la) && i < len(lb); i++ {
		if !bytes.Equal(la[i], lb[i]) {
			return i + 1
		}
	}
	if len(la) < len(lb) {
		return len(la) + 1
	}
	return len(lb) + 1
}

func constString(info *types.Info, e ast.Expr) (string, bool) {
	tv, ok := info.Types[e]
	if !ok || tv.Value == nil || tv.Value.Kind() != constant.String {
		return "", false
	}
	return constant.StringVal(tv.Value), true
}

func constFloat(info *types.Info, e ast.Expr) (float64, bool) {
	tv, ok := info.Types[e]
	if !ok || tv.Value == nil {
		return 0, false
	}
	f, _ := constant.Float64Val(constant.ToFloat(tv.Value))
	return f, true
}

func stringList(info *types.Info, e ast.Expr) ([]string, bool) {
	cl, ok := e.(*ast.CompositeLit)
	if !ok {
		return nil, false
	}
	out := []string{}
	for _, el := range cl.Elts {
		s, ok := constString(info, el)
		if !ok {
			return nil, false
		}
		out = append(out, s)
	}
	return out, true
}

func floatEq(a, b float64) bool {
	return a == b || math.Abs(a-b) <= 1e-12*math.Max(math.Abs(a), math.Abs(b))
}

func checkDescription(p *Program, r *Report, m *Model, key string) {
	pk := p.ByPath[modPath+"/"+m.RelPkg]
	if pk == nil {
		return
	}
	var fd *ast.FuncDecl
	for _, f := range pk.Syntax {
		for _, d := range f.Decls {
			if x, ok := d.(*ast.FuncDecl); ok && x.Name.Name == "Description" && x.Recv != nil && len(x.Recv.List) == 1 {
				t := x.Recv.List[0].Type
				if st, ok := t.(*ast.StarExpr); ok {
					t = st.X
				}
				if id, ok := t.(*ast.Ident); ok && id.Name == m.Name {
					fd = x
				}
			}
		}
	}
	if fd == nil {
		r.Fail("R09.2", key+":description", m.SpecFile+":1", "no Description method for model "+m.Name)
		return
	}
	info := pk.TypesInfo
	locals := map[string]ast.Expr{} // XDims := []string{...}
	lists := map[string][]string{}
	var params []*ast.CallExpr
	ast.Inspect(fd.Body, func(n ast.Node) bool {
		switch x := n.(type) {
		case *ast.AssignStmt:
			if len(x.Lhs) == 1 && len(x.Rhs) == 1 {
				if id, ok := x.Lhs[0].(*ast.Ident); ok {
					locals[id.Name] = x.Rhs[0]
				}
				if sel, ok := x.Lhs[0].(*ast.SelectorExpr); ok {
					if l, ok := stringList(info, x.Rhs[0]); ok {
						lists[sel.Sel.Name] = l
					}
				}
			}
		case *ast.CallExpr:
			if sel, ok := x.Fun.(*ast.SelectorExpr); ok && sel.Sel.Name == "DescribeParameter" {
				params = append(params, x)
			}
		}
		return true
	})
	pos := p.Pos(fd.Pos())
	bad := []string{}
	if len(params) != len(m.Params) {
		bad = append(bad, fmt.Sprintf("%d parameters described, spec has %d", len(params), len(m.Params)))
	} else {
		for i, ps := range m.Params {
			c := params[i]
			if len(c.Args) != 6 {
				bad = append(bad, "DescribeParameter arity")
				continue
			}
			name, _ := constString(info, c.Args[0])
			def, _ := constFloat(info, c.Args[1])
			if name != ps.Name {
				bad = append(bad, fmt.Sprintf("parameter %d is %q, spec says %q", i, name, ps.Name))
			}
			if !floatEq(def, ps.Default) {
				bad = append(bad, fmt.Sprintf("parameter %s default %v, spec says %v", ps.Name, def, ps.Default))
			}
			if cl, ok := c.Args[3].(*ast.CompositeLit); ok && len(cl.Elts) == 2 {
				lo, _ := constFloat(info, cl.Elts[0])
				hi, _ := constFloat(info, cl.Elts[1])
				if !floatEq(lo, ps.Range[0]) || !floatEq(hi, ps.Range[1]) {
					bad = append(bad, fmt.Sprintf("parameter %s range [%v,%v], spec says [%v,%v]", ps.Name, lo, hi, ps.Range[0], ps.Range[1]))
				}
			} else {
				bad = append(bad, fmt.Sprintf("parameter %s range literal not recognised", ps.Name))
			}
			var dims []string
			if id, ok := c.Args[5].(*ast.Ident); ok {
				if e, ok := locals[id.Name]; ok {
					dims, _ = stringList(info, e)
				}
			} else {
				dims, _ = stringList(info, c.Args[5])
			}
			if strings.Join(dims, ",") != strings.Join(ps.Dims, ",") {
				bad = append(bad, fmt.Sprintf("parameter %s dimensions %v, spec says %v", ps.Name, dims, ps.Dims))
			}
		}
	}
	cmp := func(field string, want []string) {
		got := lists[field]
		if strings.Join(got, ",") != strings.Join(want, ",") {
			bad = append(bad, fmt.Sprintf("%s listed as %v, spec order is %v", field, got, want))
		}
	}
	cmp("Inputs", m.Inputs)
	cmp("Outputs", m.Outputs)
	cmp("States", m.States)
	cmp("Dimensions", m.Dimensions)
	if len(bad) > 0 {
		r.Fail("R09.2", key+":description", pos, "Description() disagrees with the OW-SPEC block: "+strings.Join(bad, "; "))
	} else {
		r.OK("R09.2", fmt.Sprintf("%s.Description(): %d parameters, %d inputs, %d outputs, %d states in spec order", key, len(m.Params), len(m.Inputs), len(m.Outputs), len(m.States)))
	}
}
