package main

// Buffer views: following one slice (a state buffer, a carried vector) from the kernel into the functions it is
// handed to — as a slice argument, or inside a small struct that wraps it (`uhStore{ordinates, store, n}` with
// methods). A view names, for one function, where the buffer is: parameter `prm` itself (field < 0) or field `field`
// of the struct (or pointer to struct) parameter `prm`.

import (
	"go/token"
	"go/types"
	"strings"

	"golang.org/x/tools/go/ssa"
)

type bufView struct {
	fn    *ssa.Function
	prm   int
	field int
}

func structOf(t types.Type) *types.Struct {
	if p, ok := t.Underlying().(*types.Pointer); ok {
		t = p.Elem()
	}
	s, _ := t.Underlying().(*types.Struct)
	return s
}

// paramBase: addr-or-value base of a field access resolves to parameter k of fn: the parameter itself (pointer or
// value) or the local variable a value parameter is spilled into.
func paramBase(fn *ssa.Function, base ssa.Value) int {
	base = stripConv(base)
	for i, p := range fn.Params {
		if base == ssa.Value(p) {
			return i
		}
	}
	if u, ok := base.(*ssa.UnOp); ok && u.Op == token.MUL {
		base = u.X // load of the spilled struct, then ssa.Field on it
	}
	if a, ok := base.(*ssa.Alloc); ok {
		if sv := singleWholeStore(a); sv != nil {
			for i, p := range fn.Params {
				if stripConv(sv) == ssa.Value(p) {
					return i
				}
			}
		}
	}
	return -1
}

// singleWholeStore: the one value stored into the variable as a whole (field stores do not count), or nil.
func singleWholeStore(a *ssa.Alloc) ssa.Value {
	var val ssa.Value
	for _, r := range refs(a) {
		if st, ok := r.(*ssa.Store); ok && st.Addr == ssa.Value(a) {
			if val != nil {
				return nil
			}
			val = st.Val
		}
	}
	return val
}

// fieldLoad: v is a load of field k of parameter p of fn → (p, k).
func fieldLoad(fn *ssa.Function, v ssa.Value) (int, int, bool) {
	for i := 0; i < 4; i++ {
		switch x := v.(type) {
		case *ssa.UnOp:
			if x.Op != token.MUL {
				return 0, 0, false
			}
			if fa, ok := x.X.(*ssa.FieldAddr); ok {
				if p := paramBase(fn, fa.X); p >= 0 {
					return p, fa.Field, true
				}
				return 0, 0, false
			}
			if a, ok := x.X.(*ssa.Alloc); ok && allocIsSimpleCell(a) {
				if vs := reachingStores(a, x); len(vs) == 1 && vs[0] != nil {
					v = vs[0]
					continue
				}
			}
			return 0, 0, false
		case *ssa.Field:
			if p := paramBase(fn, x.X); p >= 0 {
				return p, x.Field, true
			}
			return 0, 0, false
		case *ssa.Slice:
			if x.Low == nil {
				v = x.X
				continue
			}
			return 0, 0, false
		default:
			return 0, 0, false
		}
	}
	return 0, 0, false
}

// is: v denotes the viewed buffer inside bv.fn.
func (bv bufView) is(v ssa.Value) bool {
	if bv.field < 0 {
		return origin1(v) == ssa.Value(bv.fn.Params[bv.prm])
	}
	p, k, ok := fieldLoad(bv.fn, v)
	if !ok {
		if o := origin1(v); o != nil && o != v {
			p, k, ok = fieldLoad(bv.fn, o)
		}
	}
	return ok && p == bv.prm && k == bv.field
}

// structLocal: arg is (a load of, or the address of) a local struct variable → that variable.
func structLocal(arg ssa.Value) *ssa.Alloc {
	arg = stripConv(arg)
	var a *ssa.Alloc
	switch x := arg.(type) {
	case *ssa.Alloc:
		a = x
	case *ssa.UnOp:
		if x.Op == token.MUL {
			a, _ = x.X.(*ssa.Alloc)
		}
	}
	if a == nil {
		return nil
	}
	if pt, ok := a.Type().Underlying().(*types.Pointer); !ok || structOf(pt.Elem()) == nil {
		return nil
	}
	return a
}

// structFieldValues: the values stored into field k of the struct variable an argument denotes (through one
// whole-struct copy: `uh := uhStore{…}` compiles to a literal that is then copied).
func structFieldValues(arg ssa.Value, k int, depth int) []ssa.Value {
	a := structLocal(arg)
	if a == nil || depth > 3 {
		return nil
	}
	var out []ssa.Value
	for _, r := range refs(a) {
		switch x := r.(type) {
		case *ssa.FieldAddr:
			if x.X != ssa.Value(a) || x.Field != k {
				continue
			}
			for _, r2 := range refs(x) {
				if st, ok := r2.(*ssa.Store); ok && st.Addr == ssa.Value(x) {
					out = append(out, st.Val)
				}
			}
		case *ssa.Store:
			if x.Addr == ssa.Value(a) {
				out = append(out, structFieldValues(x.Val, k, depth+1)...)
			}
		}
	}
	return out
}

// structFieldsHolding: the fields of the struct variable an argument denotes into which a value satisfying `is` has
// been stored.
func structFieldsHolding(arg ssa.Value, is func(ssa.Value) bool) []int {
	a := structLocal(arg)
	if a == nil {
		return nil
	}
	st := structOf(a.Type().Underlying().(*types.Pointer).Elem())
	var out []int
	for k := 0; k < st.NumFields(); k++ {
		if _, isSlice := st.Field(k).Type().Underlying().(*types.Slice); !isSlice {
			continue
		}
		for _, v := range structFieldValues(arg, k, 0) {
			if is(v) {
				out = append(out, k)
				break
			}
		}
	}
	return out
}

// handedTo: the views the buffer (recognised in the caller by `is`, and — when the caller itself sees it as a field of
// its struct parameter — by passing that parameter on) has in the callee of c.
func handedTo(caller *bufView, is func(ssa.Value) bool, c ssa.CallInstruction) []bufView {
	h := c.Common().StaticCallee()
	if h == nil || h.Blocks == nil || !InModule(h) {
		return nil
	}
	var out []bufView
	for ai, a := range c.Common().Args {
		if ai >= len(h.Params) {
			break
		}
		if _, isSlice := h.Params[ai].Type().Underlying().(*types.Slice); isSlice {
			if sl, resliced := a.(*ssa.Slice); resliced && sl.Low != nil {
				continue // a window of the buffer: element numbering changes, not followed
			}
			if is(a) {
				out = append(out, bufView{h, ai, -1})
			}
			continue
		}
		if structOf(h.Params[ai].Type()) == nil {
			continue
		}
		for _, k := range structFieldsHolding(a, is) {
			out = append(out, bufView{h, ai, k})
		}
		if caller != nil && caller.field >= 0 && paramBase(caller.fn, a) == caller.prm {
			out = append(out, bufView{h, ai, caller.field}) // the wrapping struct is passed on as it is
		}
	}
	return out
}

// viewWrites: some instruction of bv.fn — or of a function the buffer is handed on to — may write elements of the
// viewed buffer.
func viewWrites(eff *Effects, bv bufView, depth int) bool {
	if depth > 5 {
		return true
	}
	found := false
	eachInstr(bv.fn, func(_ *ssa.BasicBlock, _ int, ins ssa.Instruction) {
		if found {
			return
		}
		switch x := ins.(type) {
		case *ssa.Store:
			if ia, ok := x.Addr.(*ssa.IndexAddr); ok && bv.is(ia.X) {
				found = true
			}
		case ssa.CallInstruction:
			if bi, ok := x.Common().Value.(*ssa.Builtin); ok {
				if bi.Name() == "copy" && len(x.Common().Args) > 0 && bv.is(x.Common().Args[0]) {
					found = true
				}
				return
			}
			h := x.Common().StaticCallee()
			for _, child := range handedTo(&bv, bv.is, x) {
				if child.field < 0 {
					if eff.Mutates(h, child.prm) != nil {
						found = true
					}
				} else if viewWrites(eff, child, depth+1) {
					found = true
				}
			}
		}
	})
	return found
}

// fieldSource: v is a load of field k of a struct object — a local struct variable or literal, an object made by a
// constructor function of the module, or (with subst) a struct parameter bound to one of those. The result is the
// single value stored into that field where the object is built. When the object comes from a constructor, the value
// lives in the constructor's body and subst is extended with constructor parameter → call argument, so that the
// caller can read parameters of the constructor as the values it was called with.
func fieldSource(v ssa.Value, subst map[ssa.Value]ssa.Value) (ssa.Value, bool) {
	var base ssa.Value
	k := -1
	switch x := v.(type) {
	case *ssa.UnOp:
		if fa, ok := x.X.(*ssa.FieldAddr); ok && x.Op == token.MUL {
			base, k = fa.X, fa.Field
		}
	case *ssa.Field:
		base, k = x.X, x.Field
	}
	if k < 0 {
		return nil, false
	}
	for depth := 0; depth < 6; depth++ {
		base = stripConv(base)
		if s, ok := subst[base]; ok {
			base = s
			continue
		}
		switch b := base.(type) {
		case *ssa.UnOp:
			if b.Op != token.MUL {
				return nil, false
			}
			if a, ok := b.X.(*ssa.Alloc); ok {
				// a struct variable loaded as a whole, or a cell holding the pointer
				if sv := singleWholeStore(a); sv != nil {
					if _, isStruct := a.Type().Underlying().(*types.Pointer).Elem().Underlying().(*types.Struct); !isStruct {
						base = sv
						continue
					}
				}
				base = a
				continue
			}
			return nil, false
		case *ssa.Phi:
			if o := origin1(b); o != nil && o != ssa.Value(b) {
				base = o
				continue
			}
			return nil, false
		case *ssa.Alloc:
			var val ssa.Value
			n := 0
			for _, r := range refs(b) {
				switch x := r.(type) {
				case *ssa.FieldAddr:
					if x.X != ssa.Value(b) || x.Field != k {
						continue
					}
					for _, r2 := range refs(x) {
						if st, ok := r2.(*ssa.Store); ok && st.Addr == ssa.Value(x) {
							val = st.Val
							n++
						}
					}
				case *ssa.Store:
					if x.Addr == ssa.Value(b) {
						// the whole struct copied from another one
						if vs := structFieldValues(x.Val, k, 0); len(vs) == 1 {
							val = vs[0]
							n++
						}
					}
				}
			}
			if n == 1 {
				return val, true
			}
			if n == 0 {
				// a copy of a struct value that came from elsewhere (a value receiver spilled into a local)
				if sv := singleWholeStore(b); sv != nil {
					base = sv
					continue
				}
			}
			return nil, false
		case *ssa.Call:
			g := b.Common().StaticCallee()
			if g == nil || g.Blocks == nil || !InModule(g) {
				return nil, false
			}
			var obj ssa.Value
			for _, ret := range returnsOf(g) {
				if len(ret.Results) == 0 {
					return nil, false
				}
				o := origin1(ret.Results[0])
				if o == nil || (obj != nil && o != obj) {
					return nil, false
				}
				obj = o
			}
			if obj == nil {
				return nil, false
			}
			for i, prm := range g.Params {
				if i < len(b.Common().Args) {
					a := b.Common().Args[i]
					if s, ok := subst[stripConv(a)]; ok {
						a = s
					}
					subst[prm] = a
				}
			}
			base = obj
			continue
		default:
			return nil, false
		}
	}
	return nil, false
}

// substOrigin: the single origin of v, read through subst.
func substOrigin(v ssa.Value, subst map[ssa.Value]ssa.Value) ssa.Value {
	for i := 0; i < 6; i++ {
		o := origin1(v)
		if o == nil {
			return nil
		}
		if s, ok := subst[o]; ok {
			v = s
			continue
		}
		return o
	}
	return nil
}

// fieldWrittenBy: h stores into field `field` of its struct-pointer parameter prm, or passes that parameter on to a
// module function that does.
func fieldWrittenBy(h *ssa.Function, prm, field, depth int) bool {
	if h == nil || h.Blocks == nil || depth > 4 {
		return false
	}
	found := false
	eachInstr(h, func(_ *ssa.BasicBlock, _ int, ins ssa.Instruction) {
		if found {
			return
		}
		switch x := ins.(type) {
		case *ssa.Store:
			if fa, ok := x.Addr.(*ssa.FieldAddr); ok && fa.Field == field && stripConv(fa.X) == ssa.Value(h.Params[prm]) {
				found = true
			}
		case ssa.CallInstruction:
			g := x.Common().StaticCallee()
			if g == nil || !InModule(g) {
				return
			}
			for ai, a := range x.Common().Args {
				if stripConv(a) == ssa.Value(h.Params[prm]) && fieldWrittenBy(g, ai, field, depth+1) {
					found = true
				}
			}
		}
	})
	return found
}

// A series bundled with others in a struct and reached through small methods
// (`inflow, lateral := series.read(i)`, `series.write(i, v)`): bundledOps lists the element accesses one call of such a
// method stands for, in the caller's terms — the series (what the caller stored into the struct field), the time index
// (the caller's argument that the method stores into the index vector, or passes to Get1/Set1), the value written, and
// for a read the index of the result it is returned as. ok=false when the callee is not of that shape.
type seriesOp struct {
	write  bool
	series ssa.Value
	index  ssa.Value
	value  ssa.Value
	result int
}

func bundledOps(c ssa.CallInstruction) ([]seriesOp, bool) {
	g := c.Common().StaticCallee()
	if g == nil || g.Blocks == nil || len(g.Blocks) != 1 || !InModule(g) || c.Common().IsInvoke() || len(g.Params) != len(c.Common().Args) {
		return nil, false
	}
	if pk := fnPkg(g); pk == nil || !strings.HasPrefix(relPkg(pk.Path()), "models") {
		return nil, false
	}
	args := c.Common().Args
	paramOf := func(v ssa.Value) int {
		v = stripConv(v)
		for i, p := range g.Params {
			if v == ssa.Value(p) {
				return i
			}
		}
		return -1
	}
	// caller-side value of a field of a struct parameter of g
	fieldInCaller := func(v ssa.Value) ssa.Value {
		pi, k, ok := fieldLoad(g, v)
		if !ok {
			return nil
		}
		subst := map[ssa.Value]ssa.Value{}
		vals := structFieldValues(args[pi], k, 0)
		if len(vals) == 1 {
			return vals[0]
		}
		// built by a constructor
		if u, ok := v.(*ssa.UnOp); ok {
			subst[g.Params[pi]] = args[pi]
			if src, ok := fieldSource(u, subst); ok {
				return substOrigin(src, subst)
			}
		}
		return nil
	}
	// the time index an index vector (a field of the struct, or a local literal) holds at an access in g
	indexAt := func(vec ssa.Value, at ssa.Instruction) ssa.Value {
		var found ssa.Value
		for i := instrIndex(at) - 1; i >= 0; i-- {
			st, ok := g.Blocks[0].Instrs[i].(*ssa.Store)
			if !ok {
				continue
			}
			ia, ok := st.Addr.(*ssa.IndexAddr)
			if !ok {
				continue
			}
			if c0, ok := constInt(ia.Index); !ok || c0 != 0 {
				continue
			}
			same := ia.X == vec || origin1(ia.X) != nil && origin1(ia.X) == origin1(vec)
			if !same {
				// two loads of the same field
				p1, k1, ok1 := fieldLoad(g, ia.X)
				p2, k2, ok2 := fieldLoad(g, vec)
				same = ok1 && ok2 && p1 == p2 && k1 == k2
			}
			if same {
				found = st.Val
				break
			}
		}
		if found == nil {
			return nil
		}
		if pi := paramOf(found); pi >= 0 {
			return args[pi]
		}
		return nil
	}
	var ops []seriesOp
	rets := returnsOf(g)
	if len(rets) != 1 {
		return nil, false
	}
	for _, ins := range g.Blocks[0].Instrs {
		call, ok := ins.(*ssa.Call)
		if !ok {
			continue
		}
		if !call.Common().IsInvoke() {
			if _, isB := call.Common().Value.(*ssa.Builtin); isB {
				continue
			}
			return nil, false // calls something else: not a plain accessor
		}
		nm := call.Common().Method.Name()
		if nm != "Get" && nm != "Get1" && nm != "Set" && nm != "Set1" {
			if nm == "Len1" || nm == "Len" {
				continue
			}
			return nil, false
		}
		op := seriesOp{write: nm == "Set" || nm == "Set1", result: -1}
		if pi := paramOf(call.Common().Value); pi >= 0 {
			op.series = args[pi]
		} else {
			op.series = fieldInCaller(call.Common().Value)
		}
		ia := call.Common().Args[0]
		if nm == "Get1" || nm == "Set1" {
			if pi := paramOf(ia); pi >= 0 {
				op.index = args[pi]
			}
		} else {
			op.index = indexAt(ia, call)
		}
		if op.write {
			if pi := paramOf(call.Common().Args[1]); pi >= 0 {
				op.value = args[pi]
			}
			if op.value == nil {
				return nil, false
			}
		} else {
			for k, rv := range rets[0].Results {
				if origin1(rv) == ssa.Value(call) || rv == ssa.Value(call) {
					op.result = k
				}
			}
			if op.result < 0 {
				return nil, false
			}
		}
		if op.series == nil || op.index == nil {
			return nil, false
		}
		ops = append(ops, op)
	}
	return ops, len(ops) > 0
}
