package main

// Buffer views: following one slice (a state buffer, a carried vector) from the kernel into the functions it is
// handed to — as a slice argument, or inside a small struct that wraps it (`uhStore{ordinates, store, n}` with
// methods). A view names, for one function, where the buffer is: parameter `prm` itself (field < 0) or field `field`
// of the struct (or pointer to struct) parameter `prm`.

import (
	"go/token"
	"go/types"

	"golang.org/x/tools/go/ssa"
)

type bufView struct {
	fn    *ssa.Function
	prm   int
	field int
}

func structOf(t types.Type) *types.Struct {
	if p, ok := t.Underlying().(*types.Pointer); ok {
		t = p.Elem()
	}
	s, _ := t.Underlying().(*types.Struct)
	return s
}

// paramBase: addr-or-value base of a field access resolves to parameter k of fn: the parameter itself (pointer or
// value) or the local variable a value parameter is spilled into.
func paramBase(fn *ssa.Function, base ssa.Value) int {
	base = stripConv(base)
	for i, p := range fn.Params {
		if base == ssa.Value(p) {
			return i
		}
	}
	if u, ok := base.(*ssa.UnOp); ok && u.Op == token.MUL {
		base = u.X // load of the spilled struct, then ssa.Field on it
	}
	if a, ok := base.(*ssa.Alloc); ok {
		if sv := singleWholeStore(a); sv != nil {
			for i, p := range fn.Params {
				if stripConv(sv) == ssa.Value(p) {
					return i
				}
			}
		}
	}
	return -1
}

// singleWholeStore: the one value stored into the variable as a whole (field stores do not count), or nil.
func singleWholeStore(a *ssa.Alloc) ssa.Value {
	var val ssa.Value
	for _, r := range refs(a) {
		if st, ok := r.(*ssa.Store); ok && st.Addr == ssa.Value(a) {
			if val != nil {
				return nil
			}
			val = st.Val
		}
	}
	return val
}

// fieldLoad: v is a load of field k of parameter p of fn → (p, k).
func fieldLoad(fn *ssa.Function, v ssa.Value) (int, int, bool) {
	for i := 0; i < 4; i++ {
		switch x := v.(type) {
		case *ssa.UnOp:
			if x.Op != token.MUL {
				return 0, 0, false
			}
			if fa, ok := x.X.(*ssa.FieldAddr); ok {
				if p := paramBase(fn, fa.X); p >= 0 {
					return p, fa.Field, true
				}
				return 0, 0, false
			}
			if a, ok := x.X.(*ssa.Alloc); ok && allocIsSimpleCell(a) {
				if vs := reachingStores(a, x); len(vs) == 1 && vs[0] != nil {
					v = vs[0]
					continue
				}
			}
			return 0, 0, false
		case *ssa.Field:
			if p := paramBase(fn, x.X); p >= 0 {
				return p, x.Field, true
			}
			return 0, 0, false
		case *ssa.Slice:
			if x.Low == nil {
				v = x.X
				continue
			}
			return 0, 0, false
		default:
			return 0, 0, false
		}
	}
	return 0, 0, false
}

// is: v denotes the viewed buffer inside bv.fn.
func (bv bufView) is(v ssa.Value) bool {
	if bv.field < 0 {
		return origin1(v) == ssa.Value(bv.fn.Params[bv.prm])
	}
	p, k, ok := fieldLoad(bv.fn, v)
	if !ok {
		if o := origin1(v); o != nil && o != v {
			p, k, ok = fieldLoad(bv.fn, o)
		}
	}
	return ok && p == bv.prm && k == bv.field
}

// structLocal: arg is (a load of, or the address of) a local struct variable → that variable.
func structLocal(arg ssa.Value) *ssa.Alloc {
	arg = stripConv(arg)
	var a *ssa.Alloc
	switch x := arg.(type) {
	case *ssa.Alloc:
		a = x
	case *ssa.UnOp:
		if x.Op == token.MUL {
			a, _ = x.X.(*ssa.Alloc)
		}
	}
	if a == nil {
		return nil
	}
	if pt, ok := a.Type().Underlying().(*types.Pointer); !ok || structOf(pt.Elem()) == nil {
		return nil
	}
	return a
}

// structFieldValues: the values stored into field k of the struct variable an argument denotes (through one
// whole-struct copy: `uh := uhStore{…}` compiles to a literal that is then copied).
func structFieldValues(arg ssa.Value, k int, depth int) []ssa.Value {
	a := structLocal(arg)
	if a == nil || depth > 3 {
		return nil
	}
	var out []ssa.Value
	for _, r := range refs(a) {
		switch x := r.(type) {
		case *ssa.FieldAddr:
			if x.X != ssa.Value(a) || x.Field != k {
				continue
			}
			for _, r2 := range refs(x) {
				if st, ok := r2.(*ssa.Store); ok && st.Addr == ssa.Value(x) {
					out = append(out, st.Val)
				}
			}
		case *ssa.Store:
			if x.Addr == ssa.Value(a) {
				out = append(out, structFieldValues(x.Val, k, depth+1)...)
			}
		}
	}
	return out
}

// structFieldsHolding: the fields of the struct variable an argument denotes into which a value satisfying `is` has
// been stored.
func structFieldsHolding(arg ssa.Value, is func(ssa.Value) bool) []int {
	a := structLocal(arg)
	if a == nil {
		return nil
	}
	st := structOf(a.Type().Underlying().(*types.Pointer).Elem())
	var out []int
	for k := 0; k < st.NumFields(); k++ {
		if _, isSlice := st.Field(k).Type().Underlying().(*types.Slice); !isSlice {
			continue
		}
		for _, v := range structFieldValues(arg, k, 0) {
			if is(v) {
				out = append(out, k)
				break
			}
		}
	}
	return out
}

// handedTo: the views the buffer (recognised in the caller by `is`, and — when the caller itself sees it as a field of
// its struct parameter — by passing that parameter on) has in the callee of c.
func handedTo(caller *bufView, is func(ssa.Value) bool, c ssa.CallInstruction) []bufView {
	h := c.Common().StaticCallee()
	if h == nil || h.Blocks == nil || !InModule(h) {
		return nil
	}
	var out []bufView
	for ai, a := range c.Common().Args {
		if ai >= len(h.Params) {
			break
		}
		if _, isSlice := h.Params[ai].Type().Underlying().(*types.Slice); isSlice {
			if sl, resliced := a.(*ssa.Slice); resliced && sl.Low != nil {
				continue // a window of the buffer: element numbering changes, not followed
			}
			if is(a) {
				out = append(out, bufView{h, ai, -1})
			}
			continue
		}
		if structOf(h.Params[ai].Type()) == nil {
			continue
		}
		for _, k := range structFieldsHolding(a, is) {
			out = append(out, bufView{h, ai, k})
		}
		if caller != nil && caller.field >= 0 && paramBase(caller.fn, a) == caller.prm {
			out = append(out, bufView{h, ai, caller.field}) // the wrapping struct is passed on as it is
		}
	}
	return out
}

// viewWrites: some instruction of bv.fn — or of a function the buffer is handed on to — may write elements of the
// viewed buffer.
func viewWrites(eff *Effects, bv bufView, depth int) bool {
	if depth > 5 {
		return true
	}
	found := false
	eachInstr(bv.fn, func(_ *ssa.BasicBlock, _ int, ins ssa.Instruction) {
		if found {
			return
		}
		switch x := ins.(type) {
		case *ssa.Store:
			if ia, ok := x.Addr.(*ssa.IndexAddr); ok && bv.is(ia.X) {
				found = true
			}
		case ssa.CallInstruction:
			if bi, ok := x.Common().Value.(*ssa.Builtin); ok {
				if bi.Name() == "copy" && len(x.Common().Args) > 0 && bv.is(x.Common().Args[0]) {
					found = true
				}
				return
			}
			h := x.Common().StaticCallee()
			for _, child := range handedTo(&bv, bv.is, x) {
				if child.field < 0 {
					if eff.Mutates(h, child.prm) != nil {
						found = true
					}
				} else if viewWrites(eff, child, depth+1) {
					found = true
				}
			}
		}
	})
	return found
}
