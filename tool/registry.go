package main

// Model registry: OW-SPEC blocks parsed from the sources (same preprocessing as
// ow-specgen), matched against sim.Catalog registrations found in SSA.

import (
	"fmt"
	"os"
	"path/filepath"
	"regexp"
	"sort"
	"strconv"
	"strings"

	"golang.org/x/tools/go/ssa"
	yaml "gopkg.in/yaml.v2"
)

type ParamSpec struct {
	Name        string
	Dims        []string
	Default     float64
	Range       [2]float64
	Description string
	Units       string
	IsDimension bool
}

type Model struct {
	Name            string
	RelPkg          string
	SpecFile        string // relative to repo
	Inputs          []string
	States          []string
	Outputs         []string
	Params          []ParamSpec
	Dimensions      []string
	KernelName      string
	InitFunc        string
	ExtractFunc     string
	PackFunc        string
	OutputsAsParams bool
	Vector          bool
	ZeroStates      bool
	HasImpl         bool

	Build      *ssa.Function
	Run        *ssa.Function
	Closure    *ssa.Function // the per-cell function containing the kernel call (the go closure, or a closure it calls)
	GoClosure  *ssa.Function // the function started by the go statement
	ClosureMC  *ssa.MakeClosure
	GoInstr    *ssa.Go
	SpawnFn    *ssa.Function   // the function containing the go statement: Run, or a module helper Run hands the per-cell body to
	SpawnCall  *ssa.Call       // the call of SpawnFn in Run (nil when Run spawns itself)
	SpawnAt    ssa.Instruction // the instruction in Run at which the cells start: the go statement, or SpawnCall
	Kernel     *ssa.Function
	KernelCall *ssa.Call
	Methods    map[string]*ssa.Function
}

type specYAML struct {
	Inputs         yaml.MapSlice `yaml:"inputs"`
	States         yaml.MapSlice `yaml:"states"`
	Parameters     yaml.MapSlice `yaml:"parameters"`
	Outputs        yaml.MapSlice `yaml:"outputs"`
	Implementation yaml.MapSlice `yaml:"implementation"`
	Init           yaml.MapSlice `yaml:"init"`
	ExtractStates  yaml.MapSlice `yaml:"extractstates"`
	Name           string        `yaml:"name"`
	Package        string        `yaml:"package"`
}

const floatRe = "[+-]?([0-9]*[.])?[0-9]+"

var paramRe = regexp.MustCompile(fmt.Sprintf(`(\[(?P<Min>%s),(?P<Max>%s)\]((?P<Units>[\s]+))?)?\s*(?P<Description>[^,]*)(,\s*default=(?P<Default>%s))?`, floatRe, floatRe, floatRe))
var specRe = regexp.MustCompile("(?smU)/(\\*\\s*OW-SPEC)(.*)(\\*/)")

func keys(ms yaml.MapSlice) []string {
	var out []string
	for _, it := range ms {
		out = append(out, fmt.Sprint(it.Key))
	}
	return out
}

// ParseSpecs reads every OW-SPEC block under repo/models.
func ParseSpecs(repo string) ([]*Model, error) {
	var models []*Model
	var files []string
	filepath.Walk(filepath.Join(repo, "models"), func(path string, info os.FileInfo, err error) error {
		if err == nil && !info.IsDir() && strings.HasSuffix(path, ".go") && !strings.HasPrefix(filepath.Base(path), "generated_") {
			files = append(files, path)
		}
		return nil
	})
	sort.Strings(files)
	for _, f := range files {
		b, err := os.ReadFile(f)
		if err != nil {
			return nil, err
		}
		for _, mt := range specRe.FindAllSubmatch(b, -1) {
			txt := strings.ReplaceAll(string(mt[2]), "\t", "  ")
			// yaml.v2 lower-cases field names by default; the generator uses exported field names lower-cased
			raw := map[string]specYAML{}
			if err := yaml.Unmarshal([]byte(txt), &raw); err != nil {
				return nil, fmt.Errorf("%s: OW-SPEC does not parse: %v", f, err)
			}
			var names []string
			for n := range raw {
				names = append(names, n)
			}
			sort.Strings(names)
			for _, n := range names {
				sp := raw[n]
				rel, _ := filepath.Rel(repo, f)
				m := &Model{Name: n, SpecFile: rel, RelPkg: filepath.Dir(rel), Methods: map[string]*ssa.Function{}}
				if sp.Name != "" {
					m.Name = sp.Name
				}
				m.Inputs = keys(sp.Inputs)
				m.States = keys(sp.States)
				m.Outputs = keys(sp.Outputs)
				dimset := map[string]bool{}
				for _, it := range sp.Parameters {
					pn := fmt.Sprint(it.Key)
					ps := ParamSpec{}
					if strings.Contains(pn, "[") {
						clean := strings.Replace(strings.Replace(pn, "[", ",", 1), "]", "", 1)
						comps := strings.Split(clean, ",")
						pn = comps[0]
						ps.Dims = comps[1:]
						for _, d := range ps.Dims {
							dimset[d] = true
						}
					}
					ps.Name = pn
					t := fmt.Sprint(it.Value)
					if t == "<nil>" {
						t = ""
					}
					mm := paramRe.FindStringSubmatch(t)
					if mm != nil {
						ps.Units = mm[7]
						ps.Description = mm[8]
						ps.Default, _ = strconv.ParseFloat(mm[10], 64)
						ps.Range[0], _ = strconv.ParseFloat(mm[2], 64)
						ps.Range[1], _ = strconv.ParseFloat(mm[4], 64)
					}
					m.Params = append(m.Params, ps)
				}
				for i := range m.Params {
					if dimset[m.Params[i].Name] {
						m.Params[i].IsDimension = true
					}
				}
				for d := range dimset {
					m.Dimensions = append(m.Dimensions, d)
				}
				sort.Strings(m.Dimensions)
				for _, e := range sp.Implementation {
					m.HasImpl = true
					k := fmt.Sprint(e.Key)
					if k == "type" && fmt.Sprint(e.Value) == "scalar" {
						m.Vector = true
					}
					if k == "function" {
						m.KernelName = fmt.Sprint(e.Value)
					}
					if k == "outputs" {
						m.OutputsAsParams = fmt.Sprint(e.Value) == "params"
					}
				}
				for _, e := range sp.Init {
					k := fmt.Sprint(e.Key)
					if k == "function" {
						m.InitFunc = fmt.Sprint(e.Value)
					}
					if k == "zero" && fmt.Sprint(e.Value) == "true" {
						m.ZeroStates = true
					}
				}
				for _, e := range sp.ExtractStates {
					k := fmt.Sprint(e.Key)
					if k == "function" {
						m.ExtractFunc = fmt.Sprint(e.Value)
					}
					if k == "packfunc" {
						m.PackFunc = fmt.Sprint(e.Value)
					}
				}
				models = append(models, m)
			}
		}
	}
	return models, nil
}

// CatalogEntry is one `sim.Catalog[key] = fn` store found in SSA.
type CatalogEntry struct {
	Key   string
	Build *ssa.Function
	In    *ssa.Function
	Pos   string
}

func (p *Program) CatalogEntries() []CatalogEntry {
	var out []CatalogEntry
	for _, fn := range p.SrcFuncs() {
		eachInstr(fn, func(_ *ssa.BasicBlock, _ int, ins ssa.Instruction) {
			mu, ok := ins.(*ssa.MapUpdate)
			if !ok {
				return
			}
			// map operand: load of global sim.Catalog
			u, ok := mu.Map.(*ssa.UnOp)
			if !ok {
				return
			}
			g, ok := u.X.(*ssa.Global)
			if !ok || g.Name() != "Catalog" || relPkg(g.Pkg.Pkg.Path()) != "sim" {
				return
			}
			e := CatalogEntry{In: fn, Pos: p.Pos(mu.Pos())}
			if c, ok := mu.Key.(*ssa.Const); ok && c.Value != nil {
				e.Key = strings.Trim(c.Value.ExactString(), `"`)
			}
			switch v := mu.Value.(type) {
			case *ssa.Function:
				e.Build = v
			case *ssa.MakeClosure:
				e.Build, _ = v.Fn.(*ssa.Function)
			}
			out = append(out, e)
		})
	}
	sort.Slice(out, func(i, j int) bool { return out[i].Key < out[j].Key })
	return out
}

// Registry links specs with SSA. Problems are returned as strings (rule R09.2 / anchors).
func (p *Program) Registry() ([]*Model, []string) {
	models, err := ParseSpecs(p.Repo)
	var problems []string
	if err != nil {
		return nil, []string{err.Error()}
	}
	entries := p.CatalogEntries()
	byKey := map[string][]CatalogEntry{}
	for _, e := range entries {
		byKey[e.Key] = append(byKey[e.Key], e)
	}
	for _, m := range models {
		pk := p.SSAPkg[modPath+"/"+m.RelPkg]
		if pk == nil {
			problems = append(problems, fmt.Sprintf("%s: package %s not loaded", m.Name, m.RelPkg))
			continue
		}
		es := byKey[m.Name]
		if len(es) == 1 {
			m.Build = es[0].Build
		}
		t := pk.Type(m.Name)
		if t == nil {
			continue
		}
		for _, name := range []string{"Run", "ApplyParameters", "InitialiseStates", "FindDimensions", "InitialiseDimensions", "Description"} {
			sel := p.SSA.MethodSets.MethodSet(ptrTo(t.Type())).Lookup(pk.Pkg, name)
			if sel != nil {
				m.Methods[name] = p.SSA.MethodValue(sel)
			}
		}
		m.Run = m.Methods["Run"]
		if m.Run != nil {
			eachInstr(m.Run, func(_ *ssa.BasicBlock, _ int, ins ssa.Instruction) {
				if g, ok := ins.(*ssa.Go); ok {
					if mc, ok := g.Common().Value.(*ssa.MakeClosure); ok {
						if f, ok := mc.Fn.(*ssa.Function); ok && m.Closure == nil {
							m.Closure = f
							m.GoInstr = g
						}
					}
				}
			})
		}
		m.GoClosure = m.Closure
		if m.GoInstr != nil {
			m.SpawnFn = m.Run
			m.SpawnAt = m.GoInstr
		}
		if m.Run != nil && m.Closure == nil {
			// the fan-out may be delegated: Run hands a per-cell closure to a module helper that starts one goroutine
			// per index and calls the closure from it
			for _, c := range callsIn(m.Run) {
				call, isCall := c.(*ssa.Call)
				f := c.Common().StaticCallee()
				if !isCall || f == nil || f.Blocks == nil || !InModule(f) || m.Closure != nil {
					continue
				}
				for ai, a := range c.Common().Args {
					mc := closureValueOf(a)
					if mc == nil || ai >= len(f.Params) {
						continue
					}
					body, _ := mc.Fn.(*ssa.Function)
					if body == nil || body.Parent() != m.Run {
						continue
					}
					g, gcl := goCallingParam(f, ai)
					if g == nil {
						continue
					}
					m.Closure, m.ClosureMC, m.GoInstr, m.GoClosure = body, mc, g, gcl
					m.SpawnFn, m.SpawnCall, m.SpawnAt = f, call, call
					if gcl == nil {
						m.GoClosure = body // `go cell(j)`: the body itself is the goroutine
					}
					break
				}
			}
		}
		if m.Closure != nil && m.KernelName != "" {
			findKernel := func(cl *ssa.Function) bool {
				for _, c := range callsIn(cl) {
					if call, ok := c.(*ssa.Call); ok {
						if f := call.Common().StaticCallee(); f != nil && f.Name() == m.KernelName && fnPkg(f) == pk.Pkg {
							if m.KernelCall == nil {
								m.KernelCall = call
								m.Kernel = f
							}
						}
					}
				}
				return m.KernelCall != nil
			}
			if !findKernel(m.Closure) {
				// the go closure may delegate the per-cell work to a named closure of Run: follow such calls
				seen := map[*ssa.Function]bool{m.Closure: true}
				work := []*ssa.Function{m.Closure}
				for len(work) > 0 && m.KernelCall == nil {
					cur := work[0]
					work = work[1:]
					for _, c := range callsIn(cur) {
						for _, o := range origins(c.Common().Value) {
							var mc *ssa.MakeClosure
							switch x := o.(type) {
							case *ssa.MakeClosure:
								mc = x
							case *ssa.UnOp:
								if fv, ok := x.X.(*ssa.FreeVar); ok {
									b := bindingOf(fv.Parent(), freeVarIndex(fv.Parent(), fv))
									if a, ok := b.(*ssa.Alloc); ok {
										if sv := singleStoreCell(a); sv != nil {
											mc, _ = sv.(*ssa.MakeClosure)
										}
									}
								}
							}
							if mc == nil {
								continue
							}
							f, _ := mc.Fn.(*ssa.Function)
							if f == nil || seen[f] || f.Parent() != m.Run {
								continue
							}
							seen[f] = true
							if findKernel(f) {
								m.Closure = f
								m.ClosureMC = mc
							} else {
								work = append(work, f)
							}
						}
					}
				}
			}
		}
	}
	return models, problems
}

// closureValueOf: the MakeClosure a function value denotes (directly, or through a local variable assigned once).
func closureValueOf(v ssa.Value) *ssa.MakeClosure {
	for _, o := range origins(v) {
		switch x := o.(type) {
		case *ssa.MakeClosure:
			return x
		case *ssa.UnOp:
			if a, ok := x.X.(*ssa.Alloc); ok {
				if sv := singleStoreCell(a); sv != nil {
					if mc, ok := sv.(*ssa.MakeClosure); ok {
						return mc
					}
				}
			}
		}
	}
	return nil
}

// isParamValue: v denotes parameter k of f — the parameter itself, or inside a closure of f a load of the captured
// variable that holds it.
func isParamValue(v ssa.Value, f *ssa.Function, k int) bool {
	for _, o := range origins(v) {
		if o == nil {
			return false
		}
		o = stripConv(o)
		if o == ssa.Value(f.Params[k]) {
			continue
		}
		u, ok := o.(*ssa.UnOp)
		if !ok {
			return false
		}
		var cell ssa.Value = u.X
		if fv, ok := u.X.(*ssa.FreeVar); ok {
			cell = bindingOf(fv.Parent(), freeVarIndex(fv.Parent(), fv))
		}
		a, ok := cell.(*ssa.Alloc)
		if !ok || a.Parent() != f {
			return false
		}
		if sv := singleStoreCell(a); sv == nil || sv != ssa.Value(f.Params[k]) {
			return false
		}
	}
	return true
}

// goCallingParam: a go statement of f whose goroutine calls f's k-th parameter (a function value): the statement and
// the goroutine's closure (nil when the parameter itself is started: `go cell(j)`).
func goCallingParam(f *ssa.Function, k int) (*ssa.Go, *ssa.Function) {
	var g *ssa.Go
	var gcl *ssa.Function
	eachInstr(f, func(_ *ssa.BasicBlock, _ int, ins ssa.Instruction) {
		gs, ok := ins.(*ssa.Go)
		if !ok || g != nil {
			return
		}
		if isParamValue(gs.Common().Value, f, k) {
			g = gs
			return
		}
		mc, ok := gs.Common().Value.(*ssa.MakeClosure)
		if !ok {
			return
		}
		cl, _ := mc.Fn.(*ssa.Function)
		if cl == nil {
			return
		}
		for _, c := range callsIn(cl) {
			if !c.Common().IsInvoke() && c.Common().StaticCallee() == nil && isParamValue(c.Common().Value, f, k) {
				g, gcl = gs, cl
			}
		}
	})
	return g, gcl
}
