package main

// R12.2 / R12.3: per-timestep mass balance of the constituent transport and trapping kernels, decided by
// polynomial normal form on every acyclic path through the body of the time loop (nothing is executed; the
// paths are CFG paths, the values are SSA values expanded to polynomials over canonical symbols).
//
// On a path π through one timestep
//     Σ_j state_j(after)  +  OUT(outputs written on π)   ==   Σ_j state_j(before)  +  IN(inputs read at the step)
// must hold identically, where IN and OUT are the model's mass terms from the table below (rates are multiplied by
// the model's own timestep parameter). The only exempt paths are those that take the documented flush edge: the
// comparison of the step's water volume (table: flush) with a constant in [0, MINIMUM_VOLUME].

import (
	"fmt"
	"go/constant"
	"go/token"
	"go/types"
	"os"
	"sort"
	"strconv"
	"strings"

	"golang.org/x/tools/go/ssa"
)

type balSpec struct {
	in, out string // sums of products of OW-SPEC names (inputs, parameters, outputs) and numbers
	flush   string // water volume whose comparison with a small constant marks the documented flush ("" = none)
	// onlyDelegation: the property speaks about this model only in the configuration that delegates
	// (StorageDissolvedDecay with decay disabled); the kernel's own loop is outside the property.
	onlyDelegation bool
	note           string
}

var balTable = map[string]balSpec{
	"LumpedConstituentRouting": {
		in: "inflowLoad*DeltaT + lateralLoad*DeltaT + pointInput*DeltaT", out: "outflowLoad*DeltaT",
		flush: "outflow*DeltaT + storage", note: "stored' + outflowLoad·Δt = stored + (inflow + lateral + point)·Δt"},
	"ConstituentDecay": {
		in: "inflowLoad*DeltaT + lateralLoad*DeltaT", out: "outflowLoad*DeltaT + decayedLoad*DeltaT",
		flush: "outflow*DeltaT + storage", note: "stored' + (outflowLoad + decayedLoad)·Δt = stored + (inflow + lateral)·Δt"},
	"InstreamFineSediment": {
		in: "upstreamMass*durationInSeconds + lateralMass*durationInSeconds + reachLocalMass*durationInSeconds", out: "loadDownstream*durationInSeconds + loadToFloodplain*durationInSeconds",
		flush: "reachVolume + outflow*durationInSeconds", note: "channel store' + stored' + (downstream + floodplain)·Δt = channel store + stored + (upstream + lateral + local)·Δt"},
	"InstreamCoarseSediment": {
		in: "upstreamMass*durationInSeconds + lateralMass*durationInSeconds + reachLocalMass*durationInSeconds", out: "loadDownstream*durationInSeconds",
		note: "channel store' + stored' + downstream·Δt = channel store + stored + (upstream + lateral + local)·Δt"},
	"InstreamParticulateNutrient": {
		in: "incomingMassUpstream*durationInSeconds + incomingMassLateral*durationInSeconds + streambankErosion*particulateNutrientConcentration*durationInSeconds", out: "loadDownstream*durationInSeconds + loadToFloodplain*durationInSeconds",
		flush: "reachVolume + outflow*durationInSeconds", note: "instream' + channel' + (downstream + floodplain)·Δt = instream + channel + (upstream + lateral + streambank·conc)·Δt"},
	"StorageParticulateTrapping": {
		in: "inflowLoad*DeltaT", out: "trappedMass + outflowLoad*DeltaT",
		note: "stored' + trapped + outflowLoad·Δt = stored + inflowLoad·Δt"},
	"StorageDissolvedDecay": {
		in: "inflowMass*DeltaT", out: "outflowMass*DeltaT", onlyDelegation: true,
		note: "decay disabled: delegates to the lumped constituent kernel"},
}

// flushMax: the largest constant a flush comparison may use (MINIMUM_VOLUME in models/routing).
const flushMax = 1e-2

// specPoly translates a table expression to a polynomial over in<k>/p<k>/out<k>.
func specPoly(m *Model, s string) (poly, error) {
	out := poly{}
	name := func(n string) (string, bool) {
		for i, x := range m.Inputs {
			if x == n {
				return fmt.Sprintf("in%d", i), true
			}
		}
		for i, x := range m.Params {
			if x.Name == n {
				return fmt.Sprintf("p%d", i), true
			}
		}
		for i, x := range m.Outputs {
			if x == n {
				return fmt.Sprintf("out%d", i), true
			}
		}
		return "", false
	}
	for _, term := range strings.Split(s, "+") {
		term = strings.TrimSpace(term)
		if term == "" {
			continue
		}
		coef := 1.0
		mono := ""
		for _, f := range strings.Split(term, "*") {
			f = strings.TrimSpace(f)
			if v, err := strconv.ParseFloat(f, 64); err == nil {
				coef *= v
				continue
			}
			c, ok := name(f)
			if !ok {
				return nil, fmt.Errorf("`%s` is not an input, parameter or output of %s in its OW-SPEC", f, m.Name)
			}
			mono = monoMul(mono, c)
		}
		out[mono] += coef
	}
	return out, nil
}

func polySyms(p poly, prefix string) map[int]bool {
	out := map[int]bool{}
	for mono, c := range p {
		if c == 0 || mono == "" {
			continue
		}
		for _, s := range strings.Split(mono, "*") {
			s = strings.TrimPrefix(s, "/")
			if strings.HasPrefix(s, prefix) {
				if i, err := strconv.Atoi(s[len(prefix):]); err == nil {
					out[i] = true
				}
			}
		}
	}
	return out
}

// pathCtx: polynomial expansion along one CFG path (phis take the edge the path came in by).
type pathCtx struct {
	canonCtx
	shareFramedOnly bool                    // R12.5: look only at divisors formed inside an inlined helper
	pos             map[*ssa.BasicBlock]int // position of each block on the path
	path            []*ssa.BasicBlock
	stateOf         map[*ssa.Phi]int // header phis carrying state j
	kernel          *ssa.Function
	frames          map[*ssa.Call]*frame // helper calls inlined along one of their paths
	cur             *frame               // the frame in which helper-local values are being read (nil: the kernel)
	symIdx          map[symKey]int
	syms            []symKey
	// reads of the kernel's input series made inside an inlined helper that is handed the series and the time
	// index (`incomingSedimentMass(upstreamMass, lateralMass, reachLocalMass, idx, Δt)`)
	inSeries map[ssa.Value]int
	atIdxArg func(a ssa.Value, at ssa.Instruction) bool
}

// frame: one call of a scalar helper, followed along one acyclic path entry → return.
type frame struct {
	call *ssa.Call
	fn   *ssa.Function
	path []*ssa.BasicBlock
	pos  map[*ssa.BasicBlock]int
	ret  *ssa.Return
}

type symKey struct {
	v  ssa.Value
	fr *frame
}

type condKey struct {
	c  ssa.Value
	fr *frame
}

// fnValueBinding: function-typed parameters of the loop function that the kernel's forwarding call binds to a
// named function (the two gully kernels hand their export function to a shared loop this way). Set per model.
var fnValueBinding = map[*ssa.Parameter]*ssa.Function{}

// calleeOf: the function a call invokes — statically, or through a bound function-typed parameter.
func calleeOf(call *ssa.Call) *ssa.Function {
	if f := call.Common().StaticCallee(); f != nil {
		return f
	}
	if call.Common().IsInvoke() {
		return nil
	}
	if prm, ok := call.Common().Value.(*ssa.Parameter); ok {
		return fnValueBinding[prm]
	}
	return nil
}

func newFrame(call *ssa.Call, path []*ssa.BasicBlock) *frame {
	fr := &frame{call: call, fn: calleeOf(call), path: path, pos: map[*ssa.BasicBlock]int{}}
	for i, b := range path {
		fr.pos[b] = i
	}
	last := path[len(path)-1]
	fr.ret, _ = last.Instrs[len(last.Instrs)-1].(*ssa.Return)
	return fr
}

var helperPathCache = map[*ssa.Function][][]*ssa.BasicBlock{}

// scalarHelperPaths: the entry→return paths of the callee when it is a loop-free function of the module that takes
// and returns scalars only (it can touch no array), else nil.
func scalarHelperPaths(call *ssa.Call) [][]*ssa.BasicBlock {
	f := calleeOf(call)
	if f == nil || f.Blocks == nil || !InModule(f) || f.Signature.Recv() != nil || len(f.FreeVars) > 0 {
		return nil
	}
	if ps, ok := helperPathCache[f]; ok {
		return ps
	}
	helperPathCache[f] = nil
	for i := 0; i < f.Signature.Params().Len(); i++ {
		if _, ok := f.Signature.Params().At(i).Type().Underlying().(*types.Basic); !ok {
			// a series or an index vector that the helper only reads elements of
			if i >= len(f.Params) || !(isNDType(f.Params[i].Type()) || isIntVec(f.Params[i].Type())) || !onlyElementReads(f.Params[i]) {
				return nil
			}
		}
	}
	if f.Signature.Results().Len() == 0 || len(findLoops(f)) > 0 || f.Recover != nil {
		return nil
	}
	for i := 0; i < f.Signature.Results().Len(); i++ {
		if !scalarOrRecordOfScalars(f.Signature.Results().At(i).Type()) {
			return nil
		}
	}
	var out [][]*ssa.BasicBlock
	var cur []*ssa.BasicBlock
	var walk func(b *ssa.BasicBlock)
	walk = func(b *ssa.BasicBlock) {
		if len(out) > 256 {
			return
		}
		cur = append(cur, b)
		defer func() { cur = cur[:len(cur)-1] }()
		if len(b.Instrs) > 0 {
			if _, ok := b.Instrs[len(b.Instrs)-1].(*ssa.Return); ok {
				out = append(out, append([]*ssa.BasicBlock{}, cur...))
				return
			}
		}
		for _, s := range b.Succs {
			walk(s)
		}
	}
	walk(f.Blocks[0])
	if len(out) == 0 || len(out) > 256 {
		return nil
	}
	helperPathCache[f] = out
	return out
}

// onlyElementReads: the array (or index-vector) parameter is used for nothing but x.Get(idx) / x.Get1(i) reads.
func onlyElementReads(prm *ssa.Parameter) bool {
	for _, ref := range refs(prm) {
		switch x := ref.(type) {
		case *ssa.DebugRef:
		case ssa.CallInstruction:
			nm := callName(x.Common())
			if nm != "Get" && nm != "Get1" {
				return false
			}
			if x.Common().IsInvoke() && x.Common().Value == ssa.Value(prm) {
				continue
			}
			isArg0 := len(callArgs(x.Common())) > 0 && callArgs(x.Common())[0] == ssa.Value(prm)
			if !isArg0 && recvOf(x.Common()) != ssa.Value(prm) {
				return false
			}
		case *ssa.ChangeInterface, *ssa.MakeInterface:
			for _, r2 := range refs(x.(ssa.Value)) {
				c, ok := r2.(ssa.CallInstruction)
				if !ok || callName(c.Common()) != "Get" && callName(c.Common()) != "Get1" {
					return false
				}
			}
		default:
			return false
		}
	}
	return true
}

// scalarOrRecordOfScalars: a basic type, or a struct all of whose fields are basic (`usleDailyLoads{fineKg, coarseKg,
// …}`): a helper returning one can still touch no array.
func scalarOrRecordOfScalars(t types.Type) bool {
	switch u := t.Underlying().(type) {
	case *types.Basic:
		return true
	case *types.Struct:
		for i := 0; i < u.NumFields(); i++ {
			if _, ok := u.Field(i).Type().Underlying().(*types.Basic); !ok {
				return false
			}
		}
		return u.NumFields() > 0
	}
	return false
}

// recFieldSrc: what a field of a local struct holds at a load — a value stored to the field itself, or the same field of a
// struct value stored whole (`loads, ok := helper(…)`), or nothing yet (val == nil: the zero value).
type recFieldSrc struct {
	val   ssa.Value
	whole bool
}

// structFieldSources: the sources of base.field at `at`, looking backwards along the path being evaluated (the
// frame's inside an inlined helper, the kernel's otherwise; all predecessors off the path).
func (pc *pathCtx) structFieldSources(base *ssa.Alloc, field int, at ssa.Instruction) (out []recFieldSrc, ok bool) {
	var pos map[*ssa.BasicBlock]int
	var path []*ssa.BasicBlock
	if base.Parent() == pc.kernel {
		pos, path = pc.pos, pc.path
	} else if fr := pc.cur; fr != nil && base.Parent() == fr.fn {
		pos, path = fr.pos, fr.path
	}
	ok = true
	seen := map[*ssa.BasicBlock]bool{}
	add := func(s recFieldSrc) {
		for _, o := range out {
			if o == s {
				return
			}
		}
		out = append(out, s)
	}
	var scan func(b *ssa.BasicBlock, from int)
	scan = func(b *ssa.BasicBlock, from int) {
		for i := from; i >= 0; i-- {
			if st, isStore := b.Instrs[i].(*ssa.Store); isStore {
				if fa, isFA := st.Addr.(*ssa.FieldAddr); isFA && fa.X == ssa.Value(base) && fa.Field == field {
					add(recFieldSrc{val: st.Val})
					return
				}
				if st.Addr == ssa.Value(base) {
					if u, isLoad := st.Val.(*ssa.UnOp); isLoad && u.Op == token.MUL && u.X == ssa.Value(base) {
						continue // `*t0 = *t0`: the copy a named result makes of itself
					}
					add(recFieldSrc{val: st.Val, whole: true})
					return
				}
			}
			if b.Instrs[i] == ssa.Instruction(base) {
				add(recFieldSrc{})
				return
			}
		}
		if len(b.Preds) == 0 {
			add(recFieldSrc{})
			return
		}
		if i, on := pos[b]; on && i > 0 {
			scan(path[i-1], len(path[i-1].Instrs)-1)
			return
		}
		for _, p := range b.Preds {
			if !seen[p] {
				seen[p] = true
				scan(p, len(p.Instrs)-1)
			}
		}
	}
	scan(at.Block(), instrIndex(at)-1)
	for _, r := range *base.Referrers() {
		switch x := r.(type) {
		case *ssa.Store, *ssa.FieldAddr:
		case *ssa.UnOp:
			if x.Op != token.MUL {
				return nil, false
			}
		case *ssa.DebugRef:
		default:
			return nil, false // the struct's address escapes: something else may write the field
		}
	}
	return out, ok
}

// fieldEx: field `field` of the struct value sv — the result of an inlined helper, a local struct loaded whole, or the
// zero struct.
func (pc *pathCtx) fieldEx(sv ssa.Value, field int, depth int) (poly, bool) {
	if depth > 60 {
		return nil, false
	}
	switch x := sv.(type) {
	case *ssa.Const:
		return poly{}, true
	case *ssa.Extract:
		if call, ok := x.Tuple.(*ssa.Call); ok && pc.cur == nil {
			if fr := pc.frames[call]; fr != nil && fr.ret != nil && x.Index < len(fr.ret.Results) {
				pc.cur = fr
				res, ok := pc.fieldEx(fr.ret.Results[x.Index], field, depth+1)
				pc.cur = nil
				return res, ok
			}
		}
	case *ssa.Call:
		if pc.cur == nil {
			if fr := pc.frames[x]; fr != nil && fr.ret != nil && len(fr.ret.Results) == 1 {
				pc.cur = fr
				res, ok := pc.fieldEx(fr.ret.Results[0], field, depth+1)
				pc.cur = nil
				return res, ok
			}
		}
	case *ssa.UnOp:
		if a, ok := x.X.(*ssa.Alloc); ok && x.Op == token.MUL {
			return pc.fieldOfLocal(a, field, x, depth+1)
		}
	}
	return nil, false
}

func (pc *pathCtx) fieldOfLocal(a *ssa.Alloc, field int, at ssa.Instruction, depth int) (poly, bool) {
	srcs, ok := pc.structFieldSources(a, field, at)
	if !ok || len(srcs) != 1 {
		return nil, false
	}
	switch s := srcs[0]; {
	case s.val == nil:
		return poly{}, true
	case s.whole:
		return pc.fieldEx(s.val, field, depth+1)
	default:
		return pc.ex(s.val, depth+1), true
	}
}

// checkVolumeShare (R12.5): in mass = M·X/D with D a sum of several terms (volumes), X must be one of D's summands:
// every monomial of the numerator contains all symbols of one and the same summand of D.
func (pc *pathCtx) checkVolumeShare(name string, e poly, bad *map[string]string, okm map[string]bool) {
	byDen := map[string]poly{}
	for mono, c := range e {
		if relClose(c, 0) || mono == "" {
			continue
		}
		parts := strings.Split(mono, "*")
		for i, sy := range parts {
			if !strings.HasPrefix(sy, "/s") {
				continue
			}
			var id int
			if n, err := fmt.Sscanf(sy, "/s%d", &id); n != 1 || err != nil || id >= len(pc.syms) {
				continue
			}
			rest := append(append([]string{}, parts[:i]...), parts[i+1:]...)
			if byDen[sy] == nil {
				byDen[sy] = poly{}
			}
			byDen[sy][strings.Join(rest, "*")] += c
			break
		}
	}
	for den, num := range byDen {
		var id int
		fmt.Sscanf(den, "/s%d", &id)
		if pc.frames != nil && !pc.shareFramedOnly || pc.shareFramedOnly && pc.syms[id].fr == nil {
			continue // divisors of the kernel's own are judged with the helper results left opaque (no cancellation against a helper's terms)
		}
		save := pc.cur
		pc.cur = pc.syms[id].fr
		D := pc.ex(pc.syms[id].v, 0)
		pc.cur = save
		var summands []string
		for dm, dc := range D {
			if dc > 0 && dm != "" && !strings.Contains(dm, "/") {
				summands = append(summands, dm)
			}
		}
		if len(summands) < 2 {
			continue // not a sum of volumes
		}
		found := false
		for _, dm := range summands {
			need := map[string]int{}
			for _, sy := range strings.Split(dm, "*") {
				need[sy]++
			}
			all := true
			for nm, nc := range num {
				if relClose(nc, 0) {
					continue
				}
				have := map[string]int{}
				for _, sy := range strings.Split(nm, "*") {
					have[sy]++
				}
				for sy, k := range need {
					if have[sy] < k {
						all = false
					}
				}
			}
			if all {
				found = true
			}
		}
		k := name
		if os.Getenv("OWCHECK_DEBUG_SHARE") != "" && !found {
			fmt.Fprintf(os.Stderr, "SHARE %s den=%s D=%s\n  num=%s\n", name, den, showPoly(D), showPoly(num))
		}
		if found {
			okm[k] = true
		} else if _, seen := (*bad)[k]; !seen {
			(*bad)[k] = fmt.Sprintf("%s is a mass times X divided by the sum of volumes (%s), but X is none of the volumes in that sum: the share taken is not a share of the whole and can exceed what is there (the clamp at zero then hides mass being created)", name, showPoly(D))
		}
	}
}

// boolConst: the constant a boolean value is bound to on this path (through phis and the results of inlined
// helper calls), if any.
func (pc *pathCtx) boolConst(v ssa.Value, depth int) (val, known bool) {
	if depth > 20 {
		return false, false
	}
	switch x := v.(type) {
	case *ssa.Const:
		if x.Value != nil && x.Value.Kind() == constant.Bool {
			return constant.BoolVal(x.Value), true
		}
	case *ssa.UnOp:
		if x.Op == token.NOT {
			b, ok := pc.boolConst(x.X, depth+1)
			return !b, ok
		}
	case *ssa.Phi:
		var pos map[*ssa.BasicBlock]int
		var path []*ssa.BasicBlock
		if x.Parent() == pc.kernel {
			pos, path = pc.pos, pc.path
		} else if fr := pc.cur; fr != nil && x.Parent() == fr.fn {
			pos, path = fr.pos, fr.path
		}
		if i, on := pos[x.Block()]; on && i > 0 {
			for k, pr := range x.Block().Preds {
				if pr == path[i-1] {
					return pc.boolConst(x.Edges[k], depth+1)
				}
			}
		}
	case *ssa.Extract:
		if call, ok := x.Tuple.(*ssa.Call); ok && pc.cur == nil {
			if fr := pc.frames[call]; fr != nil && fr.ret != nil && x.Index < len(fr.ret.Results) {
				pc.cur = fr
				b, k := pc.boolConst(fr.ret.Results[x.Index], depth+1)
				pc.cur = nil
				return b, k
			}
		}
	case *ssa.Call:
		if pc.cur == nil {
			if fr := pc.frames[x]; fr != nil && fr.ret != nil && len(fr.ret.Results) == 1 {
				pc.cur = fr
				b, k := pc.boolConst(fr.ret.Results[0], depth+1)
				pc.cur = nil
				return b, k
			}
		}
	}
	return false, false
}

func (pc *pathCtx) symOf(v ssa.Value) string {
	fr := pc.cur
	if fn := valueParent(v); fn == nil || fr == nil || fn != fr.fn {
		fr = nil
	}
	k := symKey{v, fr}
	if pc.symIdx == nil {
		pc.symIdx = map[symKey]int{}
	}
	id, ok := pc.symIdx[k]
	if !ok {
		id = len(pc.syms)
		pc.symIdx[k] = id
		pc.syms = append(pc.syms, k)
	}
	return fmt.Sprintf("s%03d", id)
}

func valueParent(v ssa.Value) *ssa.Function {
	switch x := v.(type) {
	case ssa.Instruction:
		return x.Parent()
	case *ssa.Parameter:
		return x.Parent()
	case *ssa.FreeVar:
		return x.Parent()
	}
	return nil
}

func isClampCall(c *ssa.Call) (ssa.Value, bool) {
	f := c.Common().StaticCallee()
	if f == nil || len(c.Common().Args) != 2 {
		return nil, false
	}
	switch f.Name() {
	case "Max", "Min":
		if fnPkg(f) == nil || fnPkg(f).Path() != "math" {
			return nil, false
		}
	case "MaxFloat64", "MinFloat64":
		if fnPkg(f) == nil || relPkg(fnPkg(f).Path()) != "util/m" {
			return nil, false
		}
	default:
		return nil, false
	}
	a, b := c.Common().Args[0], c.Common().Args[1]
	_, ca := a.(*ssa.Const)
	_, cb := b.(*ssa.Const)
	switch {
	case ca && !cb:
		return b, true
	case cb && !ca:
		return a, true
	}
	return nil, false
}

func (pc *pathCtx) ex(v ssa.Value, depth int) poly {
	if n, ok := pc.names[v]; ok {
		return poly{n: 1}
	}
	if depth > 60 {
		return poly{pc.symOf(v): 1}
	}
	switch x := v.(type) {
	case *ssa.Const:
		if x.Value != nil {
			return poly{"": x.Float64()}
		}
	case *ssa.Convert:
		return pc.ex(x.X, depth+1)
	case *ssa.Phi:
		if j, ok := pc.stateOf[x]; ok {
			return poly{fmt.Sprintf("S%d", j): 1}
		}
		if x.Parent() == pc.kernel {
			if i, on := pc.pos[x.Block()]; on && i > 0 {
				prev := pc.path[i-1]
				for k, pr := range x.Block().Preds {
					if pr == prev {
						return pc.ex(x.Edges[k], depth+1)
					}
				}
			}
		} else if fr := pc.cur; fr != nil && x.Parent() == fr.fn {
			if i, on := fr.pos[x.Block()]; on && i > 0 {
				prev := fr.path[i-1]
				for k, pr := range x.Block().Preds {
					if pr == prev {
						return pc.ex(x.Edges[k], depth+1)
					}
				}
			}
		}
	case *ssa.Parameter:
		if fr := pc.cur; fr != nil && x.Parent() == fr.fn {
			for i, prm := range fr.fn.Params {
				if prm == x && i < len(fr.call.Common().Args) {
					pc.cur = nil
					res := pc.ex(fr.call.Common().Args[i], depth+1)
					pc.cur = fr
					return res
				}
			}
		}
	case *ssa.Extract:
		if call, ok := x.Tuple.(*ssa.Call); ok && pc.cur == nil {
			if fr := pc.frames[call]; fr != nil && fr.ret != nil && x.Index < len(fr.ret.Results) {
				pc.cur = fr
				res := pc.ex(fr.ret.Results[x.Index], depth+1)
				pc.cur = nil
				return res
			}
		}
	case *ssa.Call:
		if fr := pc.cur; fr != nil && pc.inSeries != nil && x.Parent() == fr.fn {
			if nm := callName(x.Common()); (nm == "Get" || nm == "Get1") && len(callArgs(x.Common())) > 0 {
				rp, ok1 := origin1OrSelf(recvOf(x.Common())).(*ssa.Parameter)
				ip, ok2 := origin1OrSelf(callArgs(x.Common())[0]).(*ssa.Parameter)
				if ok1 && ok2 && rp.Parent() == fr.fn && ip.Parent() == fr.fn {
					var ra, ia ssa.Value
					for i, q := range fr.fn.Params {
						if i < len(fr.call.Common().Args) {
							if q == rp {
								ra = fr.call.Common().Args[i]
							}
							if q == ip {
								ia = fr.call.Common().Args[i]
							}
						}
					}
					if ra != nil && ia != nil {
						if k, ok := pc.inSeries[origin1OrSelf(stripConv(ra))]; ok && pc.atIdxArg != nil && pc.atIdxArg(ia, fr.call) {
							return poly{fmt.Sprintf("in%d", k): 1}
						}
					}
				}
			}
		}
		if inner, ok := isClampCall(x); ok {
			// a clamp against a constant: decided for the case in which the clamp does not bind
			return pc.ex(inner, depth+1)
		}
		if pc.cur == nil {
			if fr := pc.frames[x]; fr != nil && fr.ret != nil && len(fr.ret.Results) == 1 {
				pc.cur = fr
				res := pc.ex(fr.ret.Results[0], depth+1)
				pc.cur = nil
				return res
			}
		}
	case *ssa.UnOp:
		if x.Op == token.SUB {
			return polyMul(pc.ex(x.X, depth+1), poly{"": -1})
		}
		if x.Op == token.MUL {
			// a scalar kept in a local variable or in a field of a local struct (`factors.runoffRate = q.Get(idx)`):
			// the value stored last before the load, when that is one value on every way in
			switch a := x.X.(type) {
			case *ssa.Alloc:
				if allocIsSimpleCell(a) {
					if vs := reachingStores(a, x); len(vs) == 1 && vs[0] != nil {
						return pc.ex(vs[0], depth+1)
					}
				}
			case *ssa.FieldAddr:
				if base, ok := a.X.(*ssa.Alloc); ok {
					if vs, ok := reachingFieldStores(base, a.Field, x, 0); ok && len(vs) == 1 && vs[0] != nil {
						return pc.ex(vs[0], depth+1)
					}
					if _, isStruct := base.Type().(*types.Pointer).Elem().Underlying().(*types.Struct); isStruct {
						if res, ok := pc.fieldOfLocal(base, a.Field, x, depth+1); ok {
							return res
						}
					}
				}
			}
		}
	case *ssa.Field:
		if res, ok := pc.fieldEx(x.X, x.Field, depth+1); ok {
			return res
		}
	case *ssa.BinOp:
		switch x.Op {
		case token.ADD:
			return polyAdd(pc.ex(x.X, depth+1), pc.ex(x.Y, depth+1), 1)
		case token.SUB:
			return polyAdd(pc.ex(x.X, depth+1), pc.ex(x.Y, depth+1), -1)
		case token.MUL:
			return polyMul(pc.ex(x.X, depth+1), pc.ex(x.Y, depth+1))
		case token.QUO:
			den := pc.ex(x.Y, depth+1)
			nz := poly{}
			for k, c := range den {
				if c != 0 {
					nz[k] = c
				}
			}
			if len(nz) == 1 {
				for k, c := range nz {
					var inv []string
					if k != "" {
						for _, s := range strings.Split(k, "*") {
							if strings.HasPrefix(s, "/") {
								inv = append(inv, s[1:])
							} else {
								inv = append(inv, "/"+s)
							}
						}
					}
					sort.Strings(inv)
					return polyMul(pc.ex(x.X, depth+1), poly{strings.Join(inv, "*"): 1 / c})
				}
			}
			return polyMul(pc.ex(x.X, depth+1), poly{"/" + pc.symOf(x.Y): 1})
		}
	}
	return poly{pc.symOf(v): 1}
}

// clearDenominators multiplies d through by every inverse symbol it contains (d ≡ 0 after clearing implies d ≡ 0
// wherever the denominators are non-zero).
func (pc *pathCtx) clearDenominators(d poly) poly {
	for iter := 0; iter < 12; iter++ {
		inv := ""
		var monos []string
		for mono := range d {
			monos = append(monos, mono)
		}
		sort.Strings(monos)
		for _, mono := range monos {
			if relClose(d[mono], 0) || mono == "" {
				continue
			}
			for _, s := range strings.Split(mono, "*") {
				if strings.HasPrefix(s, "/") {
					inv = s[1:]
					break
				}
			}
			if inv != "" {
				break
			}
		}
		if inv == "" {
			return d
		}
		var mult poly
		var id int
		if n, err := fmt.Sscanf(inv, "s%d", &id); n == 1 && err == nil && id < len(pc.syms) && fmt.Sprintf("s%03d", id) == inv {
			save := pc.cur
			pc.cur = pc.syms[id].fr
			mult = pc.ex(pc.syms[id].v, 0)
			pc.cur = save
		} else {
			mult = poly{inv: 1}
		}
		nd := poly{}
		for mono, c := range d {
			if c == 0 {
				continue
			}
			parts := strings.Split(mono, "*")
			hit := -1
			for i, s := range parts {
				if s == "/"+inv {
					hit = i
					break
				}
			}
			if hit >= 0 {
				rest := append(append([]string{}, parts[:hit]...), parts[hit+1:]...)
				nd[strings.Join(rest, "*")] += c
			} else {
				for k, v := range polyMul(poly{mono: c}, mult) {
					nd[k] += v
				}
			}
		}
		d = nd
	}
	return d
}

func polyIsZero(d poly) bool {
	scale := 0.0
	for _, c := range d {
		if absf(c) > scale {
			scale = absf(c)
		}
	}
	for _, c := range d {
		if absf(c) > 1e-9*(1+scale) && absf(c) > 1e-12 {
			return false
		}
	}
	return true
}

// loopPaths enumerates the acyclic paths header → … → latch through l (nil, reason if the body has an inner
// cycle or too many paths).
func loopPaths(l *Loop) ([][]*ssa.BasicBlock, string) {
	var out [][]*ssa.BasicBlock
	var cur []*ssa.BasicBlock
	on := map[*ssa.BasicBlock]bool{}
	reason := ""
	var walk func(b *ssa.BasicBlock)
	walk = func(b *ssa.BasicBlock) {
		if reason != "" {
			return
		}
		cur = append(cur, b)
		on[b] = true
		defer func() { cur = cur[:len(cur)-1]; on[b] = false }()
		for _, s := range b.Succs {
			if !l.Blocks[s] {
				continue // leaves the loop
			}
			if s == l.Header {
				out = append(out, append([]*ssa.BasicBlock{}, cur...))
				if len(out) > 4096 {
					reason = "more than 4096 paths through one timestep"
				}
				continue
			}
			if on[s] {
				reason = "the timestep body contains an inner loop"
				return
			}
			walk(s)
		}
	}
	walk(l.Header)
	if reason != "" {
		return nil, reason
	}
	return out, ""
}

// edgeCond: the branch condition (negations stripped) and its value on the edge a→b.
func edgeCond(a, b *ssa.BasicBlock) (ssa.Value, bool, bool) {
	if len(a.Instrs) == 0 {
		return nil, false, false
	}
	iff, ok := a.Instrs[len(a.Instrs)-1].(*ssa.If)
	if !ok || a.Succs[0] == a.Succs[1] {
		return nil, false, false
	}
	val := a.Succs[0] == b
	c, v := normCond(iff.Cond, val)
	return c, v, true
}

// pathKey: the branch outcomes along the path, by ordinal of the branch within the timestep body (no line numbers).
func pathKey(path []*ssa.BasicBlock) string {
	var sb strings.Builder
	for i := 1; i+1 < len(path); i++ {
		if _, v, ok := edgeCond(path[i], path[i+1]); ok {
			if v {
				sb.WriteString("T")
			} else {
				sb.WriteString("F")
			}
		}
	}
	if sb.Len() == 0 {
		return "-"
	}
	return sb.String()
}

func describePath(p *Program, path []*ssa.BasicBlock) string {
	var parts []string
	for i := 0; i+1 < len(path); i++ {
		c, v, ok := edgeCond(path[i], path[i+1])
		if !ok || i == 0 {
			continue
		}
		pos := p.Pos(c.Pos())
		if j := strings.LastIndex(pos, "/"); j >= 0 {
			pos = pos[j+1:]
		}
		parts = append(parts, fmt.Sprintf("%s=%v", pos, v))
	}
	if len(parts) == 0 {
		return "the only path"
	}
	return strings.Join(parts, ", ")
}

func checkMassBalance(p *Program, r *Report) {
	r.Rule("R12.2", "per-timestep mass balance by normal form: on every CFG path through one iteration of the kernel's time loop, (sum of the carried states after the step) + (mass terms of the outputs written on the path) − (sum of the carried states before the step) − (mass terms of the inputs read at the step) expands to the zero polynomial after clearing denominators; rates are weighted by the model's own timestep parameter; the only exempt paths take the documented flush edge (the step's water volume compared with a constant ≤ MINIMUM_VOLUME); clamps against constants are decided for the case in which they do not bind")
	r.Rule("R12.4", "removals come off the mass on hand: where the amount subtracted from a kernel's working mass is the result of a helper that was given a mass (an expression containing a carried state), one of those mass arguments is, as a polynomial, the very working mass the result is subtracted from — so a helper that caps its removal by the available mass caps it by what is actually there")
	r.Rule("R12.3", "delegation keeps the budget: where one of these kernels hands the whole run to another catalogued kernel, every mass input of the caller is passed at a mass-input position of the callee, the timestep parameter at the timestep position, mass outputs at mass-output positions, and nothing else is passed there")
	models, _ := p.Registry()
	eff := nil2eff(p)
	byName := map[string]*Model{}
	byKernel := map[*ssa.Function]*Model{}
	for _, m := range models {
		byName[m.Name] = m
		if m.Kernel != nil && byKernel[m.Kernel] == nil {
			byKernel[m.Kernel] = m
		}
	}
	checkSeriesBudgets(p, r, byName)
	var names []string
	for n := range balTable {
		names = append(names, n)
	}
	sort.Strings(names)
	nModels, nPaths, nDeleg, nShares := 0, 0, 0, 0
	notFollowed := 0
	r.Rule("R12.5", "shares are shares: where a stored mass or a mass output is computed as M·X/D with D a sum of volumes, X (a rate weighted by the timestep) is one of the summands of D on every path — so what is apportioned to the outflow or the store can never exceed the mass there is, and the final clamp at zero cannot hide mass being created")
	nRemovals := map[*ssa.Call]bool{}
	for _, name := range names {
		spec := balTable[name]
		m := byName[name]
		if m == nil || m.Kernel == nil {
			r.Undecided("R12.2", "anchor:"+name, "-", "model "+name+" or its kernel not found in the catalogue")
			continue
		}
		nModels++
		k := m.Kernel
		key := m.RelPkg + "." + m.Name
		inP, err1 := specPoly(m, spec.in)
		outP, err2 := specPoly(m, spec.out)
		var flushP poly
		var err3 error
		if spec.flush != "" {
			flushP, err3 = specPoly(m, spec.flush)
		}
		for _, e := range []error{err1, err2, err3} {
			if e != nil {
				r.Undecided("R12.2", key+":spec", m.SpecFile, e.Error())
			}
		}
		if err1 != nil || err2 != nil || err3 != nil {
			continue
		}
		nIn, nSt := len(m.Inputs), len(m.States)
		resBase := 0
		if !m.OutputsAsParams {
			resBase = len(m.Outputs)
		}
		// --- delegation (R12.3)
		for _, c := range callsIn(k) {
			call, ok := c.(*ssa.Call)
			if !ok {
				continue
			}
			f := call.Common().StaticCallee()
			cm := byKernel[f]
			if cm == nil || f == k {
				continue
			}
			cspec, ok := balTable[cm.Name]
			dkey := fmt.Sprintf("%s→%s", key, f.Name())
			if !ok {
				r.Undecided("R12.3", dkey, p.Pos(call.Pos()), "delegates to a kernel that has no mass-balance entry")
				continue
			}
			nDeleg++
			cin, e1 := specPoly(cm, cspec.in)
			cout, e2 := specPoly(cm, cspec.out)
			if e1 != nil || e2 != nil {
				r.Undecided("R12.3", dkey, p.Pos(call.Pos()), "callee spec does not resolve")
				continue
			}
			args := call.Common().Args
			cnIn, cnSt := len(cm.Inputs), len(cm.States)
			kIn, kOut, kPar := polySyms(inP, "in"), polySyms(outP, "out"), polySyms(inP, "p")
			cIn, cOut, cPar := polySyms(cin, "in"), polySyms(cout, "out"), polySyms(cin, "p")
			// the timestep parameter: the parameter common to every term of the mass-in expression
			dtOf := func(pl poly, mm *Model) int {
				cnt := map[int]int{}
				n := 0
				for mono, c := range pl {
					if c == 0 {
						continue
					}
					n++
					for i := range polySyms(poly{mono: 1}, "p") {
						cnt[i]++
					}
				}
				for i, c := range cnt {
					if c == n {
						return i
					}
				}
				return -1
			}
			kdt, cdt := dtOf(inP, m), dtOf(cin, cm)
			paramIdx := func(v ssa.Value) (kind string, idx int) {
				v = origin1(v)
				for i, prm := range k.Params {
					if ssa.Value(prm) != v {
						continue
					}
					switch {
					case i < nIn:
						return "in", i
					case i < nIn+nSt:
						return "state", i - nIn
					case i < nIn+nSt+len(m.Params):
						return "p", i - nIn - nSt
					default:
						return "out", i - nIn - nSt - len(m.Params)
					}
				}
				return "", -1
			}
			isZero := func(v ssa.Value) bool {
				if isNilConst(v) {
					return true
				}
				if c, ok := stripConv(v).(*ssa.Const); ok {
					return c.Value == nil || c.Float64() == 0
				}
				if mi, ok := v.(*ssa.MakeInterface); ok {
					return isNilConst(mi.X)
				}
				return false
			}
			bad := false
			passedIn := map[int]bool{}
			for ci := range cIn {
				if ci >= len(args) {
					continue
				}
				a := args[ci]
				if isZero(a) {
					continue
				}
				kind, i := paramIdx(a)
				if kind == "in" && kIn[i] {
					passedIn[i] = true
					continue
				}
				bad = true
				r.Fail("R12.3", fmt.Sprintf("%s:arg:%s", dkey, cm.Inputs[ci]), p.Pos(call.Pos()), fmt.Sprintf("%s passes something that is not one of its own mass inputs as %s's mass input `%s`: mass is created or mis-attributed in the delegating branch", k.Name(), f.Name(), cm.Inputs[ci]))
			}
			var missing []string
			for i := range kIn {
				if !passedIn[i] {
					missing = append(missing, m.Inputs[i])
				}
			}
			sort.Strings(missing)
			for _, nm := range missing {
				bad = true
				r.Fail("R12.3", fmt.Sprintf("%s:drops:%s", dkey, nm), p.Pos(call.Pos()), fmt.Sprintf("%s hands the run to %s without its mass input `%s`: whatever enters the reach through `%s` in this branch is neither routed downstream, deposited nor stored", k.Name(), f.Name(), nm, nm))
			}
			for ci := range cPar {
				ai := cnIn + cnSt + ci
				if ai >= len(args) {
					continue
				}
				a := args[ai]
				kind, i := paramIdx(a)
				switch {
				case ci == cdt:
					if !(kind == "p" && i == kdt) {
						bad = true
						r.Fail("R12.3", fmt.Sprintf("%s:dt", dkey), p.Pos(call.Pos()), fmt.Sprintf("%s does not pass its own timestep parameter `%s` as %s's `%s`: rates and masses are converted with different step lengths", k.Name(), m.Params[kdt].Name, f.Name(), cm.Params[ci].Name))
					}
				case isZero(a):
				case kind == "p" && kPar[i] && i != kdt:
				default:
					bad = true
					r.Fail("R12.3", fmt.Sprintf("%s:par:%s", dkey, cm.Params[ci].Name), p.Pos(call.Pos()), fmt.Sprintf("%s passes a value that is not one of its own mass terms as %s's mass parameter `%s`", k.Name(), f.Name(), cm.Params[ci].Name))
				}
			}
			for co := range cOut {
				ai := cnIn + cnSt + len(cm.Params) + co
				if ai >= len(args) {
					continue
				}
				a := args[ai]
				if isZero(a) {
					bad = true
					r.Fail("R12.3", fmt.Sprintf("%s:out:%s", dkey, cm.Outputs[co]), p.Pos(call.Pos()), fmt.Sprintf("%s discards %s's mass output `%s` (nil): mass leaving through it is not reported", k.Name(), f.Name(), cm.Outputs[co]))
					continue
				}
				kind, i := paramIdx(a)
				if !(kind == "out" && kOut[i]) {
					bad = true
					r.Fail("R12.3", fmt.Sprintf("%s:out:%s", dkey, cm.Outputs[co]), p.Pos(call.Pos()), fmt.Sprintf("%s receives %s's mass output `%s` in something that is not one of its own mass outputs", k.Name(), f.Name(), cm.Outputs[co]))
				}
			}
			// states: passed state threads back (R06.5 decides which position); here: the callee's state argument is a state of the caller
			for cs := 0; cs < cnSt; cs++ {
				ai := cnIn + cs
				if ai >= len(args) {
					continue
				}
				if kind, _ := paramIdx(args[ai]); kind != "state" {
					bad = true
					r.Fail("R12.3", fmt.Sprintf("%s:state:%s", dkey, cm.States[cs]), p.Pos(call.Pos()), fmt.Sprintf("%s starts %s from something other than one of its own stored masses", k.Name(), f.Name()))
				}
			}
			if !bad {
				r.OK("R12.3", fmt.Sprintf("%s: mass inputs, timestep, mass outputs and stored mass are handed over position for position", dkey))
			}
		}
		if spec.onlyDelegation {
			continue
		}
		// --- the time loop (R12.2)
		loops := timeLoops(k)
		if len(loops) != 1 {
			r.Undecided("R12.2", key+":loop", p.Pos(k.Pos()), fmt.Sprintf("expected exactly one time loop, found %d", len(loops)))
			continue
		}
		l := loops[0]
		ind := loopInduction(l)
		atIdx := func(call ssa.CallInstruction) bool {
			if ind == nil || len(callArgs(call.Common())) == 0 {
				return false
			}
			a := callArgs(call.Common())[0]
			if isIntVec(a.Type()) {
				vals, _, unk := vecElemAt(eff, origin1(a), 0, call)
				return unk == "" && len(vals) == 1 && origin1(vals[0]) == ssa.Value(ind)
			}
			return origin1(a) == ssa.Value(ind)
		}
		// carried states: header phis returned at the state positions
		stateOf := map[*ssa.Phi]int{}
		carried := make([]*ssa.Phi, nSt)
		okStates := true
		for _, ret := range returnsOf(k) {
			if !reachable(l.Header, nil)[ret.Block()] {
				continue
			}
			for j := 0; j < nSt; j++ {
				if resBase+j >= len(ret.Results) {
					okStates = false
					continue
				}
				phi, ok := origin1(ret.Results[resBase+j]).(*ssa.Phi)
				if !ok || phi.Block() != l.Header {
					// a state never modified by the loop: the parameter itself
					if prm, ok := origin1(ret.Results[resBase+j]).(*ssa.Parameter); ok && nIn+j < len(k.Params) && prm == k.Params[nIn+j] {
						continue
					}
					okStates = false
					continue
				}
				carried[j] = phi
				stateOf[phi] = j
			}
		}
		if !okStates {
			// the stores may be kept in fields of a local struct that methods advance (`masses.receive(…)`,
			// `masses.deposit()`): the path engine follows scalar helpers, not objects mutated through a pointer. Such a
			// kernel is counted as not analysed (evidence), which is weaker than an alarm on a form that is not wrong
			inStruct := false
			for _, ret := range returnsOf(k) {
				for j := 0; j < nSt && resBase+j < len(ret.Results); j++ {
					for _, o := range origins(ret.Results[resBase+j]) {
						if ld, ok := o.(*ssa.UnOp); ok && ld.Op == token.MUL {
							if fa, ok := ld.X.(*ssa.FieldAddr); ok {
								if a, ok := fa.X.(*ssa.Alloc); ok && a.Parent() == k {
									inStruct = true
								}
							}
						}
					}
				}
			}
			if inStruct {
				notFollowed++
				continue
			}
			r.Undecided("R12.2", key+":states", p.Pos(k.Pos()), "a returned state is not the loop-carried value of the time loop")
			continue
		}
		paths, why := loopPaths(l)
		if paths == nil {
			r.Undecided("R12.2", key+":paths", p.Pos(k.Pos()), why)
			continue
		}
		outIdx := map[ssa.Value]int{}
		base := nIn + nSt + len(m.Params)
		for i := range m.Outputs {
			if base+i < len(k.Params) {
				outIdx[k.Params[base+i]] = i
			}
		}
		inIdx := map[ssa.Value]int{}
		for i := 0; i < nIn && i < len(k.Params); i++ {
			inIdx[k.Params[i]] = i
		}
		nBal := 0
		newCtx := func(path []*ssa.BasicBlock, frames map[*ssa.Call]*frame) *pathCtx {
			pc := &pathCtx{pos: map[*ssa.BasicBlock]int{}, path: path, stateOf: stateOf, kernel: k, frames: frames}
			pc.inSeries = inIdx
			pc.atIdxArg = func(a ssa.Value, at ssa.Instruction) bool {
				if ind == nil {
					return false
				}
				if isIntVec(a.Type()) {
					vals, _, unk := vecElemAt(eff, origin1(a), 0, at)
					return unk == "" && len(vals) == 1 && origin1(vals[0]) == ssa.Value(ind)
				}
				return origin1(a) == ssa.Value(ind)
			}
			pc.names = map[ssa.Value]string{}
			for i, b := range path {
				pc.pos[b] = i
			}
			for i, ps := range m.Params {
				if idx := nIn + nSt + i; idx < len(k.Params) && len(ps.Dims) == 0 {
					pc.names[k.Params[idx]] = fmt.Sprintf("p%d", i)
				}
			}
			for _, c := range callsIn(k) {
				cv, ok := c.(*ssa.Call)
				if !ok {
					continue
				}
				nm := callName(c.Common())
				if nm != "Get" && nm != "Get1" {
					continue
				}
				if i, ok := inIdx[origin1(recvOf(c.Common()))]; ok && atIdx(c) {
					pc.names[cv] = fmt.Sprintf("in%d", i)
				}
			}
			return pc
		}
		// evaluate one path (with the given helpers inlined along the given paths of theirs)
		type verdict struct {
			feasible, flush bool
			residual        poly
			pc              *pathCtx
			shareBad        map[string]string // mass expression → why its volume share is not a share
			shareOK         map[string]bool
		}
		shareFramedOnly := false
		evaluate := func(path []*ssa.BasicBlock, frames map[*ssa.Call]*frame) verdict {
			pc := newCtx(path, frames)
			pc.shareFramedOnly = shareFramedOnly
			condVal := map[condKey]bool{}
			vd := verdict{feasible: true, pc: pc, shareBad: map[string]string{}, shareOK: map[string]bool{}}
			zeroIn := map[string]string{}
			edge := func(fr *frame, a, b *ssa.BasicBlock, first bool) {
				c, v, ok := edgeCond(a, b)
				if !ok {
					return
				}
				ck := condKey{c, fr}
				if old, seen := condVal[ck]; seen && old != v {
					vd.feasible = false
				}
				condVal[ck] = v
				pc.cur = fr
				if b, known := pc.boolConst(c, 0); known && b != v {
					vd.feasible = false // the branch tests a value this path (or an inlined helper's path) fixes the other way
				}
				pc.cur = nil
				bo, ok := c.(*ssa.BinOp)
				if !ok {
					return
				}
				if fr == nil {
					for _, side := range [][2]ssa.Value{{bo.X, bo.Y}, {bo.Y, bo.X}} {
						if ii, ok := inIdx[origin1(side[0])]; ok && isNilConst(side[1]) {
							if bo.Op == token.EQL && v || bo.Op == token.NEQ && !v {
								zeroIn[fmt.Sprintf("in%d", ii)] = "0"
							}
						}
					}
				}
				if flushP == nil || first {
					return
				}
				// volume < c  (true), volume <= c (true), volume > c (false), volume >= c (false)
				var vol ssa.Value
				var cst *ssa.Const
				below := false
				if k2, ok := bo.Y.(*ssa.Const); ok {
					vol, cst = bo.X, k2
					below = (bo.Op == token.LSS || bo.Op == token.LEQ) && v || (bo.Op == token.GTR || bo.Op == token.GEQ) && !v
				} else if k2, ok := bo.X.(*ssa.Const); ok {
					vol, cst = bo.Y, k2
					below = (bo.Op == token.GTR || bo.Op == token.GEQ) && v || (bo.Op == token.LSS || bo.Op == token.LEQ) && !v
				}
				if vol == nil || cst == nil || cst.Value == nil || !below {
					return
				}
				if cv := cst.Float64(); cv < 0 || cv > flushMax {
					return
				}
				pc.cur = fr
				if polyEqual(pc.ex(vol, 0), flushP) {
					vd.flush = true
				}
				pc.cur = nil
			}
			for i := 0; i < len(path); i++ {
				nxt := l.Header
				if i+1 < len(path) {
					nxt = path[i+1]
				}
				edge(nil, path[i], nxt, i == 0)
			}
			var calls []*ssa.Call
			for c := range frames {
				calls = append(calls, c)
			}
			sort.Slice(calls, func(i, j int) bool { return calls[i].Pos() < calls[j].Pos() })
			for _, c := range calls {
				fr := frames[c]
				for i := 0; i+1 < len(fr.path); i++ {
					edge(fr, fr.path[i], fr.path[i+1], false)
				}
			}
			if !vd.feasible || vd.flush {
				return vd
			}
			// states after the step: the header phi's edge from the path's last block
			d := poly{}
			last := path[len(path)-1]
			for j, phi := range carried {
				if phi == nil {
					continue
				}
				for kk, pr := range l.Header.Preds {
					if pr == last {
						sp := pc.ex(phi.Edges[kk], 0)
						pc.checkVolumeShare("state `"+m.States[j]+"`", sp, &vd.shareBad, vd.shareOK)
						d = polyAdd(d, sp, 1)
					}
				}
				d = polyAdd(d, poly{fmt.Sprintf("S%d", j): 1}, -1)
			}
			// outputs written on the path (last write wins)
			written := map[int]ssa.Value{}
			for _, b := range path {
				for _, ins := range b.Instrs {
					c, ok := ins.(ssa.CallInstruction)
					if !ok {
						continue
					}
					nm := callName(c.Common())
					if nm != "Set" && nm != "Set1" {
						continue
					}
					if oi, ok := outIdx[origin1(recvOf(c.Common()))]; ok && atIdx(c) {
						written[oi] = callArgs(c.Common())[1]
					}
				}
			}
			outNow := poly{}
			for mono, c := range outP {
				term := poly{"": c}
				skip := false
				for _, s := range strings.Split(mono, "*") {
					if strings.HasPrefix(s, "out") {
						i, _ := strconv.Atoi(s[3:])
						w, ok := written[i]
						if !ok {
							skip = true // not written on this path: keeps its zero
							break
						}
						term = polyMul(term, pc.ex(w, 0))
					} else if s != "" {
						term = polyMul(term, poly{s: 1})
					}
				}
				if !skip {
					for _, sy := range strings.Split(mono, "*") {
						if strings.HasPrefix(sy, "out") {
							if oi, err := strconv.Atoi(sy[3:]); err == nil && oi < len(m.Outputs) {
								pc.checkVolumeShare("output `"+m.Outputs[oi]+"`", term, &vd.shareBad, vd.shareOK)
							}
						}
					}
					outNow = polyAdd(outNow, term, 1)
				}
			}
			d = polyAdd(d, outNow, 1)
			d = polyAdd(d, substitute(inP, zeroIn), -1)
			vd.residual = pc.clearDenominators(d)
			return vd
		}
		shareBadAll, shareOKAll := map[string]string{}, map[string]bool{}
		noteShares := func(v verdict) {
			if !v.feasible || v.flush {
				return
			}
			for k, w := range v.shareBad {
				if _, seen := shareBadAll[k]; !seen {
					shareBadAll[k] = w
				}
			}
			for k := range v.shareOK {
				shareOKAll[k] = true
			}
		}
		for _, path := range paths {
			vd := evaluate(path, nil)
			if !vd.feasible {
				continue
			}
			noteShares(vd)
			pc := vd.pc
			nPaths++
			pkey := fmt.Sprintf("%s:path[%s]", key, pathKey(path))
			if vd.flush {
				r.OK("R12.2", pkey+" ("+describePath(p, path)+"): documented flush (water volume below the minimum), exempt")
				continue
			}
			// R12.4: removals computed by a helper from the mass on hand come off that same mass
			for _, b := range path {
				for _, ins := range b.Instrs {
					sub, ok := ins.(*ssa.BinOp)
					if !ok || sub.Op != token.SUB {
						continue
					}
					call, ok := origin1(sub.Y).(*ssa.Call)
					if !ok {
						continue
					}
					f := call.Common().StaticCallee()
					if f == nil || f.Blocks == nil || !InModule(f) || f.Signature.Recv() != nil || !strings.HasPrefix(relPkg(fnPkg(f).Path()), "models") {
						continue
					}
					minuend := pc.ex(sub.X, 0)
					if len(polySyms(minuend, "S")) == 0 {
						continue
					}
					var massArgs []poly
					for _, a := range call.Common().Args {
						if ap := pc.ex(a, 0); len(polySyms(ap, "S")) > 0 {
							massArgs = append(massArgs, ap)
						}
					}
					if len(massArgs) == 0 {
						continue
					}
					nRemovals[call] = true
					rkey := fmt.Sprintf("%s:removal:%s", key, f.Name())
					match := false
					for _, ap := range massArgs {
						if polyEqual(ap, minuend) {
							match = true
						}
					}
					if match {
						r.OK("R12.4", rkey+": the helper is given the mass its result is subtracted from")
					} else {
						r.Fail("R12.4", rkey, p.Pos(sub.Pos()), fmt.Sprintf("%s: the amount returned by %s is subtracted from a working mass (%s) that is not the mass %s was given (%s): the helper caps the removal by a different amount than is on hand, so successive removals can exceed the mass in the reach", m.Name, f.Name(), pc.show(p, m, minuend), f.Name(), pc.show(p, m, massArgs[0])))
					}
				}
			}
			nBal++
			var inl []*ssa.Call
			var inlPaths [][][]*ssa.BasicBlock
			for _, b := range path {
				for _, ins := range b.Instrs {
					call, ok := ins.(*ssa.Call)
					if !ok {
						continue
					}
					if fp := scalarHelperPaths(call); fp != nil {
						inl = append(inl, call)
						inlPaths = append(inlPaths, fp)
					}
				}
			}
			combos := 1
			for _, fp := range inlPaths {
				combos *= len(fp)
			}
			// R12.5 for shares formed inside a helper (`concentration := mass / (outflowV + storedV)` moved out of the
			// kernel): each scalar helper inlined on its own, the others left opaque, so that nothing of another
			// helper's can cancel against the volumes.
			shareFramedOnly = true
			for i, c := range inl {
				for _, hp := range inlPaths[i] {
					noteShares(evaluate(path, map[*ssa.Call]*frame{c: newFrame(c, hp)}))
				}
			}
			shareFramedOnly = false
			if polyIsZero(vd.residual) {
				r.OK("R12.2", pkey+" ("+describePath(p, path)+"): balance closes identically")
				continue
			}
			// The budget does not close with helper results left opaque: decide it with the scalar helpers called
			// on the path inlined, along every path of theirs.
			if len(inl) == 0 || combos > 4096 {
				r.Fail("R12.2", pkey, p.Pos(k.Pos()), fmt.Sprintf("%s (%s): on the path through one timestep with branches [%s] the budget does not close: (states after + mass out) − (states before + mass in), cleared of denominators, is %s", m.Name, spec.note, describePath(p, path), pc.show(p, m, vd.residual)))
				continue
			}
			choice := make([]int, len(inl))
			nClosed, nFl, nInf := 0, 0, 0
			var firstBad *verdict
			for {
				frames := map[*ssa.Call]*frame{}
				for i, c := range inl {
					frames[c] = newFrame(c, inlPaths[i][choice[i]])
				}
				v2 := evaluate(path, frames)
				switch {
				case !v2.feasible:
					nInf++
				case v2.flush:
					nFl++
				case polyIsZero(v2.residual):
					nClosed++
				default:
					if firstBad == nil {
						vv := v2
						firstBad = &vv
					}
				}
				i := 0
				for ; i < len(choice); i++ {
					choice[i]++
					if choice[i] < len(inlPaths[i]) {
						break
					}
					choice[i] = 0
				}
				if i == len(choice) {
					break
				}
			}
			if firstBad != nil {
				r.Fail("R12.2", pkey, p.Pos(k.Pos()), fmt.Sprintf("%s (%s): on the path through one timestep with branches [%s] the budget does not close, even with the scalar helpers called on it inlined: (states after + mass out) − (states before + mass in), cleared of denominators, is %s", m.Name, spec.note, describePath(p, path), firstBad.pc.show(p, m, firstBad.residual)))
			} else if nClosed == 0 && nFl > 0 {
				r.OK("R12.2", pkey+" ("+describePath(p, path)+"): documented flush inside a helper, exempt")
				nBal--
			} else {
				r.OK("R12.2", fmt.Sprintf("%s (%s): balance closes identically with %d helper call(s) inlined (%d helper path combinations close, %d flush, %d infeasible)", pkey, describePath(p, path), len(inl), nClosed, nFl, nInf))
			}
		}
		if nBal == 0 {
			r.Fail("R12.2", key+":no-balanced-path", p.Pos(k.Pos()), "every path through a timestep is a flush path: the exemption swallows the whole model")
		}
		{
			var ks []string
			for kk := range shareOKAll {
				ks = append(ks, kk)
			}
			for kk := range shareBadAll {
				if !shareOKAll[kk] {
					ks = append(ks, kk)
				}
			}
			sort.Strings(ks)
			for _, kk := range ks {
				nShares++
				if w, bad := shareBadAll[kk]; bad {
					r.Fail("R12.5", key+":volume-share:"+kk, p.Pos(k.Pos()), m.Name+": "+w)
				} else {
					r.OK("R12.5", fmt.Sprintf("%s: %s is apportioned by one of the volumes that make up the divisor", key, kk))
				}
			}
		}
	}
	r.Analysed["R12.2 models"] = nModels
	r.Analysed["R12.2 kernels NOT analysed (stores kept in a struct advanced by methods: not followed by the path engine)"] = notFollowed
	r.Analysed["R12.2 feasible paths through one timestep"] = nPaths
	r.Analysed["R12.3 delegations"] = nDeleg
	r.Floor("R12.2", "models with a mass budget", nModels, 7)
	r.Floor("R12.3", "delegating calls", nDeleg, 1)
	r.Floor("R12.4", "helper-computed removals", len(nRemovals), 1)
	r.Floor("R12.5", "apportioned masses", nShares, 4)
}

// show renders a residual polynomial with the spec's names for canonical symbols and source positions for opaque ones.
func (pc *pathCtx) show(p *Program, m *Model, d poly) string {
	var ks []string
	for k, v := range d {
		if absf(v) > 1e-12 {
			ks = append(ks, k)
		}
	}
	sort.Strings(ks)
	if len(ks) > 6 {
		ks = ks[:6]
	}
	var parts []string
	for _, k := range ks {
		var fs []string
		if k != "" {
			for _, s := range strings.Split(k, "*") {
				inv := strings.HasPrefix(s, "/")
				s = strings.TrimPrefix(s, "/")
				nm := s
				var i int
				switch {
				case strings.HasPrefix(s, "in"):
					if _, err := fmt.Sscanf(s, "in%d", &i); err == nil && i < len(m.Inputs) {
						nm = m.Inputs[i]
					}
				case strings.HasPrefix(s, "out"):
					if _, err := fmt.Sscanf(s, "out%d", &i); err == nil && i < len(m.Outputs) {
						nm = m.Outputs[i]
					}
				case strings.HasPrefix(s, "p"):
					if _, err := fmt.Sscanf(s, "p%d", &i); err == nil && i < len(m.Params) {
						nm = m.Params[i].Name
					}
				case strings.HasPrefix(s, "S"):
					if _, err := fmt.Sscanf(s, "S%d", &i); err == nil && i < len(m.States) {
						nm = m.States[i] + "₀"
					}
				case strings.HasPrefix(s, "s"):
					if _, err := fmt.Sscanf(s, "s%d", &i); err == nil && i < len(pc.syms) {
						pos := p.Pos(pc.syms[i].v.Pos())
						if j := strings.LastIndex(pos, "/"); j >= 0 {
							pos = pos[j+1:]
						}
						nm = "⟨" + pc.syms[i].v.Name() + "@" + pos + "⟩"
					}
				}
				if inv {
					nm = "1/" + nm
				}
				fs = append(fs, nm)
			}
		}
		parts = append(parts, fmt.Sprintf("%g·%s", d[k], strings.Join(fs, "·")))
	}
	return strings.Join(parts, " + ")
}
