package main

// C16 (narrow): unit-conversion constants mean what their names say.
// Pure go/types + go/constant (exact rational arithmetic by the type checker);
// nothing is executed.

import (
	"fmt"
	"go/constant"
	"go/token"
	"go/types"
	"math/big"
	"sort"
	"strings"
)

func init() { register("C16", "other", checkC16) }

// SI magnitude of each unit word used in conv/units, by dimension.
// value = number of base units in one <word>.
type unitDef struct {
	dim string
	num int64
	den int64
}

var unitTable = map[string]unitDef{
	"MILLIMETRES": {"length", 1, 1000}, "METRES": {"length", 1, 1}, "KILOMETRES": {"length", 1000, 1},
	"TONNES": {"mass", 1000, 1}, "KG": {"mass", 1, 1}, "MILLIGRAM": {"mass", 1, 1000000}, "GRAMS": {"mass", 1, 1000},
	"LITRES": {"volume", 1, 1000}, "CUBIC_METRES": {"volume", 1, 1}, "MEGA_LITRES": {"volume", 1000, 1}, "GIGA_LITRES": {"volume", 1000000, 1},
	"SQUARE_METRES": {"area", 1, 1}, "HECTARES": {"area", 10000, 1}, "SQUARE_KILOMETRES": {"area", 1000000, 1},
	"PERCENT": {"ratio", 1, 100}, "PROPORTION": {"ratio", 1, 1},
	"MG_PER_LITRE": {"conc", 1, 1000}, "KG_PER_M3": {"conc", 1, 1},
	"CUBIC_METRES_PER_SECOND": {"flow", 1, 1}, "MEGA_LITRES_PER_DAY": {"flow", 1000, 86400},
	"SECONDS": {"time", 1, 1}, "DAYS": {"time", 86400, 1}, "HOURS": {"time", 3600, 1},
}

// plain constants with a fixed meaning
var plainConsts = map[string]*big.Rat{
	"SECONDS_PER_DAY": big.NewRat(86400, 1),
	"DAYS_PER_YEAR":   big.NewRat(36525, 100),
}

func constRat(v constant.Value) (*big.Rat, bool) {
	v = constant.ToFloat(v)
	if v.Kind() != constant.Float && v.Kind() != constant.Int {
		return nil, false
	}
	switch x := constant.Val(v).(type) {
	case *big.Rat:
		return x, true
	case *big.Float:
		r, _ := x.Rat(nil)
		return r, r != nil
	case int64:
		return big.NewRat(x, 1), true
	case *big.Int:
		return new(big.Rat).SetInt(x), true
	}
	return nil, false
}

func checkC16(p *Program, r *Report) {
	r.Rule("R16.1", "every A_TO_B constant in conv/units (and SECONDS_PER_DAY, DAYS_PER_YEAR) has, as computed exactly by the type checker, the value magnitude(A)/magnitude(B) from an SI table of the unit words; inverse pairs multiply to exactly 1")
	r.Rule("R16.2", "every use of a conversion constant in models/ is a multiplication or division operand (never added, compared or used as an index), i.e. it is used as a factor")
	r.Assumptions = append(r.Assumptions,
		"narrow claim: decides only the unit-conversion constants the identities rely on; the identities themselves (sum of partitions, linearity, zero driver ⇒ zero load) are value properties and are not decided",
		"SI table of unit words is part of the checker (printed in evidence)")
	found := map[string]*big.Rat{}
	nAB := 0
	nPlain := 0
	var uncovered []string
	for _, rel := range []string{"conv/units", "conv/rough"} {
		pk := p.ByPath[modPath+"/"+rel]
		if pk == nil {
			r.Undecided("R16.1", "pkg:"+rel, "-", "package not found")
			continue
		}
		scope := pk.Types.Scope()
		names := scope.Names()
		sort.Strings(names)
		for _, name := range names {
			c, ok := scope.Lookup(name).(*types.Const)
			if !ok {
				continue
			}
			val, okv := constRat(c.Val())
			pos := p.Pos(c.Pos())
			key := rel + "." + name
			if want, ok := plainConsts[name]; ok {
				nPlain++
				if !okv || val.Cmp(want) != 0 {
					r.Fail("R16.1", key, pos, fmt.Sprintf("%s = %s, expected %s", name, c.Val().ExactString(), want.RatString()))
				} else {
					r.OK("R16.1", fmt.Sprintf("%s = %s", key, want.RatString()))
				}
				continue
			}
			i := strings.Index(name, "_TO_")
			if i < 0 {
				uncovered = append(uncovered, key)
				continue
			}
			a, b := name[:i], name[i+4:]
			ua, oka := unitTable[a]
			ub, okb := unitTable[b]
			if !oka || !okb {
				uncovered = append(uncovered, key+" (unit word not in SI table)")
				continue
			}
			nAB++
			if ua.dim != ub.dim {
				r.Fail("R16.1", key, pos, fmt.Sprintf("%s converts between different dimensions (%s → %s)", name, ua.dim, ub.dim))
				continue
			}
			// 1 A = ua base; 1 B = ub base; x[A] * (ua/ub) = x[B]
			want := new(big.Rat).Mul(big.NewRat(ua.num, ua.den), big.NewRat(ub.den, ub.num))
			if !okv {
				r.Fail("R16.1", key, pos, "constant is not numeric")
				continue
			}
			found[name] = val
			if val.Cmp(want) != 0 {
				r.Fail("R16.1", key, pos, fmt.Sprintf("%s = %s but 1 %s = %s %s", name, val.RatString(), a, want.RatString(), b))
			} else {
				r.OK("R16.1", fmt.Sprintf("%s = %s (exact)", key, want.RatString()))
			}
		}
	}
	// inverse pairs
	names := make([]string, 0, len(found))
	for n := range found {
		names = append(names, n)
	}
	sort.Strings(names)
	for _, n := range names {
		i := strings.Index(n, "_TO_")
		inv := n[i+4:] + "_TO_" + n[:i]
		if n < inv {
			if v2, ok := found[inv]; ok {
				prod := new(big.Rat).Mul(found[n], v2)
				if prod.Cmp(big.NewRat(1, 1)) != 0 {
					r.Fail("R16.1", "inverse:"+n, "-", fmt.Sprintf("%s × %s = %s, not 1", n, inv, prod.RatString()))
				} else {
					r.OK("R16.1", fmt.Sprintf("inverse pair %s × %s = 1", n, inv))
				}
			}
		}
	}
	r.Floor("R16.1", "A_TO_B constants", nAB, 14)
	r.Floor("R16.1", "plain constants", nPlain, 2)
	if len(uncovered) > 0 {
		r.Notes = append(r.Notes, "uncovered constants (not failed): "+strings.Join(uncovered, ", "))
	}

	// R16.2: uses as factors only.
	uses := 0
	for _, pk := range p.Pkgs {
		rel := relPkg(pk.PkgPath)
		if !strings.HasPrefix(rel, "models") {
			continue
		}
		// parent map via ast.Inspect stack
		for _, f := range pk.Syntax {
			inspectWithStack(f, func(n astNode, stack []astNode) {
				id, ok := n.(*astIdent)
				if !ok {
					return
				}
				obj, _ := pk.TypesInfo.Uses[id].(*types.Const)
				if obj == nil || obj.Pkg() == nil {
					return
				}
				op := relPkg(obj.Pkg().Path())
				if op != "conv/units" && op != "conv/rough" {
					return
				}
				uses++
				// climb through selector / paren
				k := len(stack) - 1
				for k >= 0 {
					switch stack[k].(type) {
					case *astSelectorExpr, *astParenExpr:
						k--
						continue
					}
					break
				}
				key := fmt.Sprintf("%s:%s:%s", rel, enclosingFuncName(stack), obj.Name())
				if k < 0 {
					return
				}
				switch par := stack[k].(type) {
				case *astBinaryExpr:
					if par.Op == token.MUL || par.Op == token.QUO {
						r.OK("R16.2", key+" used as factor")
						return
					}
					r.Fail("R16.2", key, p.Pos(id.Pos()), fmt.Sprintf("conversion constant %s used with operator %s (not as a factor)", obj.Name(), par.Op))
				case *astAssignStmt:
					if par.Tok == token.MUL_ASSIGN || par.Tok == token.QUO_ASSIGN || par.Tok == token.DEFINE || par.Tok == token.ASSIGN {
						r.OK("R16.2", key+" assigned/scaled")
						return
					}
					r.Fail("R16.2", key, p.Pos(id.Pos()), fmt.Sprintf("conversion constant %s used with %s", obj.Name(), par.Tok))
				case *astValueSpec, *astCallExpr, *astReturnStmt, *astKeyValueExpr, *astCompositeLit:
					r.OK("R16.2", key+" passed as value")
				default:
					r.Fail("R16.2", key, p.Pos(id.Pos()), fmt.Sprintf("conversion constant %s used in unexpected context %T", obj.Name(), par))
				}
			})
		}
	}
	r.Floor("R16.2", "uses of conversion constants in models", uses, 3)
	checkIdentities(p, r)
	checkConversionScales(p, r, "R16.6", []string{"models"})
	checkPathIdentities(p, r)
}
